// Package amd64v3 holds the checks that are compiled with GOAMD64=v3: assembly (and
// Go files) may select other code paths under the build tags amd64.v2 / amd64.v3 than
// in the default build, and "the assembly implementations agree with the definition"
// is a statement about every build of the package.
package amd64v3

import (
	"bytes"
	"encoding/json"
	"fmt"
	"math/bits"
	"strconv"

	"nhooyr.io/websocket"
	"verif/fw"
)

type c17Case struct {
	Impl  string `json:"impl"`
	Len   int    `json:"len"`
	Align int    `json:"align"`
	Key   uint32 `json:"key"`
	Split int    `json:"split"` // -1: masked in one call
}

func refMask(b []byte, key uint32) uint32 {
	for i := range b {
		b[i] ^= byte(key >> (8 * uint(i%4)))
	}
	return bits.RotateLeft32(key, -8*(len(b)%4))
}

var impls = map[string]func([]byte, uint32) uint32{"maskGo": websocket.VerifMaskGo, "mask": websocket.VerifMask, "maskAsm": websocket.VerifMaskAsm}

func one(c *fw.Ctx, cs c17Case, backing []byte) {
	c.Eval()
	const guard = 16
	f := impls[cs.Impl]
	buf := backing[64+cs.Align-guard : 64+cs.Align+cs.Len+guard]
	for i := range buf {
		buf[i] = byte(i*13 + 7)
	}
	want := append([]byte(nil), buf...)
	wantKey := refMask(want[guard:guard+cs.Len], cs.Key)
	pl := buf[guard : guard+cs.Len]
	var got uint32
	if cs.Split < 0 {
		got = f(pl, cs.Key)
	} else {
		k := f(pl[:cs.Split], cs.Key)
		got = f(pl[cs.Split:], k)
	}
	if got != wantKey || !bytes.Equal(buf, want) {
		d := 0
		for d < len(buf) && buf[d] == want[d] {
			d++
		}
		c.Violate("C17/wrong-bytes/"+cs.Impl+"/amd64v3", fmt.Sprintf("%+v built with GOAMD64=v3 (%d-bit): result differs from the definition (first difference at buffer offset %d; returned key %#x, want %#x)", cs, strconv.IntSize, d-guard, got, wantKey), cs)
		return
	}
	c.OutcomeStr(fmt.Sprintf("v3 %s %d", cs.Impl, cs.Len%16))
}

func init() {
	fw.Register(fw.Part{
		Prop: "C17", Name: "amd64v3",
		Units: func(tier string) []fw.Unit {
			return []fw.Unit{{ID: "v3", Run: func(c *fw.Ctx) {
				if !builtV3 {
					c.EngineError("the amd64v3 worker was not built with GOAMD64=v3")
					return
				}
				maxLen := 600
				if tier == "thorough" {
					maxLen = 4200
				}
				backing := make([]byte, maxLen+256)
				n := 0
				for impl := range impls {
					for l := 0; l <= maxLen; l++ {
						for align := 0; align < 64; align++ {
							key := []uint32{0x04030201, 0xA1B2C3D4, 0x80FF017E}[(l+align)%3]
							one(c, c17Case{impl, l, align, key, -1}, backing)
							n++
							if l > 0 && l <= 96 {
								one(c, c17Case{impl, l, align, key, (l*7 + align) % l}, backing)
								n++
							}
						}
					}
				}
				c.AddStates(int64(n))
				c.AddTransitions(int64(n))
				c.Bound("amd64v3_cases", n)
				c.Bound("amd64v3_max_len", maxLen)
				c.Sample(c17Case{"maskGo", 64, 3, 0xA1B2C3D4, -1})
			}}}
		},
		Replay: func(c *fw.Ctx, data json.RawMessage) {
			var cs c17Case
			if json.Unmarshal(data, &cs) != nil {
				c.EngineError("bad replay data")
				return
			}
			one(c, cs, make([]byte, cs.Len+256))
		},
	})
}
