//go:build !amd64.v3

package amd64v3

const builtV3 = false
