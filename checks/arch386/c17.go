// Package arch386 holds the checks that are compiled for GOARCH=386 and executed
// natively by the x86-64 kernel: code whose behaviour depends on the width of int
// and uint (the portable masking routine is the only implementation on 32-bit
// platforms).
package arch386

import (
	"bytes"
	"encoding/json"
	"fmt"
	"math/bits"
	"strconv"

	"nhooyr.io/websocket"
	"verif/fw"
)

type c17Case struct {
	Impl  string `json:"impl"`
	Len   int    `json:"len"`
	Align int    `json:"align"`
	Key   uint32 `json:"key"`
	Split int    `json:"split"` // -1: masked in one call
}

func refMask(b []byte, key uint32) uint32 {
	for i := range b {
		b[i] ^= byte(key >> (8 * uint(i%4)))
	}
	return bits.RotateLeft32(key, -8*(len(b)%4))
}

var impls = map[string]func([]byte, uint32) uint32{"maskGo": websocket.VerifMaskGo, "mask": websocket.VerifMask}

func one(c *fw.Ctx, cs c17Case, backing []byte) {
	c.Eval()
	const guard = 16
	f := impls[cs.Impl]
	buf := backing[64+cs.Align-guard : 64+cs.Align+cs.Len+guard]
	for i := range buf {
		buf[i] = byte(i*13 + 7)
	}
	want := append([]byte(nil), buf...)
	wantKey := refMask(want[guard:guard+cs.Len], cs.Key)
	pl := buf[guard : guard+cs.Len]
	var got uint32
	if cs.Split < 0 {
		got = f(pl, cs.Key)
	} else {
		k := f(pl[:cs.Split], cs.Key)
		got = f(pl[cs.Split:], k)
	}
	if got != wantKey || !bytes.Equal(buf, want) {
		d := 0
		for d < len(buf) && buf[d] == want[d] {
			d++
		}
		c.Violate("C17/wrong-bytes/"+cs.Impl+"/"+strconv.Itoa(strconv.IntSize)+"-bit", fmt.Sprintf("%+v on a %d-bit platform (GOARCH=386): result differs from the definition (first difference at buffer offset %d; returned key %#x, want %#x)", cs, strconv.IntSize, d-guard, got, wantKey), cs)
		return
	}
	c.OutcomeStr(fmt.Sprintf("386 %s %d", cs.Impl, cs.Len%16))
}

func init() {
	fw.Register(fw.Part{
		Prop: "C17", Name: "arch386",
		Units: func(tier string) []fw.Unit {
			return []fw.Unit{{ID: "int32", Run: func(c *fw.Ctx) {
				if strconv.IntSize != 32 {
					c.EngineError("the arch386 worker was not built for a 32-bit platform")
					return
				}
				maxLen := 600
				if tier == "thorough" {
					maxLen = 4200
				}
				backing := make([]byte, maxLen+256)
				n := 0
				for impl := range impls {
					for l := 0; l <= maxLen; l++ {
						for align := 0; align < 16; align++ {
							key := []uint32{0x04030201, 0xA1B2C3D4, 0x80FF017E}[(l+align)%3]
							one(c, c17Case{impl, l, align, key, -1}, backing)
							n++
							if l > 0 && l <= 96 {
								one(c, c17Case{impl, l, align, key, (l*7 + align) % l}, backing)
								n++
							}
						}
					}
				}
				c.AddStates(int64(n))
				c.AddTransitions(int64(n))
				c.Bound("arch386_cases", n)
				c.Bound("arch386_max_len", maxLen)
				c.Sample(c17Case{"maskGo", 64, 3, 0xA1B2C3D4, -1})
			}}}
		},
		Replay: func(c *fw.Ctx, data json.RawMessage) {
			var cs c17Case
			if json.Unmarshal(data, &cs) != nil {
				c.EngineError("bad replay data")
				return
			}
			one(c, cs, make([]byte, cs.Len+256))
		},
	})
}
