package arch386

import (
	"context"
	"encoding/json"
	"fmt"
	"io"
	"strconv"
	"sync"
	"time"

	"nhooyr.io/websocket"
	"verif/fw"
)

// C18 on a 32-bit platform: the net.Conn adapter keeps its deadlines in 64-bit
// words that are read and written atomically, which on 386/arm needs them 8-byte
// aligned. Every deadline call of the adapter runs (no panic), an expired idle
// deadline is reported as a deadline error and a reset deadline lets calls through.

type sink struct {
	mu     sync.Mutex
	closed chan struct{}
	once   sync.Once
	n      int
}

func (s *sink) Read(p []byte) (int, error) { <-s.closed; return 0, io.ErrClosedPipe }
func (s *sink) Write(p []byte) (int, error) {
	s.mu.Lock()
	s.n += len(p)
	s.mu.Unlock()
	return len(p), nil
}
func (s *sink) Close() error { s.once.Do(func() { close(s.closed) }); return nil }

type c18Case struct {
	Client bool   `json:"client"`
	Call   string `json:"deadline_call"` // SetDeadline | SetReadDeadline | SetWriteDeadline
	When   string `json:"when"`          // future | past | zero
}

func c18One(c *fw.Ctx, cs c18Case) {
	c.Eval()
	s := &sink{closed: make(chan struct{})}
	conn := websocket.VerifNewConn(s, cs.Client, nil, 0)
	defer conn.CloseNow()
	nc := websocket.NetConn(context.Background(), conn, websocket.MessageBinary)
	var t time.Time
	switch cs.When {
	case "future":
		t = time.Now().Add(time.Hour)
	case "past":
		t = time.Now().Add(-time.Hour)
	}
	var werr error
	pan := fw.Recover(func() {
		switch cs.Call {
		case "SetDeadline":
			nc.SetDeadline(t)
		case "SetReadDeadline":
			nc.SetReadDeadline(t)
		default:
			nc.SetWriteDeadline(t)
		}
		if cs.When == "past" {
			time.Sleep(20 * time.Millisecond) // the adapter enforces a past deadline through a 1 ns timer
		}
		_, werr = nc.Write([]byte("abc"))
	})
	desc := fmt.Sprintf("%+v on a %d-bit platform", cs, strconv.IntSize)
	if pan != "" {
		c.Violate("C18/panic/"+cs.Call+"/"+strconv.Itoa(strconv.IntSize)+"-bit", desc+": "+pan, cs)
		return
	}
	wantErr := cs.When == "past" && cs.Call != "SetReadDeadline"
	if wantErr != (werr != nil) {
		c.Violate("C18/expired-deadline-not-enforced/write/"+strconv.Itoa(strconv.IntSize)+"-bit", fmt.Sprintf("%s: Write after the call returned %v", desc, werr), cs)
		return
	}
	c.OutcomeStr(fmt.Sprintf("386 %s %s", cs.Call, cs.When))
}

func init() {
	fw.Register(fw.Part{
		Prop: "C18", Name: "arch386",
		Units: func(tier string) []fw.Unit {
			return []fw.Unit{{ID: "deadlines", Run: func(c *fw.Ctx) {
				if strconv.IntSize != 32 {
					c.EngineError("the arch386 worker was not built for a 32-bit platform")
					return
				}
				n := 0
				for _, client := range []bool{false, true} {
					for _, call := range []string{"SetDeadline", "SetReadDeadline", "SetWriteDeadline"} {
						for _, when := range []string{"future", "past", "zero"} {
							c18One(c, c18Case{client, call, when})
							n++
						}
					}
				}
				c.AddStates(int64(n))
				c.AddTransitions(int64(n))
				c.Bound("arch386_deadline_cases", n)
				c.Sample(c18Case{false, "SetWriteDeadline", "future"})
			}}}
		},
		Replay: func(c *fw.Ctx, data json.RawMessage) {
			var cs c18Case
			if json.Unmarshal(data, &cs) != nil {
				c.EngineError("bad replay data")
				return
			}
			c18One(c, cs)
		},
	})
}
