package sched

import (
	"bytes"
	"fmt"

	"nhooyr.io/websocket"

	"verif/engine/explore"
	"verif/engine/vctx"
	"verif/engine/vpipe"
	"verif/engine/vs"
	"verif/fw"
	"verif/refws/deflate"
	"verif/refws/frame"
)

// C01, fan-out: one payload slice is written on two connections by two
// goroutines at the same time (a broadcast). The caller's buffer is never
// modified, not even temporarily: every time a transport write of either
// connection is in progress the slice equals its private copy, and each peer
// receives exactly the payload.

func c01FanoutSetup(k connCfg, size int) func(c *fw.Ctx, name string) explore.Setup {
	return c01FanoutSetupP(k, size, "C01")
}

// c01FanoutSetupP: the same history reported under prop; under C18 the writes go through the net.Conn adapter.
func c01FanoutSetupP(k connCfg, size int, prop string) func(c *fw.Ctx, name string) explore.Setup {
	return func(c *fw.Ctx, name string) explore.Setup {
		return func(w *vs.World) func(bool) {
			pipes := []*vpipe.Pipe{vpipe.New(), vpipe.New()}
			payload := make([]byte, size)
			for i := range payload {
				payload[i] = byte(i*31 + i/251)
			}
			private := append([]byte(nil), payload...)
			errs := make([]error, 2)
			seenModified := ""
			for i, p := range pipes {
				i := i
				p.Window = 1500 // the writer parks inside the message several times
				p.OnWrite = func() {
					if seenModified == "" && !bytes.Equal(payload, private) {
						seenModified = fmt.Sprintf("while connection %d was writing to its transport the shared payload differed from its private copy at offset %d", i, firstDiff(payload, private))
					}
				}
			}
			w.GoHarness("main", true, func() {
				bg := vctx.Background()
				for i := range pipes {
					i := i
					conn := mkConn(pipes[i], k)
					w.GoHarness(fmt.Sprintf("writer%d", i), true, func() {
						if prop == "C18" {
							_, errs[i] = websocket.NetConn(bg, conn, websocket.MessageBinary).Write(payload)
							return
						}
						errs[i] = conn.Write(bg, websocket.MessageBinary, payload)
					})
					w.GoHarness(fmt.Sprintf("drainer%d", i), false, func() {
						for n := 0; n < 64; n++ {
							if !pipes[i].WaitOut("window-full", func(out []byte) bool { return len(out)-pipes[i].Taken >= pipes[i].Window }) {
								return
							}
							pipes[i].Drain(-1)
						}
					})
				}
			})
			return func(complete bool) {
				if !complete {
					return
				}
				role := k.String()
				if w.Panic != "" {
					violate(c, w, name, prop+"/panic/fanout/"+role, w.Panic)
					return
				}
				if w.Deadlock || w.HorizonHit {
					violate(c, w, name, prop+"/no-termination/fanout/"+role, fmt.Sprintf("tasks %v never return", stuckTasks(w)))
					return
				}
				if seenModified != "" {
					violate(c, w, name, prop+"/caller-buffer-modified/fanout/"+role, seenModified)
					return
				}
				for i, p := range pipes {
					if errs[i] != nil {
						violate(c, w, name, prop+"/write-error/fanout/"+role, fmt.Sprintf("connection %d: Write failed on a healthy transport: %v", i, errs[i]))
						return
					}
					res := frame.Validate(p.Out, frame.StreamRules{SenderIsClient: k.Client, Deflate: k.Flate})
					if len(res.Violations) > 0 || len(res.Messages) != 1 {
						violate(c, w, name, prop+"/payload-differs/fanout/"+role, fmt.Sprintf("connection %d: wire does not hold exactly one well-formed message (%d messages, violations %v)", i, len(res.Messages), res.Violations))
						return
					}
					pl := res.Messages[0].Payload
					if res.Messages[0].Compressed {
						var err error
						if pl, err = (&deflate.Inflater{}).Message(pl); err != nil {
							violate(c, w, name, prop+"/payload-differs/fanout/"+role, fmt.Sprintf("connection %d: message does not inflate: %v", i, err))
							return
						}
					}
					if !bytes.Equal(pl, private) {
						violate(c, w, name, prop+"/payload-differs/fanout/"+role, fmt.Sprintf("connection %d: the peer received %d bytes that differ from the payload at offset %d (the same slice was being written on the other connection)", i, len(pl), firstDiff(pl, private)))
						return
					}
				}
				c.OutcomeStr(name + "|ok")
			}
		}
	}
}

func c01FanoutScenarios(tier string) []scenario {
	var scs []scenario
	p := 1
	if tier == "thorough" {
		p = 2
	}
	for _, k := range []connCfg{{Client: true}, {Client: false}, {Client: true, Flate: true, Thr: 1}} {
		for _, size := range []int{5000, 9000} {
			if k.Flate && size == 9000 && tier != "thorough" {
				continue
			}
			scs = append(scs, scenario{Name: fmt.Sprintf("fanout/%d/%s", size, k.String()), Cfg: explore.Config{P: p, Horizon: 60e9}, Setup: c01FanoutSetup(k, size)})
		}
	}
	return scs
}

// c01RaceScenarios: the same bodies under the race detector. A library that touches
// the caller's buffer between two synchronisation points (invisible to the schedule
// explorer: no task can run in between) races with the other writer's read of it.
func c01RaceScenarios(tier string) []scenario {
	var out []scenario
	for _, sc := range c01FanoutScenarios(tier) {
		sc.Cfg.P = 0
		if tier == "thorough" {
			sc.Cfg.P = 1
		}
		out = append(out, raceWrap("C01", sc))
	}
	return out
}

func fanoutScenariosFor(prop string) func(tier string) []scenario {
	return func(tier string) []scenario {
		var scs []scenario
		p := 1
		if tier == "thorough" {
			p = 2
		}
		for _, k := range []connCfg{{Client: true}, {Client: false}} {
			scs = append(scs, scenario{Name: fmt.Sprintf("fanout/9000/%s", k.String()), Cfg: explore.Config{P: p, Horizon: 60e9}, Setup: c01FanoutSetupP(k, 9000, prop)})
		}
		return scs
	}
}

func init() {
	for _, prop := range []string{"C02", "C05", "C18"} {
		scs := fanoutScenariosFor(prop)
		fw.Register(fw.Part{Prop: prop, Name: "s.fanout",
			Units:  func(tier string) []fw.Unit { return scenarioUnits(scs(tier)) },
			Replay: replayFn(scs),
		})
	}
	fw.Register(fw.Part{Prop: "C01R", Name: "s.race",
		Units:  func(tier string) []fw.Unit { return scenarioUnits(c01RaceScenarios(tier)) },
		Replay: replayFn(c01RaceScenarios),
	})
	fw.Register(fw.Part{Prop: "C01", Name: "s.fanout",
		Units:  func(tier string) []fw.Unit { return scenarioUnits(c01FanoutScenarios(tier)) },
		Replay: replayFn(c01FanoutScenarios),
	})
}
