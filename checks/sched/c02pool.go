package sched

import (
	"bytes"
	"fmt"

	"nhooyr.io/websocket"
	"verif/engine/explore"
	"verif/engine/vctx"
	"verif/engine/vpipe"
	"verif/engine/vs"
	"verif/engine/vsync"
	"verif/fw"
	"verif/refws/deflate"
	"verif/refws/frame"
)

// C02, part s.poolwire: what an endpoint puts on the wire stays a well-formed stream of exactly
// the messages written when the process has a history. A compressed connection X fails a write
// (in the final flush of a message whose deflate output is larger than the write buffer, in the
// middle of a streamed message, or in the first frame) and is closed; then two fresh connections
// B and C write two messages each, alternately. Pools are LIFO stacks here, so whatever X returned
// to them - once or twice - is exactly what B and C pick up.
func c02PoolWireSetup(k connCfg, fail, prop string) func(c *fw.Ctx, name string) explore.Setup {
	return func(c *fw.Ctx, name string) explore.Setup {
		return func(w *vs.World) func(bool) {
			vsync.PoolLogging = true
			px, pb, pc := vpipe.New(), vpipe.New(), vpipe.New()
			var errs []error
			msg := func(tag byte, i int) []byte { return bytes.Repeat([]byte{tag}, 300+i) }
			w.GoHarness("main", true, func() {
				bg := vctx.Background()
				x := mkConn(px, k)
				switch fail {
				case "flush":
					px.FailWrite(vpipe.ErrTransport)
					x.Write(bg, websocket.MessageBinary, c07Noise)
				case "stream":
					if wr, err := x.Writer(bg, websocket.MessageBinary); err == nil {
						wr.Write(c07Noise[:3000])
						px.FailWrite(vpipe.ErrTransport)
						wr.Write(c07Noise[3000:])
						wr.Close()
					}
				case "first-frame":
					px.FailWrite(vpipe.ErrTransport)
					x.Write(bg, websocket.MessageText, []byte("xxxxxxxxxxxxxxxxxxxxxxxxxxxxxxxxxxxxxxxx"))
				case "none":
					x.Write(bg, websocket.MessageBinary, c07Noise)
				}
				x.CloseNow()
				b, cc := mkConn(pb, k), mkConn(pc, k)
				for i := 0; i < 2; i++ {
					errs = append(errs, b.Write(bg, websocket.MessageBinary, msg('B', i)))
					errs = append(errs, cc.Write(bg, websocket.MessageBinary, msg('C', i)))
				}
				b.CloseNow()
				cc.CloseNow()
			})
			return func(complete bool) {
				if !complete {
					return
				}
				role := k.String()
				if w.Panic != "" {
					violate(c, w, name, prop+"/panic/poolwire/"+role, w.Panic)
					return
				}
				if w.Deadlock || w.HorizonHit {
					violate(c, w, name, prop+"/no-termination/poolwire/"+role, fmt.Sprintf("tasks %v never return", stuckTasks(w)))
					return
				}
				c.OutcomeStr(fmt.Sprintf("%s|errs=%v|b=%d|c=%d", name, errs, len(pb.Out), len(pc.Out)))
				for i, err := range errs {
					if err != nil {
						violate(c, w, name, prop+"/write-fails-on-fresh-connection/poolwire/"+role, fmt.Sprintf("write %d on a fresh connection with a healthy transport failed (%v) after another connection had failed a write and was closed", i, err))
						return
					}
				}
				for _, t := range []struct {
					tag byte
					p   *vpipe.Pipe
				}{{'B', pb}, {'C', pc}} {
					res := frame.Validate(t.p.Out, frame.StreamRules{SenderIsClient: k.Client, Deflate: k.Flate})
					for _, v := range res.Violations {
						violate(c, w, name, prop+"/malformed-stream/poolwire/"+role, fmt.Sprintf("connection %c wrote two messages; its wire is not a well-formed stream (%v): %s", t.tag, v, describeFrames(connFrames(t.p.Out))))
						return
					}
					inf := &deflate.Inflater{NoContextTakeover: k.writerNoTakeover()}
					var got [][]byte
					for _, m := range res.Messages {
						pl := m.Payload
						if m.Compressed {
							var err error
							if pl, err = inf.Message(m.Payload); err != nil {
								violate(c, w, name, prop+"/does-not-inflate/poolwire/"+role, fmt.Sprintf("a message of connection %c does not inflate under the negotiated parameters (%v): %s", t.tag, err, describeFrames(connFrames(t.p.Out))))
								return
							}
						}
						got = append(got, pl)
					}
					if len(got) != 2 || !bytes.Equal(got[0], msg(t.tag, 0)) || !bytes.Equal(got[1], msg(t.tag, 1)) {
						var lens []int
						for _, g := range got {
							lens = append(lens, len(g))
						}
						violate(c, w, name, prop+"/messages-differ/poolwire/"+role, fmt.Sprintf("connection %c wrote messages of 300 and 301 bytes of %q; an independent decoder reconstructs %d message(s) of lengths %v: %s", t.tag, t.tag, len(got), lens, describeFrames(connFrames(t.p.Out))))
						return
					}
				}
			}
		}
	}
}

func c02PoolWireScenarios(tier string) []scenario { return poolWireScenariosFor("C02")(tier) }

// poolWireScenariosFor: the same history judged under another property's clause on what the
// peers of B and C receive (C01: the messages written arrive byte-identical; C05, C07: two
// connections never share a compressor; C14: the peer decodes everything under the negotiated
// parameters; C19 writes go through wsjson in its own harness).
func poolWireScenariosFor(prop string) func(tier string) []scenario {
	return func(tier string) []scenario { return poolWireScenarios(prop) }
}

func poolWireScenarios(prop string) []scenario {
	var scs []scenario
	for _, k := range []connCfg{{Client: false, Flate: true, Thr: 1}, {Client: true, Flate: true, Thr: 1}, {Client: false, Flate: true, Thr: 1, CNCT: true, SNCT: true}, {Client: true, Flate: true, Thr: 1, CNCT: true, SNCT: true}, {Client: true}} {
		for _, f := range []string{"flush", "stream", "first-frame", "none"} {
			scs = append(scs, scenario{Name: "poolwire/" + f + "/" + k.String(), Cfg: explore.Config{P: 0, Horizon: 60e9}, Setup: c02PoolWireSetup(k, f, prop), Group: "poolwire/" + k.String()})
		}
	}
	return scs
}

func init() {
	for _, prop := range []string{"C01", "C02", "C05", "C07", "C14"} {
		scs := poolWireScenariosFor(prop)
		fw.Register(fw.Part{Prop: prop, Name: "s.poolwire",
			Units:  func(tier string) []fw.Unit { return scenarioUnits(scs(tier)) },
			Replay: replayFn(scs),
		})
	}
}
