package sched

import (
	"bytes"
	"fmt"
	"time"

	"nhooyr.io/websocket"

	"verif/engine/explore"
	"verif/engine/vctx"
	"verif/engine/vpipe"
	"verif/engine/vs"
	"verif/engine/vtime"
	"verif/fw"
	"verif/refws/deflate"
	"verif/refws/frame"
)

// C02, one writer handle used by several goroutines: Write(big), Close and
// Write(tail) on the same io.WriteCloser while the transport stalls, then (once
// all three have returned: a stale handle used while the next message is open
// writes into that message, which is the caller's error) the next message. Whatever order the calls take effect in,
// the wire is a well-formed frame stream, the first message consists of the
// chunks whose Write returned nil (in either order) and nothing else, and the
// next message is intact.

type c02SharedState struct {
	p                  *vpipe.Pipe
	e1, e2, eClose, eN error
	d1, d2, dClose, dN bool
}

func c02SharedSetup(k connCfg, big int) func(c *fw.Ctx, name string) explore.Setup {
	return func(c *fw.Ctx, name string) explore.Setup {
		return func(w *vs.World) func(bool) {
			st := &c02SharedState{p: vpipe.New()}
			st.p.Window = 64
			a, tail, next := fill(0xA1, big), fill(0xB2, 4), fill(0xC3, 6)
			w.GoHarness("main", true, func() {
				conn := mkConn(st.p, k)
				bg := vctx.Background()
				wr, err := conn.Writer(bg, websocket.MessageBinary)
				if err != nil {
					st.e1, st.d1 = err, true
					return
				}
				returned := 0
				done := func() {
					if returned++; returned < 3 {
						return
					}
					if st.eClose != nil {
						return // the message was never finished: the message lock may still be held
					}
					st.eN = conn.Write(bg, websocket.MessageText, next)
					st.dN = true
				}
				w.GoHarness("write-big", true, func() {
					_, st.e1 = wr.Write(a)
					st.d1 = true
					done()
				})
				w.GoHarness("close", true, func() {
					st.eClose = wr.Close()
					st.dClose = true
					done()
				})
				w.GoHarness("write-tail", true, func() {
					_, st.e2 = wr.Write(tail)
					st.d2 = true
					done()
				})
				w.GoHarness("drainer", false, func() {
					vtime.Sleep(time.Second)
					st.p.SetWindow(0)
				})
			})
			return func(complete bool) {
				if !complete {
					return
				}
				role := k.String()
				if w.Panic != "" {
					violate(c, w, name, "C02/panic/shared-writer/"+role, w.Panic)
					return
				}
				if w.Deadlock || w.HorizonHit {
					violate(c, w, name, "C02/no-termination/shared-writer/"+role, fmt.Sprintf("tasks %v never return", stuckTasks(w)))
					return
				}
				res := frame.Validate(st.p.Out, frame.StreamRules{SenderIsClient: k.Client, Deflate: k.Flate})
				for _, v := range res.Violations {
					violate(c, w, name, "C02/wire/"+v.Rule+"/shared-writer/"+role, fmt.Sprintf("%v\nwire: %s", v, describeFrames(res.Frames)))
					return
				}
				if len(res.Rest) > 0 {
					violate(c, w, name, "C02/wire/truncated-frame-on-open-transport/shared-writer/"+role, fmt.Sprintf("stream ends inside a frame (%d stray bytes)\nwire: %s", len(res.Rest), describeFrames(res.Frames)))
					return
				}
				inf := &deflate.Inflater{NoContextTakeover: k.writerNoTakeover()}
				var pls [][]byte
				var ops []byte
				for mi, m := range res.Messages {
					pl := m.Payload
					if m.Compressed {
						var err error
						if pl, err = inf.Message(m.Payload); err != nil {
							violate(c, w, name, "C02/wire/undecodable-compressed-message/shared-writer/"+role, fmt.Sprintf("message %d does not inflate: %v", mi, err))
							return
						}
					}
					pls = append(pls, pl)
					ops = append(ops, m.Opcode)
				}
				out := fmt.Sprintf("e1=%v e2=%v ec=%v en=%v", st.e1 != nil, st.e2 != nil, st.eClose != nil, st.eN != nil)
				// allowed contents of the first message
				var allowed [][]byte
				switch {
				case st.e1 == nil && st.e2 == nil:
					allowed = [][]byte{append(append([]byte{}, a...), tail...), append(append([]byte{}, tail...), a...)}
				case st.e1 == nil:
					allowed = [][]byte{a}
				case st.e2 == nil:
					allowed = [][]byte{tail}
				default:
					allowed = [][]byte{{}}
				}
				bad := func(why string) {
					violate(c, w, name, "C02/wire/message-not-written/shared-writer/"+role, fmt.Sprintf("%s (%s)\nwire: %s", why, out, describeFrames(res.Frames)))
				}
				var binMsgs, textMsgs [][]byte
				for i, pl := range pls {
					if ops[i] == frame.OpBinary {
						binMsgs = append(binMsgs, pl)
					} else {
						textMsgs = append(textMsgs, pl)
					}
				}
				if st.eClose == nil {
					if len(binMsgs) != 1 {
						bad(fmt.Sprintf("Close of the shared writer returned nil but the wire carries %d binary messages", len(binMsgs)))
						return
					}
					ok := false
					for _, al := range allowed {
						ok = ok || bytes.Equal(al, binMsgs[0])
					}
					if !ok {
						bad(fmt.Sprintf("the first message on the wire has %d bytes (first bytes %x): not the chunks whose Write returned nil", len(binMsgs[0]), head(binMsgs[0])))
						return
					}
				} else if len(binMsgs) > 1 {
					bad(fmt.Sprintf("%d binary messages on the wire, one was written", len(binMsgs)))
					return
				}
				if len(textMsgs) > 1 || (len(textMsgs) == 1 && !bytes.Equal(textMsgs[0], next)) {
					bad(fmt.Sprintf("the next message arrives as %d messages / with different content", len(textMsgs)))
					return
				}
				if st.dN && st.eN == nil && len(textMsgs) != 1 {
					violate(c, w, name, "C02/acked-write-missing/shared-writer/"+role, fmt.Sprintf("the next message's Write returned nil but it is not on the wire (%s)\nwire: %s", out, describeFrames(res.Frames)))
					return
				}
				c.OutcomeStr(name + "|" + out + fmt.Sprintf(" bin=%d text=%d", len(binMsgs), len(textMsgs)))
			}
		}
	}
}

func c02SharedScenarios(tier string) []scenario {
	var scs []scenario
	p := 1
	if tier == "thorough" {
		p = 2
	}
	for _, k := range []connCfg{{Client: true}, {Client: false}, {Client: false, Flate: true, Thr: 1}} {
		for _, big := range []int{8192, 100} {
			if tier != "thorough" && k.Flate && big == 100 {
				continue
			}
			scs = append(scs, scenario{Name: fmt.Sprintf("shared-writer/%d/%s", big, k.String()), Cfg: explore.Config{P: p, Horizon: 60e9}, Setup: c02SharedSetup(k, big)})
		}
	}
	return scs
}

func init() {
	fw.Register(fw.Part{Prop: "C02", Name: "s.shared",
		Units:  func(tier string) []fw.Unit { return scenarioUnits(c02SharedScenarios(tier)) },
		Replay: replayFn(c02SharedScenarios),
	})
}
