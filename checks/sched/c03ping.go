package sched

import (
	"fmt"
	"time"

	"nhooyr.io/websocket"
	"verif/engine/explore"
	"verif/engine/vctx"
	"verif/engine/vpipe"
	"verif/engine/vs"
	"verif/engine/vtime"
	"verif/fw"
	"verif/refws/frame"
)

// C03, reading does not depend on the connection's own writers: a Ping (or a Write) of
// another goroutine is parked in the transport (the peer accepts nothing until 1 s) while
// the peer's stream [Pong (unsolicited)] [Text "hi"] arrives. The valid stream yields the
// message "hi" at once. (A Ping of the peer is left out on purpose: its Pong is written by
// the reading goroutine and would have to wait for the transport.)
func c03PingSetup(k connCfg, blocked string) func(c *fw.Ctx, name string) explore.Setup {
	return func(c *fw.Ctx, name string) explore.Setup {
		return func(w *vs.World) func(bool) {
			p := vpipe.New()
			p.Window = 1
			var got []byte
			var rerr error
			var readAt int64 = -1
			w.GoHarness("main", true, func() {
				conn := mkConn(p, k)
				bg := vctx.Background()
				w.GoHarness("blocked-writer", false, func() {
					if blocked == "ping" {
						conn.Ping(bg)
					} else {
						conn.Write(bg, websocket.MessageBinary, fill(0xA3, 50))
					}
				})
				w.GoHarness("drainer", false, func() {
					vtime.Sleep(time.Second)
					p.SetWindow(0)
				})
				w.GoHarness("peer", false, func() {
					p.WaitOut("first-byte", func(out []byte) bool { return len(out) > 0 })
					in := peerFrame(k, frame.Frame{Fin: true, Opcode: frame.OpPong, Payload: []byte("x")})
					in = append(in, peerData(k, frame.OpText, true, []byte("hi"))...)
					p.Send(in)
				})
				w.GoHarness("reader", true, func() {
					_, got, rerr = conn.Read(bg)
					readAt = w.Now
				})
				vs.Quiesce()
				vtime.Sleep(2 * time.Second)
				conn.CloseNow()
			})
			return func(complete bool) {
				if !complete {
					return
				}
				role := k.String()
				if w.Panic != "" {
					violate(c, w, name, "C03/panic/blocked-"+blocked+"/"+role, w.Panic)
					return
				}
				c.OutcomeStr(fmt.Sprintf("%s|at=%dms|err=%v", name, readAt/1e6, rerr != nil))
				if readAt < 0 || rerr != nil || string(got) != "hi" {
					violate(c, w, name, "C03/valid-stream-not-delivered/blocked-"+blocked+"/"+role, fmt.Sprintf("the peer sent [Pong][Text \"hi\"] while a %s of another goroutine was parked in the transport; Read returned %q, %v (returned=%v)", blocked, got, rerr, readAt >= 0))
					return
				}
				if readAt >= int64(time.Second) {
					violate(c, w, name, "C03/read-waits-for-writer/blocked-"+blocked+"/"+role, fmt.Sprintf("the peer's [Pong][Text \"hi\"] was there at time 0; Read returned it only at %v, when the peer accepted the connection's own %s: reading waited for a writer", time.Duration(readAt), blocked))
				}
			}
		}
	}
}

func c03PingScenarios(tier string) []scenario {
	var scs []scenario
	p := 1
	if tier == "thorough" {
		p = 2
	}
	for _, k := range []connCfg{{Client: false}, {Client: true}} {
		for _, b := range []string{"ping", "write"} {
			scs = append(scs, scenario{Name: "read-while-" + b + "-parked/" + k.String(), Cfg: explore.Config{P: p, T: 1, Horizon: 60e9}, Setup: c03PingSetup(k, b)})
		}
	}
	return scs
}

func init() {
	fw.Register(fw.Part{Prop: "C03", Name: "s.parked",
		Units:  func(tier string) []fw.Unit { return scenarioUnits(c03PingScenarios(tier)) },
		Replay: replayFn(c03PingScenarios),
	})
}
