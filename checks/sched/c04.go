package sched

import (
	"fmt"
	"io"

	"nhooyr.io/websocket"
	"verif/engine/explore"
	"verif/engine/vctx"
	"verif/engine/vpipe"
	"verif/engine/vs"
	"verif/fw"
	"verif/refws/frame"
)

// C04 (schedule part): a reader is in the middle of a message when another
// goroutine calls Close, whose handshake discards the rest of that message from
// the transport; the transport ends Short bytes before the end of the message's
// final frame. Whatever the interleaving, the reader is told of a clean end of
// message only if it was handed all of the message.

type c04Params struct {
	K     connCfg
	Short int // bytes of the final frame's payload that never arrive
	Frag  bool
}

func (p c04Params) name() string {
	return fmt.Sprintf("close-discards-truncated/short%d/frag=%v/%s", p.Short, p.Frag, p.K.String())
}

const c04MsgLen = 10

func c04Setup(prm c04Params) func(c *fw.Ctx, name string) explore.Setup {
	return func(c *fw.Ctx, name string) explore.Setup {
		return func(w *vs.World) func(bool) {
			p := vpipe.New()
			k := prm.K
			want := fill(0xC4, c04MsgLen)
			var got []byte
			var rerr error
			var readerDone bool
			w.GoHarness("main", true, func() {
				conn := mkConn(p, k)
				bg := vctx.Background()
				var stream []byte
				if prm.Frag {
					stream = append(stream, peerData(k, frame.OpBinary, false, want[:4])...)
					stream = append(stream, peerData(k, frame.OpCont, true, want[4:])...)
				} else {
					stream = peerData(k, frame.OpBinary, true, want)
				}
				p.Send(stream[:len(stream)-prm.Short])
				_, r, err := conn.Reader(bg)
				if err != nil {
					rerr = err
					readerDone = true
					return
				}
				var b [1]byte
				n, err := r.Read(b[:])
				got = append(got, b[:n]...)
				if err != nil {
					rerr = err
					readerDone = true
					return
				}
				w.GoHarness("reader", true, func() {
					buf := make([]byte, 3)
					for i := 0; i < 32; i++ {
						n, err := r.Read(buf)
						got = append(got, buf[:n]...)
						if err != nil {
							rerr = err
							break
						}
					}
					readerDone = true
				})
				w.GoHarness("peer", false, func() {
					// the peer goes away once it has seen the Close frame
					p.WaitOut("close-frame", func(out []byte) bool { _, ok := firstClose(out); return ok })
					p.SendEOF()
				})
				w.GoHarness("closer", true, func() { conn.Close(websocket.StatusNormalClosure, "") })
			})
			return func(complete bool) {
				if !complete {
					return
				}
				locus := fmt.Sprintf("short%d/%s", prm.Short, k.String())
				if w.Panic != "" {
					violate(c, w, name, "C04/panic/"+locus, w.Panic)
					return
				}
				c.OutcomeStr(fmt.Sprintf("%s|done=%v|n=%d|eof=%v", name, readerDone, len(got), rerr == io.EOF))
				if !readerDone {
					return // termination is C09's subject
				}
				if len(got) > c04MsgLen-prm.Short || string(got) != string(want[:len(got)]) {
					violate(c, w, name, "C04/non-prefix-bytes/close-discards/"+locus, fmt.Sprintf("the reader was handed %d bytes (%x); %d bytes of the message arrived", len(got), got, c04MsgLen-prm.Short))
					return
				}
				if rerr == io.EOF {
					violate(c, w, name, "C04/clean-eof-on-transport-end/close-discards/"+locus, fmt.Sprintf("the transport ended %d byte(s) before the end of the message while Close was discarding it; the reader, handed %d of %d bytes, was told the message ended cleanly", prm.Short, len(got), c04MsgLen))
				}
			}
		}
	}
}

func c04Scenarios(tier string) []scenario {
	var scs []scenario
	p := 2
	if tier == "thorough" {
		p = -1
	}
	for _, k := range []connCfg{{Client: false}, {Client: true}} {
		for _, short := range []int{1, 2, 5} {
			for _, frag := range []bool{false, true} {
				prm := c04Params{K: k, Short: short, Frag: frag}
				scs = append(scs, scenario{Name: prm.name(), Cfg: explore.Config{P: p, Horizon: 60e9}, Setup: c04Setup(prm), Group: "close-discards/" + k.String()})
			}
		}
	}
	return scs
}

func init() {
	fw.Register(fw.Part{Prop: "C04", Name: "s.close",
		Units:  func(tier string) []fw.Unit { return scenarioUnits(c04Scenarios(tier)) },
		Replay: replayFn(c04Scenarios),
	})
}
