package sched

import (
	"bytes"
	"fmt"
	"io"
	"strings"
	"time"

	"nhooyr.io/websocket"
	"verif/engine/explore"
	"verif/engine/vctx"
	"verif/engine/vpipe"
	"verif/engine/vs"
	"verif/engine/vtime"
	"verif/fw"
	"verif/refws/deflate"
	"verif/refws/frame"
)

// C05: concurrent use keeps frames atomic, messages unmixed (wire oracle), a
// racing reader returns only prefixes, and nothing deadlocks.

// wop is one message written by a writer task.
type wop struct {
	Stream bool  // Writer + chunks + Close instead of Write
	Text   bool  // message type
	Chunks []int // chunk sizes (Write: one chunk)
	// Abandon (Stream only): the message's own context is cancelled after the
	// chunks and before Close; the task goes on with its next message whatever
	// Close answers. Later messages of the task use a context with a 1 s deadline.
	Abandon bool
}

type c05Params struct {
	Prop    string // property the violations are reported under (default C05)
	Name    string
	K       connCfg
	Writers [][]wop // one program per writer task
	Pinger  bool    // a Ping task plus a reader task and a peer answering it
	Closer  string  // "", "Close", "CloseNow", "cancel0"/"cancel1" (cancel that writer's context)
	Window  int     // transport window (0 unbounded)
	// DrainAt > 0: the peer reads nothing until that virtual time and everything
	// afterwards (instead of draining whenever the window is full).
	DrainAt time.Duration
	// Inbound > 0: a reader task reads one message of that many bytes whose frame
	// header arrives in two transport deliveries, cut inside its extended length
	// (or inside the mask key), while the writers write.
	Inbound int
	// InboundCut > 0: the transport ends that many bytes before the end of the
	// inbound message: its read must fail (C04: no silent truncation).
	InboundCut int
	// Repeat: all messages of one writer consist of the same byte (different lengths), so
	// that a compressor which keeps its context refers back to the previous message
	Repeat bool
	// GiveUp: once the first bytes are on the wire, a Ping whose context is
	// cancelled at 500 ms waits for the frame lock (and gives up).
	GiveUp bool
	// Sparse: every 200th byte of a payload is pseudo-random, so that the compressor produces
	// output (and with it frames) while a large Write is still in progress, not only at its end
	Sparse bool
	// SameContent: all messages of all writers consist of the same byte (lengths differ)
	SameContent bool
}

func (p c05Params) abandons() bool {
	for _, prog := range p.Writers {
		for _, op := range prog {
			if op.Abandon {
				return true
			}
		}
	}
	return false
}

type wres struct {
	task, idx int
	payload   []byte
	text      bool
	err       error
	done      bool
}

type c05State struct {
	p        *vpipe.Pipe
	msgs     []*wres
	pingErr  error
	pingDone bool
	inGot    []byte
	inErr    error
	inDone   bool
	closeErr error
	closed   bool
}

func (s *c05State) find(task, idx int) *wres {
	for _, m := range s.msgs {
		if m.task == task && m.idx == idx {
			return m
		}
	}
	return nil
}

func c05Setup(prm c05Params) func(c *fw.Ctx, name string) explore.Setup {
	return func(c *fw.Ctx, name string) explore.Setup {
		return func(w *vs.World) func(bool) {
			st := &c05State{p: vpipe.New()}
			st.p.Window = prm.Window
			// message payloads: tagged by (task, idx)
			for ti, prog := range prm.Writers {
				for mi, op := range prog {
					n := 0
					for _, ch := range op.Chunks {
						n += ch
					}
					tag := byte(0xA0 + ti*4 + mi)
					if prm.Repeat {
						tag = byte(0xA0 + ti*4)
					}
					if prm.SameContent {
						tag = 0xA0 // every message of every writer: the same byte, another length
					}
					pl := fill(tag, n)
					if prm.Sparse {
						x := uint32(tag)
						for i := 0; i < n; i += 200 {
							x = x*1664525 + 1013904223
							pl[i] = byte(x >> 24)
						}
					}
					st.msgs = append(st.msgs, &wres{task: ti, idx: mi, payload: pl, text: op.Text})
				}
			}
			w.GoHarness("main", true, func() {
				conn := mkConn(st.p, prm.K)
				bg := vctx.Background()
				ctxs := make([]vctx.Context, len(prm.Writers))
				cancels := make([]vctx.CancelFunc, len(prm.Writers))
				for i := range ctxs {
					ctxs[i] = bg
				}
				cancelIdx := -1
				switch prm.Closer {
				case "cancel0":
					cancelIdx = 0
				case "cancel1":
					cancelIdx = 1
				}
				if cancelIdx >= 0 {
					ctxs[cancelIdx], cancels[cancelIdx] = vctx.WithCancel(bg)
				}
				for ti, prog := range prm.Writers {
					ti, prog := ti, prog
					w.GoHarness(fmt.Sprintf("writer%d", ti), true, func() {
						abandoned := false
						for mi, op := range prog {
							m := st.find(ti, mi)
							typ := websocket.MessageBinary
							if op.Text {
								typ = websocket.MessageText
							}
							ctx := ctxs[ti]
							var cancelOwn vctx.CancelFunc
							if op.Abandon {
								ctx, cancelOwn = vctx.WithCancel(ctx)
							} else if abandoned {
								var cancelT vctx.CancelFunc
								ctx, cancelT = vctx.WithTimeout(ctx, time.Second)
								defer cancelT()
							}
							if !op.Stream {
								m.err = conn.Write(ctx, typ, m.payload)
							} else {
								wr, err := conn.Writer(ctx, typ)
								if err == nil {
									off := 0
									for _, ch := range op.Chunks {
										_, err = wr.Write(m.payload[off : off+ch])
										off += ch
										if err != nil {
											break
										}
									}
									if op.Abandon {
										cancelOwn()
										abandoned = true
									}
									if err == nil {
										err = wr.Close()
									}
								}
								m.err = err
							}
							m.done = true
							if m.err != nil && !op.Abandon {
								return
							}
						}
					})
				}
				if prm.Inbound > 0 {
					conn.SetReadLimit(-1)
					fr := peerData(prm.K, frame.OpBinary, true, fill(0x1B, prm.Inbound))
					w.GoHarness("inbound-reader", true, func() {
						_, b, err := conn.Read(bg)
						st.inGot, st.inErr, st.inDone = b, err, true
					})
					w.GoHarness("inbound-peer", false, func() {
						st.p.Send(fr[:3]) // first two header bytes and one byte of the extended length
						st.p.WaitDrained()
						// the rest arrives once a frame of the connection is on the wire
						st.p.WaitOut("some-output", func(out []byte) bool { return len(out) > 0 })
						if prm.InboundCut > 0 {
							st.p.Send(fr[3 : len(fr)-prm.InboundCut])
							st.p.WaitDrained()
							st.p.SendEOF()
							return
						}
						st.p.Send(fr[3:])
					})
				}
				if prm.GiveUp {
					conn.CloseRead(bg) // reads the pongs
					w.GoHarness("giveup", true, func() {
						st.p.WaitOut("first-bytes", func(out []byte) bool { return len(out) > 0 })
						ctx, cancel := vctx.WithCancel(bg)
						w.GoHarness("giveup-canceller", false, func() {
							vtime.Sleep(500 * time.Millisecond)
							cancel()
						})
						conn.Ping(ctx)
						// the third party: a control frame with a healthy context, while
						// the first writer's frame is still stuck
						st.pingErr = conn.Ping(bg)
						st.pingDone = true
					})
					w.GoHarness("pong-peer", false, func() {
						for i := 0; i < 2; i++ {
							var pl []byte
							if !st.p.WaitOut(fmt.Sprintf("conn-ping%d", i), func(out []byte) bool {
								fs, _ := frame.ParseAll(out)
								n := 0
								for _, f := range fs {
									if f.Opcode == frame.OpPing {
										if n == i {
											pl = f.Payload
											return true
										}
										n++
									}
								}
								return false
							}) {
								return
							}
							st.p.Send(frame.Ctl(frame.OpPong, !prm.K.Client, pl).Encode(nil))
						}
					})
				}
				if prm.Window > 0 && prm.DrainAt > 0 {
					w.GoHarness("drainer", false, func() {
						vtime.Sleep(prm.DrainAt)
						st.p.SetWindow(0)
					})
				} else if prm.Window > 0 {
					w.GoHarness("drainer", false, func() {
						for i := 0; i < 40; i++ {
							// wait until the window is full, then open it again
							if !st.p.WaitOut("window-full", func(out []byte) bool { return len(out)-st.p.Taken >= st.p.Window }) {
								return
							}
							st.p.Drain(-1)
						}
					})
				}
				if prm.Pinger {
					w.GoHarness("reader", false, func() {
						for {
							_, r, err := conn.Reader(bg)
							if err != nil {
								return
							}
							io.Copy(io.Discard, r)
						}
					})
					w.GoHarness("peer", false, func() {
						// the peer sends its own Ping first, then answers the connection's Ping
						st.p.Send(frame.Ctl(frame.OpPing, !prm.K.Client, []byte("peer-ping")).Encode(nil))
						// answer every Ping of the connection, in order
						for i := 0; i < 3; i++ {
							var pl []byte
							ok := st.p.WaitOut(fmt.Sprintf("conn-ping%d", i), func(out []byte) bool {
								fs, _ := frame.ParseAll(out)
								n := 0
								for _, f := range fs {
									if f.Opcode == frame.OpPing {
										if n == i {
											pl = f.Payload
											return true
										}
										n++
									}
								}
								return false
							})
							if !ok {
								return
							}
							st.p.Send(frame.Ctl(frame.OpPong, !prm.K.Client, pl).Encode(nil))
						}
					})
					w.GoHarness("pinger", true, func() {
						st.pingErr = conn.Ping(bg)
						st.pingDone = true
					})
				}
				switch prm.Closer {
				case "Close":
					w.GoHarness("closer", true, func() {
						st.closeErr = conn.Close(websocket.StatusNormalClosure, "bye")
						st.closed = true
					})
				case "CloseNow":
					w.GoHarness("closer", true, func() {
						st.closeErr = conn.CloseNow()
						st.closed = true
					})
				case "cancel0", "cancel1":
					w.GoHarness("canceller", true, func() { cancels[cancelIdx]() })
				}
			})
			return func(complete bool) {
				if !complete {
					return
				}
				c05Oracle(c, w, name, prm, st)
			}
		}
	}
}

func c05Oracle(c *fw.Ctx, w *vs.World, name string, prm c05Params, st *c05State) {
	role := prm.K.String()
	pp := prm.Prop
	if pp == "" {
		pp = "C05"
	}
	if w.Panic != "" {
		violate(c, w, name, pp+"/panic/"+prm.Name, w.Panic)
		return
	}
	if w.HorizonHit {
		violate(c, w, name, pp+"/no-termination/"+prm.Name+"/"+role, "execution passed the virtual-time horizon with required tasks unfinished")
		return
	}
	if w.Deadlock && strings.HasPrefix(prm.Closer, "cancel") {
		// A cancelled context that leaves the connection open (and with it a
		// held message lock) is C10's subject; C05 states no liveness clause.
		c.OutcomeStr(name + "|deadlock-after-cancel")
		return
	}
	if w.Deadlock {
		var stuck []string
		for _, t := range w.Tasks() {
			if t.Required && !t.Done() {
				stuck = append(stuck, t.Name)
			}
		}
		violate(c, w, name, pp+"/deadlock/"+prm.Name+"/"+role, fmt.Sprintf("deadlock: tasks %v never return", stuck))
		return
	}
	res := frame.Validate(st.p.Out, frame.StreamRules{SenderIsClient: prm.K.Client, Deflate: prm.K.Flate})
	out := ""
	for _, v := range res.Violations {
		violate(c, w, name, pp+"/wire/"+v.Rule+"/"+prm.Name+"/"+role, fmt.Sprintf("%v\nwire: %s", v, describeFrames(res.Frames)))
		return
	}
	if len(res.Rest) > 0 && !st.p.Closed {
		violate(c, w, name, pp+"/wire/truncated-frame-on-open-transport/"+prm.Name+"/"+role, fmt.Sprintf("stream ends inside a frame (%d stray bytes) although the transport was never closed\nwire: %s", len(res.Rest), describeFrames(res.Frames)))
		return
	}
	// reassembled messages must each equal exactly one written message, at most once, in per-writer order
	inf := &deflate.Inflater{NoContextTakeover: prm.K.writerNoTakeover()}
	seen := map[*wres]bool{}
	lastIdx := map[int]int{}
	for i := range lastIdx {
		lastIdx[i] = -1
	}
	for mi, m := range res.Messages {
		pl := m.Payload
		if m.Compressed {
			var err error
			pl, err = inf.Message(m.Payload)
			if err != nil {
				violate(c, w, name, pp+"/wire/undecodable-compressed-message/"+prm.Name+"/"+role, fmt.Sprintf("message %d does not inflate: %v", mi, err))
				return
			}
		}
		var match *wres
		for _, wm := range st.msgs {
			if bytes.Equal(wm.payload, pl) && wm.text == (m.Opcode == frame.OpText) && !seen[wm] {
				match = wm
				break
			}
		}
		if match == nil {
			violate(c, w, name, pp+"/wire/message-not-written/"+prm.Name+"/"+role, fmt.Sprintf("message %d on the wire (type %d, %d bytes, first bytes %x) equals no written message (or is a duplicate)\nwire: %s", mi, m.Opcode, len(pl), head(pl), describeFrames(res.Frames)))
			return
		}
		seen[match] = true
		if li, ok := lastIdx[match.task]; ok && match.idx < li {
			violate(c, w, name, pp+"/wire/per-writer-order/"+prm.Name+"/"+role, fmt.Sprintf("writer %d: message %d arrives after message %d", match.task, match.idx, li))
			return
		}
		lastIdx[match.task] = match.idx
		out += fmt.Sprintf("m%d.%d ", match.task, match.idx)
	}
	if prm.Inbound > 0 && prm.InboundCut > 0 {
		if st.inDone && st.inErr == nil {
			violate(c, w, name, pp+"/truncated-message-reported-complete/"+prm.Name+"/"+role, fmt.Sprintf("the transport ended %d bytes before the end of a %d-byte message (its header had arrived in two pieces while another goroutine was writing), yet Read returned %d bytes and no error", prm.InboundCut, prm.Inbound, len(st.inGot)))
			return
		}
	} else if prm.Inbound > 0 && st.inDone {
		if st.inErr != nil || len(st.inGot) != prm.Inbound || string(st.inGot) != string(fill(0x1B, prm.Inbound)) {
			violate(c, w, name, pp+"/inbound-message-differs/"+prm.Name+"/"+role, fmt.Sprintf("a %d-byte message whose header arrived in two pieces while another goroutine was writing was read as %d bytes (%x…), err=%v", prm.Inbound, len(st.inGot), head(st.inGot), st.inErr))
			return
		}
	}
	// a write that returned nil is on the wire completely
	for _, wm := range st.msgs {
		if wm.done && wm.err == nil && !seen[wm] {
			violate(c, w, name, pp+"/acked-write-missing/"+prm.Name+"/"+role, fmt.Sprintf("writer %d message %d returned nil but is not (completely) on the wire\nwire: %s", wm.task, wm.idx, describeFrames(res.Frames)))
			return
		}
		out += fmt.Sprintf("e%d.%d=%v ", wm.task, wm.idx, wm.err != nil)
	}
	// without a closer or cancellation every write must succeed (a Ping that gives
	// up may have been inside its own frame write when its context ended, which
	// closes the connection as documented)
	if prm.Closer == "" && !(prm.GiveUp && st.p.Closed) && !prm.abandons() {
		for _, wm := range st.msgs {
			if wm.err != nil {
				violate(c, w, name, pp+"/write-failed-without-close/"+prm.Name+"/"+role, fmt.Sprintf("writer %d message %d failed: %v", wm.task, wm.idx, wm.err))
				return
			}
		}
		if (prm.Pinger || prm.GiveUp) && st.pingErr != nil {
			violate(c, w, name, pp+"/ping-failed-without-close/"+prm.Name+"/"+role, fmt.Sprintf("ping failed: %v", st.pingErr))
			return
		}
	}
	if prm.Pinger {
		out += fmt.Sprintf("ping=%v ", st.pingErr != nil)
	}
	if prm.Closer == "Close" || prm.Closer == "CloseNow" {
		out += fmt.Sprintf("close=%v ", st.closeErr != nil)
	}
	for _, f := range res.Controls {
		out += fmt.Sprintf("c%d ", f.Opcode)
	}
	c.OutcomeStr(name + "|" + out)
}

func head(b []byte) []byte {
	if len(b) > 8 {
		return b[:8]
	}
	return b
}

func describeFrames(fs []frame.Frame) string {
	s := ""
	for i, f := range fs {
		if i >= 12 {
			s += fmt.Sprintf("… (%d frames)", len(fs))
			break
		}
		s += f.String() + " "
	}
	return s
}

// ---- RC: a read racing with Close, CloseNow or a context expiry

type c05RCParams struct {
	K      connCfg
	Closer string // Close | CloseNow | cancel
	// Buf: size of the reader's buffer (default 256, which is more than a frame's payload: every
	// Read call then ends at a frame boundary). 100: the reader is in the middle of a frame
	// between two Read calls.
	Buf int
	// Echo: the peer answers the connection's Close frame with its own
	Echo bool
}

func (p c05RCParams) name() string {
	n := "RC-"
	if p.Buf != 0 {
		n = fmt.Sprintf("RC%d-", p.Buf)
	}
	if p.Echo {
		n += "echo-"
	}
	return n + p.Closer + "/" + p.K.String()
}

var c05RCStreams = map[string][]byte{}

func c05RCSetup(prm c05RCParams) func(c *fw.Ctx, name string) explore.Setup {
	return func(c *fw.Ctx, name string) explore.Setup {
		msg := make([]byte, 700)
		for i := range msg {
			msg[i] = byte('a' + i%26)
			if i%50 < 25 {
				msg[i] = 'q' // compressible runs
			}
		}
		k := prm.K
		key := k.String()
		if prm.Buf != 0 {
			// a short first fragment and a final frame that takes two Read calls
			key += "/simple"
			msg = msg[:400]
			if _, ok := c05RCStreams[key]; !ok {
				c05RCStreams[key] = append(peerData(k, frame.OpBinary, false, msg[:100]), peerData(k, frame.OpCont, true, msg[100:])...)
			}
		}
		frames, ok := c05RCStreams[key]
		if !ok {
			pl := msg
			if k.Flate {
				pl = (&deflate.Deflater{NoContextTakeover: k.readerNoTakeover()}).Message(msg)
			}
			a, b := len(pl)/3, 2*len(pl)/3
			frames = append(frames, peerFrame(k, frame.Frame{Fin: false, Rsv1: k.Flate, Opcode: frame.OpBinary, Payload: pl[:a]})...)
			frames = append(frames, peerFrame(k, frame.Frame{Fin: true, Opcode: frame.OpPing, Payload: []byte("mid")})...)
			frames = append(frames, peerData(k, frame.OpCont, false, pl[a:b])...)
			frames = append(frames, peerData(k, frame.OpCont, true, pl[b:])...)
			c05RCStreams[key] = frames
		}
		return func(w *vs.World) func(bool) {
			p := vpipe.New()
			p.ShortReads = true
			var got []byte
			var readErr error
			complete2 := false
			w.GoHarness("main", true, func() {
				conn := mkConn(p, k)
				bg := vctx.Background()
				ctx, cancel := vctx.WithCancel(bg)
				w.GoHarness("peer", false, func() {
					// the message arrives in two transport deliveries at scheduler-chosen moments
					p.Send(frames[:len(frames)/2])
					p.Send(frames[len(frames)/2:])
					if prm.Echo && p.WaitOut("close-frame", func(out []byte) bool { return hasOp(out, frame.OpClose) }) {
						p.Send(peerClose(k, 1000, ""))
					}
				})
				w.GoHarness("reader", true, func() {
					_, r, err := conn.Reader(ctx)
					if err != nil {
						readErr = err
						return
					}
					buf := make([]byte, 256)
					if prm.Buf != 0 {
						buf = make([]byte, prm.Buf)
					}
					for {
						n, err := r.Read(buf)
						got = append(got, buf[:n]...)
						if err == io.EOF {
							complete2 = true
							return
						}
						if err != nil {
							readErr = err
							return
						}
					}
				})
				w.GoHarness("closer", true, func() {
					switch prm.Closer {
					case "Close":
						conn.Close(websocket.StatusNormalClosure, "")
					case "CloseNow":
						conn.CloseNow()
					case "cancel":
						cancel()
					}
				})
			})
			return func(complete bool) {
				if !complete {
					return
				}
				locus := prm.Closer + "/" + k.String()
				if w.Panic != "" {
					violate(c, w, name, "C05/panic/RC-"+locus, w.Panic)
					return
				}
				if w.Deadlock || w.HorizonHit {
					c.OutcomeStr(name + "|stuck")
					return // termination is C09's subject
				}
				c.OutcomeStr(fmt.Sprintf("%s|n=%d|complete=%v|err=%v", name, len(got)/100, complete2, readErr != nil))
				if !bytes.HasPrefix(msg, got) {
					violate(c, w, name, "C05/racing-read-returns-non-prefix/"+locus, fmt.Sprintf("the read racing with %s returned %d bytes that are not a prefix of the message (first difference at %d)", prm.Closer, len(got), firstDiff(msg, got)))
					return
				}
				if complete2 && len(got) != len(msg) {
					violate(c, w, name, "C05/racing-read-completes-short/"+locus, fmt.Sprintf("the read racing with %s reported the end of the message after %d of %d bytes", prm.Closer, len(got), len(msg)))
				}
			}
		}
	}
}

func firstDiff(a, b []byte) int {
	for i := range b {
		if i >= len(a) || a[i] != b[i] {
			return i
		}
	}
	return len(b)
}

func c05Scenarios(tier string) []scenario {
	var scs []scenario
	for _, k := range []connCfg{{Client: false}, {Client: true}, {Client: false, Flate: true}, {Client: true, Flate: true}, {Client: false, Flate: true, CNCT: true, SNCT: true}} {
		for _, cl := range []string{"Close", "CloseNow", "cancel"} {
			prm := c05RCParams{K: k, Closer: cl}
			cfg := explore.Config{P: 2, E: 1, Horizon: 60e9}
			if tier == "thorough" {
				cfg = explore.Config{P: 3, E: 2, Horizon: 60e9}
				if k.Flate && !k.CNCT {
					cfg.P = 2 // executions that inflate with context takeover are ~10x slower
				}
			}
			scs = append(scs, scenario{Name: prm.name(), Cfg: cfg, Setup: c05RCSetup(prm)})
		}
	}
	// the reader is in the middle of a frame between two Read calls when the closer arrives
	for _, k := range []connCfg{{Client: false}, {Client: true}} {
		for _, cl := range []string{"Close", "echo-Close", "CloseNow", "cancel"} {
			prm := c05RCParams{K: k, Closer: strings.TrimPrefix(cl, "echo-"), Echo: strings.HasPrefix(cl, "echo-"), Buf: 150}
			cfg := explore.Config{P: 1, Horizon: 60e9}
			if prm.Echo {
				cfg.P = 2 // (the reader has to overtake the closing goroutine twice)
			}
			if tier == "thorough" {
				cfg.P = 2 // (three preemptions: > 1 M executions per scenario)
			}
			scs = append(scs, scenario{Name: prm.name(), Cfg: cfg, Setup: c05RCSetup(prm)})
		}
	}
	// Thr 1: every message is compressed, so the small harness messages go through the deflate path too
	roles := []connCfg{{Client: false}, {Client: true}, {Client: false, Flate: true, Thr: 1}, {Client: true, Flate: true, Thr: 1}}
	add := func(prm c05Params, quick, thorough explore.Config) {
		name := prm.Name + "/" + prm.K.String()
		scs = append(scs, scenario{Name: name, Cfg: tierCfg(tier, quick, thorough), Setup: c05Setup(prm)})
	}
	P := func(p int) explore.Config { return explore.Config{P: p, T: 0, E: 0, Horizon: 60e9} }
	// asymmetric agreements (only one side promised to reset its compressor): each writer's
	// second message repeats its first, so the two ends must agree on who keeps a context
	for _, k := range []connCfg{{Client: true, Flate: true, Thr: 1, CNCT: true}, {Client: false, Flate: true, Thr: 1, CNCT: true}, {Client: true, Flate: true, Thr: 1, SNCT: true}, {Client: false, Flate: true, Thr: 1, SNCT: true}} {
		add(c05Params{Name: "W3r", K: k, Repeat: true, Writers: [][]wop{{{Chunks: []int{300}}, {Chunks: []int{301}}}, {{Text: true, Chunks: []int{302}}, {Stream: true, Text: true, Chunks: []int{150, 153}}}}}, P(1), P(2)) // (the library's compressor only looks back over more than ~128 bytes)
	}
	// a streamed message whose first chunk is below the compression threshold and whose second is above it
	for _, k := range []connCfg{{Client: false, Flate: true, Thr: 8}, {Client: true, Flate: true, Thr: 8, CNCT: true, SNCT: true}} {
		add(c05Params{Name: "WSt", K: k, Writers: [][]wop{{{Stream: true, Text: true, Chunks: []int{5, 300}}, {Chunks: []int{300}}}, {{Chunks: []int{10}}}}}, P(1), P(2))
	}
	for _, k := range roles {
		big := 5000
		// W2: a 10-byte Write against a Write whose frame spans two transport writes
		add(c05Params{Name: "W2", K: k, Writers: [][]wop{{{Chunks: []int{10}}}, {{Text: true, Chunks: []int{big}}}}}, P(2), P(-1))
		// WB: as W2 but the transport accepts 1500 bytes at a time and blocks until the peer drains
		add(c05Params{Name: "WB", K: k, Window: 1500, Writers: [][]wop{{{Chunks: []int{10}}}, {{Text: true, Chunks: []int{big}}}}}, P(1), P(2))
		// WI: a writer of 300 bytes while an inbound 300-byte message's header arrives in two pieces
		add(c05Params{Name: "WI", K: k, Inbound: 300, Writers: [][]wop{{{Chunks: []int{300}}}}}, P(1), P(2))
		// WS: Write against a streaming Writer with two chunks
		// the first writer's frame is stuck half way in the transport until 1 s; a Ping gives
		// up waiting for the frame lock at 500 ms; the second writer's frame must still wait
		add(c05Params{Name: "WG", K: k, Window: 60, DrainAt: time.Second, GiveUp: true, Writers: [][]wop{{{Chunks: []int{100}}}}}, P(1), P(2))
		add(c05Params{Name: "WS", K: k, Writers: [][]wop{{{Chunks: []int{10}}}, {{Stream: true, Text: true, Chunks: []int{5, 5}}}}}, P(2), P(-1))
		// WS0: an empty message (Write of zero bytes) and an empty text message through a Writer
		// against a streaming Writer: an empty message is a message like any other
		add(c05Params{Name: "WS0", K: k, Writers: [][]wop{{{Chunks: []int{0}}, {Text: true, Stream: true, Chunks: []int{0}}}, {{Stream: true, Text: true, Chunks: []int{5, 5}}}}}, P(1), P(2))
		// W3: three writers, the first sends two messages (per-writer order)
		add(c05Params{Name: "W3", K: k, Writers: [][]wop{{{Chunks: []int{10}}, {Chunks: []int{11}}}, {{Text: true, Chunks: []int{12}}}, {{Stream: true, Chunks: []int{6, 7}}}}}, P(1), P(2))
		// WP: writer, pinger, reader answering a peer ping
		add(c05Params{Name: "WP", K: k, Writers: [][]wop{{{Stream: true, Chunks: []int{5, 5}}}}, Pinger: true}, P(1), P(2))
		// WC: writers racing with a closer
		for _, cl := range []string{"Close", "CloseNow", "cancel0"} {
			add(c05Params{Name: "WC-" + cl, K: k, Closer: cl, Writers: [][]wop{{{Chunks: []int{10}}}, {{Stream: true, Text: true, Chunks: []int{5, 5}}}}}, P(1), P(2))
		}
	}
	return scs
}

// c05RaceScenarios: the same harness bodies one preemption lower, under -race.
func c05RaceScenarios(tier string) []scenario {
	var out []scenario
	for _, sc := range c05Scenarios(tier) {
		quickSet := strings.HasPrefix(sc.Name, "W2/") || strings.HasPrefix(sc.Name, "WC-CloseNow/") || strings.HasPrefix(sc.Name, "WC-Close/") || strings.HasPrefix(sc.Name, "WP/") ||
			strings.HasPrefix(sc.Name, "WI/") || sc.Name == "RC-CloseNow/server+flate" || sc.Name == "RC-CloseNow/client" || sc.Name == "RC-cancel/server+flate+cnct+snct"
		if tier != "thorough" && !quickSet {
			continue
		}
		if tier == "thorough" {
			sc.Cfg.P = 2
		} else {
			sc.Cfg.P = 1
		}
		sc.Cfg.E = 0
		out = append(out, raceWrap("C05", sc))
	}
	// harness bodies of other properties that exercise further concurrent API
	// combinations (concurrent Pings, Close vs reader, writers vs Close frames)
	extra := func(list []scenario, keep func(name string) bool) {
		for _, sc := range list {
			if !keep(sc.Name) {
				continue
			}
			sc.Group = ""
			sc.Cfg.P = 1
			if tier == "thorough" {
				sc.Cfg.P = 2
			}
			sc.Name = "x-" + sc.Name
			out = append(out, raceWrap("C05", sc))
		}
	}
	extra(c15Scenarios(tier), func(n string) bool {
		return strings.HasPrefix(n, "inorder/k2/") || strings.HasPrefix(n, "asap/k2/loop")
	})
	extra(c06Scenarios(tier), func(n string) bool {
		return strings.HasPrefix(n, "echo-reader-eof/") || strings.HasPrefix(n, "echo-closeread/")
	})
	extra(c16Scenarios(tier), func(n string) bool { return strings.HasPrefix(n, "peer-w2/") || strings.HasPrefix(n, "closeread-w1/") })
	// closers racing the first CloseRead call (what CloseRead publishes for Close's wait)
	for _, k := range []connCfg{{Client: false}, {Client: true}} {
		sc := scenario{Name: "x-race-closeread/Close+CloseNow/" + k.String(), Cfg: explore.Config{P: 0, Horizon: 120e9}, Setup: c20ConcSetup(k, "CloseNow", false)}
		if tier == "thorough" {
			sc.Cfg.P = 1
		}
		out = append(out, raceWrap("C05", sc))
	}
	// two connections read through wsjson at the same time (the pooled buffer of one must not be in use by the other)
	extra(c19Scenarios(tier), func(n string) bool { return strings.HasPrefix(n, "pool-none/") || strings.HasPrefix(n, "pool-valid/") })
	return out
}

// c02Scenarios: the emitted-stream rules of C02 (masking with a fresh key per
// frame, fragment grammar, control frames) under concurrent callers: the
// pinger/writer/closer harness bodies of C05 with the wire oracle reported
// under C02.
func c02Scenarios(tier string) []scenario {
	var scs []scenario
	p := 1
	if tier == "thorough" {
		p = 2
	}
	// a writer gives up waiting for the message lock while another goroutine is in the
	// middle of a compressed message that has already produced deflate output
	// (more than one 64 KiB block of input): the message must still inflate to what was written
	for _, k := range []connCfg{{Client: false, Flate: true, Thr: 1}, {Client: true, Flate: true, Thr: 1, CNCT: true, SNCT: true}} {
		prm := c05Params{Prop: "C02", Name: "WC-cancel1-big", K: k, Closer: "cancel1", Writers: [][]wop{{{Stream: true, Chunks: []int{70000, 10}}}, {{Text: true, Chunks: []int{10}}}}}
		scs = append(scs, scenario{Name: prm.Name + "/" + k.String(), Cfg: explore.Config{P: p, Horizon: 60e9}, Setup: c05Setup(prm)})
	}
	// a compressed Write that emits two frames before it ends (two deflate blocks) and whose
	// context is cancelled between them, then another Write: a message that was begun and
	// abandoned must never be followed by the first frame of another message
	// (threshold 64: the second message is small enough to go out uncompressed, so a compressor
	// left broken by the abandoned message cannot stop it)
	for _, k := range []connCfg{{Client: false, Flate: true, Thr: 64}, {Client: true, Flate: true, Thr: 64, CNCT: true, SNCT: true}} {
		prm := c05Params{Prop: "C02", Name: "WC-cancel0-huge", K: k, Closer: "cancel0", Sparse: true, Writers: [][]wop{{{Chunks: []int{140000}}}, {{Text: true, Chunks: []int{10}}}}}
		scs = append(scs, scenario{Name: prm.Name + "/" + k.String(), Cfg: explore.Config{P: p, Horizon: 60e9}, Setup: c05Setup(prm)})
	}
	for _, k := range []connCfg{{Client: true}, {Client: false}, {Client: true, Flate: true, Thr: 1}} {
		for _, prm := range []c05Params{
			{Prop: "C02", Name: "WP", K: k, Writers: [][]wop{{{Stream: true, Chunks: []int{5, 5}}}}, Pinger: true},
			{Prop: "C02", Name: "WC-Close", K: k, Closer: "Close", Writers: [][]wop{{{Chunks: []int{10}}}, {{Stream: true, Text: true, Chunks: []int{5, 5}}}}},
			{Prop: "C02", Name: "WC-cancel0", K: k, Closer: "cancel0", Writers: [][]wop{{{Stream: true, Chunks: []int{5, 5}}}, {{Text: true, Chunks: []int{10}}}}},
		} {
			scs = append(scs, scenario{Name: prm.Name + "/" + k.String(), Cfg: explore.Config{P: p, Horizon: 60e9}, Setup: c05Setup(prm)})
		}
	}
	return scs
}

// c01Scenarios: round-trip fidelity (every message on the wire equals exactly
// one written message, acknowledged writes are present) while other goroutines
// use the connection: a streaming writer whose first chunk fills the write
// buffer exactly up to the next frame header, against a pinger.
func c01Scenarios(tier string) []scenario {
	var scs []scenario
	p := 1
	if tier == "thorough" {
		p = 2
	}
	// a compressed Write that has frames on the wire when its context ends, then another Write:
	// a message whose Write returned nil is received by the peer
	for _, k := range []connCfg{{Client: false, Flate: true, Thr: 64}, {Client: true, Flate: true, Thr: 64, CNCT: true, SNCT: true}} {
		prm := c05Params{Prop: "C01", Name: "WC-cancel0-huge", K: k, Closer: "cancel0", Sparse: true, Writers: [][]wop{{{Chunks: []int{140000}}}, {{Text: true, Chunks: []int{10}}}}}
		scs = append(scs, scenario{Name: prm.Name + "/" + k.String(), Cfg: explore.Config{P: p, Horizon: 60e9}, Setup: c05Setup(prm)})
	}
	// a second message is written while a compressed message of more than one deflate
	// block is being streamed (the held-back tail of the stream belongs to the open message)
	for _, k := range []connCfg{{Client: false, Flate: true, Thr: 1}, {Client: true, Flate: true, Thr: 1, CNCT: true, SNCT: true}} {
		prm := c05Params{Prop: "C01", Name: "W2-big", K: k, Writers: [][]wop{{{Stream: true, Chunks: []int{70000, 10}}}, {{Text: true, Chunks: []int{10}}}}}
		scs = append(scs, scenario{Name: prm.Name + "/" + k.String(), Cfg: explore.Config{P: p, Horizon: 60e9}, Setup: c05Setup(prm)})
	}
	// a streamed message is abandoned (its context ends before Close) and the same
	// goroutine goes on to write the next message: whatever the abandoned Close and the
	// next Write answer, the peer never receives a message that was not written
	for _, k := range []connCfg{{Client: false, Flate: true, Thr: 1}, {Client: true, Flate: true, Thr: 1, CNCT: true, SNCT: true}, {Client: true}, {Client: false}} {
		prm := c05Params{Prop: "C01", Name: "WA", K: k, Writers: [][]wop{{{Stream: true, Chunks: []int{600}, Abandon: true}, {Text: true, Chunks: []int{700}}}}}
		scs = append(scs, scenario{Name: prm.Name + "/" + k.String(), Cfg: explore.Config{P: p, Horizon: 60e9}, Setup: c05Setup(prm)})
	}
	// three writers on a compressed connection (two preemptions: a writer that has just
	// finished, one in the middle of its message and one waiting for the message lock)
	for _, k := range []connCfg{{Client: false, Flate: true, Thr: 1}, {Client: true, Flate: true, Thr: 1}} {
		prm := c05Params{Prop: "C01", Name: "W3", K: k, Writers: [][]wop{{{Chunks: []int{10}}, {Chunks: []int{11}}}, {{Text: true, Chunks: []int{12}}}, {{Stream: true, Chunks: []int{6, 7}}}}}
		scs = append(scs, scenario{Name: prm.Name + "/" + k.String(), Cfg: explore.Config{P: 2, Horizon: 60e9}, Setup: c05Setup(prm)})
	}
	// a Ping, and the Pong answering the peer's Ping, take the frame lock between the
	// frames of a compressed message (every compressed message has at least two frames)
	for _, k := range []connCfg{{Client: false, Flate: true, Thr: 1}, {Client: true, Flate: true, Thr: 1, CNCT: true, SNCT: true}} {
		prm := c05Params{Prop: "C01", Name: "WP-flate", K: k, Writers: [][]wop{{{Stream: true, Text: true, Chunks: []int{300, 300}}, {Chunks: []int{20}}}}, Pinger: true}
		scs = append(scs, scenario{Name: prm.Name + "/" + k.String(), Cfg: explore.Config{P: p, Horizon: 60e9}, Setup: c05Setup(prm)})
	}
	for _, k := range []connCfg{{Client: true}, {Client: false}} {
		for _, prm := range []c05Params{
			{Prop: "C01", Name: "WP-4088", K: k, Writers: [][]wop{{{Stream: true, Chunks: []int{4088, 100}}}}, Pinger: true},
			{Prop: "C01", Name: "WP-8182", K: k, Writers: [][]wop{{{Stream: true, Chunks: []int{4090, 4092, 50}}}}, Pinger: true},
		} {
			scs = append(scs, scenario{Name: prm.Name + "/" + k.String(), Cfg: explore.Config{P: p, Horizon: 60e9}, Setup: c05Setup(prm)})
		}
	}
	return scs
}

// c03Scenarios: an inbound frame whose header arrives in two pieces while other
// goroutines write (what the endpoint reads equals what the peer sent,
// whatever else the connection is doing).
func c03Scenarios(tier string) []scenario {
	var scs []scenario
	p := 1
	if tier == "thorough" {
		p = 2
	}
	for _, k := range []connCfg{{Client: true}, {Client: false}, {Client: false, Flate: true, Thr: 1}} {
		for _, n := range []int{300, 70000} {
			prm := c05Params{Prop: "C03", Name: fmt.Sprintf("WI-%d", n), K: k, Inbound: n, Writers: [][]wop{{{Chunks: []int{300}}}, {{Text: true, Chunks: []int{5}}}}}
			scs = append(scs, scenario{Name: prm.Name + "/" + k.String(), Cfg: explore.Config{P: p, Horizon: 60e9}, Setup: c05Setup(prm)})
		}
	}
	return scs
}

// c14ConcScenarios: what the peer decodes while two goroutines write on a compressed
// connection (a second Write arrives while a >64 KiB compressed stream is open): both
// messages inflate, with the negotiated parameters, to what was written.
func c14ConcScenarios(tier string) []scenario {
	var scs []scenario
	p := 1
	if tier == "thorough" {
		p = 2
	}
	for _, k := range []connCfg{{Client: false, Flate: true, Thr: 1}, {Client: true, Flate: true, Thr: 1, CNCT: true, SNCT: true}, {Client: true, Flate: true, Thr: 1, CNCT: true}} {
		prm := c05Params{Prop: "C14", Name: "W2-big", K: k, Writers: [][]wop{{{Stream: true, Chunks: []int{70000, 10}}}, {{Text: true, Chunks: []int{10}}}}}
		scs = append(scs, scenario{Name: prm.Name + "/" + k.String(), Cfg: explore.Config{P: p, Horizon: 60e9}, Setup: c05Setup(prm)})
	}
	// two writers whose second messages repeat their first on connections where the writing
	// side promised to reset its compressor (both asymmetric agreements and the symmetric one):
	// the peer decodes every message with an empty window
	for _, k := range []connCfg{{Client: true, Flate: true, Thr: 1, CNCT: true}, {Client: false, Flate: true, Thr: 1, SNCT: true}, {Client: true, Flate: true, Thr: 1, CNCT: true, SNCT: true}} {
		// (the peer reads nothing until 1 s: the second writer queues for the message lock while the
		// first is parked in the transport, without a preemption)
		prm := c05Params{Prop: "C14", Name: "W3r", K: k, SameContent: true, Window: 8, DrainAt: time.Second, Writers: [][]wop{{{Chunks: []int{300}}}, {{Text: true, Chunks: []int{302}}}}}
		scs = append(scs, scenario{Name: prm.Name + "/" + k.String(), Cfg: explore.Config{P: 2, Horizon: 60e9}, Setup: c05Setup(prm)})
	}
	// a Ping of the endpoint and the Pong answering the peer's Ping go out between the frames of a
	// compressed message: the peer still decodes everything (control frames are never compressed
	// and do not disturb the message's compression state)
	for _, k := range []connCfg{{Client: false, Flate: true, Thr: 1}, {Client: true, Flate: true, Thr: 1, CNCT: true, SNCT: true}} {
		prm := c05Params{Prop: "C14", Name: "WP-flate", K: k, Writers: [][]wop{{{Stream: true, Text: true, Chunks: []int{300, 300}}, {Chunks: []int{20}}}}, Pinger: true}
		scs = append(scs, scenario{Name: prm.Name + "/" + k.String(), Cfg: explore.Config{P: p, Horizon: 60e9}, Setup: c05Setup(prm)})
	}
	return scs
}

// c04ConcScenarios: the same inbound message, but the transport ends inside its
// payload: whatever the writers do meanwhile, the read fails.
func c04ConcScenarios(tier string) []scenario {
	var scs []scenario
	p := 1
	if tier == "thorough" {
		p = 2
	}
	for _, k := range []connCfg{{Client: true}, {Client: false}} {
		for _, n := range []int{300, 512} {
			for _, cut := range []int{1, n / 2} {
				prm := c05Params{Prop: "C04", Name: fmt.Sprintf("WI-%d-cut%d", n, cut), K: k, Inbound: n, InboundCut: cut, Closer: "transport-end", Writers: [][]wop{{{Chunks: []int{300}}}, {{Text: true, Chunks: []int{5}}}}}
				scs = append(scs, scenario{Name: prm.Name + "/" + k.String(), Cfg: explore.Config{P: p, Horizon: 60e9}, Setup: c05Setup(prm)})
			}
		}
	}
	return scs
}

// c15GiveUpScenarios: a frame of another goroutine is stuck half way in the transport, a Ping
// whose context ends gives up waiting for the frame lock, and a further Ping with a healthy
// context follows: control frames never land inside another frame (C15: the Ping that reaches
// the peer, and the Pong it answers with, carry their payload intact).
func c15GiveUpScenarios(tier string) []scenario {
	var scs []scenario
	p := 1
	if tier == "thorough" {
		p = 2
	}
	for _, k := range []connCfg{{Client: false}, {Client: true}} {
		prm := c05Params{Prop: "C15", Name: "WG", K: k, Window: 60, DrainAt: time.Second, GiveUp: true, Writers: [][]wop{{{Chunks: []int{100}}}}}
		scs = append(scs, scenario{Name: prm.Name + "/" + k.String(), Cfg: explore.Config{P: p, Horizon: 60e9}, Setup: c05Setup(prm)})
	}
	return scs
}

func init() {
	fw.Register(fw.Part{Prop: "C15", Name: "s.giveup",
		Units:  func(tier string) []fw.Unit { return scenarioUnits(c15GiveUpScenarios(tier)) },
		Replay: replayFn(c15GiveUpScenarios),
	})
	fw.Register(fw.Part{Prop: "C14", Name: "s.conc",
		Units:  func(tier string) []fw.Unit { return scenarioUnits(c14ConcScenarios(tier)) },
		Replay: replayFn(c14ConcScenarios),
	})
	fw.Register(fw.Part{Prop: "C04", Name: "s.conc",
		Units:  func(tier string) []fw.Unit { return scenarioUnits(c04ConcScenarios(tier)) },
		Replay: replayFn(c04ConcScenarios),
	})
	fw.Register(fw.Part{Prop: "C03", Name: "s.conc",
		Units:  func(tier string) []fw.Unit { return scenarioUnits(c03Scenarios(tier)) },
		Replay: replayFn(c03Scenarios),
	})
	fw.Register(fw.Part{Prop: "C01", Name: "s.conc",
		Units:  func(tier string) []fw.Unit { return scenarioUnits(c01Scenarios(tier)) },
		Replay: replayFn(c01Scenarios),
	})
	fw.Register(fw.Part{Prop: "C02", Name: "s.wire",
		Units:  func(tier string) []fw.Unit { return scenarioUnits(c02Scenarios(tier)) },
		Replay: replayFn(c02Scenarios),
	})
	fw.Register(fw.Part{Prop: "C05R", Name: "s.race",
		Units:  func(tier string) []fw.Unit { return scenarioUnits(c05RaceScenarios(tier)) },
		Replay: replayFn(c05RaceScenarios),
	})
	fw.Register(fw.Part{Prop: "C05", Name: "s.conc",
		Units:  func(tier string) []fw.Unit { return scenarioUnits(c05Scenarios(tier)) },
		Replay: replayFn(c05Scenarios),
	})
}
