package sched

import (
	"errors"
	"fmt"
	"io"
	"net"
	"time"

	"nhooyr.io/websocket"
	"verif/engine/explore"
	"verif/engine/vctx"
	"verif/engine/vpipe"
	"verif/engine/vs"
	"verif/engine/vtime"
	"verif/fw"
	"verif/refws/frame"
)

// C06 (schedule part): (a) whoever reads the peer's echo, Close returns nil
// when the peer echoed the code; the reader's error carries the code. (b) any
// Close/CloseNow call that starts after some Close/CloseNow has returned gets
// an error matching net.ErrClosed.

type c06Params struct {
	Name    string
	K       connCfg
	Mode    string // echo-reader | echo-closeread | echo-noreader | orders
	Pinger  bool
	PeerEOF bool // the peer ends its transport side right after the echo
	Stalled bool // simultaneous: another goroutine's data frame is stuck in the transport until 1 s
}

type c06Call struct {
	name       string
	start, end int
	err        error
	done       bool
}

type c06State struct {
	p          *vpipe.Pipe
	closeErr   error
	closed     bool
	readErr    error
	readDone   bool
	echoed     bool
	calls      []*c06Call
	clock      int
	afterClose []string // API calls that succeeded on a closed connection
}

func c06Setup(prm c06Params) func(c *fw.Ctx, name string) explore.Setup {
	return func(c *fw.Ctx, name string) explore.Setup {
		return func(w *vs.World) func(bool) {
			st := &c06State{p: vpipe.New()}
			k := prm.K
			w.GoHarness("main", true, func() {
				conn := mkConn(st.p, k)
				bg := vctx.Background()
				// the peer echoes the Close frame it sees with the same payload
				if prm.Mode != "orders" && prm.Mode != "orders-closeread" && prm.Mode != "simultaneous" {
					w.GoHarness("peer", false, c06Peer(st, k, prm))
				}
				_ = func() {
					var cf frame.Frame
					if !st.p.WaitOut("close-frame", func(out []byte) bool {
						f, ok := firstClose(out)
						cf = f
						return ok
					}) {
						return
					}
					st.echoed = true
					st.p.Send(peerFrame(k, frame.Frame{Fin: true, Opcode: frame.OpClose, Payload: cf.Payload}))
					if prm.PeerEOF {
						st.p.SendEOF()
					}
				}
				switch prm.Mode {
				case "echo-reader":
					w.GoHarness("reader", true, func() {
						for {
							_, r, err := conn.Reader(bg)
							if err != nil {
								st.readErr = err
								break
							}
							if _, err = io.Copy(io.Discard, r); err != nil {
								st.readErr = err
								break
							}
						}
						st.readDone = true
					})
				case "echo-closeread":
					conn.CloseRead(bg)
				}
				if prm.Pinger && prm.Mode != "orders-closeread" {
					w.GoHarness("pinger", false, func() { conn.Ping(bg) })
				}
				if prm.Mode == "simultaneous" {
					// both ends close at the same time: the peer sends its own Close(4000) without
					// waiting for ours; a reader (or CloseRead) is reading; the local Close runs
					if prm.PeerEOF {
						conn.CloseRead(bg)
					} else {
						w.GoHarness("reader", false, func() {
							for {
								if _, _, err := conn.Read(bg); err != nil {
									return
								}
							}
						})
					}
					if prm.Stalled {
						// a data frame of another goroutine is stuck in the transport until 1 s: the local
						// Close frame and the echo of the peer's both wait for the frame lock meanwhile
						st.p.Window = 60
						w.GoHarness("writer", false, func() { conn.Write(bg, websocket.MessageBinary, fill(0xAB, 100)) })
						w.GoHarness("drainer", false, func() {
							vtime.Sleep(time.Second)
							st.p.SetWindow(0)
						})
						st.p.WaitOut("first-bytes", func(out []byte) bool { return len(out) > 0 })
					}
					w.GoHarness("peer-closer", false, func() { st.p.Send(peerClose(k, 4000, "bye")) })
					w.GoHarness("closer", true, func() {
						st.closeErr = conn.Close(websocket.StatusNormalClosure, "local")
						st.closed = true
					})
					return
				}
				if prm.Mode == "orders-closeread" {
					// the connection is closed (by Close or CloseNow), CloseRead is called on it
					// for the first time, then Close and CloseNow once more
					call := func(name string, f func() error) func() {
						cl := &c06Call{name: name}
						st.calls = append(st.calls, cl)
						return func() {
							st.clock++
							cl.start = st.clock
							cl.err = f()
							st.clock++
							cl.end = st.clock
							cl.done = true
						}
					}
					first := call("CloseNow", func() error { return conn.CloseNow() })
					if prm.PeerEOF {
						first = call("Close", func() error { return conn.Close(websocket.StatusNormalClosure, "") })
					}
					if prm.Pinger {
						// the connection was closed underneath the application first: the peer's
						// Close frame was read (variant with PeerEOF: a read context expired)
						if prm.PeerEOF {
							rctx, cancel := vctx.WithTimeout(bg, time.Second)
							conn.Read(rctx)
							cancel()
						} else {
							st.p.Send(peerClose(k, 1001, "going"))
							conn.Read(bg)
						}
						first = call("CloseNow", func() error { return conn.CloseNow() })
					}
					lateClose := call("Close-after-CloseRead", func() error { return conn.Close(websocket.StatusNormalClosure, "") })
					lateCloseNow := call("CloseNow-after-CloseRead", func() error { return conn.CloseNow() })
					w.GoHarness("seq", true, func() {
						first()
						conn.CloseRead(bg)
						lateClose()
						lateCloseNow()
					})
					return
				}
				if prm.Mode == "orders" {
					call := func(name string, f func() error) func() {
						cl := &c06Call{name: name}
						st.calls = append(st.calls, cl)
						return func() {
							st.clock++
							cl.start = st.clock
							cl.err = f()
							st.clock++
							cl.end = st.clock
							cl.done = true
						}
					}
					w.GoHarness("close1", true, call("Close", func() error { return conn.Close(websocket.StatusNormalClosure, "") }))
					w.GoHarness("closenow", true, call("CloseNow", func() error { return conn.CloseNow() }))
					w.GoHarness("close2", true, call("Close", func() error { return conn.Close(websocket.StatusGoingAway, "x") }))
					late := call("CloseNow-late", func() error { return conn.CloseNow() })
					w.GoHarness("late", true, func() {
						// starts only after some call has returned
						vs.BlockOn(st.p.RObj(), "wait-first-return", func() bool {
							for _, cl := range st.calls {
								if cl.done {
									return true
								}
							}
							return false
						}, func() {})
						late()
						// once the connection is closed every further Read, Write, Writer and Ping fails
						if _, err := conn.Writer(bg, websocket.MessageText); err == nil {
							st.afterClose = append(st.afterClose, "Writer")
						}
						if err := conn.Write(bg, websocket.MessageText, []byte("x")); err == nil {
							st.afterClose = append(st.afterClose, "Write")
						}
						if err := conn.Ping(bg); err == nil {
							st.afterClose = append(st.afterClose, "Ping")
						}
						if _, _, err := conn.Read(bg); err == nil {
							st.afterClose = append(st.afterClose, "Read")
						}
					})
					return
				}
				w.GoHarness("closer", true, func() {
					st.closeErr = conn.Close(websocket.StatusNormalClosure, "bye")
					st.closed = true
				})
			})
			return func(complete bool) {
				if !complete {
					return
				}
				c06Oracle(c, w, name, prm, st)
			}
		}
	}
}

func c06Peer(st *c06State, k connCfg, prm c06Params) func() {
	return func() {
		var cf frame.Frame
		if !st.p.WaitOut("close-frame", func(out []byte) bool {
			f, ok := firstClose(out)
			cf = f
			return ok
		}) {
			return
		}
		st.echoed = true
		st.p.Send(peerFrame(k, frame.Frame{Fin: true, Opcode: frame.OpClose, Payload: cf.Payload}))
		if prm.PeerEOF {
			st.p.SendEOF()
		}
	}
}

func c06Oracle(c *fw.Ctx, w *vs.World, name string, prm c06Params, st *c06State) {
	locus := prm.Mode + "/" + prm.K.String()
	if w.Panic != "" {
		violate(c, w, name, "C06/panic/"+locus, w.Panic)
		return
	}
	if w.Deadlock || w.HorizonHit {
		c.OutcomeStr(name + "|stuck") // termination is C09's subject
		return
	}
	if prm.Mode == "simultaneous" {
		_, sent := firstClose(st.p.Out)
		c.OutcomeStr(fmt.Sprintf("%s|sent=%v|err=%v", name, sent, st.closeErr != nil))
		if st.closed && !sent {
			violate(c, w, name, "C06/no-close-frame-sent/simultaneous/"+prm.K.String(), fmt.Sprintf("the peer closed with 4000 while the local Close(1000) was running; the connection was read and writable, yet no Close frame at all was sent (neither the local one nor an echo); Close returned %v", st.closeErr))
			return
		}
		if cf, ok := firstClose(st.p.Out); ok {
			// the Close frame is the local one, with exactly the code and reason given to Close, or
			// the echo of the peer's, with exactly the peer's
			got := fmt.Sprintf("%d/%q", closeCodeOf(cf), string(cf.Payload[min(2, len(cf.Payload)):]))
			if got != `1000/"local"` && got != `4000/"bye"` {
				violate(c, w, name, "C06/close-frame-differs/simultaneous/"+prm.K.String(), fmt.Sprintf("Close(1000, \"local\") ran while the peer's Close (4000, \"bye\") arrived; the Close frame on the wire carries %s, which is neither", got))
			}
		}
		return
	}
	if prm.Mode == "orders" || prm.Mode == "orders-closeread" {
		out := ""
		for _, cl := range st.calls {
			out += fmt.Sprintf("%s:%v ", cl.name, cl.err == nil)
			for _, other := range st.calls {
				if other != cl && other.done && cl.done && cl.start > other.end {
					if !errors.Is(cl.err, net.ErrClosed) {
						violate(c, w, name, "C06/late-call-not-ErrClosed/"+cl.name+"/"+prm.K.String(), fmt.Sprintf("%s started after %s had returned, but returned %v (want an error matching net.ErrClosed)", cl.name, other.name, cl.err))
						return
					}
				}
			}
		}
		c.OutcomeStr(name + "|" + out)
		for _, api := range st.afterClose {
			violate(c, w, name, "C06/after-close/"+api+"-succeeds/"+prm.K.String(), fmt.Sprintf("after Close/CloseNow had returned, %s returned nil", api))
			return
		}
		return
	}
	// did the connection's own Close frame get echoed with the same code?
	cf, sent := firstClose(st.p.Out)
	c.OutcomeStr(fmt.Sprintf("%s|close=%v|echoed=%v|read=%v", name, st.closeErr == nil, st.echoed, websocket.CloseStatus(st.readErr)))
	if sent && st.echoed && closeCodeOf(cf) == 1000 && st.closed && st.closeErr != nil {
		violate(c, w, name, "C06/close-error-despite-echo/"+locus, fmt.Sprintf("the peer echoed the Close frame (code 1000) but Close returned: %v", st.closeErr))
		return
	}
	if prm.Mode == "echo-reader" && st.readDone && sent && st.echoed {
		// the reader either saw the echo (CloseError 1000) or lost the race to Close (closed error)
		if cs := websocket.CloseStatus(st.readErr); cs != -1 && cs != websocket.StatusNormalClosure {
			violate(c, w, name, "C06/reader-close-error-differs/"+locus, fmt.Sprintf("reader error carries status %d, the peer echoed 1000: %v", cs, st.readErr))
		}
	}
}

func c06Scenarios(tier string) []scenario {
	var scs []scenario
	P := func(p int) explore.Config { return explore.Config{P: p, T: 0, E: 0, Horizon: 120e9} }
	for _, k := range []connCfg{{Client: false}, {Client: true}} {
		for _, eof := range []bool{true, false} {
			sfx := ""
			if eof {
				sfx = "-eof"
			}
			for _, m := range []string{"echo-reader", "echo-closeread", "echo-noreader"} {
				prm := c06Params{Name: m + sfx, K: k, Mode: m, PeerEOF: eof}
				th := P(-1)
				if eof && m != "echo-noreader" {
					// with the peer's EOF as one more event all interleavings did not finish in
					// 20 minutes (4.9 M executions): bounded at 3 preemptions instead
					th = P(3)
				}
				scs = append(scs, scenario{Name: prm.Name + "/" + k.String(), Cfg: tierCfg(tier, P(2), th), Setup: c06Setup(prm)})
			}
			prm := c06Params{Name: "echo-closeread-ping" + sfx, K: k, Mode: "echo-closeread", PeerEOF: eof, Pinger: true}
			scs = append(scs, scenario{Name: prm.Name + "/" + k.String(), Cfg: tierCfg(tier, P(1), P(2)), Setup: c06Setup(prm)})
		}
		for _, cr := range []bool{false, true} {
			for _, stalled := range []bool{false, true} {
				prm := c06Params{Name: fmt.Sprintf("simultaneous-closeread=%v-stalled=%v", cr, stalled), K: k, Mode: "simultaneous", PeerEOF: cr, Stalled: stalled}
				if stalled {
					scs = append(scs, scenario{Name: prm.Name + "/" + k.String(), Cfg: explore.Config{P: 1, Horizon: 60e9}, Setup: c06Setup(prm)})
				}
			}
			prm := c06Params{Name: fmt.Sprintf("simultaneous-closeread=%v", cr), K: k, Mode: "simultaneous", PeerEOF: cr}
			scs = append(scs, scenario{Name: prm.Name + "/" + k.String(), Cfg: tierCfg(tier, P(2), P(-1)), Setup: c06Setup(prm)})
		}
		prm := c06Params{Name: "orders", K: k, Mode: "orders"}
		scs = append(scs, scenario{Name: prm.Name + "/" + k.String(), Cfg: tierCfg(tier, P(1), P(2)), Setup: c06Setup(prm)})
		for _, viaClose := range []bool{false, true} {
			prm := c06Params{Name: fmt.Sprintf("orders-closeread-%v", viaClose), K: k, Mode: "orders-closeread", PeerEOF: viaClose}
			scs = append(scs, scenario{Name: prm.Name + "/" + k.String(), Cfg: tierCfg(tier, P(2), P(-1)), Setup: c06Setup(prm)})
			// closed underneath (peer Close read / read context expired), then CloseNow, CloseRead, Close, CloseNow
			prm = c06Params{Name: fmt.Sprintf("orders-closed-underneath-%v", viaClose), K: k, Mode: "orders-closeread", PeerEOF: viaClose, Pinger: true}
			scs = append(scs, scenario{Name: prm.Name + "/" + k.String(), Cfg: tierCfg(tier, P(2), P(-1)), Setup: c06Setup(prm)})
		}
	}
	return scs
}

func init() {
	fw.Register(fw.Part{Prop: "C06", Name: "s.close",
		Units:  func(tier string) []fw.Unit { return scenarioUnits(c06Scenarios(tier)) },
		Replay: replayFn(c06Scenarios),
	})
}

// A slow close handshake that is still within the documented bounds: the peer's
// receive window is closed for 3.5 s (the Close frame takes that long to get out:
// less than the 5 s allowed for writing it) and the peer echoes 2.5 s after it has
// the frame (less than the 5 s allowed for waiting). Close returns nil.
func c06SlowSetup(k connCfg, writeDelay, echoDelay time.Duration) func(c *fw.Ctx, name string) explore.Setup {
	return func(c *fw.Ctx, name string) explore.Setup {
		return func(w *vs.World) func(bool) {
			p := vpipe.New()
			p.Window = 1
			var err error
			done := false
			var t0, t1 int64
			w.GoHarness("main", true, func() {
				conn := mkConn(p, k)
				w.GoHarness("peer", false, func() {
					vtime.Sleep(writeDelay)
					p.SetWindow(0)
					var cf frame.Frame
					if !p.WaitOut("close-frame", func(out []byte) bool {
						f, ok := firstClose(out)
						cf = f
						return ok
					}) {
						return
					}
					vtime.Sleep(echoDelay)
					p.Send(peerFrame(k, frame.Frame{Fin: true, Opcode: frame.OpClose, Payload: cf.Payload}))
				})
				t0 = w.Now
				err = conn.Close(websocket.StatusNormalClosure, "done")
				t1 = w.Now
				done = true
			})
			return func(complete bool) {
				if !complete {
					return
				}
				role := k.String()
				locus := fmt.Sprintf("write-%v-echo-%v/%s", writeDelay, echoDelay, role)
				if w.Panic != "" {
					violate(c, w, name, "C06/panic/"+locus, w.Panic)
					return
				}
				c.OutcomeStr(fmt.Sprintf("%s|done=%v|err=%v|dt=%dms", name, done, err != nil, (t1-t0)/1e6))
				if !done {
					violate(c, w, name, "C06/close-never-returns/"+locus, fmt.Sprintf("stuck %v", stuckTasks(w)))
					return
				}
				if err != nil {
					violate(c, w, name, "C06/close-error-although-echoed/"+locus, fmt.Sprintf("the Close frame took %v to get out and the peer echoed it %v later, both within the documented 5 s; Close returned %v after %v", writeDelay, echoDelay, err, time.Duration(t1-t0)))
				}
			}
		}
	}
}

// The receiving side of a slow handshake: the endpoint reads with a context of its own that ends at
// readCtx; the peer's Close frame arrives at 150 ms; the endpoint's transport takes nothing until
// 150 ms + echoTakes (within the 5 s allowed for writing a Close frame). The read reports the peer's
// code and reason and the echo reaches the wire, whether or not the reading call's context ends in
// between: the echo is not part of that call.
func c06SlowEchoSetup(k connCfg, readCtx, echoTakes time.Duration) func(c *fw.Ctx, name string) explore.Setup {
	return func(c *fw.Ctx, name string) explore.Setup {
		return func(w *vs.World) func(bool) {
			p := vpipe.New()
			p.Window = 1
			var err error
			done := false
			w.GoHarness("main", true, func() {
				conn := mkConn(p, k)
				w.GoHarness("peer", false, func() {
					vtime.Sleep(150 * time.Millisecond)
					p.Send(peerClose(k, 1000, "bye"))
					vtime.Sleep(echoTakes)
					p.SetWindow(0)
				})
				ctx, cancel := vctx.WithTimeout(vctx.Background(), readCtx)
				_, _, err = conn.Read(ctx)
				cancel()
				done = true
				vtime.Sleep(6 * time.Second)
				conn.CloseNow()
			})
			return func(complete bool) {
				if !complete {
					return
				}
				locus := fmt.Sprintf("slow-echo/read-ctx-%v-echo-%v/%s", readCtx, echoTakes, k.String())
				if w.Panic != "" {
					violate(c, w, name, "C06/panic/"+locus, w.Panic)
					return
				}
				f, echoed := firstClose(p.Out)
				c.OutcomeStr(fmt.Sprintf("%s|done=%v|status=%d|echoed=%v", name, done, websocket.CloseStatus(err), echoed))
				if !done {
					violate(c, w, name, "C06/read-never-returns/"+locus, fmt.Sprintf("stuck %v", stuckTasks(w)))
					return
				}
				if readCtx > 150*time.Millisecond && websocket.CloseStatus(err) != 1000 {
					violate(c, w, name, "C06/receiver/close-error-differs/"+locus, fmt.Sprintf("the peer's Close frame (1000, \"bye\") arrived at 150 ms, well before the read's context ended (%v); the read returned %v", readCtx, err))
					return
				}
				if websocket.CloseStatus(err) == 1000 && (!echoed || closeCodeOf(f) != 1000) {
					violate(c, w, name, "C06/receiver/close-not-echoed/"+locus, fmt.Sprintf("the read reported the peer's Close frame (1000); the echo needed %v to get out (5 s are allowed) but the wire carries %s", echoTakes, describeFrames(connFrames(p.Out))))
				}
			}
		}
	}
}

func c06SlowScenarios(tier string) []scenario {
	var scs []scenario
	cfg := explore.Config{P: 1, T: 1, Horizon: 60e9}
	if tier == "thorough" {
		cfg = explore.Config{P: 2, T: 2, Horizon: 60e9}
	}
	for _, k := range []connCfg{{Client: false}, {Client: true}} {
		for _, d := range [][2]time.Duration{{3500 * time.Millisecond, 2500 * time.Millisecond}, {4900 * time.Millisecond, 4900 * time.Millisecond}, {0, 4900 * time.Millisecond}} {
			scs = append(scs, scenario{Name: fmt.Sprintf("slow/%v+%v/%s", d[0], d[1], k.String()), Cfg: cfg, Setup: c06SlowSetup(k, d[0], d[1])})
		}
		for _, d := range [][2]time.Duration{{300 * time.Millisecond, 400 * time.Millisecond}, {10 * time.Second, 400 * time.Millisecond}, {300 * time.Millisecond, 4500 * time.Millisecond}, {550 * time.Millisecond, 400 * time.Millisecond}} {
			scs = append(scs, scenario{Name: fmt.Sprintf("slow-echo/%v+%v/%s", d[0], d[1], k.String()), Cfg: cfg, Setup: c06SlowEchoSetup(k, d[0], d[1])})
		}
	}
	return scs
}

func init() {
	fw.Register(fw.Part{Prop: "C06", Name: "s.slow",
		Units:  func(tier string) []fw.Unit { return scenarioUnits(c06SlowScenarios(tier)) },
		Replay: replayFn(c06SlowScenarios),
	})
}
