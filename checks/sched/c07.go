package sched

import (
	"bytes"
	"compress/flate"
	"encoding/base64"
	"fmt"
	"io"
	"strings"
	"time"

	"nhooyr.io/websocket"
	"nhooyr.io/websocket/wsjson"
	"verif/engine/explore"
	"verif/engine/vctx"
	"verif/engine/vpipe"
	"verif/engine/vs"
	"verif/engine/vsync"
	"verif/engine/vtime"
	"verif/fw"
	"verif/refws/deflate"
	"verif/refws/frame"
)

// C07: bytes returned by reads on a connection are bytes sent on that same
// connection; pooled buffers and decompressors are never shared with, or
// observed through, another live connection. Under the scheduler sync.Pool is
// a LIFO stack, so "the next Get returns the object just Put" is certain and a
// use-after-put shows in the very next step.

type c07Conn struct {
	tag    byte
	p      *vpipe.Pipe
	c      *websocket.Conn
	r      io.Reader // current message reader
	last   io.Reader // last reader that reached EOF
	got    int       // bytes of the current message handed over so far
	msgLen int
	closed bool
	// starts: for every frame of the peer's original stream, the number of bytes
	// from its first byte to the end of the stream (frames injected later do not
	// change these distances)
	starts []int
}

// inject queues a frame of the peer at the next frame boundary of what the
// connection has not pulled from the transport yet (the transport hands out a
// few bytes per read, so this is the frame boundary right after the frame the
// library is reading).
func (x *c07Conn) inject(fr []byte) {
	rem := len(x.p.In)
	at := rem // default: after everything
	for _, d := range x.starts {
		if d <= rem && rem-d < at {
			at = rem - d
		}
	}
	in := make([]byte, 0, rem+len(fr))
	in = append(in, x.p.In[:at]...)
	in = append(in, fr...)
	in = append(in, x.p.In[at:]...)
	x.p.In = in
}

type c07Params struct {
	K    connCfg
	Prog []string // ops like "A.readAll"
	// BFinal: the peers end every compressed message with a final deflate block whose
	// trailing byte travels in a last frame of its own (RFC 7692 7.2.3.4)
	BFinal bool
	// Prefill: before A and B are opened, a connection P receives its three messages
	// and is closed, so that A and B start from pools that hold P's objects
	Prefill bool
	// Mixed: single-frame compressed messages alternate with uncompressed ones
	// (a peer that compresses only what is worth it); programs may stop reading a
	// message exactly at its last byte without asking for the end (readExact)
	Mixed bool
	Prop  string // "" = C07; otherwise the property the same oracle is reported under reported under C05 (a pooled object owned twice is shared, unsynchronised, by two connections)
}

func (p c07Params) name() string {
	if p.BFinal {
		return strings.Join(p.Prog, ",") + "/" + p.K.String() + "+bfinal"
	}
	if p.Prefill {
		return strings.Join(p.Prog, ",") + "/" + p.K.String() + "+prefill"
	}
	if p.Mixed {
		return strings.Join(p.Prog, ",") + "/" + p.K.String() + "+mixed"
	}
	return strings.Join(p.Prog, ",") + "/" + p.K.String()
}

const c07MsgLen = 600

func c07Msg(tag byte) []byte {
	b := bytes.Repeat([]byte{tag}, c07MsgLen)
	b[0], b[len(b)-1] = '"', '"'
	return b
}

type c07State struct {
	conns map[byte]*c07Conn
	leaks []string
	// kept: slices handed over by Conn.Read (with or without an error) that the application
	// still holds; they are looked at again when the program is over
	kept []c07Kept
}

type c07Kept struct {
	x  *c07Conn
	op string
	b  []byte
}

func (st *c07State) check(x *c07Conn, op string, b []byte) {
	for i, v := range b {
		if v != x.tag && v != '"' {
			st.leaks = append(st.leaks, fmt.Sprintf("%c.%s returned byte %q at offset %d of its chunk (connection %c only ever received %q bytes)", x.tag, op, v, i, x.tag, x.tag))
			return
		}
	}
}

var c07Streams = map[string][]byte{}

// c07MaxRead bounds the library's read-ahead so that frames injected later
// (peer Close, protocol error) really arrive in the middle of a message.
const c07MaxRead = 3

var c07BFinalStreams bool // set by the program setup for the execution being built
var c07MixedStreams bool

func c07Open(st *c07State, k connCfg, tag byte, nmsgs int) *c07Conn {
	x := &c07Conn{tag: tag, p: vpipe.New(), msgLen: c07MsgLen}
	x.p.MaxRead = c07MaxRead
	if !k.Flate {
		x.p.MaxRead = 48 // 300-byte frames: still well inside a frame, far fewer transport reads
	}
	key := fmt.Sprintf("%s/%c/%d/%v/%v", k.String(), tag, nmsgs, c07BFinalStreams, c07MixedStreams)
	in, ok := c07Streams[key]
	if !ok {
		// the peer's byte stream is the same in every execution: build it once
		def := &deflate.Deflater{NoContextTakeover: k.readerNoTakeover()}
		for i := 0; i < nmsgs; i++ {
			pl := c07Msg(tag)
			if k.Flate && c07MixedStreams {
				if i%2 == 0 {
					in = append(in, peerFrame(k, frame.Frame{Fin: true, Rsv1: true, Opcode: frame.OpText, Payload: def.Message(pl)})...)
				} else {
					in = append(in, peerData(k, frame.OpText, true, pl)...)
				}
			} else if k.Flate && c07BFinalStreams {
				cp := def.MessageBFinal(pl)
				in = append(in, peerFrame(k, frame.Frame{Fin: false, Rsv1: true, Opcode: frame.OpText, Payload: cp[:len(cp)-1]})...)
				in = append(in, peerData(k, frame.OpCont, true, cp[len(cp)-1:])...)
			} else if k.Flate {
				cp := def.Message(pl)
				in = append(in, peerFrame(k, frame.Frame{Fin: false, Rsv1: true, Opcode: frame.OpText, Payload: cp[:len(cp)/2]})...)
				in = append(in, peerData(k, frame.OpCont, true, cp[len(cp)/2:])...)
			} else {
				in = append(in, peerData(k, frame.OpText, false, pl[:300])...)
				in = append(in, peerData(k, frame.OpCont, true, pl[300:])...)
			}
		}
		c07Streams[key] = in
	}
	x.p.In = append([]byte(nil), in...)
	fs, _ := frame.ParseAll(in)
	for _, f := range fs {
		x.starts = append(x.starts, len(in)-f.Offset)
	}
	x.c = mkConn(x.p, k)
	st.conns[tag] = x
	return x
}

// c07Noise: 6000 bytes that do not compress (the deflate output is larger than
// the 4096-byte write buffer).
var c07Noise = func() []byte {
	b := make([]byte, 6000)
	x := uint32(12345)
	for i := range b {
		x = x*1664525 + 1013904223
		b[i] = byte(x >> 24)
	}
	return b
}()

var c07Probe []byte

// c07ProbePayload: 300 x 'Q' compressed against a preset dictionary of 600 x 'Q',
// i.e. a deflate stream made of references into history the receiver cannot have.
func c07ProbePayload() []byte {
	if c07Probe == nil {
		var b bytes.Buffer
		w, _ := flate.NewWriterDict(&b, flate.BestCompression, bytes.Repeat([]byte{'Q'}, 600))
		w.Write(bytes.Repeat([]byte{'Q'}, 300))
		w.Flush()
		c07Probe = bytes.TrimSuffix(b.Bytes(), []byte{0, 0, 0xff, 0xff})
	}
	return c07Probe
}

var c07ProbeFar []byte

// c07ProbeFarPayload: the first 300 bytes of a 600-byte pseudo-random dictionary compressed against
// that dictionary: its matches lie 600 bytes back, beyond the ten bytes of history of openProbe2.
func c07ProbeFarPayload() []byte {
	if c07ProbeFar == nil {
		dict := make([]byte, 600)
		x := uint32(2463534242)
		for i := range dict {
			x ^= x << 13
			x ^= x >> 17
			x ^= x << 5
			dict[i] = byte(x>>8) | 0x80 // never 'Q'
		}
		var b bytes.Buffer
		w, _ := flate.NewWriterDict(&b, flate.BestCompression, dict)
		w.Write(dict[:300])
		w.Flush()
		c07ProbeFar = bytes.TrimSuffix(b.Bytes(), []byte{0, 0, 0xff, 0xff})
	}
	return c07ProbeFar
}

func c07Do(st *c07State, k connCfg, op string) {
	tag := op[0]
	act := op[2:]
	bg := vctx.Background()
	x := st.conns[tag]
	if act == "open" {
		if x == nil {
			c07Open(st, k, tag, 3)
		}
		return
	}
	if act == "openProbe" || act == "openProbe2" {
		// (openProbe2: the probing message is the connection's second compressed message, behind
		// a first one of ten bytes: the connection has a history of its own, only shorter than the
		// distances of the probe)
		// a fresh connection whose peer's first compressed message refers back
		// beyond the start of its own stream: a correct receiver has no history and
		// must fail; whatever it returns must not be another connection's data
		if x != nil || !k.Flate {
			return
		}
		x = &c07Conn{tag: tag, p: vpipe.New(), msgLen: c07MsgLen}
		x.p.In = peerFrame(k, frame.Frame{Fin: true, Rsv1: true, Opcode: frame.OpText, Payload: c07ProbePayload()})
		if act == "openProbe2" {
			x.p.In = peerFrame(k, frame.Frame{Fin: true, Rsv1: true, Opcode: frame.OpText, Payload: c07ProbeFarPayload()})
			first := (&deflate.Deflater{NoContextTakeover: k.readerNoTakeover()}).Message(bytes.Repeat([]byte{'Q'}, 10))
			x.p.In = append(peerFrame(k, frame.Frame{Fin: true, Rsv1: true, Opcode: frame.OpText, Payload: first}), x.p.In...)
		}
		x.c = mkConn(x.p, k)
		st.conns[tag] = x
		if act == "openProbe2" {
			_, b, err := x.c.Read(vctx.Background())
			if err != nil || string(b) != "QQQQQQQQQQ" {
				st.leaks = append(st.leaks, fmt.Sprintf("%c.openProbe2: the connection's first (valid, 10-byte) message was read as %q, err=%v", tag, b, err))
				return
			}
		}
		_, r, err := x.c.Reader(vctx.Background())
		if err == nil {
			buf := make([]byte, 64)
			for {
				m, err := r.Read(buf)
				for _, v := range buf[:m] {
					if v != 'Q' {
						st.leaks = append(st.leaks, fmt.Sprintf("%c.openProbe: a fresh connection inflated a back-reference beyond its own stream into byte %q (data of an earlier connection kept in a pooled sliding window)", tag, v))
						return
					}
				}
				if err != nil {
					break
				}
			}
		}
		return
	}
	if x == nil {
		return
	}
	buf := make([]byte, 64)
	readSome := func(n int) error {
		for n > 0 {
			m, err := x.r.Read(buf[:min(n, len(buf))])
			st.check(x, act, buf[:m])
			x.got += m
			n -= m
			if err != nil {
				return err
			}
		}
		return nil
	}
	switch act {
	case "connRead", "connReadCut":
		// the whole-message API; connReadCut: the transport ends in the middle of the
		// message, Read returns what it has together with the error. The application
		// keeps the slice either way.
		if x.r != nil || x.closed {
			return
		}
		if act == "connReadCut" {
			cut := len(x.p.In) / 2
			if cut > 200 {
				cut = 200
			}
			x.p.In = x.p.In[:cut]
			x.p.InEOF = true
			x.closed = true
		}
		_, b, _ := x.c.Read(bg)
		st.check(x, act, b)
		st.kept = append(st.kept, c07Kept{x, act, b})
	case "readExact":
		// the application knows the message length: it reads exactly that many bytes
		// and goes on to the next message without asking for io.EOF
		if x.r == nil {
			_, r, err := x.c.Reader(bg)
			if err != nil {
				return
			}
			x.r, x.got = r, 0
		}
		readSome(x.msgLen - x.got)
		x.last, x.r = x.r, nil
	case "readAll", "readPartial":
		if x.r == nil {
			_, r, err := x.c.Reader(bg)
			if err != nil {
				return
			}
			x.r, x.got = r, 0
		}
		n := 1 << 20
		if act == "readPartial" {
			n = 10
		}
		err := readSome(n)
		if err == io.EOF {
			if x.got != x.msgLen {
				st.leaks = append(st.leaks, fmt.Sprintf("%c.%s: message ended after %d bytes, it has %d", x.tag, act, x.got, x.msgLen))
			}
			x.last, x.r = x.r, nil
		} else if err != nil {
			x.r = nil
		}
	case "readAgain":
		// read again from a reader that already reported the end of its message
		if x.last != nil {
			m, _ := x.last.Read(buf)
			st.check(x, act, buf[:m])
			if x.r != nil {
				x.got += m // the same reader object serves the message that is open now
			}
			// (the same reader object serves the connection's next message, so more
			// bytes of this connection are legitimate; foreign bytes are not)
		}
	case "writeFail":
		// the transport starts failing writes; a compressed message whose deflate
		// output exceeds the write buffer fails in the middle of its final flush
		if !k.Flate || x.closed {
			return
		}
		x.p.FailWrite(vpipe.ErrTransport)
		x.c.Write(bg, websocket.MessageBinary, c07Noise)
	case "closeNow":
		x.c.CloseNow()
		x.closed = true
	case "peerClose":
		// a Close frame takes the place of the peer's next frame
		x.inject(peerClose(k, 1000, "bye"))
		if x.r != nil {
			readSome(1 << 20)
			x.r = nil
		} else {
			x.c.Read(bg)
		}
	case "ctxExpiry":
		ctx, cancel := vctx.WithTimeout(bg, time.Second)
		saved := x.p.In
		x.p.In = nil // the peer goes silent
		x.c.Read(ctx)
		cancel()
		x.p.In = saved
		x.r = nil
	case "protoErr":
		x.inject(peerFrame(k, frame.Frame{Fin: true, Rsv2: true, Opcode: frame.OpText, Payload: []byte("x")}))
		if x.r != nil {
			readSome(1 << 20)
			x.r = nil
		} else {
			x.c.Read(bg)
		}
	case "closeRead":
		// the application stops reading: the library's own goroutine takes over, meets the
		// peer's next data message and closes the connection (policy violation)
		if x.closed || x.r != nil {
			return
		}
		x.c.CloseRead(bg)
		vs.Quiesce()
		x.closed = true
	case "wsjsonBad":
		// a document that is not valid JSON for the target: an error, and the connection is closed with 1007
		if x.r != nil {
			return
		}
		var n int
		wsjson.Read(bg, x.c, &n)
	case "wsjson":
		if x.r != nil {
			return
		}
		var s string
		if err := wsjson.Read(bg, x.c, &s); err == nil {
			want := string(c07Msg(x.tag)[1 : c07MsgLen-1])
			if s != want {
				st.leaks = append(st.leaks, fmt.Sprintf("%c.wsjson decoded %q…, want %d x %q", x.tag, s[:min(len(s), 12)], len(want), x.tag))
			}
		}
	}
}

func min(a, b int) int {
	if a < b {
		return a
	}
	return b
}

func c07Setup(prm c07Params) func(c *fw.Ctx, name string) explore.Setup {
	return func(c *fw.Ctx, name string) explore.Setup {
		return func(w *vs.World) func(bool) {
			st := &c07State{conns: map[byte]*c07Conn{}}
			vsync.PoolLogging = true
			w.GoHarness("main", true, func() {
				c07BFinalStreams = prm.BFinal
				c07MixedStreams = prm.Mixed
				if prm.Prefill {
					x := c07Open(st, prm.K, 'P', 3)
					for i := 0; i < 3; i++ {
						if _, r, err := x.c.Reader(vctx.Background()); err == nil {
							io.Copy(io.Discard, r)
						}
					}
					x.c.CloseNow()
					delete(st.conns, 'P')
				}
				c07Open(st, prm.K, 'A', 3)
				c07Open(st, prm.K, 'B', 3)
				for _, op := range prm.Prog {
					c07Do(st, prm.K, op)
				}
				for _, kp := range st.kept {
					st.check(kp.x, kp.op+" (slice kept by the application, looked at again after the later reads)", kp.b)
				}
				for _, tag := range []byte("ABC") {
					if x := st.conns[tag]; x != nil && !x.closed {
						x.c.CloseNow()
					}
				}
			})
			return func(complete bool) {
				if !complete {
					return
				}
				if prm.Prop != "" {
					if w.Panic != "" {
						violate(c, w, name, prm.Prop+"/panic/prog/"+prm.K.String(), w.Panic)
						return
					}
					c.OutcomeStr(fmt.Sprintf("%s|leaks=%d|dead=%v", name, len(st.leaks), w.Deadlock))
					if len(st.leaks) > 0 {
						violate(c, w, name, prm.Prop+"/foreign-bytes/prog/"+prm.K.String(), strings.Join(st.leaks, "\n"))
						return
					}
					if msg := c07PoolInvariant(); msg != "" {
						violate(c, w, name, prm.Prop+"/pool-double-put/prog/"+prm.K.String(), msg)
					}
					return
				}
				c07Oracle(c, w, name, "prog", prm.K, st)
			}
		}
	}
}

// c07PoolInvariant: an object is never Put while it is already in a pool, and
// never handed out while handed out.
func c07PoolInvariant() string {
	in := map[interface{}]bool{}
	for _, e := range vsync.PoolLog {
		if e.Obj == nil {
			continue
		}
		key := e.Obj
		switch {
		case e.Put && in[key]:
			return fmt.Sprintf("object %T put into a pool twice without a Get in between (second Put by %s): two connections will share it", e.Obj, e.Task)
		case e.Put:
			in[key] = true
		default:
			in[key] = false
		}
	}
	return ""
}

func c07Oracle(c *fw.Ctx, w *vs.World, name, kind string, k connCfg, st *c07State) {
	if w.Panic != "" {
		violate(c, w, name, "C07/panic/"+kind+"/"+k.String(), w.Panic)
		return
	}
	c.OutcomeStr(fmt.Sprintf("%s|leaks=%d|dead=%v", name, len(st.leaks), w.Deadlock))
	if len(st.leaks) > 0 {
		cls := "foreign-bytes"
		if strings.Contains(st.leaks[0], "readAgain") {
			cls = "foreign-bytes-read-after-eof"
		}
		violate(c, w, name, "C07/"+cls+"/"+kind+"/"+k.String(), strings.Join(st.leaks, "\n"))
		return
	}
	if msg := c07PoolInvariant(); msg != "" {
		violate(c, w, name, "C07/pool-double-put/"+kind+"/"+k.String(), msg)
	}
}

// concurrent: a reader inside a compressed message on A, a closer of A, and a
// task that opens B afterwards and reads from it.
type c07ConcParams struct {
	K      connCfg
	Closer string // CloseNow | peerClose | ctx
	Prop   string // "" = C07; "C03": B's valid stream must yield B's message
	// BLate: the second half of B's message arrives only when A's reader has returned, so B is in
	// the middle of its message (waiting) while A's reader unwinds
	BLate bool
}

func (p c07ConcParams) name() string {
	if p.BLate {
		return "conc-" + p.Closer + "-blate/" + p.K.String()
	}
	return "conc-" + p.Closer + "/" + p.K.String()
}

func c07ConcSetup(prm c07ConcParams) func(c *fw.Ctx, name string) explore.Setup {
	return func(c *fw.Ctx, name string) explore.Setup {
		return func(w *vs.World) func(bool) {
			st := &c07State{conns: map[byte]*c07Conn{}}
			vsync.PoolLogging = true
			k := prm.K
			var bErr error
			bGot, bDone := 0, false
			w.GoHarness("main", true, func() {
				a := c07Open(st, k, 'A', 1)
				a.p.SplitRead = true
				if prm.Closer == "stalledEcho+CloseNow" {
					// the peer's Close frame sits between the two fragments of A's message and the
					// peer does not read: the echo parks in the transport until CloseNow ends it
					fs, _ := frame.ParseAll(a.p.In)
					cut := fs[1].Offset
					in := append([]byte(nil), a.p.In[:cut]...)
					in = append(in, peerClose(k, 1001, "")...)
					a.p.In = append(in, a.p.In[cut:]...)
					a.p.Window = 1
				}
				bg := vctx.Background()
				ctx, cancel := vctx.WithCancel(bg)
				readerADone := false
				w.GoHarness("readerA", true, func() {
					defer func() { readerADone = true }()
					buf := make([]byte, 400)
					for {
						_, r, err := a.c.Reader(ctx)
						if err != nil {
							return
						}
						for {
							m, err := r.Read(buf)
							st.check(a, "read", buf[:m])
							if err != nil {
								break
							}
						}
					}
				})
				w.GoHarness("closerA", true, func() {
					switch prm.Closer {
					case "CloseNow", "stalledEcho+CloseNow":
						a.c.CloseNow()
					case "peerClose":
						a.p.Send(peerClose(k, 1001, ""))
					case "ctx":
						cancel()
					}
				})
				w.GoHarness("openerB", true, func() {
					b := c07Open(st, k, 'B', 1)
					if prm.BLate {
						rest := append([]byte(nil), b.p.In[len(b.p.In)/2:]...)
						b.p.In = b.p.In[:len(b.p.In)/2]
						w.GoHarness("peerB", false, func() {
							vs.BlockOn(b.p.RObj(), "wait-readerA", func() bool { return readerADone }, func() {})
							b.p.Send(rest)
						})
					}
					buf := make([]byte, 400)
					for i := 0; i < 1; i++ {
						_, r, err := b.c.Reader(bg)
						if err != nil {
							bErr = err
							return
						}
						for {
							m, err := r.Read(buf)
							st.check(b, "read", buf[:m])
							bGot += m
							if err != nil {
								if err != io.EOF {
									bErr = err
								}
								break
							}
						}
					}
					bDone = true
					b.c.CloseNow()
				})
			})
			return func(complete bool) {
				if !complete {
					return
				}
				P := prm.Prop
				if P == "" {
					P = "C07"
				}
				if w.Panic == "" && !w.Deadlock && !w.HorizonHit && (bErr != nil || (bDone && bGot != c07MsgLen)) {
					// B is a fresh connection with a healthy transport and a valid stream
					violate(c, w, name, P+"/other-connection-disturbed/read/conc-"+prm.Closer+"/"+k.String(), fmt.Sprintf("connection B (fresh, healthy transport, one valid %d-byte message) read %d bytes and got the error %v while connection A was being closed in the middle of a message: they share a pooled object", c07MsgLen, bGot, bErr))
					return
				}
				if prm.Prop != "" {
					c.OutcomeStr(fmt.Sprintf("%s|b=%d", name, bGot))
					return
				}
				c07Oracle(c, w, name, "conc-"+prm.Closer, k, st)
			}
		}
	}
}

// write side: connection A (client: its bufio.Writer is pooled) has a writer
// parked inside a transport write, another call on A gives up waiting for the
// frame lock, A is closed, and a new client B is opened and writes. B's wire
// must carry only B's data and B's calls must succeed.
type c07WParams struct {
	K connCfg
	// Prop: the property whose clause is judged on B's wire ("" = C07). The same
	// three-party history is registered under C01 (B's messages arrive intact),
	// C02 (B's stream is well-formed) and C16 (nothing follows B's Close frame).
	Prop string
	// Cross: B has the other role than A (a process that both accepts and dials)
	Cross bool
	// Sep: B is opened by its own task (it may be created while A's close is
	// still in progress) instead of by the task that has just closed A.
	Sep bool
	// CloseFrame: A is not torn down but closed with a handshake: a Ping of A is parked in the
	// transport (it holds the frame lock), A's writer is in the middle of its message and
	// waits for that lock, Close queues too; the peer accepts bytes again at 1 s. B is opened
	// as soon as A's Close frame is on the wire, while A's writer is still unwinding.
	CloseFrame bool
}

func (p c07WParams) name() string {
	if p.Cross {
		return "wconc-cross/" + p.K.String()
	}
	if p.Sep {
		return "wconc-sep/" + p.K.String()
	}
	if p.CloseFrame {
		return "wconc-closeframe/" + p.K.String()
	}
	return "wconc/" + p.K.String()
}

func (p c07WParams) prop() string {
	if p.Prop == "" {
		return "C07"
	}
	return p.Prop
}

func c07WSetup(prm c07WParams) func(c *fw.Ctx, name string) explore.Setup {
	return func(c *fw.Ctx, name string) explore.Setup {
		return func(w *vs.World) func(bool) {
			k := prm.K
			vsync.PoolLogging = true
			pa, pb := vpipe.New(), vpipe.New()
			pa.Window = 1000
			if prm.Sep {
				// A's transport never blocks, but a write that succeeded returns in a
				// second step: the close can land between the two
				pa.Window = 0
				pa.SplitWrite = true
				// B's peer reads in small steps: B's writer parks inside a frame, so that
				// other tasks run while B's buffered bytes wait
				pb.Window = 160
			}
			var bErrs []error
			w.GoHarness("main", true, func() {
				a := mkConn(pa, k)
				bg := vctx.Background()
				sizeA := 2200
				if prm.Sep {
					sizeA = 4300 // more than one write buffer: there is more to copy after a flush
				}
				// under C18 both connections are used through the net.Conn adapter
				write := func(conn *websocket.Conn, p []byte) error {
					if prm.Prop == "C18" {
						_, err := websocket.NetConn(bg, conn, websocket.MessageBinary).Write(p)
						return err
					}
					if prm.Prop == "C19" {
						// one JSON string per message (the payload bytes are JSON-safe in this mode)
						return wsjson.Write(bg, conn, string(p))
					}
					return conn.Write(bg, websocket.MessageBinary, p)
				}
				payloadA := bytes.Repeat([]byte{'A'}, sizeA)
				if k.Flate {
					// bytes that do not compress: the deflate output is larger than the write
					// buffer, so A's writer parks in the transport inside its compressor
					payloadA = c07Noise
					if prm.Prop == "C19" {
						payloadA = []byte(base64.StdEncoding.EncodeToString(c07Noise))
					}
				}
				if prm.CloseFrame {
					pa.Window = 1
					w.GoHarness("pingerA", false, func() { a.Ping(bg) })
					w.GoHarness("writerA", true, func() {
						pa.WaitOut("ping-begun", func(out []byte) bool { return len(out) > 0 })
						write(a, payloadA)
					})
					w.GoHarness("closerA", true, func() {
						pa.WaitOut("ping-begun", func(out []byte) bool { return len(out) > 0 })
						a.Close(websocket.StatusNormalClosure, "")
					})
					w.GoHarness("drainerA", false, func() {
						vtime.Sleep(time.Second)
						pa.SetWindow(0)
					})
				} else {
					w.GoHarness("writerA", true, func() { write(a, payloadA) })
				}
				ctx, cancel := vctx.WithCancel(bg)
				cancel() // a context that is already over: the call gives up as soon as it has to wait for a lock
				if !prm.Sep && !prm.CloseFrame {
					w.GoHarness("failerA", true, func() { a.Ping(ctx) })
				}
				useB := func() {
					// a new client picks up what A returned to the pools
					kb := k
					if prm.Cross {
						kb.Client = !k.Client
					}
					b := mkConn(pb, kb)
					nB := 2
					if prm.Sep {
						nB = 1
					}
					for i := 0; i < nB; i++ {
						nb := 300
						if prm.Prop == "C19" {
							nb = 298 // + the two quotes of the JSON string
						}
						bErrs = append(bErrs, write(b, bytes.Repeat([]byte{'B'}, nb)))
					}
					if prm.Prop == "C16" {
						b.Close(websocket.StatusNormalClosure, "") // the peer never answers: 5 s virtual
					}
					if prm.Prop == "C06" {
						b.Close(websocket.StatusCode(4001), "bye") // the peer never answers: 5 s virtual
					}
					b.CloseNow()
				}
				if prm.CloseFrame {
					w.GoHarness("openerB", true, func() {
						if pa.WaitOut("close-frame-of-A", func(out []byte) bool { return hasOp(out, frame.OpClose) }) {
							useB()
						}
					})
					return
				}
				if prm.Sep {
					w.GoHarness("closerA", true, func() { a.CloseNow() })
					w.GoHarness("openerB", true, useB)
					w.GoHarness("drainerB", false, func() {
						for i := 0; i < 64; i++ {
							if !pb.WaitOut("window-full", func(out []byte) bool { return len(out)-pb.Taken >= pb.Window }) {
								return
							}
							pb.Drain(-1)
						}
					})
				} else {
					w.GoHarness("closerA-then-B", true, func() {
						a.CloseNow()
						useB()
					})
				}
			})
			return func(complete bool) {
				if !complete {
					return
				}
				role := k.String()
				P := prm.prop()
				if w.Panic != "" {
					violate(c, w, name, P+"/panic/wconc/"+role, w.Panic)
					return
				}
				if w.Deadlock || w.HorizonHit {
					c.OutcomeStr(name + "|stuck")
					return
				}
				c.OutcomeStr(fmt.Sprintf("%s|berr=%v|bout=%d", name, bErrs, len(pb.Out)/1000))
				for i, err := range bErrs {
					if err != nil {
						violate(c, w, name, P+"/other-connection-disturbed/write/"+role, fmt.Sprintf("connection B (fresh, healthy transport) failed its write %d with %q while connection A was being closed: they share a pooled object", i, err))
						return
					}
				}
				res := frame.Validate(pb.Out, frame.StreamRules{SenderIsClient: k.Client != prm.Cross, Deflate: k.Flate})
				for _, v := range res.Violations {
					violate(c, w, name, P+"/foreign-bytes-on-the-wire/"+role, fmt.Sprintf("connection B's transport carries a malformed stream (%v): bytes of another connection were flushed into it", v))
					return
				}
				kb := k
				if prm.Cross {
					kb.Client = !k.Client
				}
				inf := &deflate.Inflater{NoContextTakeover: kb.writerNoTakeover()}
				for i, m := range res.Messages {
					if m.Compressed {
						pl, err := inf.Message(m.Payload)
						if err != nil {
							violate(c, w, name, P+"/foreign-bytes-on-the-wire/"+role, fmt.Sprintf("connection B's message %d does not inflate (%v): its compressor is shared with another connection", i, err))
							return
						}
						res.Messages[i].Payload = pl
						m.Payload = pl
					}
					if prm.Prop == "C19" {
						m.Payload = bytes.Trim(bytes.TrimSpace(m.Payload), "\"")
						res.Messages[i].Payload = append([]byte("\"\""), m.Payload...) // 300 bytes again for the length rule below
					}
					for _, by := range m.Payload {
						if by != 'B' {
							violate(c, w, name, P+"/foreign-bytes-on-the-wire/"+role, fmt.Sprintf("connection B's transport carries a message containing byte %q; B only ever wrote 'B'", by))
							return
						}
					}
				}
				if len(res.Messages) != len(bErrs) {
					violate(c, w, name, P+"/messages-differ/wconc/"+role, fmt.Sprintf("B wrote %d messages of 300 bytes (the calls returned nil); its peer receives %d message(s): %s", len(bErrs), len(res.Messages), describeFrames(connFrames(pb.Out))))
					return
				}
				for _, m := range res.Messages {
					if len(m.Payload) != 300 {
						violate(c, w, name, P+"/messages-differ/wconc/"+role, fmt.Sprintf("B wrote messages of 300 bytes; its peer receives one of %d bytes: %s", len(m.Payload), describeFrames(connFrames(pb.Out))))
						return
					}
				}
				if prm.Prop == "C06" {
					f, ok := firstClose(pb.Out)
					if !ok || closeCodeOf(f) != 4001 || len(f.Payload) < 2 || string(f.Payload[2:]) != "bye" {
						violate(c, w, name, "C06/close-frame-not-sent/wconc/"+role, fmt.Sprintf("connection B (fresh, healthy transport) called Close(4001, \"bye\") while connection A was being closed; B's wire: %s", describeFrames(connFrames(pb.Out))))
						return
					}
				}
				if prm.Prop == "C16" {
					seenClose := false
					for _, f := range connFrames(pb.Out) {
						if seenClose && (f.Opcode == frame.OpClose || f.Opcode <= frame.OpBinary) {
							violate(c, w, name, "C16/frame-after-close/wconc/"+role, "a frame follows B's Close frame: "+describeFrames(connFrames(pb.Out)))
							return
						}
						seenClose = seenClose || f.Opcode == frame.OpClose
					}
				}
				if msg := c07PoolInvariant(); msg != "" {
					violate(c, w, name, P+"/pool-double-put/wconc/"+role, msg)
				}
			}
		}
	}
}

// c01PoolScenarios: two connections that start from pools filled by an earlier,
// closed connection read their (context takeover) messages alternately; every
// byte read on X is what X's peer sent.
func c01PoolScenarios(tier string) []scenario {
	var scs []scenario
	progs := [][]string{{"A.readAll", "B.readAll", "A.readAll", "B.readAll"}, {"A.readPartial", "B.readAll", "A.readAll", "B.readAll", "A.readAll"}, {"B.readAll", "A.readAll", "A.readAll", "B.readAll"}}
	for _, k := range []connCfg{{Client: false, Flate: true}, {Client: true, Flate: true}} {
		for _, pr := range progs {
			prm := c07Params{K: k, Prog: pr, Prefill: true, Prop: "C01"}
			scs = append(scs, scenario{Name: "pools/" + prm.name(), Cfg: explore.Config{P: 0, Horizon: 60e9}, Setup: c07Setup(prm), Group: "pools/" + k.String()})
		}
	}
	return scs
}

// c05PoolScenarios: write-side failures followed by the close of the
// connection, judged by the pool invariant under C05.
func c05PoolScenarios(tier string) []scenario {
	var scs []scenario
	progs := [][]string{{"A.writeFail"}, {"A.readPartial", "A.writeFail"}, {"A.writeFail", "A.peerClose"}, {"A.writeFail", "B.writeFail"}}
	// readers that start from pools filled by an earlier, closed connection and read their
	// (context takeover) messages alternately: every message received is the one that was sent
	for _, k := range []connCfg{{Client: false, Flate: true}, {Client: true, Flate: true}} {
		for _, pr := range [][]string{{"A.readAll", "B.readAll", "A.readAll", "B.readAll"}, {"B.readAll", "A.readAll", "A.readAll", "B.readAll"}} {
			prm := c07Params{K: k, Prog: pr, Prefill: true, Prop: "C05"}
			scs = append(scs, scenario{Name: "pools/" + prm.name(), Cfg: explore.Config{P: 0, Horizon: 60e9}, Setup: c07Setup(prm), Group: "pools/" + k.String()})
		}
	}
	for _, k := range []connCfg{{Client: false, Flate: true}, {Client: true, Flate: true}, {Client: false, Flate: true, CNCT: true, SNCT: true}, {Client: true, Flate: true, CNCT: true, SNCT: true}} {
		for _, pr := range progs {
			prm := c07Params{K: k, Prog: pr, Prop: "C05"}
			scs = append(scs, scenario{Name: "pool/" + prm.name(), Cfg: explore.Config{P: 0, Horizon: 60e9}, Setup: c07Setup(prm), Group: "pool/" + k.String()})
		}
	}
	return scs
}

// c07CrossScenarios: the wconc history judged for another property.
func c07CrossScenarios(prop string) func(tier string) []scenario {
	return func(tier string) []scenario {
		var scs []scenario
		ks := []connCfg{{Client: true}, {Client: false}}
		if prop == "C14" || prop == "C19" {
			// compressed connections: the pooled compressor instead of the pooled write buffer
			ks = []connCfg{{Client: false, Flate: true, Thr: 1}, {Client: true, Flate: true, Thr: 1, CNCT: true, SNCT: true}}
		}
		for _, k := range ks {
			prm := c07WParams{K: k, Prop: prop}
			pw := explore.Config{P: 1, Horizon: 60e9}
			if tier == "thorough" && !k.Flate {
				pw.P = 2 // (the compressed histories take 70 k executions at one preemption already)
			}
			if prop != "C19" || !k.Client || tier == "thorough" {
				scs = append(scs, scenario{Name: prm.name(), Cfg: pw, Setup: c07WSetup(prm)})
			}
			if k.Client {
				prm.Sep = true
				// (under C19, with a compressor in every execution, one preemption is more than 140 k
				// executions: the quick tier explores the first minute of the depth-first order and says
				// so in its evidence (exhaustive: false for this unit); thorough completes it)
				scs = append(scs, scenario{Name: prm.name(), Cfg: pw, Setup: c07WSetup(prm)})
				prm.Sep = false
			}
			if prop == "C19" && tier != "thorough" {
				continue // (quick: the two histories in which the closing and the opening task are separate)
			}
			prm.Cross = true
			scs = append(scs, scenario{Name: prm.name(), Cfg: pw, Setup: c07WSetup(prm)})
		}
		return scs
	}
}

// c03PoolScenarios: the read-side three-party history judged by C03's clause on the
// bystander: connection B receives a valid stream, so its read yields B's message.
func c03PoolScenarios(tier string) []scenario {
	var scs []scenario
	p := 1 // (both tiers: 18 k executions per scenario at one preemption)
	for _, k := range []connCfg{{Client: false, Flate: true, CNCT: true, SNCT: true}, {Client: true, Flate: true, CNCT: true, SNCT: true}} {
		for _, cl := range []string{"CloseNow", "ctx"} {
			prm := c07ConcParams{K: k, Closer: cl, Prop: "C03", BLate: true}
			scs = append(scs, scenario{Name: prm.name(), Cfg: explore.Config{P: p, Horizon: 60e9}, Setup: c07ConcSetup(prm)})
		}
	}
	return scs
}

func c07Scenarios(tier string) []scenario {
	var scs []scenario
	depth := 3
	pc := explore.Config{P: 1, Horizon: 60e9}
	if tier == "thorough" {
		depth = 4
		pc.P = 2
	}
	acts := []string{"readAll", "readPartial", "readAgain", "closeNow", "peerClose", "ctxExpiry", "protoErr", "wsjson", "writeFail"}
	var progs [][]string
	var gen func(cur []string, opened string)
	gen = func(cur []string, opened string) {
		if len(cur) > 0 {
			progs = append(progs, append([]string(nil), cur...))
		}
		if len(cur) == depth {
			return
		}
		// open the next connection (A, then B, then C)
		if len(opened) < 3 {
			next := "ABC"[len(opened)]
			gen(append(cur, string(next)+".open"), opened+string(next))
			gen(append(cur, string(next)+".openProbe"), opened+string(next))
			gen(append(cur, string(next)+".openProbe2"), opened+string(next))
		}
		for _, t := range opened {
			for _, a := range acts {
				gen(append(cur, string(t)+"."+a), opened)
			}
		}
	}
	gen(nil, "AB")
	for _, k := range []connCfg{{Client: true}, {Client: false}, {Client: false, Flate: true, Thr: 1}, {Client: true, Flate: true, Thr: 1, CNCT: true, SNCT: true}} {
		prm := c07WParams{K: k}
		pw := explore.Config{P: 2, Horizon: 60e9}
		if k.Flate {
			pw.P = 1
		}
		if tier == "thorough" {
			pw.P = 2
		}
		scs = append(scs, scenario{Name: prm.name(), Cfg: pw, Setup: c07WSetup(prm)})
		if k.Client {
			prm.Sep = true
			scs = append(scs, scenario{Name: prm.name(), Cfg: explore.Config{P: 1, Horizon: 60e9}, Setup: c07WSetup(prm)})
			prm.Sep = false
		}
		prm.Cross = true
		scs = append(scs, scenario{Name: prm.name(), Cfg: explore.Config{P: 1, Horizon: 60e9}, Setup: c07WSetup(prm)})
		if k.Flate {
			prm.Cross = false
			prm.CloseFrame = true
			scs = append(scs, scenario{Name: prm.name(), Cfg: explore.Config{P: 1, T: 1, Horizon: 60e9}, Setup: c07WSetup(prm)})
		}
	}
	ks := []connCfg{{Client: false, Flate: true}, {Client: true, Flate: true}, {Client: false, Flate: true, CNCT: true, SNCT: true}, {Client: true, Flate: true, CNCT: true, SNCT: true}, {Client: true}}
	// slices returned by Conn.Read, with and without an error, stay what they were while
	// other connections read (whole-message reads, wsjson)
	for _, k := range append(append([]connCfg(nil), ks...), connCfg{Client: false}) {
		for i, pr := range [][]string{{"A.connReadCut", "B.connRead"}, {"A.connReadCut", "B.wsjson"}, {"A.connRead", "B.connRead", "A.connRead"}, {"A.connReadCut", "B.connReadCut", "C.open", "C.connRead"}, {"A.connRead", "B.connReadCut", "A.wsjson"}} {
			prm := c07Params{K: k, Prog: pr}
			scs = append(scs, scenario{Name: prm.name(), Cfg: explore.Config{P: 0, Horizon: 60e9}, Setup: c07Setup(prm), Group: fmt.Sprintf("prog-kept/%s/%d", k.String(), i%2)})
		}
	}
	for _, k := range ks {
		for i, pr := range progs {
			// keep programs that touch at least two connections or read again / close
			prm := c07Params{K: k, Prog: pr}
			scs = append(scs, scenario{Name: prm.name(), Cfg: explore.Config{P: 0, Horizon: 60e9}, Setup: c07Setup(prm), Group: fmt.Sprintf("prog/%s/%d", k.String(), i%4)})
			onlyReads := true
			for _, op := range pr {
				onlyReads = onlyReads && (strings.HasSuffix(op, ".readAll") || strings.HasSuffix(op, ".readPartial"))
			}
			if k.Flate && !k.CNCT && onlyReads {
				pp := c07Params{K: k, Prog: pr, Prefill: true}
				scs = append(scs, scenario{Name: pp.name(), Cfg: explore.Config{P: 0, Horizon: 60e9}, Setup: c07Setup(pp), Group: fmt.Sprintf("prog-prefill/%s/%d", k.String(), i%2)})
			}
			if k.Flate && (k.Client == k.CNCT || tier == "thorough") {
				prm.BFinal = true
				scs = append(scs, scenario{Name: prm.name(), Cfg: explore.Config{P: 0, Horizon: 60e9}, Setup: c07Setup(prm), Group: fmt.Sprintf("prog-bfinal/%s/%d", k.String(), i%4)})
			}
		}
		if k.Flate {
			// mixed streams: programs of up to 4 reads (whole, exact, partial) and closes on A and B
			var mixed [][]string
			var genM func(cur []string)
			genM = func(cur []string) {
				if len(cur) > 0 {
					mixed = append(mixed, append([]string(nil), cur...))
				}
				if len(cur) == 3 || (tier == "thorough" && len(cur) == 4) {
					return
				}
				for _, op := range []string{"A.readExact", "A.readAll", "B.readAll", "B.readExact", "A.closeNow", "A.readPartial", "A.wsjsonBad", "B.wsjson", "A.closeRead"} {
					genM(append(cur, op))
				}
			}
			genM(nil)
			for i, pr := range mixed {
				prm := c07Params{K: k, Prog: pr, Mixed: true}
				scs = append(scs, scenario{Name: prm.name(), Cfg: explore.Config{P: 0, Horizon: 60e9}, Setup: c07Setup(prm), Group: fmt.Sprintf("prog-mixed/%s/%d", k.String(), i%4)})
			}
		}
		for _, cl := range []string{"CloseNow", "peerClose", "ctx", "stalledEcho+CloseNow"} {
			if cl == "stalledEcho+CloseNow" && !(k.Flate && (k.CNCT || tier == "thorough")) {
				continue // the reader has to be inside the message's decompressor when the Close frame arrives
			}
			prm := c07ConcParams{K: k, Closer: cl}
			pk := pc
			if k.Flate && !k.CNCT && pk.P > 1 {
				pk.P = 1 // executions that inflate with context takeover are ~10x slower
			}
			if cl == "stalledEcho+CloseNow" {
				pk.P = 1 // (36 k executions per configuration at one preemption)
			}
			scs = append(scs, scenario{Name: prm.name(), Cfg: pk, Setup: c07ConcSetup(prm)})
			if k.Flate && k.CNCT && (cl == "CloseNow" || cl == "ctx") {
				prm.BLate = true
				scs = append(scs, scenario{Name: prm.name(), Cfg: pk, Setup: c07ConcSetup(prm)})
			}
		}
	}
	return scs
}

// c07RaceScenarios: pooled objects used after they were returned are visible
// to the race detector even when no scheduling point lies inside the window
// (the Put->Get edge orders the new owner only after the Put, not after the old
// owner's later accesses).
func c07RaceScenarios(tier string) []scenario {
	var out []scenario
	add := func(list []scenario, keep func(string) bool) {
		for _, sc := range list {
			if !keep(sc.Name) {
				continue
			}
			sc.Group = ""
			sc.Cfg.P = 1
			if tier == "thorough" {
				sc.Cfg.P = 2
			}
			out = append(out, raceWrap("C07", sc))
		}
	}
	add(c19Scenarios(tier), func(n string) bool { return strings.HasPrefix(n, "pool-none/") || strings.HasPrefix(n, "pool-valid/") })
	add(c07Scenarios(tier), func(n string) bool { return n == "conc-CloseNow/client" || n == "wconc/client" })
	add(c07StickyScenarios(tier), func(n string) bool {
		return n == "reread-close/client+flate" || n == "read-close/client+flate" || n == "write-close/client+flate"
	})
	return out
}

func init() {
	for _, prop := range []string{"C01", "C02", "C05", "C06", "C14", "C16", "C18", "C19"} {
		scs := c07CrossScenarios(prop)
		fw.Register(fw.Part{Prop: prop, Name: "s.xconn",
			Units:  func(tier string) []fw.Unit { return scenarioUnits(scs(tier)) },
			Replay: replayFn(scs),
		})
	}
	fw.Register(fw.Part{Prop: "C03", Name: "s.pools",
		Units:  func(tier string) []fw.Unit { return scenarioUnits(c03PoolScenarios(tier)) },
		Replay: replayFn(c03PoolScenarios),
	})
	fw.Register(fw.Part{Prop: "C01", Name: "s.pools",
		Units:  func(tier string) []fw.Unit { return scenarioUnits(c01PoolScenarios(tier)) },
		Replay: replayFn(c01PoolScenarios),
	})
	fw.Register(fw.Part{Prop: "C05", Name: "s.pool",
		Units:  func(tier string) []fw.Unit { return scenarioUnits(c05PoolScenarios(tier)) },
		Replay: replayFn(c05PoolScenarios),
	})
	fw.Register(fw.Part{Prop: "C07R", Name: "s.race",
		Units:  func(tier string) []fw.Unit { return scenarioUnits(c07RaceScenarios(tier)) },
		Replay: replayFn(c07RaceScenarios),
	})
	fw.Register(fw.Part{Prop: "C07", Name: "s.pools",
		Units:  func(tier string) []fw.Unit { return scenarioUnits(c07Scenarios(tier)) },
		Replay: replayFn(c07Scenarios),
	})
}
