package sched

import (
	"fmt"
	"time"

	"verif/engine/explore"
	"verif/engine/vctx"
	"verif/engine/vpipe"
	"verif/engine/vs"
	"verif/engine/vsync"
	"verif/engine/vtime"
	"verif/fw"
	"verif/refws/frame"
)

// C07, a transport whose Read does not return on Close (it stays blocked for 30 s
// unless late bytes arrive). A reader of client A is inside such a Read when A is
// closed; 6 s later client B is opened and starts reading; at 7 s A's peer's late
// bytes arrive on A's stuck Read; at 8 s B's peer sends B's message. Whatever A
// does with its buffers meanwhile, every byte B reads is B's.
func c07StickySetup(k connCfg, closer string) func(c *fw.Ctx, name string) explore.Setup {
	return func(c *fw.Ctx, name string) explore.Setup {
		return func(w *vs.World) func(bool) {
			vsync.PoolLogging = true
			pa, pb := vpipe.New(), vpipe.New()
			pa.StickyRead = 30 * time.Second
			var leaks []string
			var gotB []byte
			var errB error
			doneB := false
			w.GoHarness("main", true, func() {
				bg := vctx.Background()
				a := mkConn(pa, k)
				w.GoHarness("readerA", false, func() {
					for {
						_, b, err := a.Read(bg)
						for _, v := range b {
							if v != 'A' {
								leaks = append(leaks, fmt.Sprintf("A read byte %q", v))
								return
							}
						}
						if err != nil {
							return
						}
					}
				})
				w.GoHarness("closerA", false, func() {
					vtime.Sleep(100 * time.Millisecond) // the reader is inside its transport Read by now
					if closer == "Close" {
						a.Close(1000, "")
					} else {
						a.CloseNow()
					}
				})
				w.GoHarness("peerA", false, func() {
					vtime.Sleep(7 * time.Second)
					pa.Send(peerData(k, frame.OpBinary, true, fill('A', 200)))
				})
				w.GoHarness("userB", true, func() {
					vtime.Sleep(6 * time.Second)
					b := mkConn(pb, k)
					_, gotB, errB = b.Read(bg)
					doneB = true
					b.CloseNow()
				})
				w.GoHarness("peerB", false, func() {
					vtime.Sleep(8 * time.Second)
					pb.Send(peerData(k, frame.OpBinary, true, fill('B', 300)))
				})
			})
			return func(complete bool) {
				if !complete {
					return
				}
				role := k.String()
				if w.Panic != "" {
					violate(c, w, name, "C07/panic/sticky/"+role, w.Panic)
					return
				}
				c.OutcomeStr(fmt.Sprintf("%s|doneB=%v|errB=%v|n=%d", name, doneB, errB != nil, len(gotB)))
				if len(leaks) > 0 {
					violate(c, w, name, "C07/foreign-bytes/sticky/"+role, fmt.Sprint(leaks))
					return
				}
				if !doneB {
					violate(c, w, name, "C07/other-connection-disturbed/read/"+role, fmt.Sprintf("connection B (fresh, healthy transport, its message sent at 8 s) never finished its Read: stuck %v", stuckTasks(w)))
					return
				}
				for i, v := range gotB {
					if v != 'B' {
						violate(c, w, name, "C07/foreign-bytes/sticky/"+role, fmt.Sprintf("connection B read byte %q at offset %d of its message; its peer only ever sent 'B' (the late bytes of connection A, closed 6 s earlier, ended up in B's read buffer)", v, i))
						return
					}
				}
				if errB != nil || len(gotB) != 300 {
					violate(c, w, name, "C07/other-connection-disturbed/read/"+role, fmt.Sprintf("connection B read %d bytes, err=%v; its peer sent one message of 300 bytes", len(gotB), errB))
					return
				}
				if msg := c07PoolInvariant(); msg != "" {
					violate(c, w, name, "C07/pool-double-put/sticky/"+role, msg)
				}
			}
		}
	}
}

func c07StickyScenarios(tier string) []scenario {
	var scs []scenario
	p := 1
	if tier == "thorough" {
		p = 2
	}
	for _, k := range []connCfg{{Client: true}, {Client: true, Flate: true}, {Client: false}} {
		for _, cl := range []string{"CloseNow", "Close"} {
			scs = append(scs, scenario{Name: fmt.Sprintf("sticky/%s/%s", cl, k.String()), Cfg: explore.Config{P: p, T: 1, Horizon: 120e9}, Setup: c07StickySetup(k, cl)})
		}
	}
	return scs
}

func init() {
	fw.Register(fw.Part{Prop: "C07", Name: "s.sticky",
		Units:  func(tier string) []fw.Unit { return scenarioUnits(c07StickyScenarios(tier)) },
		Replay: replayFn(c07StickyScenarios),
	})
}
