package sched

import (
	"fmt"
	"io"
	"time"

	"verif/engine/explore"
	"verif/engine/vctx"
	"verif/engine/vpipe"
	"verif/engine/vs"
	"verif/engine/vsync"
	"verif/engine/vtime"
	"verif/fw"
	"verif/refws/deflate"
	"verif/refws/frame"

	"nhooyr.io/websocket"
)

// C07, a transport whose Read does not return on Close (it stays blocked for 30 s
// unless late bytes arrive). A reader of client A is inside such a Read when A is
// closed; 6 s later client B is opened and starts reading; at 7 s A's peer's late
// bytes arrive on A's stuck Read; at 8 s B's peer sends B's message. Whatever A
// does with its buffers meanwhile, every byte B reads is B's.
func c07StickySetup(k connCfg, closer string) func(c *fw.Ctx, name string) explore.Setup {
	return func(c *fw.Ctx, name string) explore.Setup {
		return func(w *vs.World) func(bool) {
			vsync.PoolLogging = true
			pa, pb := vpipe.New(), vpipe.New()
			pa.StickyRead = 30 * time.Second
			var leaks []string
			var gotB []byte
			var errB error
			doneB := false
			w.GoHarness("main", true, func() {
				bg := vctx.Background()
				a := mkConn(pa, k)
				w.GoHarness("readerA", false, func() {
					for {
						_, b, err := a.Read(bg)
						for _, v := range b {
							if v != 'A' {
								leaks = append(leaks, fmt.Sprintf("A read byte %q", v))
								return
							}
						}
						if err != nil {
							return
						}
					}
				})
				w.GoHarness("closerA", false, func() {
					vtime.Sleep(100 * time.Millisecond) // the reader is inside its transport Read by now
					if closer == "Close" {
						a.Close(1000, "")
					} else {
						a.CloseNow()
					}
				})
				w.GoHarness("peerA", false, func() {
					vtime.Sleep(7 * time.Second)
					pa.Send(peerData(k, frame.OpBinary, true, fill('A', 200)))
				})
				w.GoHarness("userB", true, func() {
					vtime.Sleep(6 * time.Second)
					b := mkConn(pb, k)
					_, gotB, errB = b.Read(bg)
					doneB = true
					b.CloseNow()
				})
				w.GoHarness("peerB", false, func() {
					vtime.Sleep(8 * time.Second)
					pb.Send(peerData(k, frame.OpBinary, true, fill('B', 300)))
				})
			})
			return func(complete bool) {
				if !complete {
					return
				}
				role := k.String()
				if w.Panic != "" {
					violate(c, w, name, "C07/panic/sticky/"+role, w.Panic)
					return
				}
				c.OutcomeStr(fmt.Sprintf("%s|doneB=%v|errB=%v|n=%d", name, doneB, errB != nil, len(gotB)))
				if len(leaks) > 0 {
					violate(c, w, name, "C07/foreign-bytes/sticky/"+role, fmt.Sprint(leaks))
					return
				}
				if !doneB {
					violate(c, w, name, "C07/other-connection-disturbed/read/"+role, fmt.Sprintf("connection B (fresh, healthy transport, its message sent at 8 s) never finished its Read: stuck %v", stuckTasks(w)))
					return
				}
				for i, v := range gotB {
					if v != 'B' {
						violate(c, w, name, "C07/foreign-bytes/sticky/"+role, fmt.Sprintf("connection B read byte %q at offset %d of its message; its peer only ever sent 'B' (the late bytes of connection A, closed 6 s earlier, ended up in B's read buffer)", v, i))
						return
					}
				}
				if errB != nil || len(gotB) != 300 {
					violate(c, w, name, "C07/other-connection-disturbed/read/"+role, fmt.Sprintf("connection B read %d bytes, err=%v; its peer sent one message of 300 bytes", len(gotB), errB))
					return
				}
				if msg := c07PoolInvariant(); msg != "" {
					violate(c, w, name, "C07/pool-double-put/sticky/"+role, msg)
				}
			}
		}
	}
}

// C07, re-reading a finished compressed message while the connection is being closed, again over
// a transport whose Read does not return on Close. Client A has read its message to the end. At
// 0 s one goroutine reads again from that message reader (twice) and another calls Close (the peer
// never echoes, so Close ends up inside a transport Read that outlives every close). At 1 s a third
// goroutine calls CloseNow. At 6 s client B is opened and reads; at 7 s late bytes of A's peer land
// in A's stuck Read; at 8 s B's message arrives. As long as A's Close is inside the connection's
// read buffer nobody may hand that buffer to B: every byte B reads is B's.
func c07RereadSetup(k connCfg, x string) func(c *fw.Ctx, name string) explore.Setup {
	return func(c *fw.Ctx, name string) explore.Setup {
		return func(w *vs.World) func(bool) {
			vsync.PoolLogging = true
			pa, pb := vpipe.New(), vpipe.New()
			pa.StickyRead = 30 * time.Second
			var leaks []string
			var gotB []byte
			var errB error
			doneB := false
			w.GoHarness("main", true, func() {
				bg := vctx.Background()
				msg := fill('A', 300)
				if k.Flate {
					def := &deflate.Deflater{NoContextTakeover: k.readerNoTakeover()}
					pa.In = peerFrame(k, frame.Frame{Fin: true, Rsv1: true, Opcode: frame.OpBinary, Payload: def.Message(msg)})
				} else {
					pa.In = peerData(k, frame.OpBinary, true, msg)
				}
				a := mkConn(pa, k)
				_, r, err := a.Reader(bg)
				if err != nil {
					leaks = append(leaks, "A: Reader failed: "+err.Error())
					return
				}
				got, err := io.ReadAll(r)
				if err != nil || len(got) != len(msg) {
					leaks = append(leaks, fmt.Sprintf("A: first read gave %d bytes, err=%v", len(got), err))
					return
				}
				w.GoHarness("userA", false, func() {
					buf := make([]byte, 16)
					look := func(b []byte) {
						for _, v := range b {
							if v != 'A' {
								leaks = append(leaks, fmt.Sprintf("A (%s) read byte %q", x, v))
								return
							}
						}
					}
					switch x {
					case "reread":
						for i := 0; i < 2; i++ {
							n, _ := r.Read(buf)
							look(buf[:n])
						}
					case "read":
						_, b, _ := a.Read(bg)
						look(b)
					case "readctx":
						ctx, cancel := vctx.WithTimeout(bg, 500*time.Millisecond)
						_, b, _ := a.Read(ctx)
						cancel()
						look(b)
					case "reader-reread":
						// the next message never comes: Reader fails when the connection is closed; the old
						// reader is asked once more afterwards
						a.Reader(bg)
						n, _ := r.Read(buf)
						look(buf[:n])
					case "write":
						a.Write(bg, websocket.MessageBinary, fill('a', 300))
					case "writer-open":
						if wr, err := a.Writer(bg, websocket.MessageBinary); err == nil {
							wr.Write(fill('a', 300))
							vtime.Sleep(2 * time.Second)
							wr.Write(fill('a', 300))
							wr.Close()
						}
					case "ping":
						ctx, cancel := vctx.WithTimeout(bg, 500*time.Millisecond)
						a.Ping(ctx)
						cancel()
					case "closeread":
						vs.Recv(a.CloseRead(bg).Done())
					case "limit+reread":
						a.SetReadLimit(100)
						n, _ := r.Read(buf)
						look(buf[:n])
					}
				})
				w.GoHarness("closerA", false, func() {
					a.Close(1000, "")
				})
				w.GoHarness("closeNowA", false, func() {
					vtime.Sleep(1 * time.Second)
					a.CloseNow()
				})
				w.GoHarness("peerA", false, func() {
					vtime.Sleep(7 * time.Second)
					pa.Send(peerData(k, frame.OpBinary, true, fill('A', 200)))
				})
				w.GoHarness("userB", true, func() {
					vtime.Sleep(6 * time.Second)
					b := mkConn(pb, k)
					_, gotB, errB = b.Read(bg)
					doneB = true
					b.CloseNow()
				})
				w.GoHarness("peerB", false, func() {
					vtime.Sleep(8 * time.Second)
					pb.Send(peerData(k, frame.OpBinary, true, fill('B', 300)))
				})
			})
			return func(complete bool) {
				if !complete {
					return
				}
				role := k.String()
				if w.Panic != "" {
					violate(c, w, name, "C07/panic/reread-close/"+role, w.Panic)
					return
				}
				c.OutcomeStr(fmt.Sprintf("%s|doneB=%v|errB=%v|n=%d", name, doneB, errB != nil, len(gotB)))
				if len(leaks) > 0 {
					violate(c, w, name, "C07/foreign-bytes/reread-close/"+role, fmt.Sprint(leaks))
					return
				}
				if !doneB {
					violate(c, w, name, "C07/other-connection-disturbed/read/"+role, fmt.Sprintf("connection B (fresh, healthy transport, its message sent at 8 s) never finished its Read: stuck %v", stuckTasks(w)))
					return
				}
				for i, v := range gotB {
					if v != 'B' {
						violate(c, w, name, "C07/foreign-bytes/reread-close/"+role, fmt.Sprintf("connection B read byte %q at offset %d of its message; its peer only ever sent 'B' (late bytes of connection A, whose Close was still reading, ended up in B's read buffer)", v, i))
						return
					}
				}
				if errB != nil || len(gotB) != 300 {
					violate(c, w, name, "C07/other-connection-disturbed/read/"+role, fmt.Sprintf("connection B read %d bytes, err=%v; its peer sent one message of 300 bytes", len(gotB), errB))
					return
				}
				if msg := c07PoolInvariant(); msg != "" {
					violate(c, w, name, "C07/pool-double-put/reread-close/"+role, msg)
				}
			}
		}
	}
}

func c07StickyScenarios(tier string) []scenario {
	var scs []scenario
	p := 1
	if tier == "thorough" {
		p = 2
	}
	for _, k := range []connCfg{{Client: true}, {Client: true, Flate: true}, {Client: false}} {
		for _, cl := range []string{"CloseNow", "Close"} {
			scs = append(scs, scenario{Name: fmt.Sprintf("sticky/%s/%s", cl, k.String()), Cfg: explore.Config{P: p, T: 1, Horizon: 120e9}, Setup: c07StickySetup(k, cl)})
		}
	}
	for _, k := range []connCfg{{Client: true, Flate: true}, {Client: true, Flate: true, CNCT: true, SNCT: true}, {Client: true}, {Client: false, Flate: true}} {
		for _, x := range []string{"reread", "read", "readctx", "reader-reread", "write", "writer-open", "ping", "closeread", "limit+reread"} {
			if x != "reread" && tier != "thorough" && !(k.Client && k.Flate && !k.CNCT) {
				continue
			}
			n := x + "-close/" + k.String()
			scs = append(scs, scenario{Name: n, Cfg: explore.Config{P: 2, T: 0, Horizon: 120e9}, Setup: c07RereadSetup(k, x)})
		}
	}
	return scs
}

func init() {
	fw.Register(fw.Part{Prop: "C07", Name: "s.sticky",
		Units:  func(tier string) []fw.Unit { return scenarioUnits(c07StickyScenarios(tier)) },
		Replay: replayFn(c07StickyScenarios),
	})
}
