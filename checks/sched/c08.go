package sched

import (
	"fmt"
	"io"

	"verif/engine/explore"
	"verif/engine/vctx"
	"verif/engine/vpipe"
	"verif/engine/vs"
	"verif/fw"
	"verif/refws/frame"
)

// C08 (schedule part): a change of the read limit between two messages, made by
// another goroutine while the reader is (or is about to be) waiting for the
// next message, governs that next message. SetReadLimit has returned before
// the first byte of the second message is sent, so whichever way the reader and
// the setter interleave, the second message is judged by the new limit.

type c08Params struct {
	K      connCfg
	L1, L2 int64 // c08Default as L1 = SetReadLimit is not called before the first message
	Size   int   // payload size of the second message
	API    string
}

func (p c08Params) name() string {
	return fmt.Sprintf("limit-change/%d->%d/size%d/%s/%s", p.L1, p.L2, p.Size, p.API, p.K.String())
}

const c08Default = 32768

type c08State struct {
	p         *vpipe.Pipe
	first     []byte
	firstErr  error
	second    []byte
	secondErr error
	done      bool
}

func c08Setup(prm c08Params) func(c *fw.Ctx, name string) explore.Setup {
	return func(c *fw.Ctx, name string) explore.Setup {
		return func(w *vs.World) func(bool) {
			st := &c08State{p: vpipe.New()}
			k := prm.K
			msg2 := fill(0xC2, prm.Size)
			w.GoHarness("main", true, func() {
				conn := mkConn(st.p, k)
				bg := vctx.Background()
				if prm.L1 != c08Default {
					conn.SetReadLimit(prm.L1)
				}
				readOne := func() ([]byte, error) {
					if prm.API == "read" {
						_, b, err := conn.Read(bg)
						return b, err
					}
					_, r, err := conn.Reader(bg)
					if err != nil {
						return nil, err
					}
					var out []byte
					buf := make([]byte, 64)
					for {
						n, err := r.Read(buf)
						out = append(out, buf[:n]...)
						if err != nil {
							if err == io.EOF {
								return out, nil
							}
							return out, err
						}
					}
				}
				w.GoHarness("reader", true, func() {
					st.first, st.firstErr = readOne()
					if st.firstErr == nil {
						st.second, st.secondErr = readOne()
					}
					st.done = true
					conn.CloseNow()
				})
				w.GoHarness("setter", false, func() {
					st.p.Send(peerData(k, frame.OpBinary, true, fill(0xC1, 5)))
					st.p.WaitDrained()
					conn.SetReadLimit(prm.L2)
					st.p.Send(peerData(k, frame.OpBinary, true, msg2))
				})
			})
			return func(complete bool) {
				if !complete {
					return
				}
				locus := fmt.Sprintf("%d->%d/%s", prm.L1, prm.L2, prm.K.String())
				if w.Panic != "" {
					violate(c, w, name, "C08/panic/"+locus, w.Panic)
					return
				}
				if w.Deadlock || w.HorizonHit || !st.done {
					violate(c, w, name, "C08/limit-change/reader-stuck/"+locus, fmt.Sprintf("the reader did not finish: %v", stuckTasks(w)))
					return
				}
				if st.firstErr != nil || len(st.first) != 5 {
					violate(c, w, name, "C08/within-limit-not-delivered/limit-change/"+locus, fmt.Sprintf("first message (5 bytes, limit %d): got %d bytes, err=%v", prm.L1, len(st.first), st.firstErr))
					return
				}
				L := prm.L2
				within := L < 0 || int64(prm.Size) <= L
				c.OutcomeStr(fmt.Sprintf("%s|within=%v|n=%d|err=%v", name, within, len(st.second), st.secondErr != nil))
				if within {
					if st.secondErr != nil || string(st.second) != string(msg2) {
						violate(c, w, name, "C08/within-limit-not-delivered/limit-change/"+locus, fmt.Sprintf("SetReadLimit(%d) returned before the second message (%d bytes) was sent, so it is within the limit; read gave %d bytes, err=%v", prm.L2, prm.Size, len(st.second), st.secondErr))
					}
					return
				}
				if st.secondErr == nil {
					violate(c, w, name, "C08/over-limit-reported-complete/limit-change/"+locus, fmt.Sprintf("SetReadLimit(%d) returned before the second message (%d bytes) was sent, so it exceeds the limit; the read ended cleanly with %d bytes", prm.L2, prm.Size, len(st.second)))
					return
				}
				if int64(len(st.second)) > L+1 {
					violate(c, w, name, "C08/over-limit-too-many-bytes/limit-change/"+locus, fmt.Sprintf("%d bytes handed over, limit %d", len(st.second), L))
					return
				}
				f, ok := firstClose(st.p.Out)
				if !ok || closeCodeOf(f) != 1009 {
					violate(c, w, name, "C08/over-limit-no-1009/limit-change/"+locus, fmt.Sprintf("the read failed (%v) but no Close frame with status 1009 was written: %s", st.secondErr, describeFrames(connFrames(st.p.Out))))
				}
			}
		}
	}
}

func c08Scenarios(tier string) []scenario {
	var scs []scenario
	type ch struct {
		l1, l2 int64
		size   int
	}
	changes := []ch{{16, 1024, 100}, {1024, 16, 100}, {c08Default, 100000, 33000}, {-1, 16, 100}, {16, -1, 100}, {c08Default, 16, 17}, {16, c08Default, 9000}}
	if tier == "thorough" {
		changes = append(changes, ch{16, 1024, 1024}, ch{16, 1024, 1025}, ch{1024, 16, 16}, ch{c08Default, -1, 40000}, ch{-1, c08Default, 32769}, ch{16, c08Default, 32768})
	}
	for _, k := range []connCfg{{Client: false}, {Client: true}, {Client: false, Flate: true, Thr: 1}} {
		for _, x := range changes {
			for _, api := range []string{"read", "reader"} {
				if k.Flate && api == "reader" && tier != "thorough" {
					continue
				}
				// large messages take many transport reads: one preemption less
				cfg := explore.Config{P: 2, T: 0, E: 0, Horizon: 60e9}
				if x.size > 1000 {
					cfg.P = 1
				}
				if tier == "thorough" {
					cfg.P++
				}
				prm := c08Params{K: k, L1: x.l1, L2: x.l2, Size: x.size, API: api}
				scs = append(scs, scenario{Name: prm.name(), Cfg: cfg, Setup: c08Setup(prm), Group: fmt.Sprintf("limit-change/%s/%s/%v", api, k.String(), x.size > 1000)})
			}
		}
	}
	return scs
}

func init() {
	fw.Register(fw.Part{Prop: "C08", Name: "s.limit",
		Units:  func(tier string) []fw.Unit { return scenarioUnits(c08Scenarios(tier)) },
		Replay: replayFn(c08Scenarios),
	})
}
