package sched

import (
	"fmt"
	"io"
	"time"

	"nhooyr.io/websocket"
	"verif/engine/explore"
	"verif/engine/vctx"
	"verif/engine/vpipe"
	"verif/engine/vs"
	"verif/fw"
	"verif/refws/frame"
)

// C08, part s.after: what the application gets when it goes on reading after a read has failed.
//
// stuck-writer: another goroutine's Write is parked in the transport (the peer does not read) and
// holds the frame lock, so the 1009 Close frame cannot be written within its 5 s; the reader has hit
// the limit on a message whose unread rest contains, byte for byte, a small text frame. Reading
// again never yields a message: an oversized message is never continued as something else.
//
// glitch: the transport reports a transient error together with data in the middle of an oversized
// message and goes on working; the application reads on. In total it is handed at most limit+1
// bytes of that message and the message is never reported complete.
func c08AfterSetup(k connCfg, kind string, limit, size, glitchAt int) func(c *fw.Ctx, name string) explore.Setup {
	return func(c *fw.Ctx, name string) explore.Setup {
		return func(w *vs.World) func(bool) {
			p := vpipe.New()
			var got [][]byte
			var errs []error
			handed, completed := 0, false
			w.GoHarness("main", true, func() {
				conn := mkConn(p, k)
				conn.SetReadLimit(int64(limit))
				bg := vctx.Background()
				switch kind {
				case "stuck-writer":
					p.Window = 8
					w.GoHarness("writer", false, func() { conn.Write(bg, websocket.MessageBinary, fill(0xA9, 200)) })
					vs.Quiesce()
					inner := peerData(k, frame.OpText, true, []byte("SMUGGLED"))
					payload := append(fill('x', limit+1), inner...)
					p.Send(peerData(k, frame.OpBinary, true, payload))
					for i := 0; i < 3; i++ {
						ctx, cancel := vctx.WithTimeout(bg, 20*time.Second)
						_, b, err := conn.Read(ctx)
						cancel()
						got, errs = append(got, b), append(errs, err)
						if err == nil {
							completed = true
						}
					}
				case "glitch":
					p.GlitchAfter = glitchAt
					p.Send(peerData(k, frame.OpBinary, true, fill('y', size)))
					ctx, cancel := vctx.WithTimeout(bg, 20*time.Second)
					_, r, err := conn.Reader(ctx)
					if err == nil {
						buf := make([]byte, 64)
						for i := 0; i < 40; i++ {
							n, rerr := r.Read(buf)
							handed += n
							if rerr == io.EOF {
								completed = true
								break
							}
							errs = append(errs, rerr)
						}
					}
					cancel()
				}
				conn.CloseNow()
			})
			return func(complete bool) {
				if !complete {
					return
				}
				locus := kind + "/" + k.String()
				if w.Panic != "" {
					violate(c, w, name, "C08/panic/"+locus, w.Panic)
					return
				}
				c.OutcomeStr(fmt.Sprintf("%s|completed=%v|handed=%d|n=%d", name, completed, handed, len(errs)))
				switch kind {
				case "stuck-writer":
					if len(errs) > 0 && errs[0] == nil {
						violate(c, w, name, "C08/over-limit-message-delivered/"+locus, fmt.Sprintf("a message of %d bytes was delivered under a limit of %d", len(got[0]), limit))
						return
					}
					for i := 1; i < len(errs); i++ {
						if errs[i] == nil {
							violate(c, w, name, "C08/read-continues-after-limit-violation/"+locus, fmt.Sprintf("the read of a %d-byte message failed under a limit of %d (%v; the 1009 Close frame could not be written: another goroutine's Write is parked in the transport); Read #%d then returned the message %q, which the peer never sent: the unread rest of the oversized frame was parsed as frames", limit+1+len(got[i])+2, limit, errs[0], i+1, got[i]))
							return
						}
					}
				case "glitch":
					if completed {
						violate(c, w, name, "C08/over-limit-message-reported-complete/"+locus, fmt.Sprintf("a message of %d bytes under a limit of %d was reported complete (%d bytes handed over) after the transport had reported a transient error together with data at byte %d", size, limit, handed, glitchAt))
						return
					}
					if handed > limit+1 {
						violate(c, w, name, "C08/more-than-limit-plus-one-bytes/"+locus, fmt.Sprintf("%d bytes of an oversized message were handed to the caller under a limit of %d (transient transport error together with data at byte %d)", handed, limit, glitchAt))
					}
				}
			}
		}
	}
}

func c08AfterScenarios(tier string) []scenario {
	var scs []scenario
	cfg := explore.Config{P: 1, T: 1, Horizon: 120e9}
	if tier == "thorough" {
		cfg.P = 2
	}
	for _, k := range []connCfg{{Client: true}, {Client: true, Flate: true}} {
		scs = append(scs, scenario{Name: "after/stuck-writer/" + k.String(), Cfg: cfg, Setup: c08AfterSetup(k, "stuck-writer", 20, 0, 0)})
	}
	for _, k := range []connCfg{{Client: true}, {Client: false}} {
		for _, g := range [][3]int{{10, 15, 12}, {100, 125, 70}, {100, 125, 110}, {10, 15, 4}} {
			n := fmt.Sprintf("after/glitch-limit%d-size%d-at%d/%s", g[0], g[1], g[2], k.String())
			scs = append(scs, scenario{Name: n, Cfg: explore.Config{P: 0, Horizon: 120e9}, Setup: c08AfterSetup(k, "glitch", g[0], g[1], g[2]), Group: "after-glitch/" + k.String()})
		}
	}
	return scs
}

func init() {
	fw.Register(fw.Part{Prop: "C08", Name: "s.after",
		Units:  func(tier string) []fw.Unit { return scenarioUnits(c08AfterScenarios(tier)) },
		Replay: replayFn(c08AfterScenarios),
	})
}
