package sched

import (
	"fmt"
	"io"
	"time"

	"verif/engine/explore"
	"verif/engine/vctx"
	"verif/engine/vpipe"
	"verif/engine/vs"
	"verif/engine/vtime"
	"verif/fw"
	"verif/refws/frame"
)

// C08 (schedule part 2): an over-limit message has been received completely (all of its
// bytes are there at time 0); the peer is slow: it accepts nothing until 1 s. The
// application gives up on the read meanwhile (its context ends at 500 ms) or not at all.
// By then the message has already exceeded the limit: the read fails, and when the
// peer reads again (well within the library's own 5 s bound for the Close frame) the
// Close frame with status 1009 is on the wire.

type c08CancelParams struct {
	K      connCfg
	API    string // read | reader
	Cancel bool   // the reader's context is cancelled at 500 ms
}

func (p c08CancelParams) name() string {
	return fmt.Sprintf("limit-1009-slow-peer/cancel=%v/%s/%s", p.Cancel, p.API, p.K.String())
}

func c08CancelSetup(prm c08CancelParams) func(c *fw.Ctx, name string) explore.Setup {
	return func(c *fw.Ctx, name string) explore.Setup {
		return func(w *vs.World) func(bool) {
			p := vpipe.New()
			p.Window = 1 // the peer accepts (almost) nothing
			k := prm.K
			var got []byte
			var rerr error
			done := false
			w.GoHarness("main", true, func() {
				conn := mkConn(p, k)
				conn.SetReadLimit(20)
				bg := vctx.Background()
				ctx, cancel := vctx.WithCancel(bg)
				p.Send(peerData(k, frame.OpBinary, true, fill(0xC7, 50)))
				if prm.Cancel {
					w.GoHarness("canceller", false, func() {
						vtime.Sleep(500 * time.Millisecond)
						cancel()
					})
				}
				w.GoHarness("drainer", false, func() {
					vtime.Sleep(time.Second)
					p.SetWindow(0)
				})
				if prm.API == "read" {
					_, got, rerr = conn.Read(ctx)
				} else {
					_, r, err := conn.Reader(ctx)
					if err != nil {
						rerr = err
					} else {
						got, rerr = io.ReadAll(r)
					}
				}
				done = true
				vs.Quiesce()
				vtime.Sleep(6 * time.Second) // past every bound of the library
				conn.CloseNow()
			})
			return func(complete bool) {
				if !complete {
					return
				}
				locus := fmt.Sprintf("slow-peer/cancel=%v/%s", prm.Cancel, k.String())
				if w.Panic != "" {
					violate(c, w, name, "C08/panic/"+locus, w.Panic)
					return
				}
				if w.Deadlock || w.HorizonHit || !done {
					c.OutcomeStr(name + "|stuck") // termination is C09's subject
					return
				}
				has1009 := false
				for _, f := range connFrames(p.Out) {
					if f.Opcode == frame.OpClose && closeCodeOf(f) == 1009 {
						has1009 = true
					}
				}
				c.OutcomeStr(fmt.Sprintf("%s|err=%v|got=%d|1009=%v", name, rerr != nil, len(got), has1009))
				if rerr == nil {
					violate(c, w, name, "C08/over-limit-reported-complete/"+locus, fmt.Sprintf("a 50-byte message under a limit of 20 was reported complete (%d bytes)", len(got)))
					return
				}
				if len(got) > 21 {
					violate(c, w, name, "C08/over-limit-bytes-delivered/"+locus, fmt.Sprintf("%d bytes of an over-limit message were handed to the caller (limit 20)", len(got)))
					return
				}
				if !has1009 {
					violate(c, w, name, "C08/over-limit-no-1009/"+locus, fmt.Sprintf("the whole over-limit message had arrived at time 0 and the read failed with %q; the peer accepted bytes again at 1 s (the library allows a Close frame 5 s), yet no Close frame with status 1009 is on the wire: %s", rerr, describeFrames(connFrames(p.Out))))
				}
			}
		}
	}
}

func c08CancelScenarios(tier string) []scenario {
	var scs []scenario
	pb := 1
	if tier == "thorough" {
		pb = 2
	}
	for _, k := range []connCfg{{Client: false}, {Client: true}, {Client: false, Flate: true}} {
		for _, api := range []string{"read", "reader"} {
			for _, cancel := range []bool{false, true} {
				prm := c08CancelParams{K: k, API: api, Cancel: cancel}
				scs = append(scs, scenario{Name: prm.name(), Cfg: explore.Config{P: pb, T: 1, Horizon: 60e9}, Setup: c08CancelSetup(prm), Group: "slow-peer/" + k.String()})
			}
		}
	}
	return scs
}

func init() {
	fw.Register(fw.Part{Prop: "C08", Name: "s.slowpeer",
		Units:  func(tier string) []fw.Unit { return scenarioUnits(c08CancelScenarios(tier)) },
		Replay: replayFn(c08CancelScenarios),
	})
}
