package sched

import (
	"fmt"
	"io"
	"strconv"
	"strings"
	"time"
	"unsafe"

	"nhooyr.io/websocket"
	"verif/engine/explore"
	"verif/engine/vctx"
	"verif/engine/vpipe"
	"verif/engine/vs"
	"verif/engine/vtime"
	"verif/fw"
	"verif/refws/deflate"
	"verif/refws/frame"
)

// C09: Close, CloseNow and blocked calls end in bounded (virtual) time whatever
// the peer does; the CloseRead context is cancelled promptly after the close.

type c09Params struct {
	K      connCfg
	Adv    string // silent | stallHeader | stallPayload | flood | halfclose | echo4900 | echo5100 | dataThenSilent
	AdvK   int
	State  string // idle | reader | halfread | closeread | closeread-data | closeread-twice | writer | ping | netconn-deadline-moved | ...
	Action string // Close | CloseNow
}

func (p c09Params) name() string {
	a := p.Adv
	if p.Adv == "stallHeader" || p.Adv == "stallPayload" || p.Adv == "stallPing" {
		a = fmt.Sprintf("%s%d", p.Adv, p.AdvK)
	}
	return fmt.Sprintf("%s/%s/%s/%s", a, p.State, p.Action, p.K.String())
}

type c09State struct {
	p               *vpipe.Pipe
	t0, t1          int64
	closeFrameSeen  bool
	closeFrameAt    int64 // when the connection's own Close frame was on the wire (adversaries that wait for it)
	actErr          error
	actDone         bool
	ctxDoneAt       int64
	ctxDone         bool
	blockedReturned map[string]bool
}

const c09Sec = int64(time.Second)

func c09Setup(prm c09Params) func(c *fw.Ctx, name string) explore.Setup {
	return func(c *fw.Ctx, name string) explore.Setup {
		return func(w *vs.World) func(bool) {
			st := &c09State{p: vpipe.New(), blockedReturned: map[string]bool{}}
			k := prm.K
			if prm.State == "writer" || prm.State == "writer-big" {
				st.p.Window = 64
			}
			if prm.Adv == "neverReads" || prm.Adv == "slowThenData" || prm.Adv == "dupPongs" {
				st.p.Window = 1 // the peer's receive window is closed
			}
			w.GoHarness("main", true, func() {
				conn := mkConn(st.p, k)
				bg := vctx.Background()
				data100 := peerData(k, frame.OpBinary, true, fill(0xD0, 100))
				hdrLen := len(data100) - 100
				// pre-state
				if strings.HasPrefix(prm.State, "abandoned-writer-") {
					// a streamed message is started, one chunk written (it stays in the write
					// buffer, which it fills up to AdvK bytes short of / exactly to its end), and
					// the writer is abandoned
					n, _ := strconv.Atoi(strings.TrimPrefix(prm.State, "abandoned-writer-"))
					if wr, err := conn.Writer(bg, websocket.MessageBinary); err == nil {
						wr.Write(fill(0xAB, n))
					}
				}
				if prm.State == "stale-writer" {
					// a message is written through a Writer and finished; the application then
					// writes to the finished writer once more (an error, as documented)
					if wr, err := conn.Writer(bg, websocket.MessageBinary); err == nil {
						wr.Write(fill(0xAC, 10))
						wr.Close()
						wr.Write(fill(0xAD, 5))
						wr.Close()
					}
				}
				switch prm.State {
				case "closeframe-midmessage":
					// the peer's Close frame arrives between the fragments of a message while a Read
					// of that message is in progress: the read fails; then the action
					st.p.Send(append(peerData(k, frame.OpBinary, false, fill(0xC1, 20)), peerClose(k, 1000, "bye")...))
					blockedEarly := func() {
						_, r, err := conn.Reader(bg)
						if err == nil {
							io.Copy(io.Discard, r)
						}
					}
					blockedEarly()
				case "reread-after-eof":
					// a message is read to the end, its reader is asked once more (nothing, or the end
					// again), then the action
					msg := fill(0xC2, 300)
					if k.Flate {
						pl := (&deflate.Deflater{NoContextTakeover: k.readerNoTakeover()}).Message(msg)
						st.p.Send(peerFrame(k, frame.Frame{Fin: true, Rsv1: true, Opcode: frame.OpBinary, Payload: pl}))
					} else {
						st.p.Send(peerData(k, frame.OpBinary, true, msg))
					}
					_, r, err := conn.Reader(bg)
					if err == nil {
						io.Copy(io.Discard, r)
						var b [8]byte
						r.Read(b[:])
					}
				case "halfread":
					// a complete first fragment (fin=0) is available and one byte of it is consumed
					st.p.Send(peerData(k, frame.OpBinary, false, fill(0xC0, 20)))
					_, r, err := conn.Reader(bg)
					if err == nil {
						var b [1]byte
						r.Read(b[:])
					}
				case "halfread-reread":
					// as halfread, then the application asks for the next message too early
					st.p.Send(peerData(k, frame.OpBinary, false, fill(0xC0, 20)))
					_, r, err := conn.Reader(bg)
					if err == nil {
						var b [1]byte
						r.Read(b[:])
					}
					conn.Reader(bg) // fails: previous message not read to completion
				case "peerclosed-closeread", "ctxclosed-closeread":
					// the connection is closed underneath the application (peer's Close frame
					// handled by a Read, or a Read whose context expired), then CloseRead is
					// called for the first time
					if prm.State == "peerclosed-closeread" {
						st.p.Send(peerClose(k, 1001, ""))
						conn.Read(bg)
					} else {
						rctx, cancel := vctx.WithTimeout(bg, time.Second)
						conn.Read(rctx)
						cancel()
					}
					ctx := conn.CloseRead(bg)
					w.GoHarness("ctxwaiter", true, func() {
						vs.Recv(ctx.Done())
						st.ctxDoneAt = w.Now
						st.ctxDone = true
					})
				case "readlimit-failed":
					// a message over the read limit made a Read fail (Close frame 1009 written)
					conn.SetReadLimit(16)
					st.p.Send(peerData(k, frame.OpBinary, true, fill(0xC5, 40)))
					conn.Read(bg)
				case "closeread-twice":
					// CloseRead is idempotent: the context of a later call is cancelled as well
					conn.CloseRead(bg)
					ctx := conn.CloseRead(bg)
					w.GoHarness("ctxwaiter", true, func() {
						vs.Recv(ctx.Done())
						st.ctxDoneAt = w.Now
						st.ctxDone = true
					})
				case "closeread", "closeread-data":
					ctx := conn.CloseRead(bg)
					w.GoHarness("ctxwaiter", true, func() {
						vs.Recv(ctx.Done())
						st.ctxDoneAt = w.Now
						st.ctxDone = true
					})
				}
				// the adversary
				w.GoHarness("peer", false, func() {
					if prm.State == "closeread-data" {
						st.p.Send(peerData(k, frame.OpText, true, []byte("unexpected")))
					}
					switch prm.Adv {
					case "silent":
					case "stallHeader":
						st.p.Send(data100[:prm.AdvK])
					case "stallPayload":
						st.p.Send(data100[:hdrLen+prm.AdvK])
					case "stallPing":
						// a Ping frame whose header and the first AdvK payload bytes arrive together; then silence
						f := peerFrame(k, frame.Frame{Fin: true, Opcode: frame.OpPing, Payload: fill(0x70, 20)})
						st.p.Send(f[:len(f)-20+prm.AdvK])
					case "stallCloseFrame":
						// the peer's own Close frame with a reason, cut inside the payload
						f := peerClose(k, 1000, "a reason of some length")
						st.p.Send(f[:len(f)-10])
					case "dataThenSilent":
						st.p.Send(data100)
					case "neverReads":
					case "dupPongs":
						// the peer does not read (the connection's Ping is stuck in the transport) and
						// sends, twice, a Pong carrying the payload the connection's first Ping has
						pl := []byte("1")
						st.p.Send(append(frame.Ctl(frame.OpPong, !k.Client, pl).Encode(nil), frame.Ctl(frame.OpPong, !k.Client, pl).Encode(nil)...))
					case "slowThenData":
						// reads nothing for 4 s, sends one complete message at 8 s, then silence
						vtime.Sleep(4 * time.Second)
						st.p.SetWindow(0)
						vtime.Sleep(4 * time.Second)
						st.p.Send(data100)
					case "flood":
						for i := 0; i < 40; i++ {
							st.p.Send(peerData(k, frame.OpBinary, true, fill(0xF0, 10)))
							vtime.Sleep(time.Second)
						}
					case "halfclose":
						st.p.SendEOF()
					case "pingNoRead", "latePing":
						// the peer reads the connection's Close frame, then stops reading; pingNoRead:
						// it sends a Ping at once (the Pong cannot be written); latePing: 4.9 s later it
						// sends the header and half the payload of a Ping and goes silent
						if !st.p.WaitOut("close-frame", func(out []byte) bool { _, ok := firstClose(out); return ok }) {
							return
						}
						st.closeFrameAt, st.closeFrameSeen = w.Now, true
						st.p.SetWindow(len(st.p.Out) + 1) // (the window counts bytes not taken: nothing more gets through)
						f := peerFrame(k, frame.Frame{Fin: true, Opcode: frame.OpPing, Payload: fill(0x71, 20)})
						if prm.Adv == "latePing" {
							vtime.Sleep(4900 * time.Millisecond)
							f = f[:len(f)-10]
						}
						st.p.Send(f)
					case "echo4900", "echo5000", "echo5100":
						var cf frame.Frame
						if !st.p.WaitOut("close-frame", func(out []byte) bool {
							f, ok := firstClose(out)
							cf = f
							return ok
						}) {
							return
						}
						d := 4900 * time.Millisecond
						if prm.Adv == "echo5100" {
							d = 5100 * time.Millisecond
						}
						if prm.Adv == "echo5000" {
							d = 5000 * time.Millisecond
						}
						vtime.Sleep(d)
						st.p.Send(peerFrame(k, frame.Frame{Fin: true, Opcode: frame.OpClose, Payload: cf.Payload}))
					}
				})
				// blocked calls that must return once the connection is closed
				blocked := func(name string, f func()) {
					w.GoHarness(name, true, func() {
						f()
						st.blockedReturned[name] = true
					})
				}
				switch prm.State {
				case "reader":
					blocked("reader", func() {
						for {
							_, r, err := conn.Reader(bg)
							if err != nil {
								return
							}
							if _, err := io.Copy(io.Discard, r); err != nil {
								return
							}
						}
					})
				case "reader-once":
					blocked("reader", func() { conn.Read(bg) })
				case "ping+reader":
					blocked("pinger", func() { conn.Ping(bg) })
					blocked("reader", func() {
						for {
							if _, _, err := conn.Read(bg); err != nil {
								return
							}
						}
					})
				case "writer":
					blocked("writer", func() { conn.Write(bg, websocket.MessageBinary, fill(0xA7, 200)) })
				case "writer-big":
					// more than two write buffers: the transport is touched while the payload is copied
					blocked("writer", func() { conn.Write(bg, websocket.MessageBinary, fill(0xA8, 9000)) })
				case "ping":
					blocked("pinger", func() { conn.Ping(bg) })
				case "netconn-deadline-moved":
					// a NetConn read deadline is moved forward at the very instant it expires
					// (no Read active); a Read issued afterwards blocks and must return once
					// the connection is closed
					nc := websocket.NetConn(bg, conn, websocket.MessageBinary)
					nc.SetReadDeadline(vtime.Now().Add(time.Second))
					w.GoHarness("mover", false, func() {
						vtime.Sleep(time.Second)
						nc.SetReadDeadline(vtime.Now().Add(30 * time.Second))
					})
					blocked("ncreader", func() {
						vtime.Sleep(2 * time.Second)
						var b [8]byte
						nc.Read(b[:])
					})
				}
				w.GoHarness("closer", true, func() {
					if prm.State == "netconn-deadline-moved" {
						vtime.Sleep(3 * time.Second)
					}
					st.t0 = w.Now
					if prm.Action == "Close" {
						st.actErr = conn.Close(websocket.StatusNormalClosure, "")
					} else if prm.Action == "CloseBadArgs" {
						// arguments that cannot be sent: Close reports an error, and it still closes
						st.actErr = conn.Close(websocket.StatusNormalClosure, strings.Repeat("r", 124))
					} else if prm.Action == "CloseBadCode" {
						st.actErr = conn.Close(websocket.StatusCode(1006), "")
					} else {
						st.actErr = conn.CloseNow()
					}
					st.t1 = w.Now
					st.actDone = true
				})
			})
			return func(complete bool) {
				if !complete {
					return
				}
				c09Oracle(c, w, name, prm, st)
			}
		}
	}
}

func c09Oracle(c *fw.Ctx, w *vs.World, name string, prm c09Params, st *c09State) {
	adv := prm.Adv
	locus := fmt.Sprintf("%s/%s/%s/%s", adv, prm.State, prm.Action, prm.K.String())
	if w.Panic != "" {
		violate(c, w, name, "C09/panic/"+locus, w.Panic)
		return
	}
	out := fmt.Sprintf("%s|done=%v|dt=%dms|err=%v", name, st.actDone, (st.t1-st.t0)/1e6, st.actErr != nil)
	if st.ctxDone {
		out += fmt.Sprintf("|ctx+%dms", (st.ctxDoneAt-st.p.ClosedAt)/1e6)
	}
	c.OutcomeStr(out)
	if !st.actDone {
		why := "deadlock (nothing can run and no timer is pending)"
		if w.HorizonHit {
			why = "still blocked at the virtual-time horizon"
		}
		violate(c, w, name, "C09/"+prm.Action+"-never-returns/"+locus, fmt.Sprintf("%s did not return: %s; stuck tasks %v", prm.Action, why, stuckTasks(w)))
		return
	}
	dt := st.t1 - st.t0
	if strings.HasPrefix(prm.Action, "Close") && prm.Action != "CloseNow" && dt > 10*c09Sec+c09Sec/2 {
		violate(c, w, name, "C09/Close-exceeds-bound/"+locus, fmt.Sprintf("Close returned after %v of virtual time (documented bound about 5s+5s): %v", time.Duration(dt), st.actErr))
		return
	}
	if prm.Action == "Close" && st.closeFrameSeen && st.t1-st.closeFrameAt > 5*c09Sec+c09Sec/2 {
		violate(c, w, name, "C09/Close-wait-exceeds-bound/"+locus, fmt.Sprintf("the Close frame was on the wire %v after Close was called; Close returned %v after that (documented: about 5 s to wait for the peer's Close frame): %v", time.Duration(st.closeFrameAt-st.t0), time.Duration(st.t1-st.closeFrameAt), st.actErr))
		return
	}
	if prm.Action == "CloseNow" && dt > c09Sec {
		violate(c, w, name, "C09/CloseNow-not-prompt/"+locus, fmt.Sprintf("CloseNow returned after %v of virtual time: %v", time.Duration(dt), st.actErr))
		return
	}
	if !st.p.Closed {
		violate(c, w, name, "C09/connection-open-after-"+prm.Action+"/"+locus, fmt.Sprintf("%s returned (%v) but the transport was never closed: calls blocked on the connection stay blocked", prm.Action, st.actErr))
		return
	}
	if w.Deadlock || w.HorizonHit {
		violate(c, w, name, "C09/blocked-call-never-returns/"+locus, fmt.Sprintf("the connection is closed but tasks %v never return", stuckTasks(w)))
		return
	}
	if st.ctxDone && st.p.Closed && st.ctxDoneAt-st.p.ClosedAt > c09Sec {
		violate(c, w, name, "C09/CloseRead-context-late/"+locus, fmt.Sprintf("CloseRead context cancelled %v after the connection closed", time.Duration(st.ctxDoneAt-st.p.ClosedAt)))
		return
	}
}

func c09Scenarios(tier string) []scenario {
	var scs []scenario
	cfg := explore.Config{P: 1, T: 1, E: 0, Horizon: 120e9}
	if tier == "thorough" {
		cfg = explore.Config{P: 2, T: 2, E: 0, Horizon: 120e9}
	}
	type adv struct {
		a string
		k int
	}
	advs := []adv{{"silent", 0}, {"stallHeader", 1}, {"stallPayload", 0}, {"stallPayload", 7}, {"dataThenSilent", 0}, {"flood", 0}, {"halfclose", 0}, {"echo4900", 0}, {"echo5000", 0}, {"echo5100", 0}, {"stallPing", 0}, {"stallPing", 5}, {"stallCloseFrame", 0}}
	if tier == "thorough" {
		advs = append(advs, adv{"stallHeader", 2}, adv{"stallHeader", 3}, adv{"stallHeader", 5}, adv{"stallPayload", 1}, adv{"stallPayload", 50}, adv{"stallPayload", 99})
	}
	states := []string{"idle", "stale-writer", "reader", "halfread", "halfread-reread", "closeread", "closeread-data", "closeread-twice", "peerclosed-closeread", "ctxclosed-closeread", "writer", "writer-big", "readlimit-failed", "ping", "netconn-deadline-moved"}
	// a peer that never reads (or reads late) against states that leave bytes in the write buffer
	for _, k := range []connCfg{{Client: false}, {Client: true}} {
		sizes := []int{4089, 4090, 4091, 4092}
		if k.Client {
			sizes = []int{4082, 4083, 4085, 4087, 4088}
		}
		var sts []string
		for _, n := range sizes {
			sts = append(sts, fmt.Sprintf("abandoned-writer-%d", n))
		}
		sts = append(sts, "idle", "reader", "abandoned-writer-10")
		for _, s := range sts {
			for _, act := range []string{"Close", "CloseNow"} {
				prm := c09Params{K: k, Adv: "neverReads", State: s, Action: act}
				scs = append(scs, scenario{Name: prm.name(), Cfg: cfg, Setup: c09Setup(prm)})
			}
		}
		for _, s := range []string{"idle", "reader", "reader-once", "closeread"} {
			prm := c09Params{K: k, Adv: "slowThenData", State: s, Action: "Close"}
			scs = append(scs, scenario{Name: prm.name(), Cfg: cfg, Setup: c09Setup(prm)})
		}
		for _, kk := range []connCfg{k, {Client: k.Client, Flate: true, CNCT: k.Client, SNCT: k.Client}} {
			for _, s := range []string{"closeframe-midmessage", "reread-after-eof"} {
				for _, a := range []string{"silent", "echo4900"} {
					for _, act := range []string{"Close", "CloseNow"} {
						prm := c09Params{K: kk, Adv: a, State: s, Action: act}
						scs = append(scs, scenario{Name: prm.name(), Cfg: cfg, Setup: c09Setup(prm)})
					}
				}
			}
		}
		for _, a := range []string{"pingNoRead", "latePing"} {
			for _, s := range []string{"idle", "reader", "closeread"} {
				prm := c09Params{K: k, Adv: a, State: s, Action: "Close"}
				scs = append(scs, scenario{Name: prm.name(), Cfg: cfg, Setup: c09Setup(prm)})
			}
		}
		for _, act := range []string{"Close", "CloseNow"} {
			prm := c09Params{K: k, Adv: "dupPongs", State: "ping+reader", Action: act}
			scs = append(scs, scenario{Name: prm.name(), Cfg: cfg, Setup: c09Setup(prm)})
		}
		// Close with arguments that cannot be sent (reason of 124 bytes, code 1006)
		for _, act := range []string{"CloseBadArgs", "CloseBadCode"} {
			for _, s := range []string{"idle", "reader", "closeread", "writer"} {
				for _, a := range []string{"silent", "echo4900"} {
					prm := c09Params{K: k, Adv: a, State: s, Action: act}
					scs = append(scs, scenario{Name: prm.name(), Cfg: cfg, Setup: c09Setup(prm)})
				}
			}
		}
	}
	for _, k := range []connCfg{{Client: false}, {Client: true}} {
		for _, a := range advs {
			for _, s := range states {
				for _, act := range []string{"Close", "CloseNow"} {
					if k.Client && a.a == "stallHeader" && a.k > 1 && tier != "thorough" {
						continue
					}
					prm := c09Params{K: k, Adv: a.a, AdvK: a.k, State: s, Action: act}
					scs = append(scs, scenario{Name: prm.name(), Cfg: cfg, Setup: c09Setup(prm)})
				}
			}
		}
	}
	return scs
}

func init() {
	fw.Register(fw.Part{Prop: "C09", Name: "s.term",
		Units:  func(tier string) []fw.Unit { return scenarioUnits(c09Scenarios(tier)) },
		Replay: replayFn(c09Scenarios),
	})
}

// Two connections of one process: package-level state of the library (the table of
// sliding-window pools is built lazily by the first compressed reads) must not let
// one connection's Close or CloseNow wait for another connection. A and B (context
// takeover) each receive their first compressed message at the same time; then A
// is closed with Close (silent peer) and B with CloseNow.
func c09TwoConnSetup(k connCfg) func(c *fw.Ctx, name string) explore.Setup {
	return func(c *fw.Ctx, name string) explore.Setup {
		return func(w *vs.World) func(bool) {
			pa, pb := vpipe.New(), vpipe.New()
			var tA0, tA1, tB0, tB1 int64
			var doneA, doneB bool
			reads := 0
			var gate struct{ x int }
			w.GoHarness("main", true, func() {
				bg := vctx.Background()
				a, b := mkConn(pa, k), mkConn(pb, k)
				for i, x := range []struct {
					conn *websocket.Conn
					p    *vpipe.Pipe
				}{{a, pa}, {b, pb}} {
					x := x
					cp := (&deflate.Deflater{}).Message(fill(byte(0xA0+i), 400))
					x.p.Send(peerFrame(k, frame.Frame{Fin: true, Rsv1: true, Opcode: frame.OpBinary, Payload: cp}))
					w.GoHarness(fmt.Sprintf("reader%d", i), true, func() {
						x.conn.Read(bg)
						vs.BlockOn(unsafe.Pointer(&gate), "read-done", nil, func() { reads++ })
					})
				}
				w.GoHarness("closerA", true, func() {
					vs.BlockOn(unsafe.Pointer(&gate), "wait-reads", func() bool { return reads == 2 }, func() {})
					tA0 = w.Now
					a.Close(websocket.StatusNormalClosure, "")
					tA1 = w.Now
					doneA = true
				})
				w.GoHarness("closerB", true, func() {
					vs.BlockOn(unsafe.Pointer(&gate), "wait-reads", func() bool { return reads == 2 }, func() {})
					tB0 = w.Now
					b.CloseNow()
					tB1 = w.Now
					doneB = true
				})
			})
			return func(complete bool) {
				if !complete {
					return
				}
				locus := "two-connections/" + k.String()
				if w.Panic != "" {
					violate(c, w, name, "C09/panic/"+locus, w.Panic)
					return
				}
				c.OutcomeStr(fmt.Sprintf("%s|A=%v/%dms|B=%v/%dms", name, doneA, (tA1-tA0)/1e6, doneB, (tB1-tB0)/1e6))
				switch {
				case !doneA:
					violate(c, w, name, "C09/Close-never-returns/"+locus, fmt.Sprintf("Close on connection A did not return (deadlock=%v); stuck tasks %v", w.Deadlock, stuckTasks(w)))
				case !doneB:
					violate(c, w, name, "C09/CloseNow-never-returns/"+locus, fmt.Sprintf("CloseNow on connection B did not return (deadlock=%v); stuck tasks %v", w.Deadlock, stuckTasks(w)))
				case tA1-tA0 > 10*c09Sec+c09Sec/2:
					violate(c, w, name, "C09/Close-exceeds-bound/"+locus, fmt.Sprintf("Close on A returned after %v", time.Duration(tA1-tA0)))
				case tB1-tB0 > c09Sec:
					violate(c, w, name, "C09/CloseNow-not-prompt/"+locus, fmt.Sprintf("CloseNow on B returned after %v", time.Duration(tB1-tB0)))
				case w.Deadlock || w.HorizonHit:
					violate(c, w, name, "C09/blocked-call-never-returns/"+locus, fmt.Sprintf("both connections are closed but tasks %v never return", stuckTasks(w)))
				}
			}
		}
	}
}

func c09TwoConnScenarios(tier string) []scenario {
	var scs []scenario
	p := 1
	if tier == "thorough" {
		p = 2
	}
	for _, k := range []connCfg{{Client: false, Flate: true, Thr: 1}, {Client: true, Flate: true, Thr: 1}} {
		scs = append(scs, scenario{Name: "two-connections/" + k.String(), Cfg: explore.Config{P: p, T: 0, Horizon: 120e9}, Setup: c09TwoConnSetup(k)})
	}
	return scs
}

func init() {
	fw.Register(fw.Part{Prop: "C09", Name: "s.twoconn",
		Units:  func(tier string) []fw.Unit { return scenarioUnits(c09TwoConnScenarios(tier)) },
		Replay: replayFn(c09TwoConnScenarios),
	})
}
