package sched

import (
	"bytes"
	"fmt"
	"io"
	"strings"
	"time"
	"unsafe"

	"nhooyr.io/websocket"
	"verif/engine/explore"
	"verif/engine/vctx"
	"verif/engine/vpipe"
	"verif/engine/vs"
	"verif/engine/vtime"
	"verif/fw"
	"verif/refws/deflate"
	"verif/refws/frame"
)

// C10: a context bounds only its own call. (i) after a call has returned
// successfully, cancelling its context is harmless; (ii) a cancellation that
// arrives while the call is blocked makes it return promptly with an error and
// the connection is closed.

type c10Params struct {
	K    connCfg
	Prog []string // R1 R3 RC W1 WM P1 | terminal: RN WB PN WL
	Fam  string   // "rw" (reads and writes) | "pw" (pings and writes, background reader)
}

func (p c10Params) name() string {
	return fmt.Sprintf("%s/%s/%s", p.Fam, strings.Join(p.Prog, "+"), p.K.String())
}

type c10Call struct {
	op                 string
	started, returned  bool
	startTick, endTick int
	err                error
	cancelTick         int   // 0 = not delivered
	cancelNow, endNow  int64 // virtual times
	closedAtReturn     bool
	blockedAtCancel    bool   // the call was parked with nothing enabled when the cancellation arrived
	blockedIn          string // description of the operation it was parked in
}

type c10State struct {
	p        *vpipe.Pipe
	calls    []*c10Call
	tick     int
	progDone bool
	probeErr error
	probed   bool
}

func c10Setup(prm c10Params) func(c *fw.Ctx, name string) explore.Setup {
	return func(c *fw.Ctx, name string) explore.Setup {
		return func(w *vs.World) func(bool) {
			st := &c10State{p: vpipe.New()}
			k := prm.K
			for _, op := range prm.Prog {
				if op == "WB" {
					st.p.Window = 8
				}
			}
			for _, op := range prm.Prog {
				st.calls = append(st.calls, &c10Call{op: op})
			}
			w.GoHarness("main", true, func() {
				conn := mkConn(st.p, k)
				bg := vctx.Background()
				ctxs := make([]vctx.Context, len(prm.Prog))
				ncancel := 0
				mainTask := w.Cur()
				for i := range prm.Prog {
					i := i
					ctxs[i], _ = vctx.WithCancel(bg)
					cl := st.calls[i]
					ncancel++
					w.GoHarness(fmt.Sprintf("cancel%d", i), true, func() {
						if prm.Fam == "rl" {
							// this family's reads wait for the peer (virtual time has to pass): a
							// cancellation that can fire at once would always come first, so every
							// context is cancelled at some moment after 10 s
							vtime.Sleep(10 * time.Second)
						}
						// the cancellation arrives at a scheduler-chosen moment; whether the
						// call is blocked at that moment is observed atomically with it
						vs.Point(&vs.Op{Desc: "deliver-cancel", Ready: func() []int { return []int{0} }, Fire: func(int) {
							if cl.started && !cl.returned {
								cl.blockedAtCancel, cl.blockedIn = w.Blocked(mainTask)
							}
							vctx.CancelNow(ctxs[i])
							st.tick++
							cl.cancelTick = st.tick
							cl.cancelNow = w.Now
						}, Objs: func(int) ([]unsafe.Pointer, []unsafe.Pointer, *vs.Task) {
							return nil, append(vctx.DoneObjs(ctxs[i]), st.p.RObj()), nil
						}})
					})
				}
				// the peer provides what the program's reads and pings need
				def := &deflate.Deflater{NoContextTakeover: k.readerNoTakeover()}
				w.GoHarness("peer", false, func() {
					pongs := 0
					for _, op := range prm.Prog {
						switch op {
						case "R1":
							st.p.Send(peerData(k, frame.OpBinary, true, fill(0xD1, 9)))
						case "RL":
							// nothing for 6 s (longer than any internal 5 s bound), then a Ping, then
							// after another second the message
							vtime.Sleep(6 * time.Second)
							st.p.Send(peerFrame(k, frame.Frame{Fin: true, Opcode: frame.OpPing, Payload: []byte("late")}))
							vtime.Sleep(time.Second)
							st.p.Send(peerData(k, frame.OpBinary, true, fill(0xD9, 9)))
						case "R3":
							st.p.Send(peerData(k, frame.OpText, false, fill(0xD2, 4)))
							st.p.Send(peerFrame(k, frame.Frame{Fin: true, Opcode: frame.OpPing, Payload: []byte("pp")}))
							st.p.Send(peerData(k, frame.OpCont, false, nil))
							st.p.Send(peerData(k, frame.OpCont, true, fill(0xD3, 5)))
						case "RP":
							// header and the first 3 of 9 payload bytes arrive in one delivery; nothing follows
							f := peerData(k, frame.OpBinary, true, fill(0xD7, 9))
							st.p.Send(f[:len(f)-6])
						case "RK":
							// a Ping whose payload is cut the same way
							f := peerFrame(k, frame.Frame{Fin: true, Opcode: frame.OpPing, Payload: []byte("pingpayload")})
							st.p.Send(f[:len(f)-6])
						case "RF":
							// a compressed message whose deflate stream ends with a final block early in
							// a 5000-byte frame; the frame's remainder (which carries no data and is
							// discarded) stalls 800 bytes before its end, beyond the first read-buffer load
							fin := (&deflate.Deflater{NoContextTakeover: true}).MessageBFinal([]byte("hello"))
							pl := append(append([]byte{}, fin...), make([]byte, 5000-len(fin))...)
							f := peerFrame(k, frame.Frame{Fin: true, Rsv1: true, Opcode: frame.OpText, Payload: pl})
							st.p.Send(f[:len(f)-800])
						case "RE":
							st.p.Send(peerData(k, frame.OpBinary, false, fill(0xD4, 6)))
							st.p.Send(peerData(k, frame.OpCont, true, nil))
						case "R0":
							st.p.Send(peerData(k, frame.OpText, true, nil))
						case "RC":
							msg := bytes.Repeat([]byte("compress me "), 30)
							pl := def.Message(msg)
							st.p.Send(peerFrame(k, frame.Frame{Fin: false, Rsv1: true, Opcode: frame.OpBinary, Payload: pl[:len(pl)/2]}))
							st.p.Send(peerData(k, frame.OpCont, true, pl[len(pl)/2:]))
						case "P1":
							pongs++
							n := pongs
							var pl []byte
							if st.p.WaitOut("ping", func(out []byte) bool {
								cnt := 0
								for _, f := range connFrames(out) {
									if f.Opcode == frame.OpPing {
										cnt++
										if cnt == n {
											pl = f.Payload
											return true
										}
									}
								}
								return false
							}) {
								st.p.Send(peerFrame(k, frame.Frame{Fin: true, Opcode: frame.OpPong, Payload: pl}))
							}
						}
					}
				})
				if prm.Fam == "pw" {
					w.GoHarness("bgreader", false, func() {
						for {
							_, r, err := conn.Reader(bg)
							if err != nil {
								return
							}
							if _, err := io.Copy(io.Discard, r); err != nil {
								return
							}
						}
					})
				}
				lockHeld := false
				for _, op := range prm.Prog {
					if op == "WL" {
						lockHeld = true
					}
				}
				if lockHeld {
					// another goroutine holds the message lock through an open Writer
					wr, err := conn.Writer(bg, websocket.MessageText)
					if err == nil {
						wr.Write([]byte("held"))
					}
				}
				var kept []io.WriteCloser // message writers that were closed successfully
				for i, op := range prm.Prog {
					cl := st.calls[i]
					ctx := ctxs[i]
					st.tick++
					cl.startTick = st.tick
					cl.started = true
					switch op {
					case "R1", "R3", "RC", "RE", "R0", "RN", "RP", "RK", "RL", "RF":
						_, _, cl.err = conn.Read(ctx)
					case "W1", "WL":
						cl.err = conn.Write(ctx, websocket.MessageBinary, fill(byte(0xA0+i), 10))
					case "WB":
						cl.err = conn.Write(ctx, websocket.MessageBinary, fill(byte(0xA0+i), 100))
					case "WM":
						wr, err := conn.Writer(ctx, websocket.MessageText)
						if err == nil {
							_, err = wr.Write(fill(byte(0xB0+i), 4))
							if err == nil {
								_, err = wr.Write(fill(byte(0xB8+i), 4))
							}
							if err == nil {
								err = wr.Close()
							}
							if err == nil {
								kept = append(kept, wr)
							}
						}
						cl.err = err
					case "P1", "PN":
						cl.err = conn.Ping(ctx)
					}
					st.tick++
					cl.endTick = st.tick
					cl.endNow = w.Now
					cl.returned = true
					cl.closedAtReturn = st.p.Closed
					if cl.err != nil {
						break
					}
				}
				st.progDone = true
				// wait until every cancellation has been delivered
				vs.BlockOn(st.p.RObj(), "wait-cancels", func() bool {
					for _, cl := range st.calls {
						if cl.cancelTick == 0 {
							return false
						}
					}
					return true
				}, func() {})
				allOK := true
				for _, cl := range st.calls {
					if !cl.returned || cl.err != nil {
						allOK = false
					}
				}
				if allOK {
					// a redundant Close on a writer whose message went out and whose context has
					// been cancelled since is harmless (its result is not judged)
					// (only when that message is the connection's latest: every Writer of a
					// connection is the same object, so an old handle used after a later message
					// is misuse, not a second Close)
					if len(kept) > 0 && prm.Prog[len(prm.Prog)-1] == "WM" {
						kept[len(kept)-1].Close()
					}
					// probe round trip with a fresh context
					st.probeErr = conn.Write(bg, websocket.MessageText, []byte("probe"))
					if st.probeErr == nil && prm.Fam == "rw" {
						st.p.Send(peerData(k, frame.OpText, true, []byte("probe-reply")))
						_, b, err := conn.Read(bg)
						if err != nil {
							st.probeErr = err
						} else if string(b) != "probe-reply" {
							st.probeErr = fmt.Errorf("probe reply differs: %q", b)
						}
					}
					st.probed = true
				}
				// let everything the cancellations set in motion settle
				vs.Quiesce()
			})
			return func(complete bool) {
				if !complete {
					return
				}
				c10Oracle(c, w, name, prm, st)
			}
		}
	}
}

func c10Oracle(c *fw.Ctx, w *vs.World, name string, prm c10Params, st *c10State) {
	role := prm.K.String()
	if w.Panic != "" {
		violate(c, w, name, "C10/panic/"+role, w.Panic)
		return
	}
	out := name
	for _, cl := range st.calls {
		rel := "none"
		if cl.cancelTick != 0 {
			switch {
			case !cl.started || cl.cancelTick < cl.startTick:
				rel = "before"
			case cl.returned && cl.cancelTick > cl.endTick:
				rel = "after"
			default:
				rel = "during"
			}
		}
		out += fmt.Sprintf("|%s:%s:%v", cl.op, rel, cl.err == nil)
	}
	out += fmt.Sprintf("|closed=%v|probe=%v", st.p.Closed, st.probeErr == nil)
	c.OutcomeStr(out)
	if w.Deadlock || w.HorizonHit {
		// which call is stuck?
		for _, cl := range st.calls {
			if cl.started && !cl.returned {
				rel := "not-cancelled"
				if cl.cancelTick != 0 {
					rel = "cancelled"
				}
				violate(c, w, name, "C10/call-never-returns/"+cl.op+"/"+rel+"/"+role, fmt.Sprintf("call %s (context %s) never returned; stuck tasks %v", cl.op, rel, stuckTasks(w)))
				return
			}
		}
		if st.progDone && !st.probed {
			violate(c, w, name, "C10/probe-never-returns/"+role, fmt.Sprintf("all calls succeeded and all contexts were cancelled afterwards, but a fresh round trip hangs; stuck %v", stuckTasks(w)))
		}
		return
	}
	for _, cl := range st.calls {
		if !cl.returned {
			continue
		}
		during := cl.cancelTick != 0 && cl.cancelTick > cl.startTick && cl.cancelTick < cl.endTick
		if during && cl.err != nil && cl.blockedAtCancel {
			// (ii): the cancellation arrived while the call was in progress and the call failed
			if cl.endNow-cl.cancelNow > int64(time.Second) {
				violate(c, w, name, "C10/cancelled-call-not-prompt/"+c10Api(cl.op)+"/"+role, fmt.Sprintf("call %s returned %v of virtual time after its context was cancelled", cl.op, time.Duration(cl.endNow-cl.cancelNow)))
				return
			}
			if !st.p.Closed {
				site := "other"
				switch {
				case strings.Contains(cl.err.Error(), "failed to acquire lock"):
					site = "gave-up-acquiring-lock"
				case strings.Contains(cl.err.Error(), "failed to wait for pong"):
					site = "gave-up-waiting-for-pong"
				}
				violate(c, w, name, "C10/cancelled-call-leaves-connection-open/"+c10Api(cl.op)+"/"+site+"/"+role, fmt.Sprintf("call %s was blocked in %q when its context was cancelled; it returned %q but the connection was never closed", cl.op, cl.blockedIn, cl.err))
				return
			}
		}
	}
	// a context bounds only its own call: as long as every earlier call returned nil, a call
	// whose own context had not been cancelled when it returned (the peer is healthy and
	// provides everything the program asks for) must return nil as well
	for _, cl := range st.calls {
		if !cl.returned {
			break
		}
		if cl.err == nil {
			continue
		}
		if cl.cancelTick == 0 || cl.cancelTick > cl.endTick {
			violate(c, w, name, "C10/call-fails-with-live-context/"+c10Api(cl.op)+"/"+role, fmt.Sprintf("call %s failed with %q; its own context had not been cancelled when it returned, every earlier call had returned nil and the peer provided what the call needed (connection closed=%v)", cl.op, cl.err, st.p.Closed))
			return
		}
		break
	}
	if st.probed {
		// (i): every call succeeded; every context was cancelled afterwards (or earlier, harmlessly)
		if st.probeErr != nil {
			violate(c, w, name, "C10/cancel-after-success-breaks-connection/"+strings.Join(prm.Prog, "+")+"/"+role, fmt.Sprintf("all calls returned nil; after their contexts were cancelled a fresh round trip failed: %v", st.probeErr))
			return
		}
		if st.p.Closed {
			violate(c, w, name, "C10/cancel-after-success-closes-connection/"+strings.Join(prm.Prog, "+")+"/"+role, "all calls returned nil, yet the transport was closed after their contexts were cancelled")
		}
	}
}

// ---- concurrent calls, each with its own context

type c10ConcParams struct {
	K connCfg
	// A: first call, blocked by the transport's small window.
	//   WB (default) one Write of 100 bytes
	//   WS a streaming Writer: Write(50), Write(50), Close (holds the message lock across steps)
	//   WH a streaming Writer whose first chunk fills the 4096-byte write buffer exactly,
	//      so that the next frame's header is what gets flushed: Write(4092|4088), Write(10), Close
	A string
	// Fit: the transport's window lets exactly the first call's first frame and the
	// second call's frame through (instead of 8 bytes): the first call stalls in a
	// later frame of its message
	Fit    bool
	B      string // second call: P (Ping) | W (Write) | R (Read, silent peer)
	Cancel string // A | B | AB : whose context gets cancelled
	Drain  bool   // the peer opens its window at a scheduler-chosen moment
}

func (p c10ConcParams) name() string {
	d := ""
	if p.Drain {
		d = "-drain"
	}
	a := p.A
	if a == "" {
		a = "WB"
	}
	if p.Fit {
		d += "-fit"
	}
	return fmt.Sprintf("cc/%s+%s/cancel%s%s/%s", a, p.B, p.Cancel, d, p.K.String())
}

func c10ConcSetup(prm c10ConcParams) func(c *fw.Ctx, name string) explore.Setup {
	return func(c *fw.Ctx, name string) explore.Setup {
		return func(w *vs.World) func(bool) {
			st := &c10State{p: vpipe.New()}
			st.p.Window = 8
			k := prm.K
			if prm.Fit {
				// WS: first frame 50 bytes of payload; P: Ping with a one-byte payload
				st.p.Window = 2 + 50 + 2 + 1
				if k.Client {
					st.p.Window += 8
				}
			}
			opA := prm.A
			if opA == "" {
				opA = "WB"
			}
			ops := []string{opA, prm.B}
			for _, op := range ops {
				st.calls = append(st.calls, &c10Call{op: op})
			}
			w.GoHarness("main", true, func() {
				conn := mkConn(st.p, k)
				bg := vctx.Background()
				w.GoHarness("bgreader", false, func() {
					if prm.B == "R" {
						return
					}
					for {
						_, r, err := conn.Reader(bg)
						if err != nil {
							return
						}
						if _, err := io.Copy(io.Discard, r); err != nil {
							return
						}
					}
				})
				if prm.Drain {
					w.GoHarness("drainer", false, func() { st.p.Drain(-1); st.p.Window = 0 })
				}
				tasks := make([]*vs.Task, 2)
				ctxs := make([]vctx.Context, 2)
				for i := range ops {
					ctxs[i], _ = vctx.WithCancel(bg)
				}
				for i, op := range ops {
					i, op := i, op
					cl := st.calls[i]
					tasks[i] = w.GoHarness(fmt.Sprintf("call%d-%s", i, op), true, func() {
						st.tick++
						cl.startTick = st.tick
						cl.started = true
						switch op {
						case "WB":
							cl.err = conn.Write(ctxs[i], websocket.MessageBinary, fill(0xA1, 100))
						case "WS", "WH", "WJ":
							chunks := []int{50, 50}
							if op == "WJ" {
								// the header fits into the empty write buffer, the payload overflows it by two
								// bytes: the non-final frame itself reaches the transport
								first := 4094
								if k.Client {
									first = 4090
								}
								chunks = []int{first, 10}
							}
							if op == "WH" {
								first := 4092 // server: 4-byte header + 4092 = 4096
								if k.Client {
									first = 4088 // client: 8-byte header
								}
								chunks = []int{first, 10}
							}
							var wr io.WriteCloser
							wr, cl.err = conn.Writer(ctxs[i], websocket.MessageBinary)
							for _, n := range chunks {
								if cl.err == nil {
									_, cl.err = wr.Write(fill(0xA3, n))
								}
							}
							if cl.err == nil {
								cl.err = wr.Close()
							}
						case "W":
							cl.err = conn.Write(ctxs[i], websocket.MessageText, fill(0xA2, 5))
						case "P":
							cl.err = conn.Ping(ctxs[i])
						case "R":
							_, _, cl.err = conn.Read(ctxs[i])
						}
						st.tick++
						cl.endTick = st.tick
						cl.endNow = w.Now
						cl.returned = true
					})
				}
				for i := range ops {
					i := i
					if !strings.Contains(prm.Cancel, string(rune('A'+i))) {
						continue
					}
					cl := st.calls[i]
					w.GoHarness(fmt.Sprintf("cancel%d", i), true, func() {
						vs.Point(&vs.Op{Desc: "deliver-cancel", Ready: func() []int { return []int{0} }, Fire: func(int) {
							if cl.started && !cl.returned {
								cl.blockedAtCancel, cl.blockedIn = w.Blocked(tasks[i])
							}
							vctx.CancelNow(ctxs[i])
							st.tick++
							cl.cancelTick = st.tick
							cl.cancelNow = w.Now
						}, Objs: func(int) ([]unsafe.Pointer, []unsafe.Pointer, *vs.Task) {
							return nil, append(vctx.DoneObjs(ctxs[i]), st.p.RObj()), nil
						}})
					})
				}
				vs.Quiesce()
			})
			return func(complete bool) {
				if !complete {
					return
				}
				role := prm.K.String()
				if w.Panic != "" {
					violate(c, w, name, "C10/panic/"+role, w.Panic)
					return
				}
				out := name
				for _, cl := range st.calls {
					out += fmt.Sprintf("|%s:ret=%v:err=%v:c=%v", cl.op, cl.returned, cl.err != nil, cl.cancelTick != 0)
				}
				c.OutcomeStr(out + fmt.Sprintf("|closed=%v", st.p.Closed))
				for _, cl := range st.calls {
					if cl.started && !cl.returned && cl.cancelTick != 0 {
						violate(c, w, name, "C10/call-never-returns/"+c10Api(cl.op)+"/cancelled/"+role, fmt.Sprintf("concurrent calls %s and %s: the context of %s was cancelled (call blocked in %q at that moment) but the call never returned; connection closed=%v", st.calls[0].op, st.calls[1].op, cl.op, cl.blockedIn, st.p.Closed))
						return
					}
				}
				for _, cl := range st.calls {
					if !cl.returned {
						continue
					}
					during := cl.cancelTick != 0 && cl.cancelTick > cl.startTick && cl.cancelTick < cl.endTick
					if during && cl.err != nil && cl.blockedAtCancel {
						if cl.endNow-cl.cancelNow > int64(time.Second) {
							violate(c, w, name, "C10/cancelled-call-not-prompt/"+c10Api(cl.op)+"/"+role, fmt.Sprintf("call %s returned %v after its context was cancelled", cl.op, time.Duration(cl.endNow-cl.cancelNow)))
							return
						}
						if !st.p.Closed {
							site := "other"
							switch {
							case strings.Contains(cl.err.Error(), "failed to acquire lock"):
								site = "gave-up-acquiring-lock"
							case strings.Contains(cl.err.Error(), "failed to wait for pong"):
								site = "gave-up-waiting-for-pong"
							}
							violate(c, w, name, "C10/cancelled-call-leaves-connection-open/"+c10Api(cl.op)+"/"+site+"/"+role, fmt.Sprintf("concurrent calls: %s was blocked in %q when its context was cancelled; it returned %q but the connection was never closed", cl.op, cl.blockedIn, cl.err))
							return
						}
					}
					// a call whose own context was never cancelled may only fail if the connection was closed
					if cl.cancelTick == 0 && cl.err != nil && !st.p.Closed {
						violate(c, w, name, "C10/foreign-cancellation-fails-call/"+c10Api(cl.op)+"/"+role, fmt.Sprintf("call %s failed with %q although its own context was never cancelled and the connection is open", cl.op, cl.err))
						return
					}
				}
			}
		}
	}
}

// Three calls: a Ping whose frame is stuck in the transport (it holds the frame
// lock only), a Write whose context is cancelled while it waits for that frame
// lock (it holds the message lock by then), and a Write with a healthy context.
// The peer opens its window at 1 s. "A context bounds only its own call": the
// healthy Write has to return, with nil, or with an error if the connection
// was closed because of the cancellation.
func c10ThirdSetup(k connCfg) func(c *fw.Ctx, name string) explore.Setup {
	return func(c *fw.Ctx, name string) explore.Setup {
		return func(w *vs.World) func(bool) {
			p := vpipe.New()
			p.Window = 1
			var errB, errC error
			var retB, retC, startedC bool
			w.GoHarness("main", true, func() {
				conn := mkConn(p, k)
				bg := vctx.Background()
				w.GoHarness("bgreader", false, func() {
					for {
						_, r, err := conn.Reader(bg)
						if err != nil {
							return
						}
						if _, err := io.Copy(io.Discard, r); err != nil {
							return
						}
					}
				})
				w.GoHarness("peer", false, func() {
					vtime.Sleep(time.Second)
					p.SetWindow(0)
					// answer the ping once it is on the wire
					var pl []byte
					if p.WaitOut("ping", func(out []byte) bool {
						for _, f := range connFrames(out) {
							if f.Opcode == frame.OpPing {
								pl = f.Payload
								return true
							}
						}
						return false
					}) {
						p.Send(peerFrame(k, frame.Frame{Fin: true, Opcode: frame.OpPong, Payload: pl}))
					}
				})
				w.GoHarness("pinger", false, func() { conn.Ping(bg) })
				ctxB, cancelB := vctx.WithCancel(bg)
				w.GoHarness("writerB", true, func() {
					p.WaitOut("ping-begun", func(out []byte) bool { return len(out) > 0 })
					errB = conn.Write(ctxB, websocket.MessageText, fill(0xB1, 20))
					retB = true
				})
				w.GoHarness("canceller", true, func() {
					vtime.Sleep(500 * time.Millisecond)
					cancelB()
				})
				w.GoHarness("writerC", true, func() {
					vtime.Sleep(700 * time.Millisecond)
					startedC = true
					errC = conn.Write(bg, websocket.MessageText, fill(0xC1, 20))
					retC = true
				})
				vs.Quiesce()
			})
			return func(complete bool) {
				if !complete {
					return
				}
				role := k.String()
				if w.Panic != "" {
					violate(c, w, name, "C10/panic/"+role, w.Panic)
					return
				}
				c.OutcomeStr(fmt.Sprintf("%s|B=%v/%v|C=%v/%v|closed=%v", name, retB, errB != nil, retC, errC != nil, p.Closed))
				if startedC && !retC {
					violate(c, w, name, "C10/foreign-cancellation-blocks-call/Write/"+role, fmt.Sprintf("a Write whose context was cancelled while it waited for the frame lock returned %q; a later Write with a healthy context never returns although the transport is writable again (connection closed=%v): stuck %v", errStr(errB), p.Closed, stuckTasks(w)))
					return
				}
				if retC && errC != nil && !p.Closed {
					violate(c, w, name, "C10/foreign-cancellation-fails-call/Write/"+role, fmt.Sprintf("the healthy Write failed with %q although the connection is open", errC))
				}
			}
		}
	}
}

// A Write stuck in the transport (it holds the frame lock), a Ping whose context
// is cancelled at 300 ms while it waits for that lock, a further Ping with a
// healthy context at 400 ms, and at 600 ms the cancellation of the Write's own
// context: the Write must return promptly with an error and the connection
// must be closed, whatever the two Pings did.
func c10StolenSetup(k connCfg) func(c *fw.Ctx, name string) explore.Setup {
	return func(c *fw.Ctx, name string) explore.Setup {
		return func(w *vs.World) func(bool) {
			p := vpipe.New()
			p.Window = 1
			var errA error
			var retA bool
			var cancelAt, retAt int64
			w.GoHarness("main", true, func() {
				conn := mkConn(p, k)
				bg := vctx.Background()
				conn.CloseRead(bg)
				ctxA, cancelA := vctx.WithCancel(bg)
				w.GoHarness("writerA", true, func() {
					errA = conn.Write(ctxA, websocket.MessageBinary, fill(0xA9, 100))
					retAt = w.Now
					retA = true
				})
				w.GoHarness("pingerB", false, func() {
					p.WaitOut("write-begun", func(out []byte) bool { return len(out) > 0 })
					ctxB, cancelB := vctx.WithTimeout(bg, 300*time.Millisecond)
					defer cancelB()
					conn.Ping(ctxB)
				})
				w.GoHarness("pingerC", false, func() {
					vtime.Sleep(400 * time.Millisecond)
					conn.Ping(bg)
				})
				w.GoHarness("cancelA", true, func() {
					vtime.Sleep(600 * time.Millisecond)
					cancelAt = w.Now
					cancelA()
				})
				vs.Quiesce()
			})
			return func(complete bool) {
				if !complete {
					return
				}
				role := k.String()
				if w.Panic != "" {
					violate(c, w, name, "C10/panic/"+role, w.Panic)
					return
				}
				c.OutcomeStr(fmt.Sprintf("%s|A=%v/%v|closed=%v", name, retA, errA != nil, p.Closed))
				if !retA {
					violate(c, w, name, "C10/call-never-returns/Write/cancelled/"+role, fmt.Sprintf("the Write was blocked in the transport when its context was cancelled at 600 ms (a Ping had given up on the frame lock at 300 ms, another Ping arrived at 400 ms); it never returned: stuck %v, connection closed=%v", stuckTasks(w), p.Closed))
					return
				}
				if errA == nil {
					violate(c, w, name, "C10/cancelled-call-not-prompt/Write/"+role, "the Write returned nil although the transport never accepted its frame")
					return
				}
				if retAt-cancelAt > int64(time.Second) {
					violate(c, w, name, "C10/cancelled-call-not-prompt/Write/"+role, fmt.Sprintf("the Write returned %v after its context was cancelled", time.Duration(retAt-cancelAt)))
					return
				}
				if !p.Closed {
					violate(c, w, name, "C10/cancelled-call-leaves-connection-open/Write/blocked-in-transport/"+role, fmt.Sprintf("the Write returned %q but the connection was not closed", errA))
				}
			}
		}
	}
}

func c10Api(op string) string {
	switch op[0] {
	case 'R':
		return "Read"
	case 'P':
		return "Ping"
	}
	if op == "WM" || op == "WS" || op == "WH" || op == "WJ" {
		return "Writer"
	}
	return "Write"
}

func c10Scenarios(tier string) []scenario {
	var scs []scenario
	cfg := explore.Config{P: 1, T: 0, E: 0, Horizon: 120e9}
	depth := 2
	if tier == "thorough" {
		cfg.P = 2
	}
	build := func(fam string, ops, terms []string, ks []connCfg) {
		var progs [][]string
		var gen func(cur []string)
		gen = func(cur []string) {
			if len(cur) > 0 {
				progs = append(progs, append([]string(nil), cur...))
			}
			for _, t := range terms {
				if len(cur) < depth {
					progs = append(progs, append(append([]string(nil), cur...), t))
				}
			}
			if len(cur) == depth {
				return
			}
			for _, op := range ops {
				gen(append(cur, op))
			}
		}
		gen(nil)
		for _, k := range ks {
			for i, pr := range progs {
				hasRC := false
				for _, o := range pr {
					if o == "RC" {
						hasRC = true
					}
				}
				if hasRC && !k.Flate {
					continue
				}
				groups := 4
				if k.Flate {
					// executions with a compressor are slow (a 1.2 MB flate.Writer each)
					groups = 12
					hasWM := false
					for _, o := range pr {
						hasWM = hasWM || o == "WM"
					}
					if tier != "thorough" && hasWM && (hasRC || len(pr) > 2) {
						continue
					}
				}
				prm := c10Params{K: k, Prog: pr, Fam: fam}
				scs = append(scs, scenario{Name: prm.name(), Cfg: cfg, Setup: c10Setup(prm), Group: fmt.Sprintf("%s/%s/%d", fam, k.String(), i%groups)})
			}
		}
	}
	plain := []connCfg{{Client: false}, {Client: true}}
	// threshold 1: the written messages really are compressed (the compressor, its sink
	// and its context live longer than one message under context takeover)
	flate := []connCfg{{Client: false, Flate: true, Thr: 1}, {Client: true, Flate: true, Thr: 1}}
	build("rw", []string{"R1", "R3", "RE", "R0", "W1", "WM"}, []string{"RN", "RP", "RK", "WB", "WL"}, plain)
	build("rw", []string{"RC", "W1", "WM"}, []string{"RN", "RF"}, flate)
	build("pw", []string{"P1", "W1"}, []string{"PN", "WL"}, plain)
	// a read that waits longer than the library's internal 5 s bounds before a control frame arrives
	build("rl", []string{"RL", "R1", "W1"}, []string{"RN"}, plain)
	for _, k := range plain {
		for _, b := range []string{"P", "W", "R"} {
			for _, cs := range []string{"A", "B", "AB"} {
				for _, dr := range []bool{false, true} {
					if dr && cs == "AB" && tier != "thorough" {
						continue
					}
					prm := c10ConcParams{K: k, B: b, Cancel: cs, Drain: dr}
					scs = append(scs, scenario{Name: prm.name(), Cfg: cfg, Setup: c10ConcSetup(prm), Group: fmt.Sprintf("cc/%s/%s/%s/%v", k.String(), b, cs, dr)})
				}
			}
		}
		// the streamed message's first frame and a Ping get through, then the transport stalls
		for _, cs := range []string{"A", "AB"} {
			if cs == "AB" && tier != "thorough" {
				continue
			}
			prm := c10ConcParams{K: k, A: "WS", B: "P", Cancel: cs, Fit: true}
			scs = append(scs, scenario{Name: prm.name(), Cfg: cfg, Setup: c10ConcSetup(prm), Group: fmt.Sprintf("cc/%s/WS/P-fit/%s", k.String(), cs)})
		}
		// the first call is a streaming Writer
		for _, a := range []string{"WS", "WH", "WJ"} {
			for _, b := range []string{"W", "P"} {
				for _, cs := range []string{"A", "B", "AB"} {
					for _, dr := range []bool{false, true} {
						if tier != "thorough" && (dr || cs == "AB" || (a != "WS" && b == "W")) {
							continue
						}
						prm := c10ConcParams{K: k, A: a, B: b, Cancel: cs, Drain: dr}
						scs = append(scs, scenario{Name: prm.name(), Cfg: cfg, Setup: c10ConcSetup(prm), Group: fmt.Sprintf("cc/%s/%s/%s", k.String(), a, b)})
					}
				}
			}
		}
	}
	for _, k := range []connCfg{{Client: false}, {Client: true}, {Client: false, Flate: true, Thr: 1}, {Client: true, Flate: true, Thr: 1}} {
		scs = append(scs, scenario{Name: "cc3/PB+W+W/" + k.String(), Cfg: explore.Config{P: cfg.P, T: 0, E: 0, Horizon: 120e9}, Setup: c10ThirdSetup(k)})
		if !k.Flate {
			scs = append(scs, scenario{Name: "cc3/WB+Pgiveup+P/" + k.String(), Cfg: explore.Config{P: cfg.P + 1, T: 1, E: 0, Horizon: 120e9}, Setup: c10StolenSetup(k)})
		}
	}
	return scs
}

func init() {
	fw.Register(fw.Part{Prop: "C10", Name: "s.ctx",
		Units:  func(tier string) []fw.Unit { return scenarioUnits(c10Scenarios(tier)) },
		Replay: replayFn(c10Scenarios),
	})
}
