package sched

import (
	"fmt"
	"time"

	"nhooyr.io/websocket"
	"verif/engine/explore"
	"verif/engine/vctx"
	"verif/engine/vpipe"
	"verif/engine/vs"
	"verif/engine/vtime"
	"verif/fw"
)

// C10, a call of another goroutine that has no context of its own (Close, CloseRead's
// goroutine, a second reader queueing for the read lock) must not take over the slot that
// bounds a blocked call: a Read (or Write) is blocked on a silent peer under its own
// context, another goroutine calls Close at 100 ms (it queues behind the blocked call and
// waits for the peer), and the blocked call's context is cancelled at 1 s: the call
// returns promptly and the connection is closed.
func c10CloseSetup(k connCfg, api string) func(c *fw.Ctx, name string) explore.Setup {
	return func(c *fw.Ctx, name string) explore.Setup {
		return func(w *vs.World) func(bool) {
			p := vpipe.New()
			if api == "Write" {
				p.Window = 8
			}
			var err error
			returned := false
			var cancelAt, retAt int64
			w.GoHarness("main", true, func() {
				conn := mkConn(p, k)
				bg := vctx.Background()
				ctx, cancel := vctx.WithCancel(bg)
				w.GoHarness("caller", true, func() {
					if api == "Read" {
						_, _, err = conn.Read(ctx)
					} else {
						err = conn.Write(ctx, websocket.MessageBinary, fill(0xA7, 100))
					}
					retAt = w.Now
					returned = true
				})
				w.GoHarness("closer", false, func() {
					vtime.Sleep(100 * time.Millisecond)
					conn.Close(websocket.StatusNormalClosure, "")
				})
				w.GoHarness("canceller", true, func() {
					vtime.Sleep(time.Second)
					cancelAt = w.Now
					cancel()
				})
				vs.Quiesce()
			})
			return func(complete bool) {
				if !complete {
					return
				}
				role := k.String()
				if w.Panic != "" {
					violate(c, w, name, "C10/panic/"+role, w.Panic)
					return
				}
				c.OutcomeStr(fmt.Sprintf("%s|ret=%v|err=%v|dt=%dms|closed=%v", name, returned, err != nil, (retAt-cancelAt)/1e6, p.Closed))
				if !returned {
					violate(c, w, name, "C10/call-never-returns/"+api+"/cancelled/"+role, fmt.Sprintf("%s was blocked on a silent peer, another goroutine called Close, the call's context was cancelled at 1 s; the call never returned: stuck %v", api, stuckTasks(w)))
					return
				}
				if retAt > cancelAt && retAt-cancelAt > int64(time.Second) {
					violate(c, w, name, "C10/cancelled-call-not-prompt/"+api+"/"+role, fmt.Sprintf("%s was blocked on a silent peer when another goroutine called Close (which queued behind it); the call's own context was cancelled at 1 s but the call returned %v later (err=%v)", api, time.Duration(retAt-cancelAt), err))
				}
			}
		}
	}
}

func c10CloseScenarios(tier string) []scenario {
	var scs []scenario
	p := 1
	if tier == "thorough" {
		p = 2
	}
	for _, k := range []connCfg{{Client: false}, {Client: true}} {
		for _, api := range []string{"Read", "Write"} {
			scs = append(scs, scenario{Name: "close-behind-blocked-" + api + "/" + k.String(), Cfg: explore.Config{P: p, T: 1, Horizon: 120e9}, Setup: c10CloseSetup(k, api)})
		}
	}
	return scs
}

func init() {
	fw.Register(fw.Part{Prop: "C10", Name: "s.closer",
		Units:  func(tier string) []fw.Unit { return scenarioUnits(c10CloseScenarios(tier)) },
		Replay: replayFn(c10CloseScenarios),
	})
}
