package sched

import (
	"fmt"
	"time"

	"nhooyr.io/websocket"
	"verif/engine/explore"
	"verif/engine/vctx"
	"verif/engine/vpipe"
	"verif/engine/vs"
	"verif/engine/vtime"
	"verif/fw"
	"verif/refws/frame"
)

// C10, a call of another goroutine that has no context of its own (Close, CloseRead's
// goroutine, a second reader queueing for the read lock) must not take over the slot that
// bounds a blocked call: a Read (or Write) is blocked on a silent peer under its own
// context, another goroutine calls Close at 100 ms (it queues behind the blocked call and
// waits for the peer), and the blocked call's context is cancelled at 1 s: the call
// returns promptly and the connection is closed.
func c10CloseSetup(k connCfg, api string) func(c *fw.Ctx, name string) explore.Setup {
	return func(c *fw.Ctx, name string) explore.Setup {
		return func(w *vs.World) func(bool) {
			p := vpipe.New()
			if api == "Write" {
				p.Window = 8
			}
			var err error
			returned := false
			var cancelAt, retAt int64
			w.GoHarness("main", true, func() {
				conn := mkConn(p, k)
				bg := vctx.Background()
				ctx, cancel := vctx.WithCancel(bg)
				w.GoHarness("caller", true, func() {
					if api == "Read" {
						_, _, err = conn.Read(ctx)
					} else {
						err = conn.Write(ctx, websocket.MessageBinary, fill(0xA7, 100))
					}
					retAt = w.Now
					returned = true
				})
				w.GoHarness("closer", false, func() {
					vtime.Sleep(100 * time.Millisecond)
					conn.Close(websocket.StatusNormalClosure, "")
				})
				w.GoHarness("canceller", true, func() {
					vtime.Sleep(time.Second)
					cancelAt = w.Now
					cancel()
				})
				vs.Quiesce()
			})
			return func(complete bool) {
				if !complete {
					return
				}
				role := k.String()
				if w.Panic != "" {
					violate(c, w, name, "C10/panic/"+role, w.Panic)
					return
				}
				c.OutcomeStr(fmt.Sprintf("%s|ret=%v|err=%v|dt=%dms|closed=%v", name, returned, err != nil, (retAt-cancelAt)/1e6, p.Closed))
				if !returned {
					violate(c, w, name, "C10/call-never-returns/"+api+"/cancelled/"+role, fmt.Sprintf("%s was blocked on a silent peer, another goroutine called Close, the call's context was cancelled at 1 s; the call never returned: stuck %v", api, stuckTasks(w)))
					return
				}
				if retAt > cancelAt && retAt-cancelAt > int64(time.Second) {
					violate(c, w, name, "C10/cancelled-call-not-prompt/"+api+"/"+role, fmt.Sprintf("%s was blocked on a silent peer when another goroutine called Close (which queued behind it); the call's own context was cancelled at 1 s but the call returned %v later (err=%v)", api, time.Duration(retAt-cancelAt), err))
				}
			}
		}
	}
}

// C10, calls made after the connection was closed by something else, with their own live
// context that is cancelled 1 s later: (writer-after-close) a Writer was obtained and written to,
// the connection is then closed (CloseNow by another goroutine, the peer's Close frame met by a
// reader, another call's context expiring), and Write is called on the open Writer;
// (read-dup-pongs) a Ping's frame is stuck in the transport while the peer sends two Pongs with
// its payload, the Ping's context ends, and the reader's context is cancelled. Every call returns
// at the latest promptly after its own cancellation.
func c10AfterCloseSetup(k connCfg, kind, how string) func(c *fw.Ctx, name string) explore.Setup {
	return func(c *fw.Ctx, name string) explore.Setup {
		return func(w *vs.World) func(bool) {
			p := vpipe.New()
			var err error
			returned := false
			var cancelAt, retAt int64
			w.GoHarness("main", true, func() {
				conn := mkConn(p, k)
				bg := vctx.Background()
				ctx, cancel := vctx.WithCancel(bg)
				w.GoHarness("canceller", false, func() {
					vtime.Sleep(3 * time.Second)
					cancelAt = w.Now
					cancel()
				})
				switch kind {
				case "writer-after-close":
					wr, werr := conn.Writer(ctx, websocket.MessageBinary)
					if werr != nil {
						returned, err = true, werr
						return
					}
					wr.Write(fill(0xA1, 10))
					switch how {
					case "CloseNow":
						conn.CloseNow()
					case "peerClose":
						p.Send(peerClose(k, 1000, "bye"))
						conn.Read(bg)
					case "otherCtx":
						c2, cancel2 := vctx.WithTimeout(bg, 100*time.Millisecond)
						conn.Read(c2)
						cancel2()
					}
					vs.Quiesce()
					_, err = wr.Write(fill(0xA2, 5000))
					if err == nil {
						err = wr.Close()
					}
					retAt = w.Now
					returned = true
				case "read-dup-pongs":
					p.Window = 1
					w.GoHarness("pinger", false, func() {
						pc, pcancel := vctx.WithTimeout(bg, time.Second)
						conn.Ping(pc)
						pcancel()
					})
					w.GoHarness("peer", false, func() {
						vtime.Sleep(200 * time.Millisecond)
						for i := 0; i < 3; i++ {
							p.Send(peerFrame(k, frame.Frame{Fin: true, Opcode: frame.OpPong, Payload: []byte("1")}))
						}
					})
					_, _, err = conn.Read(ctx)
					retAt = w.Now
					returned = true
				}
			})
			return func(complete bool) {
				if !complete {
					return
				}
				role := k.String()
				if w.Panic != "" {
					violate(c, w, name, "C10/panic/"+role, w.Panic)
					return
				}
				c.OutcomeStr(fmt.Sprintf("%s|ret=%v|err=%v|closed=%v", name, returned, err != nil, p.Closed))
				if !returned {
					violate(c, w, name, "C10/call-never-returns/"+kind+"/cancelled/"+role, fmt.Sprintf("%s (%s): the call's own context was cancelled at 3 s; the call never returned: stuck %v", kind, how, stuckTasks(w)))
					return
				}
				if cancelAt > 0 && retAt > cancelAt && retAt-cancelAt > int64(time.Second) {
					violate(c, w, name, "C10/cancelled-call-not-prompt/"+kind+"/"+role, fmt.Sprintf("%s (%s): the call's own context was cancelled at 3 s but the call returned %v later (err=%v)", kind, how, time.Duration(retAt-cancelAt), err))
				}
			}
		}
	}
}

func c10CloseScenarios(tier string) []scenario {
	var scs []scenario
	p := 1
	if tier == "thorough" {
		p = 2
	}
	for _, k := range []connCfg{{Client: false}, {Client: true}} {
		for _, api := range []string{"Read", "Write"} {
			scs = append(scs, scenario{Name: "close-behind-blocked-" + api + "/" + k.String(), Cfg: explore.Config{P: p, T: 1, Horizon: 120e9}, Setup: c10CloseSetup(k, api)})
		}
	}
	for _, k := range []connCfg{{Client: false}, {Client: true}, {Client: false, Flate: true, Thr: 1}} {
		for _, how := range []string{"CloseNow", "peerClose", "otherCtx"} {
			scs = append(scs, scenario{Name: "writer-after-close-" + how + "/" + k.String(), Cfg: explore.Config{P: p, T: 1, Horizon: 120e9}, Setup: c10AfterCloseSetup(k, "writer-after-close", how)})
		}
		if !k.Flate {
			scs = append(scs, scenario{Name: "read-dup-pongs/" + k.String(), Cfg: explore.Config{P: p, T: 1, Horizon: 120e9}, Setup: c10AfterCloseSetup(k, "read-dup-pongs", "")})
		}
	}
	return scs
}

func init() {
	fw.Register(fw.Part{Prop: "C10", Name: "s.closer",
		Units:  func(tier string) []fw.Unit { return scenarioUnits(c10CloseScenarios(tier)) },
		Replay: replayFn(c10CloseScenarios),
	})
}
