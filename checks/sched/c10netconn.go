package sched

import (
	"fmt"
	"time"

	"nhooyr.io/websocket"
	"verif/engine/explore"
	"verif/engine/vctx"
	"verif/engine/vpipe"
	"verif/engine/vs"
	"verif/engine/vtime"
	"verif/fw"
	"verif/refws/frame"
)

// C10 over a transport that is a net.Conn (what the library runs on in production: the
// hijacked TCP connection of a server, both ends of a pipe): calls whose contexts carry
// deadlines succeed, the deadlines pass, and later calls with live contexts (without a
// deadline, or with a later one) must still succeed: a context bounds only its own call,
// also when the library passes deadlines down to the transport.
func c10NetSetup(k connCfg, prog []string) func(c *fw.Ctx, name string) explore.Setup {
	return func(c *fw.Ctx, name string) explore.Setup {
		return func(w *vs.World) func(bool) {
			p := vpipe.NewNet()
			type res struct {
				op  string
				err error
				at  int64
			}
			var results []res
			w.GoHarness("main", true, func() {
				conn := websocket.VerifNewConn(p, k.Client, nil, 0)
				bg := vctx.Background()
				w.GoHarness("peer", false, func() {
					// answers every Ping, sends one message per read of the program
					answered := 0
					for {
						var pl []byte
						if !p.WaitOut("ping", func(out []byte) bool {
							n := 0
							for _, f := range connFrames(out) {
								if f.Opcode == frame.OpPing {
									if n == answered {
										pl = f.Payload
										return true
									}
									n++
								}
							}
							return false
						}) {
							return
						}
						answered++
						p.Send(peerFrame(k, frame.Frame{Fin: true, Opcode: frame.OpPong, Payload: pl}))
					}
				})
				w.GoHarness("bgreader", false, func() {
					for {
						if _, _, err := conn.Read(bg); err != nil {
							return
						}
					}
				})
				for _, op := range prog {
					var err error
					switch op {
					case "Wd": // Write under a context with a 1 s deadline
						ctx, cancel := vctx.WithTimeout(bg, time.Second)
						err = conn.Write(ctx, websocket.MessageText, []byte("with-deadline"))
						cancel()
					case "Sd": // streamed message under a context with a 1 s deadline
						ctx, cancel := vctx.WithTimeout(bg, time.Second)
						wr, e := conn.Writer(ctx, websocket.MessageBinary)
						if e == nil {
							_, e = wr.Write([]byte("chunk"))
						}
						if e == nil {
							e = wr.Close()
						}
						err = e
						cancel()
					case "Pd": // Ping under a context with a 1 s deadline
						ctx, cancel := vctx.WithTimeout(bg, time.Second)
						err = conn.Ping(ctx)
						cancel()
					case "Z": // time passes: every deadline so far lies in the past
						vtime.Sleep(2 * time.Second)
						continue
					case "W": // Write with a context that has no deadline
						err = conn.Write(bg, websocket.MessageText, []byte("no-deadline"))
					case "P":
						err = conn.Ping(bg)
					case "Wl": // Write with a deadline far enough ahead
						ctx, cancel := vctx.WithTimeout(bg, time.Hour)
						err = conn.Write(ctx, websocket.MessageText, []byte("late-deadline"))
						cancel()
					}
					results = append(results, res{op, err, w.Now})
				}
				vs.Quiesce()
				conn.CloseNow()
			})
			return func(complete bool) {
				if !complete {
					return
				}
				role := k.String()
				if w.Panic != "" {
					violate(c, w, name, "C10/panic/"+role, w.Panic)
					return
				}
				out := name
				for _, r := range results {
					out += fmt.Sprintf("|%s=%v", r.op, r.err == nil)
				}
				c.OutcomeStr(out)
				if w.Deadlock || w.HorizonHit {
					violate(c, w, name, "C10/call-never-returns/net-transport/"+role, fmt.Sprintf("stuck %v", stuckTasks(w)))
					return
				}
				for _, r := range results {
					if r.err != nil {
						violate(c, w, name, "C10/call-fails-with-live-context/"+c10Api(r.op[:1])+"/net-transport/"+role, fmt.Sprintf("program %v over a transport with deadlines of its own: %s at %v failed with %q although its own context was alive, the peer was healthy and every earlier call had returned nil (an earlier call's deadline had passed)", prog, r.op, time.Duration(r.at), r.err))
						return
					}
				}
			}
		}
	}
}

func c10NetScenarios(tier string) []scenario {
	var scs []scenario
	progs := [][]string{{"Wd", "Z", "W"}, {"Wd", "Z", "P"}, {"Sd", "Z", "W"}, {"Pd", "Z", "W"}, {"Wd", "Z", "Wl", "W"}, {"Wd", "W", "Z", "W", "P"}, {"Pd", "Z", "P"}}
	p := 0
	if tier == "thorough" {
		p = 1
	}
	for _, k := range []connCfg{{Client: false}, {Client: true}} {
		for _, pr := range progs {
			scs = append(scs, scenario{Name: fmt.Sprintf("net-transport/%v/%s", pr, k.String()), Cfg: explore.Config{P: p, Horizon: 60e9}, Setup: c10NetSetup(k, pr), Group: "net-transport/" + k.String()})
		}
	}
	return scs
}

func init() {
	fw.Register(fw.Part{Prop: "C10", Name: "s.nettransport",
		Units:  func(tier string) []fw.Unit { return scenarioUnits(c10NetScenarios(tier)) },
		Replay: replayFn(c10NetScenarios),
	})
}
