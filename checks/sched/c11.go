package sched

import (
	"bufio"
	"crypto/sha1"
	"encoding/base64"
	"fmt"
	"net"
	"net/http"
	"net/url"
	"time"

	"nhooyr.io/websocket"
	"verif/engine/explore"
	"verif/engine/vpipe"
	"verif/engine/vs"
	"verif/fw"
)

// C11 under the scheduler: handshakes of different requests overlap (a server
// handles every request in its own goroutine). Each response carries the accept
// value of its own key, whatever the other handshakes do.

type c11Addr struct{}

func (c11Addr) Network() string { return "vpipe" }
func (c11Addr) String() string  { return "vpipe" }

type c11NetConn struct{ *vpipe.Pipe }

func (c11NetConn) LocalAddr() net.Addr                { return c11Addr{} }
func (c11NetConn) RemoteAddr() net.Addr               { return c11Addr{} }
func (c11NetConn) SetDeadline(t time.Time) error      { return nil }
func (c11NetConn) SetReadDeadline(t time.Time) error  { return nil }
func (c11NetConn) SetWriteDeadline(t time.Time) error { return nil }

type c11RW struct {
	h      http.Header
	status int
	sent   http.Header
	p      *vpipe.Pipe
}

func (w *c11RW) Header() http.Header { return w.h }
func (w *c11RW) WriteHeader(code int) {
	if w.status == 0 {
		w.status = code
		w.sent = w.h.Clone()
	}
}
func (w *c11RW) Write(b []byte) (int, error) {
	w.WriteHeader(200)
	return len(b), nil
}
func (w *c11RW) Hijack() (net.Conn, *bufio.ReadWriter, error) {
	nc := c11NetConn{w.p}
	return nc, bufio.NewReadWriter(bufio.NewReader(nc), bufio.NewWriter(nc)), nil
}

func c11ConcSetup(n int) func(c *fw.Ctx, name string) explore.Setup {
	return func(c *fw.Ctx, name string) explore.Setup {
		return func(w *vs.World) func(bool) {
			keys := []string{"dGhlIHNhbXBsZSBub25jZQ==", "AAECAwQFBgcICQoLDA0ODw==", "/////////////////////w=="}[:n]
			rws := make([]*c11RW, n)
			errs := make([]error, n)
			w.GoHarness("main", true, func() {
				for i := range keys {
					i := i
					rws[i] = &c11RW{h: http.Header{}, p: vpipe.New()}
					w.GoHarness(fmt.Sprintf("handler%d", i), true, func() {
						hdr := http.Header{}
						hdr["Connection"] = []string{"Upgrade"}
						hdr["Upgrade"] = []string{"websocket"}
						hdr["Sec-Websocket-Version"] = []string{"13"}
						hdr["Sec-Websocket-Key"] = []string{keys[i]}
						r := &http.Request{Method: "GET", URL: &url.URL{Path: "/"}, RequestURI: "/", Proto: "HTTP/1.1", ProtoMajor: 1, ProtoMinor: 1, Header: hdr, Host: "example.com", Body: http.NoBody}
						var conn *websocket.Conn
						conn, errs[i] = websocket.Accept(rws[i], r, nil)
						if conn != nil {
							conn.CloseNow()
						}
					})
				}
			})
			return func(complete bool) {
				if !complete {
					return
				}
				if w.Panic != "" {
					violate(c, w, name, "C11/panic/concurrent-handshakes", w.Panic)
					return
				}
				if w.Deadlock || w.HorizonHit {
					violate(c, w, name, "C11/no-termination/concurrent-handshakes", fmt.Sprintf("stuck %v", stuckTasks(w)))
					return
				}
				out := name
				for i, k := range keys {
					sum := sha1.Sum([]byte(k + "258EAFA5-E914-47DA-95CA-C5AB0DC85B11"))
					want := base64.StdEncoding.EncodeToString(sum[:])
					got := ""
					if rws[i].sent != nil {
						got = rws[i].sent.Get("Sec-WebSocket-Accept")
					}
					out += fmt.Sprintf("|%d:%v", rws[i].status, got == want)
					if errs[i] != nil || rws[i].status != 101 {
						violate(c, w, name, "C11/refused-valid-request/concurrent-handshakes", fmt.Sprintf("handshake %d (valid) failed while %d others ran: status %d err=%v", i, n-1, rws[i].status, errs[i]))
						return
					}
					if got != want {
						violate(c, w, name, "C11/wrong-accept-key/concurrent-handshakes", fmt.Sprintf("handshake %d with key %q was answered with Sec-WebSocket-Accept %q, want %q (another concurrent handshake's value, or a mix)", i, k, got, want))
						return
					}
				}
				c.OutcomeStr(out)
			}
		}
	}
}

func c11ConcScenarios(tier string) []scenario {
	p := 2
	if tier == "thorough" {
		p = 3
	}
	return []scenario{
		{Name: "conc-handshakes/2", Cfg: explore.Config{P: p, Horizon: 60e9}, Setup: c11ConcSetup(2)},
		{Name: "conc-handshakes/3", Cfg: explore.Config{P: p - 1, Horizon: 60e9}, Setup: c11ConcSetup(3)},
	}
}

// c11RaceScenarios: the same bodies under the race detector (state shared by handshakes
// that is touched outside its lock shows there even when no scheduling point lies in the window).
func c11RaceScenarios(tier string) []scenario {
	var out []scenario
	for _, sc := range c11ConcScenarios(tier) {
		sc.Cfg.P = 1
		out = append(out, raceWrap("C11", sc))
	}
	return out
}

func init() {
	fw.Register(fw.Part{Prop: "C11R", Name: "s.race",
		Units:  func(tier string) []fw.Unit { return scenarioUnits(c11RaceScenarios(tier)) },
		Replay: replayFn(c11RaceScenarios),
	})
	fw.Register(fw.Part{Prop: "C11", Name: "s.conc",
		Units:  func(tier string) []fw.Unit { return scenarioUnits(c11ConcScenarios(tier)) },
		Replay: replayFn(c11ConcScenarios),
	})
}
