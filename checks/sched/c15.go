package sched

import (
	"fmt"
	"io"
	"sort"
	"strings"
	"time"

	"verif/engine/explore"
	"verif/engine/vctx"
	"verif/engine/vpipe"
	"verif/engine/vs"
	"verif/engine/vtime"
	"verif/fw"
	"verif/refws/frame"
)

// C15 (schedule part): concurrent Pings are each matched to their own Pong:
// the number of Pings that return nil never exceeds the number of distinct own
// payloads the peer has answered by then; answered Pings do return nil;
// duplicate, foreign and unsolicited Pongs change nothing.

type c15Params struct {
	K       connCfg
	N       int    // concurrent pings
	Variant string // inorder | reverse | dup | foreign | respell | withhold | pingback | early | asap
	Reader  string // loop | closeread
}

func (p c15Params) name() string {
	return fmt.Sprintf("%s/k%d/%s/%s", p.Variant, p.N, p.Reader, p.K.String())
}

type c15State struct {
	p         *vpipe.Pipe
	errs      []error
	done      []bool
	doneTick  []int
	tick      int
	answered  []string // own payloads answered, in send order
	ansTick   []int
	nilAtTick []int
}

func c15Setup(prm c15Params) func(c *fw.Ctx, name string) explore.Setup {
	return func(c *fw.Ctx, name string) explore.Setup {
		return func(w *vs.World) func(bool) {
			st := &c15State{p: vpipe.New(), errs: make([]error, prm.N), done: make([]bool, prm.N), doneTick: make([]int, prm.N)}
			k := prm.K
			w.GoHarness("main", true, func() {
				conn := mkConn(st.p, k)
				bg := vctx.Background()
				if prm.Reader == "closeread" {
					conn.CloseRead(bg)
				} else {
					w.GoHarness("reader", false, func() {
						for {
							_, r, err := conn.Reader(bg)
							if err != nil {
								return
							}
							if _, err := io.Copy(io.Discard, r); err != nil {
								return
							}
						}
					})
				}
				pong := func(pl []byte, own bool) {
					st.p.Send(peerFrame(k, frame.Frame{Fin: true, Opcode: frame.OpPong, Payload: pl}))
					if own {
						st.tick++
						dup := false
						for _, a := range st.answered {
							dup = dup || a == string(pl)
						}
						if !dup {
							st.answered = append(st.answered, string(pl))
							st.ansTick = append(st.ansTick, st.tick)
						}
					}
				}
				pingsSeen := func(out []byte) [][]byte {
					var pls [][]byte
					for _, f := range connFrames(out) {
						if f.Opcode == frame.OpPing {
							pls = append(pls, f.Payload)
						}
					}
					return pls
				}
				w.GoHarness("peer", false, func() {
					if prm.Variant == "early" {
						// unsolicited pongs before any ping exists
						pong([]byte("1"), true) // carries the payload the first Ping will use
						pong([]byte("zzz"), false)
					}
					if prm.Variant == "asap" {
						// answer each ping as soon as it appears
						for i := 1; i <= prm.N; i++ {
							var pls [][]byte
							if !st.p.WaitOut(fmt.Sprintf("ping%d", i), func(out []byte) bool { pls = pingsSeen(out); return len(pls) >= i }) {
								return
							}
							pong(pls[i-1], true)
						}
						return
					}
					var pls [][]byte
					if !st.p.WaitOut("all-pings", func(out []byte) bool { pls = pingsSeen(out); return len(pls) >= prm.N }) {
						return
					}
					switch prm.Variant {
					case "inorder", "early":
						for _, pl := range pls {
							pong(pl, true)
						}
					case "reverse":
						for i := len(pls) - 1; i >= 0; i-- {
							pong(pls[i], true)
						}
					case "dup":
						// the first ping is answered twice, the last one never
						pong(pls[0], true)
						pong(pls[0], false)
						for _, pl := range pls[1 : len(pls)-1] {
							pong(pl, true)
						}
					case "foreign":
						pong([]byte("not-a-ping-payload"), false)
						pong(append([]byte("x"), pls[0]...), false)
						for _, pl := range pls {
							pong(pl, true)
						}
					case "respell":
						// only near-miss payloads are sent: other spellings of the same
						// number, padded, prefixed, case-changed; none is a ping's own payload
						for _, pl := range pls {
							for _, alt := range [][]byte{
								append([]byte("0"), pl...), append([]byte("+"), pl...), append([]byte(" "), pl...),
								append(append([]byte(nil), pl...), ' '), append(append([]byte(nil), pl...), 0),
								append(append([]byte(nil), pl...), '.', '0'), []byte(fmt.Sprint(4294967296 + int64(pl[0]-'0'))),
								{},
							} {
								pong(alt, false)
							}
						}
					case "withhold":
						for _, pl := range pls[1:] {
							pong(pl, true)
						}
					case "pingback":
						// the peer sends Ping frames that carry the same payloads (two endpoints
						// of this library number their pings alike) and never a Pong
						for _, pl := range pls {
							st.p.Send(peerFrame(k, frame.Frame{Fin: true, Opcode: frame.OpPing, Payload: pl}))
						}
					}
				})
				for i := 0; i < prm.N; i++ {
					i := i
					w.GoHarness(fmt.Sprintf("pinger%d", i), true, func() {
						ctx, cancel := vctx.WithTimeout(bg, 10*time.Second)
						st.errs[i] = conn.Ping(ctx)
						cancel()
						st.tick++
						st.doneTick[i] = st.tick
						st.done[i] = true
						if st.errs[i] == nil {
							st.nilAtTick = append(st.nilAtTick, st.tick)
						}
					})
				}
			})
			return func(complete bool) {
				if !complete {
					return
				}
				c15Oracle(c, w, name, prm, st)
			}
		}
	}
}

func c15Oracle(c *fw.Ctx, w *vs.World, name string, prm c15Params, st *c15State) {
	locus := prm.Variant + "/" + prm.Reader + "/" + prm.K.String()
	if w.Panic != "" {
		violate(c, w, name, "C15/panic/"+locus, w.Panic)
		return
	}
	if w.Deadlock || w.HorizonHit {
		violate(c, w, name, "C15/ping-never-returns/"+locus, fmt.Sprintf("a Ping neither succeeded nor failed with its context (10 s): stuck %v", stuckTasks(w)))
		return
	}
	// wire: ping frames well-formed with distinct payloads
	res := frame.Validate(st.p.Out, frame.StreamRules{SenderIsClient: prm.K.Client})
	for _, v := range res.Violations {
		violate(c, w, name, "C15/wire/"+v.Rule+"/"+prm.K.String(), v.Error())
		return
	}
	seen := map[string]bool{}
	npings := 0
	for _, f := range res.Controls {
		if f.Opcode == frame.OpPing {
			npings++
			if seen[string(f.Payload)] {
				violate(c, w, name, "C15/ping-payload-reused/"+prm.K.String(), fmt.Sprintf("two Ping frames carry the payload %q", f.Payload))
				return
			}
			seen[string(f.Payload)] = true
		}
	}
	// every nil return needs its own answered payload delivered before it
	sort.Ints(st.nilAtTick)
	for j, t := range st.nilAtTick {
		answeredBefore := 0
		for _, at := range st.ansTick {
			if at < t {
				answeredBefore++
			}
		}
		if answeredBefore < j+1 {
			violate(c, w, name, "C15/ping-nil-without-own-pong/"+locus, fmt.Sprintf("%d Ping calls had returned nil when only %d of their payloads had been answered by the peer (answers sent: %q)", j+1, answeredBefore, st.answered))
			return
		}
	}
	nils := len(st.nilAtTick)
	// liveness: the connection is read and nothing closes it, so every answered ping returns nil
	if nils < len(st.answered) {
		var errs []string
		for _, e := range st.errs {
			errs = append(errs, errStr(e))
		}
		violate(c, w, name, "C15/answered-ping-failed/"+locus, fmt.Sprintf("the peer answered %d ping payloads %q and the connection was read, but only %d Ping calls returned nil: %s", len(st.answered), st.answered, nils, strings.Join(errs, " | ")))
		return
	}
	c.OutcomeStr(fmt.Sprintf("%s|nil=%d|answered=%d|pings=%d", name, nils, len(st.answered), npings))
}

// Sequential family: one caller issues M Pings one after the other, each with
// its own 1 s context; the peer treats the i-th ping according to a script:
//
//	a  answered once          d  answered twice (duplicate pong)
//	w  withheld               l  answered exactly at the ping's deadline
//
// A Ping that was withheld must fail; one that returns nil must have had its
// own payload sent before it returned (pongs left over from earlier pings —
// duplicates, late answers — must not satisfy a later Ping).
func c15SeqSetup(k connCfg, script string, reader string, preEnded bool) func(c *fw.Ctx, name string) explore.Setup {
	return func(c *fw.Ctx, name string) explore.Setup {
		return func(w *vs.World) func(bool) {
			m := len(script)
			p := vpipe.New()
			errs := make([]error, m)
			done := make([]bool, m)
			doneTick := make([]int, m)
			sentTick := make([]int, m)
			payloads := make([]string, m)
			tick := 0
			// preEnded: before the scripted Pings the caller makes one Ping with a context that is
			// already over (it fails; unless that closed the connection, nothing else has changed)
			started, base, preClosed := !preEnded, 0, false
			w.GoHarness("main", true, func() {
				conn := mkConn(p, k)
				bg := vctx.Background()
				if reader == "closeread" {
					conn.CloseRead(bg)
				} else {
					w.GoHarness("reader", false, func() {
						for {
							_, r, err := conn.Reader(bg)
							if err != nil {
								return
							}
							if _, err := io.Copy(io.Discard, r); err != nil {
								return
							}
						}
					})
				}
				closeNow := func() { conn.CloseNow() }
				w.GoHarness("peer", false, func() {
					for i := 0; i < m; i++ {
						var pl []byte
						if !p.WaitOut(fmt.Sprintf("ping%d", i+1), func(out []byte) bool {
							if !started {
								return false
							}
							n := 0
							for _, f := range connFrames(out) {
								if f.Opcode == frame.OpPing {
									if n == base+i {
										pl = f.Payload
									}
									n++
								}
							}
							return n > base+i
						}) {
							return
						}
						payloads[i] = string(pl)
						pong := func() {
							p.Send(peerFrame(k, frame.Frame{Fin: true, Opcode: frame.OpPong, Payload: pl}))
							if sentTick[i] == 0 {
								tick++
								sentTick[i] = tick
							}
						}
						switch script[i] {
						case 'a':
							pong()
						case 'd':
							pong()
							pong()
						case 'l':
							vtime.Sleep(time.Second)
							pong()
						case 'c':
							// no pong: half a second later the application closes the connection
							// (CloseNow: no Close frame is ever received)
							vtime.Sleep(500 * time.Millisecond)
							closeNow()
						case 'L':
							// the pong comes after 6 s; this Ping's caller allows 30 s
							vtime.Sleep(6 * time.Second)
							pong()
						}
					}
				})
				w.GoHarness("pinger", true, func() {
					if preEnded {
						ended, cancel := vctx.WithCancel(bg)
						cancel()
						conn.Ping(ended)
						vs.Quiesce()
						preClosed = p.Closed
						for _, f := range connFrames(p.Out) {
							if f.Opcode == frame.OpPing {
								base++
							}
						}
						vs.BlockOn(p.WObj(), "scripted-pings-begin", nil, func() { started = true })
					}
					for i := 0; i < m; i++ {
						d := time.Second
						if script[i] == 'L' || script[i] == 'c' {
							d = 30 * time.Second
						}
						ctx, cancel := vctx.WithTimeout(bg, d)
						errs[i] = conn.Ping(ctx)
						cancel()
						tick++
						doneTick[i] = tick
						done[i] = true
					}
					if strings.Contains(script, "c") {
						// on a closed connection further Pings fail at once, every one of them
						for j := 0; j < 2; j++ {
							ctx, cancel := vctx.WithTimeout(bg, time.Second)
							conn.Ping(ctx)
							cancel()
						}
					}
				})
			})
			return func(complete bool) {
				if !complete {
					return
				}
				locus := "seq/" + reader + "/" + k.String()
				if w.Panic != "" {
					violate(c, w, name, "C15/panic/"+locus, w.Panic)
					return
				}
				if w.Deadlock || w.HorizonHit {
					violate(c, w, name, "C15/ping-never-returns/"+locus, fmt.Sprintf("a Ping neither succeeded nor failed with its context (1 s): stuck %v", stuckTasks(w)))
					return
				}
				sig := ""
				healthy := !preClosed
				for i := 0; i < m; i++ {
					if !done[i] {
						sig += "?"
						continue
					}
					if errs[i] == nil {
						sig += "n"
						if sentTick[i] == 0 || sentTick[i] > doneTick[i] {
							violate(c, w, name, "C15/ping-nil-without-own-pong/"+locus, fmt.Sprintf("script %q: Ping #%d (payload %q) returned nil although no pong with its payload had been sent to the connection by then (pongs of earlier pings must not count)", script, i+1, payloads[i]))
							return
						}
					} else {
						sig += "e"
						if healthy && (script[i] == 'a' || script[i] == 'd' || script[i] == 'L') {
							violate(c, w, name, "C15/answered-ping-failed/"+locus, fmt.Sprintf("script %q: Ping #%d was answered (at once; script letter L: after 6 s, within its 30 s context) on a connection that is being read, all earlier pings had succeeded, yet it failed: %v", script, i+1, errs[i]))
							return
						}
						healthy = false
					}
				}
				c.OutcomeStr(name + "|" + sig)
			}
		}
	}
}

func c15SeqScenarios(tier string) []scenario {
	var scs []scenario
	m := 2
	cfg := explore.Config{P: 1, T: 1, E: 0, Horizon: 60e9}
	if tier == "thorough" {
		m = 3
		cfg.P = 2
	}
	var scripts []string
	var gen func(cur string)
	gen = func(cur string) {
		if len(cur) == m {
			scripts = append(scripts, cur)
			return
		}
		for _, x := range "adwlLc" {
			gen(cur + string(x))
		}
	}
	gen("")
	for _, k := range []connCfg{{Client: false}, {Client: true}} {
		for _, rd := range []string{"loop", "closeread"} {
			for si, sc := range scripts {
				n := fmt.Sprintf("seq-%s/%s/%s", sc, rd, k.String())
				scs = append(scs, scenario{Name: n, Cfg: cfg, Setup: c15SeqSetup(k, sc, rd, false), Group: fmt.Sprintf("seq/%s/%s/%d", rd, k.String(), si%4)})
			}
			for _, sc := range []string{"a", "aa", "da", "wa"} {
				n := fmt.Sprintf("seq-ended+%s/%s/%s", sc, rd, k.String())
				scs = append(scs, scenario{Name: n, Cfg: cfg, Setup: c15SeqSetup(k, sc, rd, true), Group: fmt.Sprintf("seq-ended/%s/%s", rd, k.String())})
			}
		}
	}
	return scs
}

// Pongs answered while a compressed message is being streamed (one data frame
// of it already on the wire): the C05 pinger/writer harness with a first chunk
// larger than one deflate block, judged by the wire validator (a Pong is a
// well-formed control frame carrying the Ping's payload).
func c15WireScenarios(tier string) []scenario {
	var scs []scenario
	p := 1
	if tier == "thorough" {
		p = 2
	}
	for _, k := range []connCfg{{Client: false, Flate: true, Thr: 1}, {Client: true, Flate: true, Thr: 1, CNCT: true, SNCT: true}} {
		prm := c05Params{Prop: "C15", Name: "pong-during-compressed-stream", K: k, Writers: [][]wop{{{Stream: true, Chunks: []int{70000, 10}}}}, Pinger: true}
		scs = append(scs, scenario{Name: prm.Name + "/" + k.String(), Cfg: explore.Config{P: p, Horizon: 60e9}, Setup: c05Setup(prm)})
	}
	return scs
}

// A Ping queued behind another writer's frame; that writer finishes normally,
// then the transport accepts nothing more, so the Ping frame itself is stuck
// when the Ping's context (1 s) ends: Ping must return an error then.
func c15StallSetup(k connCfg) func(c *fw.Ctx, name string) explore.Setup {
	return func(c *fw.Ctx, name string) explore.Setup {
		return func(w *vs.World) func(bool) {
			p := vpipe.New()
			hdr := 2
			if k.Client {
				hdr = 6
			}
			p.Window = hdr + 50 // the 100-byte message's frame gets half way
			var pingErr, writeErr error
			var pingDone, writeDone bool
			var pingAt int64
			w.GoHarness("main", true, func() {
				conn := mkConn(p, k)
				bg := vctx.Background()
				conn.CloseRead(bg)
				w.GoHarness("writer", true, func() {
					writeErr = conn.Write(bg, 2, fill(0xA7, 100))
					writeDone = true
				})
				w.GoHarness("pinger", true, func() {
					p.WaitOut("frame-begun", func(out []byte) bool { return len(out) > 0 })
					ctx, cancel := vctx.WithTimeout(bg, time.Second)
					defer cancel()
					t0 := w.Now
					pingErr = conn.Ping(ctx)
					pingAt = w.Now - t0
					pingDone = true
				})
				w.GoHarness("peer", false, func() {
					// let the data frame through once the Ping is queued behind it; afterwards
					// the peer stops reading for good
					vtime.Sleep(100 * time.Millisecond)
					p.Drain(50)
				})
			})
			return func(complete bool) {
				if !complete {
					return
				}
				locus := "stalled-behind-writer/" + k.String()
				if w.Panic != "" {
					violate(c, w, name, "C15/panic/"+locus, w.Panic)
					return
				}
				c.OutcomeStr(fmt.Sprintf("%s|ping=%v/%v@%dms|write=%v/%v", name, pingDone, pingErr != nil, pingAt/1e6, writeDone, writeErr != nil))
				if !pingDone {
					violate(c, w, name, "C15/ping-never-returns/"+locus, fmt.Sprintf("the Ping's context ended after 1 s while its frame was stuck in the transport; Ping never returned: stuck %v", stuckTasks(w)))
					return
				}
				if pingErr == nil {
					violate(c, w, name, "C15/ping-nil-without-own-pong/"+locus, "Ping returned nil although the peer never answered")
					return
				}
				if pingAt > int64(2500*time.Millisecond) {
					violate(c, w, name, "C15/ping-outlives-context/"+locus, fmt.Sprintf("Ping returned %v after it was called; its context ended after 1 s", time.Duration(pingAt)))
				}
			}
		}
	}
}

// Two Pings in flight, the first one's frame stuck in a transport that accepts
// nothing: the second Ping (1 s context) must still return once its context ends.
func c15TwoStalledSetup(k connCfg) func(c *fw.Ctx, name string) explore.Setup {
	return func(c *fw.Ctx, name string) explore.Setup {
		return func(w *vs.World) func(bool) {
			p := vpipe.New()
			p.Window = 1
			var errB error
			var doneB bool
			var atB int64
			w.GoHarness("main", true, func() {
				conn := mkConn(p, k)
				bg := vctx.Background()
				conn.CloseRead(bg)
				w.GoHarness("pingerA", false, func() { conn.Ping(bg) })
				w.GoHarness("pingerB", true, func() {
					p.WaitOut("first-ping-begun", func(out []byte) bool { return len(out) > 0 })
					ctx, cancel := vctx.WithTimeout(bg, time.Second)
					defer cancel()
					t0 := w.Now
					errB = conn.Ping(ctx)
					atB = w.Now - t0
					doneB = true
				})
			})
			return func(complete bool) {
				if !complete {
					return
				}
				locus := "second-ping-behind-stalled-ping/" + k.String()
				if w.Panic != "" {
					violate(c, w, name, "C15/panic/"+locus, w.Panic)
					return
				}
				c.OutcomeStr(fmt.Sprintf("%s|B=%v/%v@%dms", name, doneB, errB != nil, atB/1e6))
				if !doneB {
					violate(c, w, name, "C15/ping-never-returns/"+locus, fmt.Sprintf("the second Ping's context ended after 1 s while the first Ping's frame was stuck in the transport; it never returned: stuck %v", stuckTasks(w)))
					return
				}
				if errB == nil {
					violate(c, w, name, "C15/ping-nil-without-own-pong/"+locus, "the second Ping returned nil although the peer never answered")
					return
				}
				if atB > int64(2500*time.Millisecond) {
					violate(c, w, name, "C15/ping-outlives-context/"+locus, fmt.Sprintf("the second Ping returned %v after it was called; its context ended after 1 s", time.Duration(atB)))
				}
			}
		}
	}
}

// A Ping received while the local Close waits for the peer's Close frame (the
// connection is still being read: by the close handshake) is answered like any other.
func c15DuringCloseSetup(k connCfg, viaCloseRead bool) func(c *fw.Ctx, name string) explore.Setup {
	return func(c *fw.Ctx, name string) explore.Setup {
		return func(w *vs.World) func(bool) {
			p := vpipe.New()
			var pongSeen, closeSeen bool
			var closeErr error
			w.GoHarness("main", true, func() {
				conn := mkConn(p, k)
				bg := vctx.Background()
				if viaCloseRead {
					conn.CloseRead(bg)
				}
				w.GoHarness("peer", false, func() {
					var cf frame.Frame
					if !p.WaitOut("close-frame", func(out []byte) bool {
						f, ok := firstClose(out)
						cf = f
						return ok
					}) {
						return
					}
					closeSeen = true
					p.Send(peerFrame(k, frame.Frame{Fin: true, Opcode: frame.OpPing, Payload: []byte("hs")}))
					pongSeen = p.WaitOut("pong", func(out []byte) bool {
						for _, f := range connFrames(out) {
							if f.Opcode == frame.OpPong && string(f.Payload) == "hs" {
								return true
							}
						}
						return false
					})
					p.Send(peerFrame(k, frame.Frame{Fin: true, Opcode: frame.OpClose, Payload: cf.Payload}))
				})
				w.GoHarness("closer", true, func() { closeErr = conn.Close(1000, "") })
			})
			return func(complete bool) {
				if !complete {
					return
				}
				locus := fmt.Sprintf("during-close-handshake/closeread=%v/%s", viaCloseRead, k.String())
				if w.Panic != "" {
					violate(c, w, name, "C15/panic/"+locus, w.Panic)
					return
				}
				c.OutcomeStr(fmt.Sprintf("%s|close=%v|pong=%v|err=%v", name, closeSeen, pongSeen, closeErr != nil))
				if closeSeen && !pongSeen {
					violate(c, w, name, "C15/ping-not-answered/"+locus, fmt.Sprintf("the peer's Ping arrived while Close was waiting for the peer's Close frame; no Pong with its payload was sent (Close returned %v)\nwire: %s", closeErr, describeFrames(connFrames(p.Out))))
				}
			}
		}
	}
}

func c15Scenarios(tier string) []scenario {
	var scs []scenario
	cfg := explore.Config{P: 1, T: 0, E: 0, Horizon: 60e9}
	ns := []int{2}
	if tier == "thorough" {
		cfg.P = 2
		ns = []int{2, 3}
	}
	for _, k := range []connCfg{{Client: false}, {Client: true}} {
		for _, n := range ns {
			for _, v := range []string{"inorder", "reverse", "dup", "foreign", "respell", "withhold", "pingback", "early", "asap"} {
				for _, rd := range []string{"loop", "closeread"} {
					if n == 2 && v == "dup" {
						// with two pings "dup" answers the first twice and withholds the second
					}
					prm := c15Params{K: k, N: n, Variant: v, Reader: rd}
					pc := cfg
					if n >= 3 {
						pc.P = 1 // three pingers: one preemption (two did not finish in 20 minutes)
					}
					scs = append(scs, scenario{Name: prm.name(), Cfg: pc, Setup: c15Setup(prm), Group: fmt.Sprintf("%s/k%d/%s", v, n, k.String())})
				}
			}
		}
	}
	scs = append(scs, c15SeqScenarios(tier)...)
	scs = append(scs, c15WireScenarios(tier)...)
	pst := 2
	if tier == "thorough" {
		pst = 3
	}
	for _, k := range []connCfg{{Client: false}, {Client: true}} {
		scs = append(scs, scenario{Name: "stalled-behind-writer/" + k.String(), Cfg: explore.Config{P: pst, T: 1, Horizon: 60e9}, Setup: c15StallSetup(k)})
		for _, cr := range []bool{false, true} {
			scs = append(scs, scenario{Name: fmt.Sprintf("during-close-handshake/closeread=%v/%s", cr, k.String()), Cfg: explore.Config{P: pst, T: 1, Horizon: 60e9}, Setup: c15DuringCloseSetup(k, cr)})
		}
		scs = append(scs, scenario{Name: "second-ping-behind-stalled-ping/" + k.String(), Cfg: explore.Config{P: pst, T: 1, Horizon: 60e9}, Setup: c15TwoStalledSetup(k)})
	}
	return scs
}

// c15RaceScenarios: concurrent Pings under the race detector. Payload
// generation and the active-ping table are shared between Ping calls; an
// unsynchronised access there lets two Pings take the same payload, which the
// scheduler (atomic between synchronisation points) cannot interleave but the
// detector reports.
func c15RaceScenarios(tier string) []scenario {
	var out []scenario
	for _, sc := range c15Scenarios(tier) {
		if !(strings.HasPrefix(sc.Name, "inorder/k2/") || strings.HasPrefix(sc.Name, "asap/k2/") || strings.HasPrefix(sc.Name, "reverse/k2/loop")) {
			continue
		}
		sc.Group = ""
		sc.Cfg.P = 1
		if tier == "thorough" {
			sc.Cfg.P = 2
		}
		out = append(out, raceWrap("C15", sc))
	}
	return out
}

func init() {
	fw.Register(fw.Part{Prop: "C15R", Name: "s.race",
		Units:  func(tier string) []fw.Unit { return scenarioUnits(c15RaceScenarios(tier)) },
		Replay: replayFn(c15RaceScenarios),
	})
	// C03: a Ping received after the endpoint's own Close frame is still answered (RFC 6455 5.5.2:
	// until a Close frame has been *received*), and the peer's Close that follows is read
	c03dc := pickScenarios(c15Scenarios, "during-close-handshake/")
	fw.Register(fw.Part{Prop: "C03", Name: "s.duringclose",
		Units:  func(tier string) []fw.Unit { return reprefixed(scenarioUnits(c03dc(tier))) },
		Replay: reprefixedReplay(replayFn(c03dc)),
	})
	fw.Register(fw.Part{Prop: "C15", Name: "s.ping",
		Units:  func(tier string) []fw.Unit { return scenarioUnits(c15Scenarios(tier)) },
		Replay: replayFn(c15Scenarios),
	})
}
