package sched

import (
	"fmt"
	"io"
	"time"

	"nhooyr.io/websocket"
	"verif/engine/explore"
	"verif/engine/vctx"
	"verif/engine/vpipe"
	"verif/engine/vs"
	"verif/engine/vtime"
	"verif/fw"
	"verif/refws/frame"
)

// C16: once an endpoint has sent a Close frame it sends no further data frames
// and no second Close frame.

type c16Params struct {
	// Prop: property the violations are reported under (default C16). Under C02 the
	// wire is judged as a frame stream: well-formed, and no data frame behind a Close frame.
	Prop string
	Name string
	K    connCfg
	Init string // local | peer | proto | limit | closeread
	Echo string // early | late | never (who/when the peer answers a Close it sees)
	// Writers: 0 none, 1 Write x2, 2 Write x2 + streaming Writer
	Writers int
	Pinger  bool
	// Stall: the transport accepts only a few bytes until virtual time 1s, so the
	// write of the Close frame is in progress for a while; meanwhile a writer
	// (GiveUp: "write" | "ping") waits for the frame lock until its context is
	// cancelled at 500ms, and another writer with a healthy context arrives.
	Stall  bool
	GiveUp string
	// NoStatus: the local Close uses StatusNoStatusRcvd, i.e. a Close frame with an empty payload
	NoStatus bool
	// BigStream: the streaming Writer's first chunk is larger than the write buffer
	// (5000 bytes: part of the fragment stays buffered after the frame is written)
	BigStream bool
	// SlowPeer: the transport accepts 64 bytes and nothing more until 1 s
	SlowPeer bool
	// PeerPing: as soon as the peer sees the Close frame it sends a Ping (which the endpoint still
	// answers: whatever the Pong's write flushes comes after the Close frame)
	PeerPing bool
}

type c16State struct {
	p        *vpipe.Pipe
	closeErr error
	readErr  error
}

func c16Setup(prm c16Params) func(c *fw.Ctx, name string) explore.Setup {
	return func(c *fw.Ctx, name string) explore.Setup {
		return func(w *vs.World) func(bool) {
			st := &c16State{p: vpipe.New()}
			k := prm.K
			w.GoHarness("main", true, func() {
				conn := mkConn(st.p, k)
				bg := vctx.Background()
				if prm.Init == "limit" {
					conn.SetReadLimit(5)
				}
				if prm.SlowPeer {
					st.p.Window = 64
					w.GoHarness("drainer", false, func() {
						vtime.Sleep(time.Second)
						st.p.SetWindow(0)
					})
				}
				if prm.Stall {
					st.p.Window = 3
					closeBegun := func() {
						st.p.WaitOut("close-begun", func(out []byte) bool { return len(out) > 0 })
					}
					w.GoHarness("drainer", false, func() {
						vtime.Sleep(time.Second)
						st.p.SetWindow(0)
					})
					w.GoHarness("giveup", true, func() {
						closeBegun()
						ctx, cancel := vctx.WithCancel(bg)
						w.GoHarness("canceller", false, func() {
							vtime.Sleep(500 * time.Millisecond)
							cancel()
						})
						if prm.GiveUp == "ping" {
							conn.Ping(ctx)
						} else {
							conn.Write(ctx, websocket.MessageText, []byte("gave-up"))
						}
					})
					w.GoHarness("late-writer", true, func() {
						closeBegun()
						conn.Write(bg, websocket.MessageText, []byte("late"))
					})
				}
				if prm.Writers >= 1 {
					w.GoHarness("writer", true, func() {
						for i := 0; i < 2; i++ {
							if conn.Write(bg, websocket.MessageBinary, fill(byte(0xA0+i), 10)) != nil {
								return
							}
						}
					})
				}
				if prm.Writers >= 2 {
					w.GoHarness("streamer", true, func() {
						wr, err := conn.Writer(bg, websocket.MessageText)
						if err != nil {
							return
						}
						first := 5
						if prm.BigStream {
							first = 5000
							if k.Flate {
								first = 70000 // more than one deflate block: the first frame is on the wire before Close
							}
						}
						if _, err = wr.Write(fill(0xB0, first)); err != nil {
							return
						}
						if _, err = wr.Write(fill(0xB1, 5)); err != nil {
							return
						}
						wr.Close()
					})
				}
				if prm.Pinger {
					w.GoHarness("pinger", false, func() { conn.Ping(bg) })
				}
				// the peer answers a Close frame it sees
				w.GoHarness("peer-echo", false, func() {
					var cf frame.Frame
					ok := st.p.WaitOut("close-frame", func(out []byte) bool {
						f, ok := firstClose(out)
						cf = f
						return ok
					})
					if ok && prm.PeerPing {
						st.p.Send(peerFrame(k, frame.Frame{Fin: true, Opcode: frame.OpPing, Payload: []byte("pp")}))
					}
					if !ok || prm.Echo == "never" || prm.Init != "local" && prm.Init != "closeread" {
						return
					}
					if prm.Echo == "late" {
						vtime.Sleep(3 * time.Second)
					}
					st.p.Send(peerFrame(k, frame.Frame{Fin: true, Opcode: frame.OpClose, Payload: cf.Payload}))
					st.p.WaitDrained()
					st.p.SendEOF()
				})
				reader := func() {
					for {
						_, r, err := conn.Reader(bg)
						if err != nil {
							st.readErr = err
							break
						}
						if _, err = io.Copy(io.Discard, r); err != nil {
							st.readErr = err
							break
						}
					}
					// what applications do after a failed read
					conn.CloseNow()
				}
				switch prm.Init {
				case "local":
					w.GoHarness("closer", true, func() {
						if prm.NoStatus {
							st.closeErr = conn.Close(websocket.StatusNoStatusRcvd, "")
							return
						}
						st.closeErr = conn.Close(websocket.StatusNormalClosure, "bye")
					})
				case "both":
					// both ends close at the same time: the local Close frame is being written
					// while the reader meets the peer's Close frame
					w.GoHarness("reader", true, reader)
					w.GoHarness("peer", false, func() { st.p.Send(peerClose(k, 1000, "peer-bye")) })
					w.GoHarness("closer", true, func() {
						st.closeErr = conn.Close(websocket.StatusNormalClosure, "bye")
					})
				case "peer":
					w.GoHarness("reader", true, reader)
					w.GoHarness("peer", false, func() { st.p.Send(peerClose(k, 1000, "peer-bye")) })
				case "proto":
					w.GoHarness("reader", true, reader)
					w.GoHarness("peer", false, func() {
						st.p.Send(peerFrame(k, frame.Frame{Fin: true, Rsv2: true, Opcode: frame.OpText, Payload: []byte("x")}))
					})
				case "limit":
					w.GoHarness("reader", true, reader)
					w.GoHarness("peer", false, func() { st.p.Send(peerData(k, frame.OpBinary, true, fill(0xEE, 10))) })
				case "closeread":
					ctx := conn.CloseRead(bg)
					w.GoHarness("peer", false, func() { st.p.Send(peerData(k, frame.OpBinary, true, fill(0xEE, 3))) })
					w.GoHarness("waiter", true, func() {
						vs.Recv(ctx.Done())
						conn.CloseNow()
					})
				}
			})
			return func(complete bool) {
				if !complete {
					return
				}
				c16Oracle(c, w, name, prm, st)
			}
		}
	}
}

func c16Oracle(c *fw.Ctx, w *vs.World, name string, prm c16Params, st *c16State) {
	locus := prm.Init + "/" + prm.K.String()
	if prm.Init == "local" {
		locus = prm.Init + "-echo-" + prm.Echo + "/" + prm.K.String()
	}
	if w.Panic != "" {
		violate(c, w, name, "C16/panic/"+locus, w.Panic)
		return
	}
	if prm.Prop == "C06" {
		// the first Close frame on the wire, whatever else the connection is doing
		fs, _ := frame.ParseAll(st.p.Out)
		nclose := 0
		for _, f := range fs {
			if f.Opcode == frame.OpClose {
				nclose++
			}
		}
		if nclose > 1 {
			violate(c, w, name, "C06/second-close-frame/"+locus, fmt.Sprintf("%d Close frames on the wire: an endpoint sends its own Close frame or echoes the peer's, once\nwire: %s", nclose, describeFrames(fs)))
			return
		}
		for _, f := range fs {
			if f.Opcode != frame.OpClose {
				continue
			}
			want := ""
			if prm.Init == "local" && !prm.NoStatus {
				want = "\x03\xe8bye"
			} else if prm.Init == "peer" {
				want = "\x03\xe8" // the echo carries the peer's code (the echoed reason is not judged)
			}
			got := string(f.Payload)
			if prm.Init == "peer" && len(got) > 2 {
				got = got[:2]
			}
			c.OutcomeStr(fmt.Sprintf("%s|close rsv=%v%v%v fin=%v payload=%x", name, f.Rsv1, f.Rsv2, f.Rsv3, f.Fin, f.Payload))
			switch {
			case f.Rsv1 || f.Rsv2 || f.Rsv3 || !f.Fin:
				violate(c, w, name, "C06/close-frame-malformed/reserved-bits/"+locus, fmt.Sprintf("the Close frame has fin=%v rsv1=%v rsv2=%v rsv3=%v: a conformant peer fails the connection instead of reading code and reason\nwire: %s", f.Fin, f.Rsv1, f.Rsv2, f.Rsv3, describeFrames(fs)))
			case (prm.Init == "local" || prm.Init == "peer") && got != want:
				violate(c, w, name, "C06/close-frame-differs/"+locus, fmt.Sprintf("the Close frame carries payload %x, want %x\nwire: %s", f.Payload, want, describeFrames(fs)))
			}
			return
		}
		c.OutcomeStr(name + "|no-close-frame")
		return
	}
	if prm.Prop == "C02" {
		res := frame.Validate(st.p.Out, frame.StreamRules{SenderIsClient: prm.K.Client, Deflate: prm.K.Flate})
		sig := ""
		for _, f := range res.Frames {
			sig += fmt.Sprintf("%d", f.Opcode)
		}
		c.OutcomeStr(name + "|" + sig)
		for _, v := range res.Violations {
			violate(c, w, name, "C02/wire/"+v.Rule+"/"+locus, fmt.Sprintf("%v\nwire: %s", v, describeFrames(res.Frames)))
			return
		}
		if res.FirstClose >= 0 {
			for i := res.FirstClose + 1; i < len(res.Frames); i++ {
				if f := res.Frames[i]; f.Opcode <= frame.OpBinary {
					violate(c, w, name, "C02/wire/data-frame-after-close/"+locus, fmt.Sprintf("data frame %d (opcode %d, %d bytes) follows the Close frame %d: a decoder stops at the Close frame (RFC 6455 5.5.1)\nwire: %s", i, f.Opcode, len(f.Payload), res.FirstClose, describeFrames(res.Frames)))
					return
				}
			}
		}
		return
	}
	fs, rest := frame.ParseAll(st.p.Out)
	ci := -1
	sig := ""
	for i, f := range fs {
		sig += fmt.Sprintf("%d", f.Opcode)
		if f.Opcode == frame.OpClose && ci < 0 {
			ci = i
			sig += "!"
		}
	}
	if w.Deadlock || w.HorizonHit {
		// termination is C09's subject; record as outcome only
		sig += "|stuck"
	}
	c.OutcomeStr(name + "|" + sig)
	if ci < 0 {
		return
	}
	for i := ci + 1; i < len(fs); i++ {
		f := fs[i]
		switch f.Opcode {
		case frame.OpClose:
			violate(c, w, name, "C16/second-close-frame/"+locus, fmt.Sprintf("Close frame %d (code %d) follows the first Close frame %d (code %d)\nwire: %s", i, closeCodeOf(f), ci, closeCodeOf(fs[ci]), describeFrames(fs)))
			return
		case frame.OpText, frame.OpBinary, frame.OpCont:
			violate(c, w, name, "C16/data-frame-after-close/"+locus, fmt.Sprintf("data frame %d (opcode %d, %d bytes) follows the Close frame %d\nwire: %s", i, f.Opcode, len(f.Payload), ci, describeFrames(fs)))
			return
		}
	}
	if len(rest) > 0 {
		op := rest[0] & 0x0f
		if op == frame.OpClose || op <= frame.OpBinary {
			violate(c, w, name, "C16/partial-frame-after-close/"+locus, fmt.Sprintf("%d bytes of a frame with opcode %d follow the Close frame\nwire: %s", len(rest), op, describeFrames(fs)))
		}
	}
}

func c16Scenarios(tier string) []scenario {
	var scs []scenario
	roles := []connCfg{{Client: false}, {Client: true}}
	P := func(p int) explore.Config { return explore.Config{P: p, T: 0, E: 0, Horizon: 120e9} }
	add := func(prm c16Params, q, t explore.Config) {
		n := prm.Name + "/" + prm.K.String()
		scs = append(scs, scenario{Name: n, Cfg: tierCfg(tier, q, t), Setup: c16Setup(prm)})
	}
	// compressed writers emit several frames per message: more room between the Close frame and the rest
	for _, k := range []connCfg{{Client: false, Flate: true, Thr: 1}, {Client: true, Flate: true, Thr: 1}} {
		if tier != "thorough" && k.Client {
			continue // executions with a compressor are slow (a 1.2 MB flate.Writer per execution)
		}
		if tier == "thorough" {
			add(c16Params{Name: "local-early-w2", K: k, Init: "local", Echo: "early", Writers: 2}, P(1), P(2))
		}
		add(c16Params{Name: "peer-w1", K: k, Init: "peer", Echo: "early", Writers: 1}, P(1), P(2))
		add(c16Params{Name: "proto-w1", K: k, Init: "proto", Echo: "early", Writers: 1}, P(1), P(2))
		// a compressed stream (context takeover) that has a frame on the wire when the Close frame
		// goes out: the rest of the message stays unsent
		add(c16Params{Name: "local-never-wbig", K: k, Init: "local", Echo: "never", Writers: 2, BigStream: true}, P(0), P(1))
		// (with a peer that takes 64 bytes and then nothing until 1 s the streamer parks inside its
		// first frame: the Close frame queues behind it without a preemption)
		add(c16Params{Name: "local-never-wbig-slowpeer", K: k, Init: "local", Echo: "never", Writers: 2, BigStream: true, SlowPeer: true}, P(1), P(2))
	}
	for _, k := range roles {
		for _, echo := range []string{"early", "late", "never"} {
			add(c16Params{Name: "local-" + echo + "-nowriter", K: k, Init: "local", Echo: echo}, P(2), P(-1))
			add(c16Params{Name: "local-" + echo + "-w1", K: k, Init: "local", Echo: echo, Writers: 1}, P(2), P(3))
			add(c16Params{Name: "local-" + echo + "-w2", K: k, Init: "local", Echo: echo, Writers: 2}, P(1), P(2))
		}
		add(c16Params{Name: "local-early-ping", K: k, Init: "local", Echo: "early", Writers: 1, Pinger: true}, P(1), P(2))
		// the peer sends a Ping when it sees the Close frame (a streamed message's small fragment may
		// still sit in the write buffer at that point), echoing late or never
		add(c16Params{Name: "local-late-w2-peerping", K: k, Init: "local", Echo: "late", Writers: 2, PeerPing: true}, P(1), P(2))
		add(c16Params{Name: "local-never-w2-peerping", K: k, Init: "local", Echo: "never", Writers: 2, PeerPing: true}, P(1), P(2))
		add(c16Params{Name: "closeread-w2-peerping", K: k, Init: "closeread", Echo: "late", Writers: 2, PeerPing: true}, P(1), P(2))
		// a streamed fragment larger than the write buffer against a local Close, with a fast and with a slow peer
		add(c16Params{Name: "local-early-wbig", K: k, Init: "local", Echo: "early", Writers: 2, BigStream: true}, P(1), P(2))
		add(c16Params{Name: "local-never-wbig-slowpeer", K: k, Init: "local", Echo: "never", Writers: 2, BigStream: true, SlowPeer: true}, P(2), P(3))
		add(c16Params{Name: "peer-wbig-slowpeer", K: k, Init: "peer", Echo: "early", Writers: 2, BigStream: true, SlowPeer: true}, P(1), P(2))
		// a Close frame without status code (empty payload), echoed late or never
		add(c16Params{Name: "local-nostatus-late-w1", K: k, Init: "local", Echo: "late", Writers: 1, NoStatus: true}, P(2), P(3))
		add(c16Params{Name: "local-nostatus-never-w2", K: k, Init: "local", Echo: "never", Writers: 2, NoStatus: true}, P(1), P(2))
		for _, gu := range []string{"write", "ping"} {
			add(c16Params{Name: "local-stalled-giveup-" + gu, K: k, Init: "local", Echo: "early", Stall: true, GiveUp: gu}, P(1), P(3))
			add(c16Params{Name: "peer-stalled-giveup-" + gu, K: k, Init: "peer", Echo: "early", Stall: true, GiveUp: gu}, P(1), P(2))
			if tier == "thorough" {
				add(c16Params{Name: "proto-stalled-giveup-" + gu, K: k, Init: "proto", Echo: "early", Stall: true, GiveUp: gu}, P(1), P(2))
			}
		}
		// both ends close at once, with the transport fast and with the Close frame write stalled
		add(c16Params{Name: "both-w1", K: k, Init: "both", Echo: "never", Writers: 1}, P(1), P(2))
		add(c16Params{Name: "both-stalled", K: k, Init: "both", Echo: "never", Stall: true, GiveUp: "ping"}, P(1), P(2))
		for _, init := range []string{"peer", "proto", "limit", "closeread"} {
			add(c16Params{Name: init + "-w1", K: k, Init: init, Echo: "early", Writers: 1}, P(2), P(3))
			add(c16Params{Name: init + "-w2", K: k, Init: init, Echo: "early", Writers: 2}, P(1), P(2))
		}
	}
	return scs
}

// c02CloseScenarios: histories with a streamed message open across a Close frame,
// judged as a frame stream (C02).
func c02CloseScenarios(tier string) []scenario {
	var scs []scenario
	P := func(p int) explore.Config { return explore.Config{P: p, T: 0, E: 0, Horizon: 120e9} }
	ks := []connCfg{{Client: false}, {Client: true}, {Client: false, Flate: true, Thr: 1}}
	if tier == "thorough" {
		ks = append(ks, connCfg{Client: true, Flate: true, Thr: 1})
	}
	for _, k := range ks {
		for _, prm := range []c16Params{
			{Name: "local-never-w2", K: k, Init: "local", Echo: "never", Writers: 2},
			{Name: "local-late-w2", K: k, Init: "local", Echo: "late", Writers: 2},
			{Name: "peer-w2", K: k, Init: "peer", Echo: "early", Writers: 2},
			{Name: "closeread-w2", K: k, Init: "closeread", Echo: "early", Writers: 2},
		} {
			if tier != "thorough" && (prm.Name == "local-late-w2" || (k.Flate && prm.Name != "local-never-w2")) {
				continue
			}
			prm.Prop = "C02"
			scs = append(scs, scenario{Name: "ac/" + prm.Name + "/" + k.String(), Cfg: tierCfg(tier, P(1), P(2)), Setup: c16Setup(prm)})
		}
		if k.Flate {
			// a Close frame (own, or the echo of the peer's) right behind the first frame of a compressed stream
			for _, prm := range []c16Params{
				{Name: "local-never-wbig", K: k, Init: "local", Echo: "never", Writers: 2, BigStream: true},
				{Name: "peer-wbig", K: k, Init: "peer", Echo: "early", Writers: 2, BigStream: true},
			} {
				if tier != "thorough" && prm.Name == "peer-wbig" {
					continue // 36 s per role: a 70000-byte compression in every execution
				}
				prm.Prop = "C02"
				scs = append(scs, scenario{Name: "ac/" + prm.Name + "/" + k.String(), Cfg: tierCfg(tier, P(1), P(2)), Setup: c16Setup(prm)})
			}
		}
	}
	return scs
}

// c06CloseFrameScenarios: the same histories judged for C06: the first Close frame
// is a well-formed Close frame with exactly the code and reason passed (or the
// peer's code), also when it is written in the middle of a (compressed) stream.
func c06CloseFrameScenarios(tier string) []scenario {
	var scs []scenario
	P := func(p int) explore.Config { return explore.Config{P: p, T: 0, E: 0, Horizon: 120e9} }
	for _, k := range []connCfg{{Client: false}, {Client: true}, {Client: false, Flate: true, Thr: 1}, {Client: true, Flate: true, Thr: 1, CNCT: true, SNCT: true}} {
		for _, prm := range []c16Params{
			{Name: "local-never-w2", K: k, Init: "local", Echo: "never", Writers: 2},
			{Name: "peer-w2", K: k, Init: "peer", Echo: "early", Writers: 2},
			{Name: "local-never-wbig", K: k, Init: "local", Echo: "never", Writers: 2, BigStream: true},
			{Name: "peer-wbig", K: k, Init: "peer", Echo: "early", Writers: 2, BigStream: true},
			{Name: "local-nostatus-w2", K: k, Init: "local", Echo: "never", Writers: 2, NoStatus: true},
			{Name: "both-stalled", K: k, Init: "both", Echo: "never", Stall: true, GiveUp: "ping"},
		} {
			if tier != "thorough" && (k.Flate != prm.BigStream || prm.Name == "peer-wbig") && !(prm.Name == "both-stalled" && !k.Flate) {
				continue
			}
			if prm.Name == "both-stalled" && k.Flate {
				continue
			}
			prm.Prop = "C06"
			scs = append(scs, scenario{Name: "cf/" + prm.Name + "/" + k.String(), Cfg: tierCfg(tier, P(1), P(2)), Setup: c16Setup(prm)})
		}
	}
	return scs
}

func init() {
	fw.Register(fw.Part{Prop: "C06", Name: "s.closeframe",
		Units:  func(tier string) []fw.Unit { return scenarioUnits(c06CloseFrameScenarios(tier)) },
		Replay: replayFn(c06CloseFrameScenarios),
	})
	fw.Register(fw.Part{Prop: "C02", Name: "s.afterclose",
		Units:  func(tier string) []fw.Unit { return scenarioUnits(c02CloseScenarios(tier)) },
		Replay: replayFn(c02CloseScenarios),
	})
	fw.Register(fw.Part{Prop: "C16", Name: "s.afterclose",
		Units:  func(tier string) []fw.Unit { return scenarioUnits(c16Scenarios(tier)) },
		Replay: replayFn(c16Scenarios),
	})
}
