package sched

import (
	"context"
	"errors"
	"fmt"
	"net"
	"strings"
	"time"

	"nhooyr.io/websocket"
	"verif/engine/explore"
	"verif/engine/vctx"
	"verif/engine/vpipe"
	"verif/engine/vs"
	"verif/engine/vtime"
	"verif/fw"
	"verif/refws/frame"
)

// C18 (deadline part): a deadline that passes while no call is active makes
// calls fail with a deadline error until it is reset, leaving the connection
// usable; a deadline that fires during an active call fails that call and
// closes the connection; a call never outlives its deadline.

// ops: RDp RD1 RD0 (read deadline past / now+1s / zero), WDp WD1 WD0,
// R (Read, data available), Rn (Read, no data ever), W (Write), S1 S2 (sleep 1s / 2s),
// RDx WDx (the same absolute deadline now+1s set twice with 2 s of idling in between)
type c18Params struct {
	K   connCfg
	Seq []string
}

func (p c18Params) name() string { return strings.Join(p.Seq, "+") + "/" + p.K.String() }

type c18Call struct {
	op     string
	t0, t1 int64
	err    error
	n      int
	// model state at call start
	dl         int64 // deadline instant of this direction (-1 none)
	dlSetAt    int64
	closedPrev bool
}

type c18State struct {
	p        *vpipe.Pipe
	calls    []*c18Call
	finished bool
	probeErr error
	probed   bool
}

const c18None = int64(-1)

func c18Setup(prm c18Params) func(c *fw.Ctx, name string) explore.Setup {
	return func(c *fw.Ctx, name string) explore.Setup {
		return func(w *vs.World) func(bool) {
			st := &c18State{p: vpipe.New()}
			k := prm.K
			w.GoHarness("main", true, func() {
				conn := mkConn(st.p, k)
				nc := websocket.NetConn(vctx.Background(), conn, websocket.MessageBinary)
				rdl, wdl := c18None, c18None
				var rdlSet, wdlSet int64
				at := func(d time.Duration) time.Time { return vctx.Epoch.Add(time.Duration(w.Now) + d) }
				nReads := 0
				for _, op := range prm.Seq {
					if op == "R" || op == "Rp" {
						nReads++
					}
				}
				// data for every R is available from the start (3 bytes per message)
				for i := 0; i < nReads; i++ {
					st.p.Send(peerData(k, frame.OpBinary, true, []byte{byte(0xD0 + i), 2, 3}))
				}
				for _, op := range prm.Seq {
					switch op {
					case "RDp":
						nc.SetReadDeadline(at(-time.Second))
						rdl, rdlSet = w.Now, w.Now // effectively "now" (the library arms a 1ns timer)
					case "RD1":
						nc.SetReadDeadline(at(time.Second))
						rdl, rdlSet = w.Now+int64(time.Second), w.Now
					case "RDx":
						// the same absolute deadline set twice, having expired (idle) in between
						t := at(time.Second)
						nc.SetReadDeadline(t)
						vtime.Sleep(2 * time.Second)
						nc.SetReadDeadline(t)
						rdl, rdlSet = w.Now, w.Now // a deadline in the past: as RDp, in force from the moment it is set
					case "WDx":
						t := at(time.Second)
						nc.SetWriteDeadline(t)
						vtime.Sleep(2 * time.Second)
						nc.SetWriteDeadline(t)
						wdl, wdlSet = w.Now, w.Now
					case "RDf":
						// a deadline centuries ahead (beyond what fits into 63 bits of nanoseconds
						// since 1970): it never passes
						nc.SetReadDeadline(time.Date(3000, 1, 1, 0, 0, 0, 0, time.UTC))
						rdl, rdlSet = c18None, w.Now
					case "WDf":
						nc.SetWriteDeadline(time.Date(3000, 1, 1, 0, 0, 0, 0, time.UTC))
						wdl, wdlSet = c18None, w.Now
					case "RD0":
						nc.SetReadDeadline(time.Time{})
						rdl, rdlSet = c18None, w.Now
					case "RD0L":
						// the zero time carrying a location: still "no deadline" (Time.IsZero)
						nc.SetReadDeadline(time.Time{}.In(time.FixedZone("X", 3600)))
						rdl, rdlSet = c18None, w.Now
					case "WD0L":
						nc.SetWriteDeadline(time.Time{}.In(time.FixedZone("X", 3600)))
						wdl, wdlSet = c18None, w.Now
					case "WDp":
						nc.SetWriteDeadline(at(-time.Second))
						wdl, wdlSet = w.Now, w.Now
					case "WD1":
						nc.SetWriteDeadline(at(time.Second))
						wdl, wdlSet = w.Now+int64(time.Second), w.Now
					case "WD0":
						nc.SetWriteDeadline(time.Time{})
						wdl, wdlSet = c18None, w.Now
					case "S1":
						vtime.Sleep(time.Second)
					case "S2":
						vtime.Sleep(2 * time.Second)
					case "R", "Rn", "Rp":
						cl := &c18Call{op: op, t0: w.Now, dl: rdl, dlSetAt: rdlSet, closedPrev: st.p.Closed}
						st.calls = append(st.calls, cl)
						var b [8]byte
						if op == "Rp" {
							// a buffer smaller than the 3-byte messages: the adapter keeps the
							// message reader for the next call
							cl.n, cl.err = nc.Read(b[:2])
						} else {
							cl.n, cl.err = nc.Read(b[:])
						}
						cl.t1 = w.Now
					case "W", "W0":
						cl := &c18Call{op: op, t0: w.Now, dl: wdl, dlSetAt: wdlSet, closedPrev: st.p.Closed}
						st.calls = append(st.calls, cl)
						if op == "W0" {
							cl.n, cl.err = nc.Write(nil) // an empty write is a call like any other
						} else {
							cl.n, cl.err = nc.Write([]byte{1, 2, 3})
						}
						cl.t1 = w.Now
					}
				}
				vs.Quiesce()
				st.finished = true
				// probe: after resetting both deadlines an open connection still works
				if !st.p.Closed {
					nc.SetDeadline(time.Time{})
					vs.Quiesce()
					_, st.probeErr = nc.Write([]byte("probe"))
					if st.probeErr == nil {
						st.p.Send(peerData(k, frame.OpBinary, true, []byte("reply")))
						var b [16]byte
						// skip data messages the program did not consume
						for {
							n, err := nc.Read(b[:])
							if err != nil {
								st.probeErr = err
								break
							}
							if string(b[:n]) == "reply" {
								break
							}
						}
					}
					st.probed = true
				}
			})
			return func(complete bool) {
				if !complete {
					return
				}
				c18Oracle(c, w, name, prm, st)
			}
		}
	}
}

func isDeadlineErr(err error) bool {
	var ne net.Error
	return errors.Is(err, context.DeadlineExceeded) || errors.As(err, &ne) && ne.Timeout()
}

func c18Oracle(c *fw.Ctx, w *vs.World, name string, prm c18Params, st *c18State) {
	role := prm.K.String()
	if w.Panic != "" {
		violate(c, w, name, "C18/panic/"+role, w.Panic)
		return
	}
	out := name
	for _, cl := range st.calls {
		out += fmt.Sprintf("|%s:%v@%d-%d", cl.op, cl.err == nil, cl.t0/1e8, cl.t1/1e8)
	}
	out += fmt.Sprintf("|closed=%v|probe=%v", st.p.Closed, st.probeErr == nil)
	c.OutcomeStr(out)
	if w.Deadlock || w.HorizonHit {
		for _, cl := range st.calls {
			if cl.t1 == 0 && cl.err == nil && cl.n == 0 && cl.dl != c18None {
				violate(c, w, name, "C18/call-outlives-deadline/"+cl.op+"/"+role, fmt.Sprintf("call %s started at %v with a deadline at %v and never returned", cl.op, time.Duration(cl.t0), time.Duration(cl.dl)))
				return
			}
		}
		// a call with no deadline and no data blocks forever by design
		return
	}
	closedByDeadline := false
	for i, cl := range st.calls {
		dir := "read"
		if cl.op == "W" || cl.op == "W0" {
			dir = "write"
		}
		// the state of the connection after this call: what the next call found (a later call
		// may close the connection legitimately, e.g. a Read whose deadline fires while it waits)
		closedAfter := st.p.Closed
		if i+1 < len(st.calls) {
			closedAfter = st.calls[i+1].closedPrev
		}
		if cl.closedPrev || closedByDeadline {
			continue // the connection was already closed: every call fails, nothing to judge
		}
		switch {
		case cl.dl == c18None:
			// no deadline in force: the call must not fail with a deadline error
			if cl.err != nil && isDeadlineErr(cl.err) {
				violate(c, w, name, "C18/deadline-error-without-deadline/"+dir+"/"+role, fmt.Sprintf("%s at %v failed with %q although the %s deadline had been reset at %v", cl.op, time.Duration(cl.t0), cl.err, dir, time.Duration(cl.dlSetAt)))
				return
			}
			if cl.op != "Rn" && cl.err != nil {
				violate(c, w, name, "C18/call-fails-without-deadline/"+dir+"/"+role, fmt.Sprintf("%s at %v failed with %q; no deadline in force and the connection was open", cl.op, time.Duration(cl.t0), cl.err))
				return
			}
		case cl.dl < cl.t0:
			// the deadline passed strictly before the call started, with no call active, and was not reset
			if cl.err == nil || !isDeadlineErr(cl.err) {
				violate(c, w, name, "C18/expired-deadline-not-enforced/"+dir+"/"+role, fmt.Sprintf("%s at %v returned (%d, %v) although the %s deadline passed at %v and was not reset", cl.op, time.Duration(cl.t0), cl.n, cl.err, dir, time.Duration(cl.dl)))
				return
			}
			if closedAfter && !closedByDeadline {
				// nothing else in these programs closes the connection
				violate(c, w, name, "C18/idle-deadline-closes-connection/"+dir+"/"+role, fmt.Sprintf("the %s deadline passed at %v while no call was active; %s then failed correctly but the connection was closed", dir, time.Duration(cl.dl), cl.op))
				return
			}
		case cl.dl == cl.t0:
			// deadline and call start fall on the same instant: either behaviour
			// acceptable: the call completed first (nil), the deadline counted as
			// passed before the call (deadline error, connection open), or it fired
			// during the call (error, connection closed)
			if cl.err != nil && !isDeadlineErr(cl.err) && !st.p.Closed {
				violate(c, w, name, "C18/deadline-at-call-start/call-failed-but-connection-left-open/"+dir+"/"+role, fmt.Sprintf("the %s deadline fell on the instant %s started (%v); the call failed with %q, which is not a deadline error, and the connection was not closed (the adapter's %s context stays cancelled)", dir, cl.op, time.Duration(cl.t0), cl.err, dir))
				return
			}
			// (the call may also complete just before the callback closes the connection)
			closedByDeadline = closedByDeadline || st.p.Closed
		default: // cl.dl > cl.t0: the deadline lies in the future at call start
			if cl.op == "Rn" {
				// blocks until the deadline fires during the call
				if cl.err == nil {
					violate(c, w, name, "C18/blocked-read-returns-data/"+role, "Read returned data although the peer sent none")
					return
				}
				if cl.t1 > cl.dl+int64(500*time.Millisecond) {
					violate(c, w, name, "C18/call-outlives-deadline/"+cl.op+"/"+role, fmt.Sprintf("Read blocked from %v to %v although its deadline was %v", time.Duration(cl.t0), time.Duration(cl.t1), time.Duration(cl.dl)))
					return
				}
				if !st.p.Closed {
					violate(c, w, name, "C18/active-deadline-leaves-connection-open/"+dir+"/"+role, fmt.Sprintf("the %s deadline fired at %v during an active Read, the call failed (%v) but the connection was not closed", dir, time.Duration(cl.dl), cl.err))
					return
				}
				closedByDeadline = true
			} else if cl.err != nil {
				violate(c, w, name, "C18/call-fails-before-deadline/"+dir+"/"+role, fmt.Sprintf("%s at %v failed with %q; its deadline %v had not been reached and data/window were available", cl.op, time.Duration(cl.t0), cl.err, time.Duration(cl.dl)))
				return
			}
		}
	}
	if st.probed && st.probeErr != nil && !closedByDeadline {
		violate(c, w, name, "C18/connection-unusable-after-deadline-reset/"+role, fmt.Sprintf("no deadline fired during an active call, both deadlines were reset, yet a round trip fails: %v", st.probeErr))
	}
}

// concurrent setter: a Read (silent peer) or Write (zero window) is blocked in
// one goroutine while another sets the deadline of that direction.
type c18ConcParams struct {
	K   connCfg
	Dir string // read | write
	Set string // past | 1s | both-past (SetDeadline)
}

func (p c18ConcParams) name() string { return "conc-" + p.Dir + "-" + p.Set + "/" + p.K.String() }

func c18ConcSetup(prm c18ConcParams) func(c *fw.Ctx, name string) explore.Setup {
	return func(c *fw.Ctx, name string) explore.Setup {
		return func(w *vs.World) func(bool) {
			p := vpipe.New()
			if prm.Dir == "write" {
				p.Window = 8
			}
			var callErr error
			var callDone, setDone bool
			var t1, setAt, dl int64
			w.GoHarness("main", true, func() {
				conn := mkConn(p, prm.K)
				nc := websocket.NetConn(vctx.Background(), conn, websocket.MessageBinary)
				w.GoHarness("caller", true, func() {
					if prm.Dir == "read" {
						var b [8]byte
						_, callErr = nc.Read(b[:])
					} else {
						_, callErr = nc.Write(fill(0xAB, 100))
					}
					t1 = w.Now
					callDone = true
				})
				w.GoHarness("setter", true, func() {
					d := -time.Second
					if prm.Set == "1s" {
						d = time.Second
					}
					t := vctx.Epoch.Add(time.Duration(w.Now) + d)
					setAt = w.Now
					dl = w.Now
					if d > 0 {
						dl = w.Now + int64(d)
					}
					switch {
					case prm.Set == "both-past":
						nc.SetDeadline(t)
					case prm.Dir == "read":
						nc.SetReadDeadline(t)
					default:
						nc.SetWriteDeadline(t)
					}
					setDone = true
				})
			})
			return func(complete bool) {
				if !complete {
					return
				}
				role := prm.K.String()
				if w.Panic != "" {
					violate(c, w, name, "C18/panic/"+role, w.Panic)
					return
				}
				c.OutcomeStr(fmt.Sprintf("%s|done=%v|err=%v|closed=%v", name, callDone, callErr != nil, p.Closed))
				if !callDone || w.Deadlock || w.HorizonHit {
					if setDone {
						violate(c, w, name, "C18/call-outlives-deadline/blocked-"+prm.Dir+"-concurrent-set-"+prm.Set+"/"+role, fmt.Sprintf("a %s blocked on the peer was not interrupted by the %s deadline set at %v (deadline %v) from another goroutine", prm.Dir, prm.Dir, time.Duration(setAt), time.Duration(dl)))
					}
					return
				}
				if callErr == nil {
					violate(c, w, name, "C18/blocked-call-succeeds/"+prm.Dir+"/"+role, "the call returned nil although the peer never answered")
					return
				}
				if t1 > dl+int64(500*time.Millisecond) {
					violate(c, w, name, "C18/call-outlives-deadline/blocked-"+prm.Dir+"-concurrent-set-"+prm.Set+"/"+role, fmt.Sprintf("the blocked %s returned at %v, deadline was %v", prm.Dir, time.Duration(t1), time.Duration(dl)))
					return
				}
				// the deadline fired during (or at the start of) the call: either a deadline
				// error with the connection open (deadline counted as passed before the call
				// began), or the connection is closed
				if !p.Closed && !isDeadlineErr(callErr) {
					violate(c, w, name, "C18/active-deadline-leaves-connection-open/"+prm.Dir+"/"+role, fmt.Sprintf("the %s deadline fired during the blocked call, which failed with %q, but the connection was not closed", prm.Dir, callErr))
				}
			}
		}
	}
}

func c18Scenarios(tier string) []scenario {
	var scs []scenario
	for _, k := range []connCfg{{Client: false}, {Client: true}} {
		for _, dir := range []string{"read", "write"} {
			for _, set := range []string{"past", "1s", "both-past"} {
				prm := c18ConcParams{K: k, Dir: dir, Set: set}
				pc := explore.Config{P: 2, T: 1, Horizon: 60e9}
				if tier == "thorough" {
					pc = explore.Config{P: -1, T: 2, Horizon: 60e9}
				}
				scs = append(scs, scenario{Name: prm.name(), Cfg: pc, Setup: c18ConcSetup(prm), Group: "conc/" + k.String()})
			}
		}
	}
	cfg := explore.Config{P: 2, T: 1, E: 0, Horizon: 60e9}
	depth := 3
	if tier == "thorough" {
		cfg = explore.Config{P: 3, T: 2, E: 0, Horizon: 60e9}
		depth = 4
	}
	ops := []string{"RDp", "RD1", "RD0", "WDp", "WD1", "WD0", "R", "Rn", "Rp", "W", "W0", "S1", "S2", "RDx", "WDx", "RD0L", "WD0L"}
	var seqs [][]string
	var gen func(cur []string)
	gen = func(cur []string) {
		if len(cur) > 0 {
			last := cur[len(cur)-1]
			if last == "R" || last == "Rn" || last == "Rp" || last == "W" || last == "W0" { // a sequence is interesting when it ends with a call
				seqs = append(seqs, append([]string(nil), cur...))
			}
		}
		if len(cur) == depth {
			return
		}
		for _, op := range ops {
			if len(cur) > 0 && cur[len(cur)-1] == "Rn" {
				continue // Rn without a deadline blocks forever; with one it closes the connection: nothing after it
			}
			hasDL := false
			for _, o := range cur {
				if o == "RD1" || o == "RDp" || o == "RDx" {
					hasDL = true
				}
				if o == "RD0" || o == "RD0L" {
					hasDL = false
				}
			}
			if op == "Rn" && !hasDL {
				continue
			}
			hasPartial := false
			for _, o := range cur {
				hasPartial = hasPartial || o == "Rp"
			}
			if op == "Rn" && hasPartial {
				continue // a partly read message is pending: the read would not be one without data
			}
			gen(append(cur, op))
		}
	}
	gen(nil)
	// far-future deadlines
	seqs = append(seqs, []string{"RDf", "R"}, []string{"RDf", "S1", "R"}, []string{"WDf", "W"}, []string{"WDf", "S1", "W"}, []string{"RD1", "RDf", "S2", "R"}, []string{"WDp", "WDf", "W"}, []string{"RDf", "WDf", "S2", "R", "W"})
	if depth < 4 {
		// a deadline and its reset on the same instant (the timer has fired, its
		// callback has not run yet): the shortest programs that reach it have length 4
		// a message left partly read (the adapter holds its reader), then a deadline
		// that expires while no call is active
		for _, call := range []string{"R", "Rp"} {
			seqs = append(seqs, []string{"Rp", "RD1", "S2", call}, []string{"Rp", "RDp", "S1", call})
		}
		// "subsequent calls fail until the deadline is reset": two and three calls after a deadline
		// that expired while no call was active, then the reset and a call that works again
		for _, d := range []string{"R", "W"} {
			seqs = append(seqs, []string{d + "Dp", "S1", d, d}, []string{d + "D1", "S2", d, d}, []string{d + "Dp", "S1", d, d, d},
				[]string{d + "Dp", "S1", d, d, d + "D0", d}, []string{d + "D1", "S2", d, "S1", d, d + "D0", d})
		}
		seqs = append(seqs, []string{"RDp", "S1", "R", "Rp"}, []string{"RDp", "S1", "Rp", "R"}, []string{"WDp", "S1", "W", "W0"}, []string{"WDp", "S1", "W0", "W"})
		for _, d := range []string{"R", "W"} {
			call := d
			for _, reset := range []string{"D0", "D1"} {
				seqs = append(seqs, []string{d + "D1", "S1", d + reset, call})
				seqs = append(seqs, []string{d + "Dp", "S1", d + reset, call})
			}
		}
	}
	for _, k := range []connCfg{{Client: false}, {Client: true}} {
		for i, sq := range seqs {
			prm := c18Params{K: k, Seq: sq}
			scs = append(scs, scenario{Name: prm.name(), Cfg: cfg, Setup: c18Setup(prm), Group: fmt.Sprintf("%s/%d", k.String(), i%8)})
		}
	}
	return scs
}

func init() {
	fw.Register(fw.Part{Prop: "C18", Name: "s.deadline",
		Units:  func(tier string) []fw.Unit { return scenarioUnits(c18Scenarios(tier)) },
		Replay: replayFn(c18Scenarios),
	})
}

// A pending deadline is removed by another goroutine while the call it would have
// interrupted is blocked; the peer answers after the original deadline. The call
// completes normally, the setter returns at once, the connection stays open.
func c18ClearSetup(k connCfg, dir string, both bool) func(c *fw.Ctx, name string) explore.Setup {
	return func(c *fw.Ctx, name string) explore.Setup {
		return func(w *vs.World) func(bool) {
			p := vpipe.New()
			if dir == "write" {
				p.Window = 8
			}
			var callErr error
			var n int
			var callDone, setDone bool
			var setReturned int64
			w.GoHarness("main", true, func() {
				conn := mkConn(p, k)
				nc := websocket.NetConn(vctx.Background(), conn, websocket.MessageBinary)
				at := vctx.Epoch.Add(time.Duration(w.Now) + time.Second)
				if dir == "read" {
					nc.SetReadDeadline(at)
				} else {
					nc.SetWriteDeadline(at)
				}
				w.GoHarness("caller", true, func() {
					if dir == "read" {
						var b [8]byte
						n, callErr = nc.Read(b[:])
					} else {
						n, callErr = nc.Write(fill(0xAB, 100))
					}
					callDone = true
				})
				w.GoHarness("setter", true, func() {
					vtime.Sleep(500 * time.Millisecond)
					switch {
					case both:
						nc.SetDeadline(time.Time{})
					case dir == "read":
						nc.SetReadDeadline(time.Time{})
					default:
						nc.SetWriteDeadline(time.Time{})
					}
					setReturned = w.Now
					setDone = true
				})
				w.GoHarness("peer", false, func() {
					vtime.Sleep(2 * time.Second)
					if dir == "read" {
						p.Send(peerData(k, frame.OpBinary, true, []byte{1, 2, 3}))
					} else {
						p.SetWindow(0)
					}
				})
			})
			return func(complete bool) {
				if !complete {
					return
				}
				role := k.String()
				locus := dir + "/" + role
				if w.Panic != "" {
					violate(c, w, name, "C18/panic/"+role, w.Panic)
					return
				}
				c.OutcomeStr(fmt.Sprintf("%s|call=%v/%v|set=%v@%dms|closed=%v", name, callDone, callErr != nil, setDone, setReturned/1e6, p.Closed))
				switch {
				case !setDone || setReturned > int64(900*time.Millisecond):
					violate(c, w, name, "C18/deadline-reset-blocks/"+locus, fmt.Sprintf("removing the %s deadline while a %s was blocked did not return promptly (returned=%v at %v)", dir, dir, setDone, time.Duration(setReturned)))
				case !callDone:
					violate(c, w, name, "C18/call-never-returns/after-deadline-removed/"+locus, fmt.Sprintf("the %s never returned although the peer answered at 2 s: stuck %v", dir, stuckTasks(w)))
				case callErr != nil || p.Closed:
					violate(c, w, name, "C18/deadline-error-without-deadline/"+locus, fmt.Sprintf("the %s deadline (1 s) was removed at 0.5 s while the call was blocked; the peer answered at 2 s; the call returned (%d, %v), connection closed=%v", dir, n, callErr, p.Closed))
				}
			}
		}
	}
}

func c18ClearScenarios(tier string) []scenario {
	var scs []scenario
	cfg := explore.Config{P: 1, T: 1, Horizon: 60e9}
	if tier == "thorough" {
		cfg = explore.Config{P: 2, T: 2, Horizon: 60e9}
	}
	for _, k := range []connCfg{{Client: false}, {Client: true}} {
		for _, dir := range []string{"read", "write"} {
			for _, both := range []bool{false, true} {
				scs = append(scs, scenario{Name: fmt.Sprintf("clear/%s/both=%v/%s", dir, both, k.String()), Cfg: cfg, Setup: c18ClearSetup(k, dir, both)})
			}
		}
	}
	return scs
}

func init() {
	fw.Register(fw.Part{Prop: "C18", Name: "s.clear",
		Units:  func(tier string) []fw.Unit { return scenarioUnits(c18ClearScenarios(tier)) },
		Replay: replayFn(c18ClearScenarios),
	})
}
