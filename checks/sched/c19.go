package sched

import (
	"fmt"
	"strings"

	"nhooyr.io/websocket/wsjson"
	"verif/engine/explore"
	"verif/engine/vctx"
	"verif/engine/vpipe"
	"verif/engine/vs"
	"verif/engine/vsync"
	"verif/fw"
	"verif/refws/frame"
)

// C19 (pool part): decoded results never alias pooled buffers, also when
// several connections read concurrently and after a read that failed. Under
// the scheduler the buffer pool is a LIFO stack, so two Gets after a double Put
// certainly return the same buffer.

type c19Params struct {
	K     connCfg
	Prior string // what happened on connection X before: none | invalid | valid | wrongtype
}

func (p c19Params) name() string { return "pool-" + p.Prior + "/" + p.K.String() }

func c19Setup(prm c19Params) func(c *fw.Ctx, name string) explore.Setup {
	return func(c *fw.Ctx, name string) explore.Setup {
		return func(w *vs.World) func(bool) {
			k := prm.K
			vsync.PoolLogging = true
			docs := map[byte]string{'Y': strings.Repeat("y", 40), 'Z': strings.Repeat("z", 70)}
			got := map[byte]string{}
			errs := map[byte]error{}
			var priorErr error
			w.GoHarness("main", true, func() {
				bg := vctx.Background()
				if prm.Prior != "none" {
					px := vpipe.New()
					switch prm.Prior {
					case "invalid":
						px.In = peerData(k, frame.OpText, true, []byte(`{"a":`))
					case "valid":
						px.In = peerData(k, frame.OpText, true, []byte(`"xxxxxxxxxxxxxxxxxxxxxxxxxxxxxxxx"`))
					case "wrongtype":
						px.In = peerData(k, frame.OpText, true, []byte(`12345`))
					}
					x := mkConn(px, k)
					var s string
					priorErr = wsjson.Read(bg, x, &s)
					x.CloseNow()
				}
				for _, tag := range []byte("YZ") {
					tag := tag
					p := vpipe.New()
					conn := mkConn(p, k)
					doc := `"` + docs[tag] + `"`
					w.GoHarness(fmt.Sprintf("peer%c", tag), false, func() {
						// the document arrives in two fragments at scheduler-chosen moments
						p.Send(peerData(k, frame.OpText, false, []byte(doc[:len(doc)/2])))
						p.Send(peerData(k, frame.OpCont, true, []byte(doc[len(doc)/2:])))
					})
					w.GoHarness(fmt.Sprintf("reader%c", tag), true, func() {
						var s string
						errs[tag] = wsjson.Read(bg, conn, &s)
						got[tag] = s
						conn.CloseNow()
					})
				}
			})
			return func(complete bool) {
				if !complete {
					return
				}
				role := prm.K.String()
				if w.Panic != "" {
					violate(c, w, name, "C19/panic/"+role, w.Panic)
					return
				}
				c.OutcomeStr(fmt.Sprintf("%s|prior=%v|y=%v|z=%v", name, priorErr != nil, errs['Y'] != nil, errs['Z'] != nil))
				if w.Deadlock || w.HorizonHit {
					violate(c, w, name, "C19/read-never-returns/after-"+prm.Prior+"/"+role, fmt.Sprintf("stuck %v", stuckTasks(w)))
					return
				}
				for _, tag := range []byte("YZ") {
					if errs[tag] != nil || got[tag] != docs[tag] {
						violate(c, w, name, "C19/decoded-result-aliased-by-pool/concurrent-reads-after-"+prm.Prior+"/"+role, fmt.Sprintf("connection %c received %q and decoded %q (err=%v) while another connection was reading concurrently", tag, docs[tag], got[tag], errs[tag]))
						return
					}
				}
				if msg := c07PoolInvariant(); msg != "" {
					violate(c, w, name, "C19/pool-double-put/after-"+prm.Prior+"/"+role, msg)
				}
			}
		}
	}
}

func c19Scenarios(tier string) []scenario {
	var scs []scenario
	cfg := explore.Config{P: 1, Horizon: 60e9}
	if tier == "thorough" {
		cfg.P = 2
	}
	for _, k := range []connCfg{{Client: false}, {Client: true}, {Client: false, Flate: true}} {
		for _, prior := range []string{"none", "invalid", "valid", "wrongtype"} {
			prm := c19Params{K: k, Prior: prior}
			scs = append(scs, scenario{Name: prm.name(), Cfg: cfg, Setup: c19Setup(prm)})
		}
	}
	return scs
}

func c19RaceScenarios(tier string) []scenario {
	var out []scenario
	for _, sc := range c19Scenarios(tier) {
		if !(strings.HasPrefix(sc.Name, "pool-none/") || strings.HasPrefix(sc.Name, "pool-invalid/")) {
			continue
		}
		sc.Cfg.P = 1
		if tier == "thorough" {
			sc.Cfg.P = 2
		}
		out = append(out, raceWrap("C19", sc))
	}
	return out
}

func init() {
	fw.Register(fw.Part{Prop: "C19R", Name: "s.race",
		Units:  func(tier string) []fw.Unit { return scenarioUnits(c19RaceScenarios(tier)) },
		Replay: replayFn(c19RaceScenarios),
	})
	fw.Register(fw.Part{Prop: "C19", Name: "s.pool",
		Units:  func(tier string) []fw.Unit { return scenarioUnits(c19Scenarios(tier)) },
		Replay: replayFn(c19Scenarios),
	})
}
