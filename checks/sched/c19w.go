package sched

import (
	"bytes"
	"compress/flate"
	"encoding/json"
	"fmt"
	"strings"

	"nhooyr.io/websocket/wsjson"
	"verif/engine/explore"
	"verif/engine/vctx"
	"verif/engine/vpipe"
	"verif/engine/vs"
	"verif/fw"
	"verif/refws/deflate"
	"verif/refws/frame"
)

// C19, concurrent wsjson.Write calls on one connection: the second is requested
// while the first is in the middle of its message (the peer reads slowly). Each
// value arrives as exactly one text message that decodes to it.
func c19WriteSetup(k connCfg) func(c *fw.Ctx, name string) explore.Setup {
	return c19WriteSetupN(k, 2)
}

// c19WriteSetupN: n concurrent writers (with three, two are queued for the message lock
// when the first finishes).
func c19WriteSetupN(k connCfg, n int) func(c *fw.Ctx, name string) explore.Setup {
	return func(c *fw.Ctx, name string) explore.Setup {
		return func(w *vs.World) func(bool) {
			p := vpipe.New()
			p.Window = 100
			vals := []interface{}{
				map[string]interface{}{"kind": "first", "text": strings.Repeat("the quick brown fox ", 30)},
				[]interface{}{"second", strings.Repeat("jumps over the lazy dog ", 25), 42.0},
				map[string]interface{}{"kind": "third", "n": []interface{}{1.0, 2.0, strings.Repeat("pack my box ", 20)}},
			}[:n]
			errs := make([]error, len(vals))
			w.GoHarness("main", true, func() {
				conn := mkConn(p, k)
				bg := vctx.Background()
				for i := range vals {
					i := i
					w.GoHarness(fmt.Sprintf("writer%d", i), true, func() { errs[i] = wsjson.Write(bg, conn, vals[i]) })
				}
				w.GoHarness("drainer", false, func() {
					for n := 0; n < 64; n++ {
						if !p.WaitOut("window-full", func(out []byte) bool { return len(out)-p.Taken >= p.Window }) {
							return
						}
						p.Drain(-1)
					}
				})
			})
			return func(complete bool) {
				if !complete {
					return
				}
				role := k.String()
				if w.Panic != "" {
					violate(c, w, name, "C19/panic/wconc/"+role, w.Panic)
					return
				}
				if w.Deadlock || w.HorizonHit {
					violate(c, w, name, "C19/write-never-returns/wconc/"+role, fmt.Sprintf("stuck %v", stuckTasks(w)))
					return
				}
				for i, err := range errs {
					if err != nil {
						violate(c, w, name, "C19/write-failed/wconc/"+role, fmt.Sprintf("wsjson.Write #%d failed on a healthy connection while another wsjson.Write was in progress: %v", i, err))
						return
					}
				}
				res := frame.Validate(p.Out, frame.StreamRules{SenderIsClient: k.Client, Deflate: k.Flate})
				if len(res.Violations) > 0 || len(res.Rest) > 0 {
					violate(c, w, name, "C19/not-one-text-message/wconc/"+role, fmt.Sprintf("the wire is not a well-formed stream of whole messages: %v (%d stray bytes)", res.Violations, len(res.Rest)))
					return
				}
				if len(res.Messages) != len(vals) {
					violate(c, w, name, "C19/not-one-text-message/wconc/"+role, fmt.Sprintf("%d values were written, %d messages are on the wire", len(vals), len(res.Messages)))
					return
				}
				inf := &deflate.Inflater{NoContextTakeover: k.writerNoTakeover()}
				seen := make([]bool, len(vals))
				for mi, m := range res.Messages {
					pl := m.Payload
					if m.Compressed {
						var err error
						if pl, err = inf.Message(m.Payload); err != nil {
							violate(c, w, name, "C19/wire-json-differs/wconc/"+role, fmt.Sprintf("message %d does not inflate: %v", mi, err))
							return
						}
					}
					if m.Opcode != frame.OpText {
						violate(c, w, name, "C19/not-one-text-message/wconc/"+role, fmt.Sprintf("message %d has opcode %d", mi, m.Opcode))
						return
					}
					var got interface{}
					ok := false
					if json.Unmarshal(pl, &got) == nil {
						gj, _ := json.Marshal(got)
						for i, v := range vals {
							vj, _ := json.Marshal(v)
							if !seen[i] && string(gj) == string(vj) {
								seen[i], ok = true, true
								break
							}
						}
					}
					if !ok {
						violate(c, w, name, "C19/wire-json-differs/wconc/"+role, fmt.Sprintf("message %d on the wire (%d bytes: %.60q…) is not the JSON of either value written", mi, len(pl), pl))
						return
					}
				}
				c.OutcomeStr(name + "|ok")
			}
		}
	}
}

func c19WriteScenarios(tier string) []scenario {
	var scs []scenario
	p := 1
	if tier == "thorough" {
		p = 2
	}
	for _, k := range []connCfg{{Client: false}, {Client: true}, {Client: false, Flate: true, Thr: 1}, {Client: true, Flate: true, Thr: 1, CNCT: true, SNCT: true}} {
		scs = append(scs, scenario{Name: "wconc-json/" + k.String(), Cfg: explore.Config{P: p, Horizon: 60e9}, Setup: c19WriteSetup(k)})
		if k.Flate {
			scs = append(scs, scenario{Name: "wconc-json3/" + k.String(), Cfg: explore.Config{P: p, Horizon: 60e9}, Setup: c19WriteSetupN(k, 3)})
		}
	}
	return scs
}

func init() {
	fw.Register(fw.Part{Prop: "C19", Name: "s.writers",
		Units:  func(tier string) []fw.Unit { return scenarioUnits(c19WriteScenarios(tier)) },
		Replay: replayFn(c19WriteScenarios),
	})
}

// C19, a fresh connection whose peer's first message is nothing but references to
// data the peer never sent on this connection (a corrupt stream): wsjson.Read fails;
// it never hands out a value that an earlier, closed connection had read.
func c19ProbeSetup(k connCfg) func(c *fw.Ctx, name string) explore.Setup {
	return func(c *fw.Ctx, name string) explore.Setup {
		return func(w *vs.World) func(bool) {
			doc := []byte(`"` + strings.Repeat("secret-of-connection-X ", 20) + `"`)
			var gotY interface{}
			var errY, errX error
			w.GoHarness("main", true, func() {
				bg := vctx.Background()
				px := vpipe.New()
				def := &deflate.Deflater{NoContextTakeover: k.readerNoTakeover()}
				px.In = peerFrame(k, frame.Frame{Fin: true, Rsv1: true, Opcode: frame.OpText, Payload: def.Message(doc)})
				x := mkConn(px, k)
				var s string
				errX = wsjson.Read(bg, x, &s)
				x.CloseNow()
				// Y's peer: the same document compressed against a preset dictionary equal to it
				var b bytes.Buffer
				fwr, _ := flate.NewWriterDict(&b, flate.BestCompression, doc)
				fwr.Write(doc)
				fwr.Flush()
				py := vpipe.New()
				py.In = peerFrame(k, frame.Frame{Fin: true, Rsv1: true, Opcode: frame.OpText, Payload: bytes.TrimSuffix(b.Bytes(), []byte{0, 0, 0xff, 0xff})})
				y := mkConn(py, k)
				errY = wsjson.Read(bg, y, &gotY)
				y.CloseNow()
			})
			return func(complete bool) {
				if !complete {
					return
				}
				role := k.String()
				if w.Panic != "" {
					violate(c, w, name, "C19/panic/probe/"+role, w.Panic)
					return
				}
				c.OutcomeStr(fmt.Sprintf("%s|x=%v|y=%v", name, errX != nil, errY != nil))
				if errX != nil {
					violate(c, w, name, "C19/decoded-differs/probe/"+role, fmt.Sprintf("connection X could not read its own valid document: %v", errX))
					return
				}
				if errY == nil {
					violate(c, w, name, "C19/invalid-json-accepted/foreign-history/"+role, fmt.Sprintf("connection Y's first message consists of references to bytes its peer never sent; wsjson.Read returned nil and the value %.40q… (what the closed connection X had read)", gotY))
				}
			}
		}
	}
}

func init() {
	fw.Register(fw.Part{Prop: "C19", Name: "s.probe",
		Units: func(tier string) []fw.Unit {
			var scs []scenario
			for _, k := range []connCfg{{Client: false, Flate: true}, {Client: true, Flate: true}} {
				scs = append(scs, scenario{Name: "probe-json/" + k.String(), Cfg: explore.Config{P: 0, Horizon: 60e9}, Setup: c19ProbeSetup(k)})
			}
			return scenarioUnits(scs)
		},
		Replay: replayFn(func(string) []scenario {
			var scs []scenario
			for _, k := range []connCfg{{Client: false, Flate: true}, {Client: true, Flate: true}} {
				scs = append(scs, scenario{Name: "probe-json/" + k.String(), Cfg: explore.Config{P: 0, Horizon: 60e9}, Setup: c19ProbeSetup(k)})
			}
			return scs
		}),
	})
}
