package sched

import (
	"fmt"
	"strings"
	"time"
	"unsafe"

	"nhooyr.io/websocket"
	"verif/engine/explore"
	"verif/engine/vctx"
	"verif/engine/vpipe"
	"verif/engine/vs"
	"verif/engine/vtime"
	"verif/fw"
	"verif/refws/frame"
)

// C20: at the instant Close or CloseNow returns, no goroutine the library
// started for the connection is still alive.

var c20Ops = []string{"write", "read", "closeread", "netconn", "abandonWriter", "abandonReader"}
var c20Enders = []string{"CloseEcho", "CloseNoEcho", "CloseNow", "PeerCloseThenClose", "ProtoErrThenClose", "CtxExpiryThenCloseNow", "TransportFailThenClose", "NetConnClose", "CloseOversizeReason", "CloseUnsendableCode"}

type c20Params struct {
	K     connCfg
	Hist  []string
	Ender string
}

func (p c20Params) name() string {
	h := strings.Join(p.Hist, "+")
	if h == "" {
		h = "none"
	}
	return fmt.Sprintf("%s/%s/%s", h, p.Ender, p.K.String())
}

type c20State struct {
	p     *vpipe.Pipe
	live  []string
	ended bool
	// enderStarted: the history is over (a history may block for ever by itself, e.g. a Write
	// behind an abandoned Writer: that is the application's doing)
	enderStarted bool
	endErr       error
	elapsed      int64
}

func c20Setup(prm c20Params) func(c *fw.Ctx, name string) explore.Setup {
	return func(c *fw.Ctx, name string) explore.Setup {
		return func(w *vs.World) func(bool) {
			st := &c20State{p: vpipe.New()}
			k := prm.K
			w.GoHarness("main", true, func() {
				conn := mkConn(st.p, k)
				bg := vctx.Background()
				closeRead := false
				var nc interface {
					Write([]byte) (int, error)
					Close() error
				}
				for i, op := range prm.Hist {
					switch op {
					case "write":
						conn.Write(bg, websocket.MessageBinary, fill(byte(0xA0+i), 10))
					case "read":
						if closeRead {
							continue
						}
						st.p.Send(peerData(k, frame.OpBinary, true, fill(byte(0xD0+i), 7)))
						conn.Read(bg)
					case "closeread":
						conn.CloseRead(bg)
						closeRead = true
					case "netconn":
						n := websocket.NetConn(bg, conn, websocket.MessageBinary)
						n.Write(fill(0x77, 5))
						nc = n
					case "abandonWriter":
						wr, err := conn.Writer(bg, websocket.MessageText)
						if err == nil {
							wr.Write(fill(0xB0, 3))
						}
					case "pingEnded", "writeEnded", "readEnded", "writerEnded":
						// a call whose context is already over when it is made: it fails (or not) and
						// leaves nothing behind
						ended, cancel := vctx.WithCancel(bg)
						cancel()
						switch op {
						case "pingEnded":
							conn.Ping(ended)
						case "writeEnded":
							conn.Write(ended, websocket.MessageBinary, fill(byte(0xA8+i), 10))
						case "readEnded":
							if !closeRead {
								conn.Read(ended)
							}
						case "writerEnded":
							if wr, err := conn.Writer(ended, websocket.MessageBinary); err == nil {
								wr.Write(fill(0xB8, 3))
								wr.Close()
							}
						}
					case "closereadEnded":
						if !closeRead {
							ended, cancel := vctx.WithCancel(bg)
							cancel()
							conn.CloseRead(ended)
							closeRead = true
						}
					case "pingDupPongs":
						// the peer answers the Ping three times; the Ping's frame goes out only at 1.5 s
						// (the transport is busy) and its context ends at 1 s: the pongs, whose payload
						// the peer predicts, arrive while the Ping is still registered
						st.p.Window = len(st.p.Out) + 1
						pc, cancel := vctx.WithTimeout(bg, time.Second)
						w.GoHarness("ponger", false, func() {
							vtime.Sleep(200 * time.Millisecond)
							for j := 0; j < 3; j++ {
								st.p.Send(peerFrame(k, frame.Frame{Fin: true, Opcode: frame.OpPong, Payload: []byte("1")}))
							}
							vtime.Sleep(1300 * time.Millisecond)
							st.p.SetWindow(0)
						})
						if !closeRead {
							w.GoHarness("reader", false, func() { conn.Read(bg) })
						}
						conn.Ping(pc)
						cancel()
						vtime.Sleep(time.Second)
					case "abandonReader":
						if closeRead {
							continue
						}
						st.p.Send(peerData(k, frame.OpBinary, true, fill(byte(0xE0+i), 20)))
						_, r, err := conn.Reader(bg)
						if err == nil {
							var b [1]byte
							r.Read(b[:])
						}
					}
				}
				// the peer echoes a Close frame when the ender wants it
				if prm.Ender == "CloseEcho" || prm.Ender == "NetConnClose" {
					w.GoHarness("peer", false, func() {
						var cf frame.Frame
						if st.p.WaitOut("close-frame", func(out []byte) bool {
							f, ok := firstClose(out)
							cf = f
							return ok
						}) {
							st.p.Send(peerFrame(k, frame.Frame{Fin: true, Opcode: frame.OpClose, Payload: cf.Payload}))
						}
					})
				}
				t0 := w.Now
				st.enderStarted = true
				switch prm.Ender {
				case "CloseEcho", "CloseNoEcho":
					st.endErr = conn.Close(websocket.StatusNormalClosure, "")
				case "NetConnClose":
					if nc != nil {
						st.endErr = nc.Close()
					} else {
						st.endErr = conn.Close(websocket.StatusNormalClosure, "")
					}
				case "CloseOversizeReason":
					st.endErr = conn.Close(websocket.StatusInternalError, strings.Repeat("r", 124))
				case "CloseUnsendableCode":
					st.endErr = conn.Close(websocket.StatusCode(1006), "")
				case "CloseNow":
					st.endErr = conn.CloseNow()
				case "PeerCloseThenClose":
					st.p.Send(peerClose(k, 1001, "going"))
					if !closeRead {
						conn.Read(bg)
					}
					st.endErr = conn.Close(websocket.StatusNormalClosure, "")
				case "ProtoErrThenClose":
					st.p.Send(peerFrame(k, frame.Frame{Fin: true, Rsv3: true, Opcode: frame.OpBinary, Payload: []byte("x")}))
					if !closeRead {
						conn.Read(bg)
					}
					st.endErr = conn.Close(websocket.StatusProtocolError, "bad")
				case "CtxExpiryThenCloseNow":
					ctx, cancel := vctx.WithTimeout(bg, time.Second)
					if !closeRead {
						conn.Read(ctx)
					} else {
						conn.Write(ctx, websocket.MessageText, []byte("x"))
					}
					cancel()
					st.endErr = conn.CloseNow()
				case "TransportFailThenClose":
					st.p.FailRead(vpipe.ErrTransport)
					if !closeRead {
						conn.Read(bg)
					}
					st.endErr = conn.Close(websocket.StatusNormalClosure, "")
				}
				st.elapsed = w.Now - t0
				st.live = w.LiveLib()
				st.ended = true
			})
			return func(complete bool) {
				if !complete {
					return
				}
				locus := prm.Ender + "/" + prm.K.String()
				if w.Panic != "" {
					violate(c, w, name, "C20/panic/"+locus, w.Panic)
					return
				}
				hk := histKind(prm.Hist)
				c.OutcomeStr(fmt.Sprintf("%s|ended=%v|live=%d|dt=%ds", name, st.ended, len(st.live), st.elapsed/1e9))
				if !st.ended {
					// the final Close/CloseNow has not returned within two virtual minutes (every bound of
					// the library is below 20 s): each such connection keeps its goroutines for ever
					if live := w.LiveLib(); st.enderStarted && len(live) > 0 && (w.Deadlock || w.HorizonHit) {
						violate(c, w, name, "C20/goroutines-accumulate/close-never-returns/"+hk+"/"+locus, fmt.Sprintf("history %v, ender %s: the final Close/CloseNow never returns and these library goroutines stay alive: %v (stuck: %v)", prm.Hist, prm.Ender, live, stuckTasks(w)))
					}
					return
				}
				if len(st.live) > 0 {
					violate(c, w, name, "C20/goroutine-outlives-close/"+hk+"/"+locus, fmt.Sprintf("history %v, ender %s: when the final Close/CloseNow returned (err=%v, %v virtual) these library goroutines were still alive: %v", prm.Hist, prm.Ender, st.endErr, time.Duration(st.elapsed), st.live))
				}
			}
		}
	}
}

// Concurrent family: two Close calls race with a CloseRead that is issued while
// the close handshake is in progress. The peer's Close frame (the only thing
// that can close the connection at virtual time 0) is sent after CloseRead has
// returned, so the CloseRead goroutine exists before the connection closes and
// every returning Close has to have waited for it.
type c20ConcState struct {
	p        *vpipe.Pipe
	live     [2][]string
	ended    [2]bool
	errs     [2]error
	crInTime bool
}

func c20ConcSetup(k connCfg, second string, crFirst bool) func(c *fw.Ctx, name string) explore.Setup {
	return func(c *fw.Ctx, name string) explore.Setup {
		return func(w *vs.World) func(bool) {
			st := &c20ConcState{p: vpipe.New()}
			w.GoHarness("main", true, func() {
				conn := mkConn(st.p, k)
				bg := vctx.Background()
				t0 := w.Now
				closeReader := func() {
					conn.CloseRead(bg)
					st.crInTime = w.Now == t0 && !st.p.Closed
					var cf frame.Frame
					if st.p.WaitOut("close-frame", func(out []byte) bool {
						f, ok := firstClose(out)
						cf = f
						return ok
					}) {
						st.p.Send(peerFrame(k, frame.Frame{Fin: true, Opcode: frame.OpClose, Payload: cf.Payload}))
					}
				}
				if crFirst {
					w.GoHarness("closereader", false, closeReader)
				}
				for i := 0; i < 2; i++ {
					i := i
					w.GoHarness(fmt.Sprintf("closer%d", i), true, func() {
						if i == 1 && second == "CloseNow" {
							st.errs[i] = conn.CloseNow()
						} else {
							st.errs[i] = conn.Close(websocket.StatusNormalClosure, "")
						}
						st.live[i] = w.LiveLib()
						st.ended[i] = true
					})
				}
				if !crFirst {
					w.GoHarness("closereader", false, closeReader)
				}
			})
			return func(complete bool) {
				if !complete {
					return
				}
				locus := "conc-closeread/Close+" + second + "/" + k.String()
				if w.Panic != "" {
					violate(c, w, name, "C20/panic/"+locus, w.Panic)
					return
				}
				c.OutcomeStr(fmt.Sprintf("%s|ended=%v|live=%d,%d|intime=%v|e0=%v|e1=%v", name, st.ended, len(st.live[0]), len(st.live[1]), st.crInTime, st.errs[0] != nil, st.errs[1] != nil))
				if !st.crInTime {
					// CloseRead raced with the closing of the connection: its goroutine may
					// legitimately be younger than a Close that has already sampled
					return
				}
				for i := 0; i < 2; i++ {
					if st.ended[i] && len(st.live[i]) > 0 {
						violate(c, w, name, "C20/goroutine-outlives-close/"+locus, fmt.Sprintf("closer %d returned (err=%v) while these library goroutines were still alive: %v (CloseRead had returned before the connection was closed)", i, st.errs[i], st.live[i]))
						return
					}
				}
			}
		}
	}
}

// More concurrent histories around CloseRead:
//
//	two-closeread: two overlapping CloseRead calls, then an unexpected data
//	  message from a peer that does not read (the CloseRead goroutine is stuck
//	  writing its policy-violation Close frame), then CloseNow.
//	slow-handshake: CloseRead, an unexpected data message, the Close frame of the
//	  resulting handshake takes 3 s to get out and the peer never answers (the
//	  handshake lasts 8 s); the application calls Close meanwhile.
//
// Both CloseRead calls have returned before anything can close the connection,
// so whenever Close/CloseNow returns, no library goroutine may be left.
func c20CRSetup(k connCfg, variant string) func(c *fw.Ctx, name string) explore.Setup {
	return func(c *fw.Ctx, name string) explore.Setup {
		return func(w *vs.World) func(bool) {
			p := vpipe.New()
			p.Window = 1
			if variant == "transport-close-fails" {
				p.Window = 0
				p.CloseErr = vpipe.ErrTransport // e.g. TLS: close_notify could not be written
			}
			if variant == "transport-close-lingers" {
				p.Window = 0
				p.CloseDelay = 17 * time.Second
			}
			var live []string
			var ended bool
			var endErr error
			var elapsed int64
			ncr := 0
			var gate struct{ x int }
			w.GoHarness("main", true, func() {
				conn := mkConn(p, k)
				bg := vctx.Background()
				if variant == "writer-closed-twice" {
					// earlier in the connection's life: a message writer that is closed twice (the
					// second Close reports an error; a deferred Close after an explicit one)
					p.Window = 0
					if wr, err := conn.Writer(bg, websocket.MessageText); err == nil {
						wr.Write([]byte("hello"))
						wr.Close()
						wr.Close()
					}
				}
				t0 := w.Now
				crs := 1
				if variant == "two-closeread" {
					crs = 2
				}
				for i := 0; i < crs; i++ {
					w.GoHarness(fmt.Sprintf("closeread%d", i), true, func() {
						conn.CloseRead(bg)
						vs.BlockOn(unsafe.Pointer(&gate), "closeread-returned", nil, func() { ncr++ })
					})
				}
				w.GoHarness("peer", false, func() {
					vs.BlockOn(unsafe.Pointer(&gate), "wait-closereads", func() bool { return ncr == crs }, func() {})
					if variant == "transport-close-fails" || variant == "transport-close-lingers" {
						return
					}
					if variant == "unfinished-message" {
						// the unexpected message is only begun: a non-final fragment, then silence
						p.SetWindow(0)
						p.Send(peerData(k, frame.OpBinary, false, fill(0xEE, 3)))
						return
					}
					p.Send(peerData(k, frame.OpBinary, true, fill(0xEE, 3)))
					if variant == "ping-then-header" {
						// the handshake's Close frame gets out; the peer sends a complete Ping and the
						// first three bytes of the header of a 300-byte frame, then nothing
						p.SetWindow(0)
						p.WaitOut("close-frame", func(out []byte) bool { _, ok := firstClose(out); return ok })
						fr := peerData(k, frame.OpBinary, true, fill(0xEF, 300))
						p.Send(append(frame.Ctl(frame.OpPing, !k.Client, []byte("x")).Encode(nil), fr[:3]...))
					}
					if variant == "slow-handshake" {
						vtime.Sleep(3 * time.Second)
						p.SetWindow(0)
					}
					if variant == "streaming-peer" {
						// the handshake's Close frame gets out; the peer never sends its own and keeps
						// streaming: one small frame every 4 s for 24 s
						p.SetWindow(0)
						for i := 0; i < 6; i++ {
							vtime.Sleep(4 * time.Second)
							p.Send(peerData(k, frame.OpBinary, true, fill(0xE1, 5)))
						}
					}
					if variant == "writer-closed-twice" {
						// the peer answers the policy-violation Close frame
						var cf frame.Frame
						if p.WaitOut("close-frame", func(out []byte) bool {
							f, ok := firstClose(out)
							cf = f
							return ok
						}) {
							p.Send(peerFrame(k, frame.Frame{Fin: true, Opcode: frame.OpClose, Payload: cf.Payload}))
						}
					}
					if variant == "stall-in-discard" {
						// the handshake's Close frame gets out; the peer answers with the
						// beginning of a data frame and goes silent inside its payload
						p.SetWindow(0)
						p.WaitOut("close-frame", func(out []byte) bool { _, ok := firstClose(out); return ok })
						fr := peerData(k, frame.OpBinary, true, fill(0xEF, 10))
						p.Send(fr[:len(fr)-7])
					}
				})
				if variant == "transport-close-lingers" {
					// a Ping whose context expires while it is being written makes the timeout
					// watcher close the connection; the transport's Close then lingers for 17 s
					w.GoHarness("expiring-call", false, func() {
						vs.BlockOn(unsafe.Pointer(&gate), "wait-closereads", func() bool { return ncr == crs }, func() {})
						p.SetWindow(1)
						ctx, cancel := vctx.WithTimeout(bg, 50*time.Millisecond)
						defer cancel()
						conn.Ping(ctx)
					})
				}
				w.GoHarness("closer", true, func() {
					vs.BlockOn(unsafe.Pointer(&gate), "wait-closereads", func() bool { return ncr == crs }, func() {})
					if variant == "transport-close-lingers" {
						vtime.Sleep(time.Second) // the connection is being closed by the library by now
					}
					if variant == "slow-handshake" || variant == "stall-in-discard" || variant == "unfinished-message" || variant == "ping-then-header" || variant == "streaming-peer" || variant == "writer-closed-twice" || variant == "stuck-closeframe" {
						// let the CloseRead goroutine start its close handshake first
						p.WaitOut("close-begun", func(out []byte) bool { return len(out) > 0 })
						endErr = conn.Close(websocket.StatusNormalClosure, "")
					} else {
						endErr = conn.CloseNow()
					}
					elapsed = w.Now - t0
					live = w.LiveLib()
					ended = true
				})
			})
			return func(complete bool) {
				if !complete {
					return
				}
				locus := variant + "/" + k.String()
				if w.Panic != "" {
					violate(c, w, name, "C20/panic/"+locus, w.Panic)
					return
				}
				c.OutcomeStr(fmt.Sprintf("%s|ended=%v|live=%d|dt=%ds|err=%v", name, ended, len(live), elapsed/1e9, endErr != nil))
				if ended && len(live) > 0 {
					violate(c, w, name, "C20/goroutine-outlives-close/"+locus, fmt.Sprintf("the closing call returned (err=%v, %v virtual) while these library goroutines were still alive: %v", endErr, time.Duration(elapsed), live))
				}
			}
		}
	}
}

// histKind abstracts a history to the features that matter for goroutines.
func histKind(h []string) string {
	var k []string
	has := func(x string) bool {
		for _, s := range h {
			if s == x {
				return true
			}
		}
		return false
	}
	for _, x := range []string{"closeread", "netconn", "abandonReader", "abandonWriter"} {
		if has(x) {
			k = append(k, x)
		}
	}
	if len(k) == 0 {
		return "plain"
	}
	return strings.Join(k, "+")
}

func c20Scenarios(tier string) []scenario {
	var scs []scenario
	cfg := explore.Config{P: 1, T: 0, E: 0, Horizon: 120e9}
	depth := 2
	if tier == "thorough" {
		cfg.P = 2
		depth = 3
	}
	var hists [][]string
	var gen func(cur []string)
	gen = func(cur []string) {
		hists = append(hists, append([]string(nil), cur...))
		if len(cur) == depth {
			return
		}
		for _, op := range c20Ops {
			gen(append(cur, op))
		}
	}
	gen(nil)
	// calls made with a context that is already over, and a Ping answered three times while it is
	// stuck in the transport: alone, after and before CloseRead, followed by a write
	for _, x := range []string{"pingEnded", "writeEnded", "readEnded", "writerEnded", "closereadEnded", "pingDupPongs"} {
		hists = append(hists, []string{x}, []string{"closeread", x}, []string{x, "closeread"}, []string{x, "write"}, []string{x, x})
	}
	for _, k := range []connCfg{{Client: false}, {Client: true}} {
		for _, e := range c20Enders {
			for hi, h := range hists {
				prm := c20Params{K: k, Hist: h, Ender: e}
				g := fmt.Sprintf("%s/%s", e, k.String())
				if tier == "thorough" {
					g = fmt.Sprintf("%s/%s/%d", e, k.String(), hi%4)
				}
				scs = append(scs, scenario{Name: prm.name(), Cfg: cfg, Setup: c20Setup(prm), Group: g})
			}
		}
	}
	for _, k := range []connCfg{{Client: false}, {Client: true}} {
		for _, second := range []string{"Close", "CloseNow"} {
			for _, crFirst := range []bool{false, true} {
				// quick: two graceful Closes at 2 preemptions; thorough adds the CloseNow
				// partner (many more schedules, as it closes the connection at any point)
				// and the other spawn order
				pc := 2
				if tier != "thorough" && (crFirst || second == "CloseNow") {
					continue
				}
				if second == "CloseNow" {
					pc = 1
				}
				n := fmt.Sprintf("conc-closeread/Close+%s/crfirst=%v/%s", second, crFirst, k.String())
				scs = append(scs, scenario{Name: n, Cfg: explore.Config{P: pc, T: 0, E: 0, Horizon: 120e9}, Setup: c20ConcSetup(k, second, crFirst), Shards: 4})
			}
		}
	}
	for _, k := range []connCfg{{Client: false}, {Client: true}} {
		for _, v := range []string{"two-closeread", "slow-handshake", "stall-in-discard", "transport-close-fails", "transport-close-lingers", "unfinished-message", "ping-then-header", "streaming-peer", "writer-closed-twice", "stuck-closeframe"} {
			pv := 2
			if tier == "thorough" {
				pv = 3
			}
			if v == "writer-closed-twice" {
				pv-- // (the echoing peer adds a task; the history itself needs no preemption)
			}
			scs = append(scs, scenario{Name: "cr/" + v + "/" + k.String(), Cfg: explore.Config{P: pv, T: 1, E: 0, Horizon: 120e9}, Setup: c20CRSetup(k, v)})
		}
	}
	return scs
}

func init() {
	fw.Register(fw.Part{Prop: "C20", Name: "s.leak",
		Units:  func(tier string) []fw.Unit { return scenarioUnits(c20Scenarios(tier)) },
		Replay: replayFn(c20Scenarios),
	})
}

// c09RaceScenarios: closers racing the first CloseRead call, under the race
// detector (state that CloseRead publishes for Close's wait must be published
// under the lock Close reads it with).
func c09RaceScenarios(tier string) []scenario {
	var out []scenario
	for _, k := range []connCfg{{Client: false}, {Client: true}} {
		for _, second := range []string{"Close", "CloseNow"} {
			sc := scenario{Name: fmt.Sprintf("race-closeread/Close+%s/%s", second, k.String()), Cfg: explore.Config{P: 0, T: 0, E: 0, Horizon: 120e9}, Setup: c20ConcSetup(k, second, false)}
			if tier == "thorough" {
				sc.Cfg.P = 1
			}
			out = append(out, raceWrap("C09", sc))
		}
	}
	return out
}

func init() {
	fw.Register(fw.Part{Prop: "C09R", Name: "s.race",
		Units:  func(tier string) []fw.Unit { return scenarioUnits(c09RaceScenarios(tier)) },
		Replay: replayFn(c09RaceScenarios),
	})
}
