// Package sched holds the schedx harnesses: closed scenarios of a few tasks on
// one (or a few) real Conn over vpipe, explored exhaustively within deviation
// bounds by engine/explore.
package sched

import (
	"encoding/json"
	"fmt"
	"sort"
	"strings"

	"nhooyr.io/websocket"
	"verif/engine/explore"
	"verif/engine/vpipe"
	"verif/engine/vs"
	"verif/fw"
	"verif/refws/frame"
)

type connCfg struct {
	Client bool `json:"client"`
	Flate  bool `json:"flate"`
	CNCT   bool `json:"cnct,omitempty"`
	SNCT   bool `json:"snct,omitempty"`
	Thr    int  `json:"thr,omitempty"`
}

func (k connCfg) String() string {
	s := "server"
	if k.Client {
		s = "client"
	}
	if k.Flate {
		s += "+flate"
		if k.CNCT {
			s += "+cnct"
		}
		if k.SNCT {
			s += "+snct"
		}
	}
	return s
}

// writerNoTakeover: does the connection's compressor reset after each message?
func (k connCfg) writerNoTakeover() bool {
	if k.Client {
		return k.CNCT
	}
	return k.SNCT
}

// readerNoTakeover: does the peer's compressor reset after each message?
func (k connCfg) readerNoTakeover() bool {
	if k.Client {
		return k.SNCT
	}
	return k.CNCT
}

func mkConn(p *vpipe.Pipe, k connCfg) *websocket.Conn {
	var comp *websocket.VerifCompression
	if k.Flate {
		comp = &websocket.VerifCompression{ClientNoContextTakeover: k.CNCT, ServerNoContextTakeover: k.SNCT}
	}
	return websocket.VerifNewConn(p, k.Client, comp, k.Thr)
}

func init() {
	// every execution starts with cold package-level state in the library
	vs.RegisterReset(websocket.VerifResetGlobals)
}

func fill(tag byte, n int) []byte {
	b := make([]byte, n)
	for i := range b {
		b[i] = tag
	}
	return b
}

// scenario is one harness instance explored as one unit.
type scenario struct {
	Name  string
	Cfg   explore.Config
	Setup func(c *fw.Ctx, name string) explore.Setup
	// Shards > 1 splits the exploration into subtree shards (separate units).
	Shards int
	// Group: scenarios of one group run in one unit.
	Group string
}

func tierCfg(tier string, quick, thorough explore.Config) explore.Config {
	if tier == "thorough" {
		return thorough
	}
	return quick
}

func boundStr(cfg explore.Config) string {
	f := func(n int) string {
		if n < 0 {
			return "inf"
		}
		return fmt.Sprint(n)
	}
	return "P<=" + f(cfg.P) + ",T<=" + f(cfg.T) + ",E<=" + f(cfg.E)
}

// guard wraps a scenario's setup: an execution that ran into the scheduler's
// step limit is reported as non-termination of the library (the harness bodies
// are finite programs) instead of being handed to the scenario's oracle.
func guard(c *fw.Ctx, name string, s explore.Setup) explore.Setup {
	return func(w *vs.World) func(bool) {
		after := s(w)
		return func(complete bool) {
			if w.StepLimit {
				prop := strings.TrimSuffix(c.Property, "R")
				violate(c, w, name, prop+"/no-termination/step-limit", fmt.Sprintf("the execution did not end within %d scheduling steps: library code keeps looping through synchronisation or transport operations; still running: %v", w.MaxSteps, stuckTasks(w)))
				return
			}
			after(complete)
		}
	}
}

func scenarioUnits(scs []scenario) []fw.Unit {
	var us []fw.Unit
	// grouped scenarios: one unit explores all scenarios of a group
	groups := map[string][]scenario{}
	var order []string
	var single []scenario
	for _, sc := range scs {
		if sc.Group == "" {
			single = append(single, sc)
			continue
		}
		if _, ok := groups[sc.Group]; !ok {
			order = append(order, sc.Group)
		}
		groups[sc.Group] = append(groups[sc.Group], sc)
	}
	for _, g := range order {
		g := g
		list := groups[g]
		us = append(us, fw.Unit{ID: "group:" + g, Run: func(c *fw.Ctx) {
			var tot explore.Stats
			exh := true
			for _, sc := range list {
				st := explore.Explore(c, sc.Cfg, guard(c, sc.Name, sc.Setup(c, sc.Name)))
				tot.Execs += st.Execs
				tot.Complete += st.Complete
				tot.Pruned += st.Pruned
				tot.States += st.States
				tot.Deadlocks += st.Deadlocks
				if st.MaxPoints > tot.MaxPoints {
					tot.MaxPoints = st.MaxPoints
				}
				exh = exh && st.Exhaustive
				if !st.Exhaustive {
					break
				}
			}
			c.Bound("group:"+g, map[string]interface{}{"scenarios": len(list), "bounds": boundStr(list[0].Cfg), "executions": tot.Execs, "complete": tot.Complete, "pruned": tot.Pruned, "states": tot.States, "max_points": tot.MaxPoints, "deadlocks": tot.Deadlocks, "exhaustive_within_bounds": exh})
			if c.WantSample() {
				c.Sample(map[string]interface{}{"group": g, "first_scenario": list[0].Name, "last_scenario": list[len(list)-1].Name, "scenarios": len(list), "bounds": boundStr(list[0].Cfg), "executions": tot.Execs})
			}
		}})
	}
	for _, sc := range single {
		sc := sc
		n := sc.Shards
		if n < 1 {
			n = 1
		}
		for sh := 0; sh < n; sh++ {
			sh := sh
			id := sc.Name
			if n > 1 {
				id = fmt.Sprintf("%s#%d/%d", sc.Name, sh, n)
			}
			us = append(us, fw.Unit{ID: id, Run: func(c *fw.Ctx) {
				cfg := sc.Cfg
				cfg.Shard, cfg.NShards = sh, n
				st := explore.Explore(c, cfg, guard(c, sc.Name, sc.Setup(c, sc.Name)))
				c.Bound(sc.Name, map[string]interface{}{"bounds": boundStr(cfg), "executions": st.Execs, "complete": st.Complete, "pruned": st.Pruned, "states": st.States, "max_points": st.MaxPoints, "deadlocks": st.Deadlocks, "exhaustive_within_bounds": st.Exhaustive})
				if c.WantSample() {
					c.Sample(map[string]interface{}{"scenario": sc.Name, "bounds": boundStr(cfg), "executions": st.Execs, "max_scheduling_points": st.MaxPoints})
				}
			}})
		}
	}
	return us
}

type schedReplay struct {
	Scenario string   `json:"scenario"`
	Choices  []int32  `json:"choices"`
	Sigs     []uint32 `json:"sigs"`
}

func violate(c *fw.Ctx, w *vs.World, name, class, detail string) {
	rd := schedReplay{Scenario: name, Choices: w.Choices()}
	for _, p := range w.Points {
		rd.Sigs = append(rd.Sigs, p.Sig)
	}
	c.Violate(class, fmt.Sprintf("scenario %s, schedule of %d points (preemptive choices: %s)\n%s", name, len(w.Points), nonZero(rd.Choices), detail), rd)
}

func nonZero(ch []int32) string {
	var parts []string
	for i, v := range ch {
		if v != 0 {
			parts = append(parts, fmt.Sprintf("%d:%d", i, v))
		}
	}
	if len(parts) > 40 {
		parts = append(parts[:40], "…")
	}
	return strings.Join(parts, " ")
}

// replayFn builds the Replay function of a part from its scenario lists.
func replayFn(scsOf func(tier string) []scenario) func(c *fw.Ctx, data json.RawMessage) {
	return func(c *fw.Ctx, data json.RawMessage) {
		var rd schedReplay
		if err := json.Unmarshal(data, &rd); err != nil {
			c.EngineError("bad replay data: " + err.Error())
			return
		}
		for _, tier := range []string{"quick", "thorough"} {
			for _, sc := range scsOf(tier) {
				if sc.Name != rd.Scenario {
					continue
				}
				w := explore.RunOne(sc.Cfg, rd.Choices, rd.Sigs, true, guard(c, sc.Name, sc.Setup(c, sc.Name)))
				if w.Diverged != "" {
					c.EngineError("replay diverged: " + w.Diverged)
				}
				fmt.Println("--- schedule log ---")
				for _, l := range w.Log {
					fmt.Println(l)
				}
				return
			}
		}
		c.EngineError("unknown scenario " + rd.Scenario)
	}
}

func sortedKeys(m map[string]int) []string {
	var ks []string
	for k := range m {
		ks = append(ks, k)
	}
	sort.Strings(ks)
	return ks
}

func errStr(err error) string {
	if err == nil {
		return "nil"
	}
	return err.Error()
}

// ---- peer-side helpers (harness tasks)

// connFrames parses what the connection has written so far.
func connFrames(out []byte) []frame.Frame {
	fs, _ := frame.ParseAll(out)
	return fs
}

// hasOp reports whether out contains a complete frame with the opcode.
func hasOp(out []byte, op byte) bool {
	for _, f := range connFrames(out) {
		if f.Opcode == op {
			return true
		}
	}
	return false
}

// firstClose returns the first Close frame the connection wrote.
func firstClose(out []byte) (frame.Frame, bool) {
	for _, f := range connFrames(out) {
		if f.Opcode == frame.OpClose {
			return f, true
		}
	}
	return frame.Frame{}, false
}

// peerFrame encodes a frame the way the peer of a connection with cfg k sends it.
func peerFrame(k connCfg, f frame.Frame) []byte {
	f.Masked = !k.Client
	if f.Masked && f.Key == [4]byte{} {
		f.Key = [4]byte{0x37, 0xfa, 0x21, 0x3d}
	}
	return f.Encode(nil)
}

func peerClose(k connCfg, code int, reason string) []byte {
	var pl []byte
	if code != 1005 {
		pl = frame.ClosePayload(code, reason)
	}
	return peerFrame(k, frame.Frame{Fin: true, Opcode: frame.OpClose, Payload: pl})
}

func peerData(k connCfg, op byte, fin bool, payload []byte) []byte {
	return peerFrame(k, frame.Frame{Fin: fin, Opcode: op, Payload: payload})
}

// closeCodeOf extracts the status code of a Close frame payload (1005 if empty).
func closeCodeOf(f frame.Frame) int {
	if len(f.Payload) < 2 {
		return 1005
	}
	return int(f.Payload[0])<<8 | int(f.Payload[1])
}

func stuckTasks(w *vs.World) []string {
	var stuck []string
	for _, t := range w.Tasks() {
		if t.Required && !t.Done() {
			stuck = append(stuck, t.Name)
		}
	}
	return stuck
}

// reprefixed: the units report their violations under the property they are registered for
// (harness bodies of one property judged for a neighbouring one whose clause they also decide).
func reprefixed(us []fw.Unit) []fw.Unit {
	for i := range us {
		run := us[i].Run
		us[i].Run = func(c *fw.Ctx) {
			c.Reprefix = true
			run(c)
		}
	}
	return us
}

func reprefixedReplay(f func(c *fw.Ctx, data json.RawMessage)) func(c *fw.Ctx, data json.RawMessage) {
	return func(c *fw.Ctx, data json.RawMessage) {
		c.Reprefix = true
		f(c, data)
	}
}

// pickScenarios keeps the scenarios whose name starts with one of the prefixes.
func pickScenarios(of func(tier string) []scenario, prefixes ...string) func(tier string) []scenario {
	return func(tier string) []scenario {
		var out []scenario
		for _, sc := range of(tier) {
			for _, p := range prefixes {
				if strings.HasPrefix(sc.Name, p) {
					out = append(out, sc)
					break
				}
			}
		}
		return out
	}
}
