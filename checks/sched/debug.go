package sched

import (
	"fmt"
	"os"

	"verif/engine/explore"
	"verif/fw"
)

// DebugScenario (env VERIF_DEBUG_SCENARIO=<prop>:<name>) runs the default
// schedule of one scenario several times with tracing and prints the first
// difference between the runs. Development aid for determinism problems.
func init() {
	spec := os.Getenv("VERIF_DEBUG_SCENARIO")
	if spec == "" {
		return
	}
	lists := map[string]func(string) []scenario{"C05": c05Scenarios, "C06": c06Scenarios, "C09": c09Scenarios, "C10": c10Scenarios, "C16": c16Scenarios, "C20": c20Scenarios}
	fw.DebugHook = func() {
		var prop, name string
		for i := 0; i < len(spec); i++ {
			if spec[i] == ':' {
				prop, name = spec[:i], spec[i+1:]
			}
		}
		for _, sc := range lists[prop]("quick") {
			if sc.Name != name {
				continue
			}
			var logs [][]string
			for i := 0; i < 3; i++ {
				c := fw.NewDebugCtx(prop)
				w := explore.RunOne(sc.Cfg, nil, nil, true, sc.Setup(c, sc.Name))
				logs = append(logs, w.Log)
				fmt.Printf("run %d: %d points, %d log lines, diverged=%q deadlock=%v\n", i, len(w.Points), len(w.Log), w.Diverged, w.Deadlock)
			}
			if os.Getenv("VERIF_DEBUG_LOG") != "" {
				for _, l := range logs[0] {
					fmt.Println("   ", l)
				}
			}
			for i := 0; i < len(logs[0]) || i < len(logs[1]) || i < len(logs[2]); i++ {
				get := func(l []string) string {
					if i < len(l) {
						return l[i]
					}
					return "<end>"
				}
				a, b, c := get(logs[0]), get(logs[1]), get(logs[2])
				if a != b || b != c {
					fmt.Printf("first difference at line %d:\n  run0: %s\n  run1: %s\n  run2: %s\n", i, a, b, c)
					for j := i - 8; j < i; j++ {
						if j >= 0 {
							fmt.Println("   ctx:", logs[1][j])
						}
					}
					return
				}
			}
			fmt.Println("no difference")
			return
		}
		fmt.Println("scenario not found")
	}
}
