package sched

import (
	"bytes"
	"fmt"
	"io"
	"net"

	"nhooyr.io/websocket"
	"nhooyr.io/websocket/wsjson"

	"verif/engine/explore"
	"verif/engine/vctx"
	"verif/engine/vpipe"
	"verif/engine/vs"
	"verif/fw"
)

// The usual idiom, two real endpoints: every call gets a context of its own that is
// cancelled as soon as the call has returned (ctx, cancel := ...; defer cancel()).
// Endpoint A writes a short sequence of messages whose framings differ (single frame,
// streamed, empty, compressed: those end with an empty final frame), endpoint B reads
// them, a relay task per direction carries the bytes. After everything has settled a
// last message makes the round trip. Registered under C01 (raw API: the received list
// equals the sent list) and C19 (wsjson: each value arrives as its JSON equivalent).

type idiomMsg struct {
	Text   bool
	Stream bool
	Chunks []int
}

type idiomParams struct {
	Prop string
	API  string  // "raw" | "wsjson"
	K    connCfg // endpoint A (the writer); B has the other role
	Msgs []idiomMsg
	// Duplex: B writes the same message sequence back to A at the same time (two more tasks)
	Duplex bool
	// Split > 0: the relays deliver every transport write in two pieces, the first of Split
	// bytes (a frame header then arrives in two transport reads)
	Split int
}

func idiomSetup(prm idiomParams) func(c *fw.Ctx, name string) explore.Setup {
	return func(c *fw.Ctx, name string) explore.Setup {
		return func(w *vs.World) func(bool) {
			pa, pb := vpipe.New(), vpipe.New()
			kb := prm.K
			kb.Client = !kb.Client
			type got struct {
				text bool
				b    []byte
				v    interface{}
			}
			var sent, recv, back []got
			nsent := 0
			var werr, rerr error
			wdone, rdone := false, false
			closedEarly := ""
			w.GoHarness("main", true, func() {
				a, b := mkConn(pa, prm.K), mkConn(pb, kb)
				bg := vctx.Background()
				relay := func(name string, from, to *vpipe.Pipe) {
					w.GoHarness(name, false, func() {
						n := 0
						for {
							var chunk []byte
							if !from.WaitOut("new-bytes", func(out []byte) bool { return len(out) > n }) {
								return
							}
							vs.BlockOn(from.WObj(), "relay.take", nil, func() { chunk = append([]byte(nil), from.Out[n:]...); n = len(from.Out) })
							if prm.Split > 0 && len(chunk) > prm.Split {
								to.Send(chunk[:prm.Split])
								to.WaitDrained()
								chunk = chunk[prm.Split:]
							}
							to.Send(chunk)
						}
					})
				}
				relay("relay-ab", pa, pb)
				relay("relay-ba", pb, pa)
				msgs := append([]idiomMsg(nil), prm.Msgs...)
				for i, m := range msgs {
					n := 0
					for _, ch := range m.Chunks {
						n += ch
					}
					g := got{text: m.Text, b: fill(byte(0x61+i), n)}
					if prm.API == "wsjson" {
						g = got{text: true, v: map[string]interface{}{"i": float64(i), "s": string(fill(byte(0x61+i), n))}}
					}
					sent = append(sent, g)
				}
				probe := got{text: prm.API != "netconn", b: []byte("probe")}
				if prm.API == "wsjson" {
					probe = got{text: true, v: "probe"}
				}
				var recvBack []got
				var werrBack, rerrBack error
				wdoneBack, rdoneBack := !prm.Duplex, !prm.Duplex
				// API netconn: both endpoints are used through the net.Conn adapter (binary
				// messages; the reader asks for exactly the bytes of the next message)
				probing := false
				ncs := map[*websocket.Conn]net.Conn{}
				if prm.API == "netconn" {
					ncs[a] = websocket.NetConn(bg, a, websocket.MessageBinary)
					ncs[b] = websocket.NetConn(bg, b, websocket.MessageBinary)
				}
				writeOneOn := func(a *websocket.Conn, i int, g got, m idiomMsg) error {
					ctx, cancel := vctx.WithCancel(bg)
					defer cancel()
					if prm.API == "netconn" {
						_, err := ncs[a].Write(g.b)
						return err
					}
					if prm.API == "wsjson" {
						return wsjson.Write(ctx, a, g.v)
					}
					typ := websocket.MessageBinary
					if g.text {
						typ = websocket.MessageText
					}
					if !m.Stream {
						return a.Write(ctx, typ, g.b)
					}
					wr, err := a.Writer(ctx, typ)
					if err != nil {
						return err
					}
					off := 0
					for _, ch := range m.Chunks {
						if _, err := wr.Write(g.b[off : off+ch]); err != nil {
							return err
						}
						off += ch
					}
					return wr.Close()
				}
				writeOne := func(i int, g got, m idiomMsg) error { return writeOneOn(a, i, g, m) }
				readOneOn := func(b *websocket.Conn, i int) (got, error) {
					ctx, cancel := vctx.WithCancel(bg)
					defer cancel()
					if prm.API == "netconn" {
						want := len(probe.b)
						if !probing {
							want = 0
							for _, ch := range msgs[i].Chunks {
								want += ch
							}
						}
						buf := make([]byte, want)
						_, err := io.ReadFull(ncs[b], buf)
						return got{b: buf}, err
					}
					if prm.API == "wsjson" {
						var v interface{}
						err := wsjson.Read(ctx, b, &v)
						return got{text: true, v: v}, err
					}
					if i%2 == 0 {
						typ, p, err := b.Read(ctx)
						return got{text: typ == websocket.MessageText, b: p}, err
					}
					typ, r, err := b.Reader(ctx)
					if err != nil {
						return got{}, err
					}
					p, err := io.ReadAll(r)
					return got{text: typ == websocket.MessageText, b: p}, err
				}
				readOne := func(i int) (got, error) { return readOneOn(b, i) }
				if prm.Duplex {
					w.GoHarness("writer-back", true, func() {
						for i, g := range sent {
							if werrBack = writeOneOn(b, i, g, msgs[i]); werrBack != nil {
								break
							}
						}
						wdoneBack = true
					})
					w.GoHarness("reader-back", true, func() {
						for i := range sent {
							g, err := readOneOn(a, i)
							if err != nil {
								rerrBack = err
								break
							}
							recvBack = append(recvBack, g)
						}
						rdoneBack = true
					})
				}
				w.GoHarness("writer", true, func() {
					for i, g := range sent {
						if werr = writeOne(i, g, msgs[i]); werr != nil {
							break
						}
					}
					wdone = true
				})
				w.GoHarness("reader", true, func() {
					for i := range sent {
						g, err := readOne(i)
						if err != nil {
							rerr = err
							break
						}
						recv = append(recv, g)
					}
					rdone = true
				})
				vs.BlockOn(pa.RObj(), "wait-both", func() bool { return wdone && rdone && wdoneBack && rdoneBack }, func() {})
				if prm.Duplex {
					nsent = len(sent)
					back = recvBack
					if werr == nil {
						werr = werrBack
					}
					if rerr == nil {
						rerr = rerrBack
					}
				}
				if werr != nil || rerr != nil {
					return
				}
				vs.Quiesce()
				if pa.Closed || pb.Closed {
					closedEarly = fmt.Sprintf("after every call had returned nil and its context had been released, a transport was closed (writer side closed=%v, reader side closed=%v)", pa.Closed, pb.Closed)
					return
				}
				sent = append(sent, probe)
				probing = true
				if werr = writeOne(len(sent)-1, probe, idiomMsg{Text: true, Chunks: []int{5}}); werr != nil {
					return
				}
				g, err := readOne(0)
				if err != nil {
					rerr = err
					return
				}
				recv = append(recv, g)
			})
			return func(complete bool) {
				if !complete {
					return
				}
				role := prm.K.String()
				pp := prm.Prop
				if w.Panic != "" {
					violate(c, w, name, pp+"/panic/idiom/"+role, w.Panic)
					return
				}
				if w.Deadlock || w.HorizonHit {
					violate(c, w, name, pp+"/no-termination/idiom/"+role, fmt.Sprintf("tasks %v never return (every call has a live context of its own until it returns)", stuckTasks(w)))
					return
				}
				if closedEarly != "" {
					violate(c, w, name, pp+"/connection-closed-after-success/idiom/"+role, closedEarly)
					return
				}
				if werr != nil {
					violate(c, w, name, pp+"/write-fails/idiom/"+role, fmt.Sprintf("message %d: the write failed with %v although its own context was alive, the peer was reading and every earlier call had succeeded (contexts of finished calls are cancelled right after they return)", len(recv), werr))
					return
				}
				if rerr != nil {
					violate(c, w, name, pp+"/read-fails/idiom/"+role, fmt.Sprintf("message %d: the read failed with %v although its own context was alive and the peer wrote the message (contexts of finished calls are cancelled right after they return)", len(recv), rerr))
					return
				}
				if len(recv) != len(sent) {
					violate(c, w, name, pp+"/message-lost/idiom/"+role, fmt.Sprintf("%d messages sent, %d received", len(sent), len(recv)))
					return
				}
				if prm.Duplex && len(back) != nsent {
					violate(c, w, name, pp+"/message-lost/idiom/"+role, fmt.Sprintf("reverse direction: %d messages sent, %d received", nsent, len(back)))
					return
				}
				for i := range back {
					if prm.API != "wsjson" && (sent[i].text != back[i].text || !bytes.Equal(sent[i].b, back[i].b)) {
						violate(c, w, name, pp+"/message-differs/idiom/"+role, fmt.Sprintf("reverse direction, message %d: sent (text=%v, %d bytes), received (text=%v, %d bytes, first difference at %d)", i, sent[i].text, len(sent[i].b), back[i].text, len(back[i].b), firstDiff(sent[i].b, back[i].b)))
						return
					}
				}
				for i := range sent {
					if prm.API == "wsjson" {
						if fmt.Sprintf("%#v", sent[i].v) != fmt.Sprintf("%#v", recv[i].v) {
							violate(c, w, name, pp+"/value-differs/idiom/"+role, fmt.Sprintf("value %d: sent %.80v, received %.80v", i, sent[i].v, recv[i].v))
							return
						}
						continue
					}
					if sent[i].text != recv[i].text || !bytes.Equal(sent[i].b, recv[i].b) {
						violate(c, w, name, pp+"/message-differs/idiom/"+role, fmt.Sprintf("message %d: sent (text=%v, %d bytes), received (text=%v, %d bytes, first difference at %d)", i, sent[i].text, len(sent[i].b), recv[i].text, len(recv[i].b), firstDiff(sent[i].b, recv[i].b)))
						return
					}
				}
				c.OutcomeStr(name + "|ok")
			}
		}
	}
}

func idiomScenarios(prop, api string) func(tier string) []scenario {
	return func(tier string) []scenario {
		var scs []scenario
		p := 1
		if tier == "thorough" {
			p = 2
		}
		progs := map[string][]idiomMsg{
			"mixed":  {{Chunks: []int{300}}, {Text: true, Stream: true, Chunks: []int{5, 300}}, {Text: true, Chunks: []int{0}}, {Chunks: []int{20}}},
			"stream": {{Stream: true, Chunks: []int{4}}, {Stream: true, Text: true, Chunks: []int{}}, {Chunks: []int{7}}},
		}
		if api == "netconn" {
			progs = map[string][]idiomMsg{"stream": {{Chunks: []int{300}}, {Chunks: []int{3}}, {Chunks: []int{40}}}}
		}
		if api == "wsjson" {
			progs = map[string][]idiomMsg{"values": {{Chunks: []int{300}}, {Chunks: []int{3}}, {Chunks: []int{40}}}}
		}
		for _, pn := range []string{"mixed", "stream", "values"} {
			prog, ok := progs[pn]
			if !ok {
				continue
			}
			for _, k := range []connCfg{{Client: true}, {Client: false}, {Client: true, Flate: true, Thr: 1}, {Client: false, Flate: true, Thr: 64, CNCT: true, SNCT: true}} {
				prm := idiomParams{Prop: prop, API: api, K: k, Msgs: prog}
				scs = append(scs, scenario{Name: "idiom/" + pn + "/" + k.String(), Cfg: explore.Config{P: p, Horizon: 60e9}, Setup: idiomSetup(prm)})
			}
		}
		if api == "raw" || api == "netconn" {
			// both directions at once, every transport write delivered in two pieces (the frame
			// header arrives in two transport reads while the endpoint's own writer runs)
			for _, k := range []connCfg{{Client: true}, {Client: false, Flate: true, Thr: 512}} {
				for _, split := range []int{3} {
					prm := idiomParams{Prop: prop, API: api, K: k, Duplex: true, Split: split, Msgs: []idiomMsg{{Chunks: []int{300}}}}
					scs = append(scs, scenario{Name: fmt.Sprintf("idiom/duplex-split%d/%s", split, k.String()), Cfg: explore.Config{P: 1, Horizon: 60e9}, Setup: idiomSetup(prm)}) // (both tiers: 19 k executions at one preemption)
				}
			}
		}
		return scs
	}
}

func init() {
	for _, e := range []struct{ prop, api string }{{"C01", "raw"}, {"C19", "wsjson"}, {"C18", "netconn"}} {
		scs := idiomScenarios(e.prop, e.api)
		fw.Register(fw.Part{Prop: e.prop, Name: "s.idiom",
			Units:  func(tier string) []fw.Unit { return scenarioUnits(scs(tier)) },
			Replay: replayFn(scs),
		})
	}
}
