package sched

import (
	"fmt"
	"os"
	"strings"

	"verif/engine/explore"
	"verif/engine/vs"
	"verif/fw"
)

// Race mode: the same harness bodies run in a binary built with -race in which
// the shim packages are uninstrumented and the scheduler's hand-offs are
// hidden from the detector, so only the program's own synchronisation orders
// accesses. Reports are read from the GORACE log after every execution and are
// attributed to the schedule that just ran. Only reports whose two stacks are
// both inside nhooyr.io/websocket count.

type raceLog struct {
	path string
	off  int64
}

func newRaceLog() *raceLog {
	base := os.Getenv("VERIF_RACELOG")
	if base == "" || !vs.RaceOn {
		return nil
	}
	return &raceLog{path: fmt.Sprintf("%s.%d", base, os.Getpid())}
}

// fresh returns race reports written since the last call.
func (r *raceLog) fresh() []string {
	fi, err := os.Stat(r.path)
	if err != nil || fi.Size() <= r.off {
		return nil
	}
	f, err := os.Open(r.path)
	if err != nil {
		return nil
	}
	defer f.Close()
	buf := make([]byte, fi.Size()-r.off)
	f.ReadAt(buf, r.off)
	r.off = fi.Size()
	var reps []string
	for _, part := range strings.Split(string(buf), "==================") {
		if strings.Contains(part, "WARNING: DATA RACE") {
			reps = append(reps, part)
		}
	}
	return reps
}

// skip advances past anything written (e.g. during unwinding).
func (r *raceLog) skip() {
	if fi, err := os.Stat(r.path); err == nil {
		r.off = fi.Size()
	}
}

// libraryRace reports whether both access stacks of a report pass through the library.
func libraryRace(rep string) (bool, string) {
	// sections are separated by blank lines; the first two are the two accesses
	secs := strings.Split(strings.TrimSpace(rep), "\n\n")
	n := 0
	sig := ""
	for _, s := range secs {
		t := strings.TrimSpace(s)
		if strings.HasPrefix(t, "WARNING: DATA RACE") {
			t = strings.TrimSpace(strings.TrimPrefix(t, "WARNING: DATA RACE"))
		}
		low := strings.ToLower(t)
		if !(strings.HasPrefix(low, "read at") || strings.HasPrefix(low, "write at") || strings.HasPrefix(low, "previous read at") || strings.HasPrefix(low, "previous write at") || strings.HasPrefix(low, "atomic") || strings.HasPrefix(low, "previous atomic")) {
			continue
		}
		if !strings.Contains(t, "nhooyr.io/websocket") {
			return false, ""
		}
		// signature: first library frame of each access
		for _, ln := range strings.Split(t, "\n") {
			ln = strings.TrimSpace(ln)
			if strings.HasPrefix(ln, "nhooyr.io/websocket") {
				ln = strings.TrimSuffix(ln, "()")
				sig += ln + "|"
				break
			}
		}
		n++
		if n == 2 {
			break
		}
	}
	return n == 2, sig
}

// raceWrap decorates a scenario so that library-vs-library race reports become
// violations of prop attributed to the schedule that produced them.
func raceWrap(prop string, sc scenario) scenario {
	inner := sc.Setup
	sc.Setup = func(c *fw.Ctx, name string) explore.Setup {
		rl := newRaceLog()
		if rl == nil {
			c.EngineError("race mode needs a -race build and VERIF_RACELOG")
		}
		su := inner(c, name)
		return func(w *vs.World) func(bool) {
			if rl != nil {
				rl.skip() // ignore anything reported while the previous execution unwound
			}
			after := su(w)
			return func(complete bool) {
				after(complete)
				if rl == nil {
					return
				}
				for _, rep := range rl.fresh() {
					ok, sig := libraryRace(rep)
					if !ok {
						c.Note("race report with a non-library stack ignored (harness or shim access)")
						continue
					}
					violate(c, w, name, prop+"/data-race/"+sig, "race detector report (both accesses inside the library):\n"+rep)
				}
			}
		}
	}
	return sc
}
