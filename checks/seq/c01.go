package seq

import (
	"bufio"
	"bytes"
	"context"
	"encoding/json"
	"fmt"
	"io"
	"net"
	"net/http"
	"net/url"
	"strconv"
	"strings"
	"sync"
	"time"

	"nhooyr.io/websocket"
	"verif/fw"
)

// C01: round-trip fidelity.
//
// Both endpoints are library Conns. In the "handshake" configurations they come
// out of a real websocket.Dial / websocket.Accept exchange (fake RoundTripper
// feeding the request into Accept with a recording ResponseWriter+Hijacker), so
// the compression parameters are the negotiated ones. Two library endpoints can
// only agree on symmetric parameters; the two asymmetric combinations a foreign
// peer can cause are added as "direct" configurations built with VerifNewConn
// on both sides.
//
// The transport is a pair of unbounded byte queues: Write never blocks, Read
// returns what is queued and io.EOF when nothing is (never waits). One
// goroutine runs "write on A, then read on B", which is a legal schedule
// because queue writes never block.
//
// Parts:
//   single - every single message x chunking x configuration x direction x reader
//   seq    - all sequences of length <= 3 over an 8-message alphabet
//   window - all sequences of length <= 3 over 6 large messages (cumulative size
//            beyond 32 KiB and 64 KiB: inflate-history shift and overflow paths)

// ---------------------------------------------------------------- transport

type c01Queue struct {
	buf []byte
	off int
}

// c01Link is the duplex: q[0] carries client->server bytes, q[1] server->client.
type c01Link struct {
	mu     sync.Mutex
	q      [2]c01Queue
	closed [2]bool
	wrote  [2]int64
}

// c01End is one end of the link (side 0 = client, 1 = server).
type c01End struct {
	l    *c01Link
	side int
}

func (e *c01End) Read(p []byte) (int, error) {
	e.l.mu.Lock()
	defer e.l.mu.Unlock()
	if e.l.closed[e.side] {
		return 0, net.ErrClosed
	}
	q := &e.l.q[1-e.side]
	if q.off >= len(q.buf) {
		return 0, io.EOF // never wait: nothing queued means the schedule is over
	}
	n := copy(p, q.buf[q.off:])
	q.off += n
	if q.off == len(q.buf) {
		q.buf, q.off = q.buf[:0], 0
	}
	return n, nil
}

func (e *c01End) Write(p []byte) (int, error) {
	e.l.mu.Lock()
	defer e.l.mu.Unlock()
	if e.l.closed[e.side] {
		return 0, net.ErrClosed
	}
	q := &e.l.q[e.side]
	q.buf = append(q.buf, p...) // private copy: no aliasing with library or caller buffers
	e.l.wrote[e.side] += int64(len(p))
	return len(p), nil
}

func (e *c01End) Close() error {
	e.l.mu.Lock()
	defer e.l.mu.Unlock()
	e.l.closed[e.side] = true
	return nil
}

// pending returns the bytes written by side and not yet read by the peer.
func (l *c01Link) pending(side int) []byte {
	l.mu.Lock()
	defer l.mu.Unlock()
	q := &l.q[side]
	return q.buf[q.off:]
}

type c01Addr struct{}

func (c01Addr) Network() string { return "queue" }
func (c01Addr) String() string  { return "queue" }

func (e *c01End) LocalAddr() net.Addr                { return c01Addr{} }
func (e *c01End) RemoteAddr() net.Addr               { return c01Addr{} }
func (e *c01End) SetDeadline(t time.Time) error      { return nil }
func (e *c01End) SetReadDeadline(t time.Time) error  { return nil }
func (e *c01End) SetWriteDeadline(t time.Time) error { return nil }

// ---------------------------------------------------------------- handshake

// c01RespWriter records what Accept writes and hands out the server end of the link.
type c01RespWriter struct {
	h      http.Header
	status int
	sent   http.Header
	conn   *c01End
}

func (w *c01RespWriter) Header() http.Header { return w.h }
func (w *c01RespWriter) WriteHeader(code int) {
	if w.status == 0 {
		w.status = code
		w.sent = w.h.Clone()
	}
}
func (w *c01RespWriter) Write(p []byte) (int, error) {
	if w.status == 0 {
		w.WriteHeader(200)
	}
	return len(p), nil
}
func (w *c01RespWriter) Hijack() (net.Conn, *bufio.ReadWriter, error) {
	// net/http hands out 4 KiB bufio buffers
	return w.conn, bufio.NewReadWriter(bufio.NewReaderSize(w.conn, 4096), bufio.NewWriterSize(w.conn, 4096)), nil
}

// c01RT is the RoundTripper: the request Dial sends is handed to Accept, the
// response Accept wrote is what Dial sees, the body is the client end.
type c01RT struct {
	link    *c01Link
	srvOpts websocket.AcceptOptions
	srv     *websocket.Conn
	srvErr  error
	calls   int
}

func (rt *c01RT) RoundTrip(r *http.Request) (*http.Response, error) {
	rt.calls++
	sr := &http.Request{
		Method: r.Method, URL: &url.URL{Path: r.URL.Path}, RequestURI: r.URL.Path,
		Proto: "HTTP/1.1", ProtoMajor: 1, ProtoMinor: 1,
		Header: r.Header.Clone(), Host: r.URL.Host, Body: http.NoBody, RemoteAddr: "192.0.2.1:1234",
	}
	w := &c01RespWriter{h: http.Header{}, conn: &c01End{rt.link, 1}}
	rt.srv, rt.srvErr = websocket.Accept(w, sr, &rt.srvOpts)
	if w.status == 0 {
		w.WriteHeader(200)
	}
	return &http.Response{
		Status:     fmt.Sprintf("%d %s", w.status, http.StatusText(w.status)),
		StatusCode: w.status,
		Proto:      "HTTP/1.1", ProtoMajor: 1, ProtoMinor: 1,
		Header:  w.sent.Clone(),
		Body:    &c01End{rt.link, 0},
		Request: r,
	}, nil
}

// ---------------------------------------------------------------- cases

var c01Modes = []string{"disabled", "context-takeover", "no-context-takeover"}
var c01Thresholds = []int{0, 1, 200, 70000}
var c01Contents = []string{"zeros", "text37", "prng", "longrange", "window-edge"}
var c01Types = []string{"binary", "text"}
var c01Readers = []string{"read", "reader:1", "reader:7", "reader:4096", "reader:32769"}
var c01Dirs = []string{"client-to-server", "server-to-client"}

const c01Text37 = "abcdefghijklmnopqrstuvwxyz0123456789\n" // 37 bytes
const c01SmallReaderMax = 600                              // reader:1 only for messages up to this size
const c01TinyReaderMax = 8193                              // reader:7 with every chunking only for messages up to this size

func c01Mode(s string) websocket.CompressionMode {
	switch s {
	case "context-takeover":
		return websocket.CompressionContextTakeover
	case "no-context-takeover":
		return websocket.CompressionNoContextTakeover
	}
	return websocket.CompressionDisabled
}

type c01Config struct {
	Via        string `json:"via"` // "handshake": real Dial/Accept; "direct": VerifNewConn on both sides
	ClientMode string `json:"client_mode,omitempty"`
	ServerMode string `json:"server_mode,omitempty"`
	ClientNCT  bool   `json:"client_no_context_takeover,omitempty"` // direct only
	ServerNCT  bool   `json:"server_no_context_takeover,omitempty"` // direct only
	Threshold  int    `json:"threshold"`
}

func (cf c01Config) label() string {
	if cf.Via == "direct" {
		switch {
		case cf.ClientNCT && !cf.ServerNCT:
			return "direct-client-nct-only"
		case !cf.ClientNCT && cf.ServerNCT:
			return "direct-server-nct-only"
		case cf.ClientNCT:
			return "direct-nct-both"
		}
		return "direct-takeover-both"
	}
	return cf.ClientMode + "-" + cf.ServerMode
}

func c01Configs() []c01Config {
	var out []c01Config
	for _, cm := range c01Modes {
		for _, sm := range c01Modes {
			for _, t := range c01Thresholds {
				out = append(out, c01Config{Via: "handshake", ClientMode: cm, ServerMode: sm, Threshold: t})
			}
		}
	}
	for _, t := range c01Thresholds {
		out = append(out, c01Config{Via: "direct", ClientNCT: true, ServerNCT: false, Threshold: t})
		out = append(out, c01Config{Via: "direct", ClientNCT: false, ServerNCT: true, Threshold: t})
	}
	return out
}

type c01Msg struct {
	Type     string `json:"type"` // text | binary
	Len      int    `json:"len"`
	Content  string `json:"content"`
	API      string `json:"api"`                // write | writer
	Chunking string `json:"chunking,omitempty"` // writer only, see c01Chunks
}

type c01Case struct {
	Cfg    c01Config `json:"config"`
	Dir    string    `json:"direction"`
	Msgs   []c01Msg  `json:"messages"`
	Reader string    `json:"reader"`   // read | reader:<caller buffer size>
	Sched  string    `json:"schedule"` // batch: write all then read all; alternate: write one, read one
	Seed   int64     `json:"seed"`
}

// c01Bystander: while the connection under test is open, the same process performs another,
// unrelated handshake on a server with the same mode, with a client that asks for the opposite
// context-takeover parameters (and closes that connection at once). What was negotiated on one
// connection is not changed by handshakes of another.
func c01Bystander(cs c01Case) {
	if cs.Cfg.Via != "handshake" || len(cs.Msgs) < 2 {
		return
	}
	offer := "permessage-deflate; client_no_context_takeover; server_no_context_takeover"
	if cs.Cfg.ServerMode == "no-context-takeover" {
		offer = "permessage-deflate"
	}
	a := c14Accept([]string{offer}, cs.Cfg.ServerMode, false)
	if a.conn != nil {
		a.conn.CloseNow()
	}
}

func c01Sizes(thorough bool) []int {
	var s []int
	add := func(lo, hi int) {
		for i := lo; i <= hi; i++ {
			s = append(s, i)
		}
	}
	add(0, 9)
	add(124, 129)
	add(511, 513)
	add(4085, 4100)
	add(8191, 8193)
	add(32767, 32769)
	add(65535, 65537)
	add(131073, 131073)
	if thorough {
		s = append(s, 1<<20+17)
	}
	return s
}

// c01Chunks turns a chunking spec into the sizes of the successive
// Writer.Write calls for a message of n bytes.
//
//	one            one write of n bytes
//	split:k        k bytes, then the rest (an empty second write when k == n)
//	eq:k           chunks of k bytes (last one shorter)
//	bytes          one byte per write
//	empty-first:k  empty write, k bytes, rest
//	empties:k      k bytes, empty write, rest, empty write
func c01Chunks(spec string, n int) []int {
	name, arg := spec, 0
	if i := strings.IndexByte(spec, ':'); i >= 0 {
		name = spec[:i]
		arg, _ = strconv.Atoi(spec[i+1:])
	}
	if arg > n {
		arg = n
	}
	switch name {
	case "one":
		return []int{n}
	case "split":
		return []int{arg, n - arg}
	case "eq":
		var out []int
		if arg <= 0 {
			return []int{n}
		}
		for left := n; left > 0; left -= arg {
			k := arg
			if k > left {
				k = left
			}
			out = append(out, k)
		}
		if len(out) == 0 {
			out = []int{0}
		}
		return out
	case "bytes":
		out := make([]int, n)
		for i := range out {
			out[i] = 1
		}
		if n == 0 {
			out = []int{0}
		}
		return out
	case "empty-first":
		return []int{0, arg, n - arg}
	case "empties":
		return []int{arg, 0, n - arg, 0}
	}
	return []int{n}
}

var c01SplitPoints = []int{1, 124, 125, 126, 127, 128, 129, 511, 512, 513, 4096, 4097, 32768}

// c01ChunkSpecs lists the chunkings for a message of n bytes under a configured
// threshold (distinct chunk lists only).
func c01ChunkSpecs(n, threshold int) []string {
	specs := []string{"one"}
	pts := append([]int(nil), c01SplitPoints...)
	if threshold > 1 {
		pts = append(pts, threshold-1) // the flate decision is taken on the first write
	}
	for _, k := range pts {
		if k <= n {
			specs = append(specs, fmt.Sprintf("split:%d", k))
		}
	}
	specs = append(specs, "eq:1000", "eq:4096", "eq:4097")
	if n <= 64 {
		specs = append(specs, "bytes")
	}
	specs = append(specs, fmt.Sprintf("empty-first:%d", n/2), fmt.Sprintf("empties:%d", n/2))
	seen := map[string]bool{}
	var out []string
	for _, s := range specs {
		k := fmt.Sprint(c01Chunks(s, n))
		if !seen[k] {
			seen[k] = true
			out = append(out, s)
		}
	}
	return out
}

// ---------------------------------------------------------------- payloads

var (
	c01PoolSeed int64
	c01PoolBuf  []byte
)

const c01PoolLen = 1<<21 + 4096

// c01Pool is a block of pseudo-random bytes derived from the seed only.
func c01Pool(seed int64) []byte {
	if c01PoolBuf != nil && c01PoolSeed == seed {
		return c01PoolBuf
	}
	b := make([]byte, c01PoolLen)
	x := uint64(seed)*0x9E3779B97F4A7C15 + 0x1234567
	for i := 0; i+8 <= len(b); i += 8 {
		x ^= x << 13
		x ^= x >> 7
		x ^= x << 17
		v := x * 0x2545F4914F6CDD1D
		for k := 0; k < 8; k++ {
			b[i+k] = byte(v >> (8 * uint(k)))
		}
	}
	c01PoolSeed, c01PoolBuf = seed, b
	return b
}

func c01FillPeriodic(p, base []byte, phase int) {
	pos := phase % len(base)
	for i := 0; i < len(p); {
		n := copy(p[i:], base[pos:])
		i += n
		pos = 0
	}
}

// c01Payload builds message idx of a case; globalOff is the number of payload
// bytes of the earlier messages of the case (the periodic contents continue
// across messages so that repeats span message boundaries).
func c01Payload(m c01Msg, idx, globalOff int, seed int64) []byte {
	p := make([]byte, m.Len)
	pool := c01Pool(seed)
	if strings.HasPrefix(m.Content, "dhist:") {
		// slice [globalOff, globalOff+Len) of the history stream
		// 'x'*(total-d) + R(1024) + 'x'*(d-1024): R ends up exactly d bytes before the end
		var d, total int
		fmt.Sscanf(m.Content, "dhist:%d:%d", &d, &total)
		for i := range p {
			pos := globalOff + i
			if r := pos - (total - d); r >= 0 && r < 1024 {
				p[i] = pool[50000+r]
			} else {
				p[i] = 'x'
			}
		}
		return p
	}
	switch m.Content {
	case "zeros":
	case "text37":
		c01FillPeriodic(p, []byte(c01Text37), 0)
	case "prng":
		off := 0
		if span := len(pool) - m.Len; span > 0 {
			off = ((idx+1)*104729 + m.Len*31) % span
		}
		copy(p, pool[off:])
	case "longrange":
		// every byte repeats the byte written 32771 bytes earlier: just outside the 32 KiB window
		c01FillPeriodic(p, pool[:32771], globalOff)
	case "dprobe":
		// the 1024 pseudo-random bytes that the history holds at a chosen distance, then a tail
		copy(p, pool[50000:51024])
		for i := 1024; i < len(p); i++ {
			p[i] = 'y'
		}
	case "window-edge":
		// every byte repeats the byte written exactly 32768 bytes earlier: the largest legal distance
		c01FillPeriodic(p, pool[40000:40000+32768], globalOff)
	}
	return p
}

// ---------------------------------------------------------------- one case

// c01Poisoned is set when the library panicked: a panic can leave package-level
// locks of the library held (the pools), so the unit stops instead of risking a
// hang on the next case.
var c01Poisoned bool

const c01PoisonNote = "stopped after a library panic (reported as C01/panic): package-level state of the library is no longer trustworthy in this process"

type c01Got struct {
	typ websocket.MessageType
	p   []byte
}

func c01Type(s string) websocket.MessageType {
	if s == "text" {
		return websocket.MessageText
	}
	return websocket.MessageBinary
}

func c01FirstDiff(a, b []byte) int {
	n := len(a)
	if len(b) < n {
		n = len(b)
	}
	for i := 0; i < n; i++ {
		if a[i] != b[i] {
			return i
		}
	}
	if len(a) != len(b) {
		return n
	}
	return -1
}

func c01LenClass(n int64) string {
	switch {
	case n == 0:
		return "0"
	case n <= 125:
		return "s"
	case n <= 65535:
		return "m"
	}
	return "l"
}

// c01Shape is the frame-shape signature of a byte stream: per frame opcode, fin,
// rsv1 and length class (headers only; used for the outcome hash, not as oracle).
func c01Shape(b []byte, sb *strings.Builder) {
	frames := 0
	for i := 0; i+2 <= len(b); {
		b0, b1 := b[i], b[i+1]
		l := int64(b1 & 0x7f)
		h := 2
		switch l {
		case 126:
			if i+4 > len(b) {
				return
			}
			l = int64(b[i+2])<<8 | int64(b[i+3])
			h = 4
		case 127:
			if i+10 > len(b) {
				return
			}
			l = 0
			for k := 0; k < 8; k++ {
				l = l<<8 | int64(b[i+2+k])
			}
			h = 10
		}
		if b1&0x80 != 0 {
			h += 4
		}
		if frames < 24 {
			fmt.Fprintf(sb, "%x%s.", b0, c01LenClass(l))
		}
		frames++
		if l < 0 || l > int64(len(b)) {
			return
		}
		i += h + int(l)
	}
	fmt.Fprintf(sb, "#%d;", frames)
}

func c01One(c *fw.Ctx, cs c01Case) {
	c.Eval()
	ctx := context.Background()
	link := &c01Link{}
	var cli, srv *websocket.Conn
	negotiated := "?"
	var setupErr string
	pan := fw.Recover(func() {
		if cs.Cfg.Via == "direct" {
			comp := &websocket.VerifCompression{ClientNoContextTakeover: cs.Cfg.ClientNCT, ServerNoContextTakeover: cs.Cfg.ServerNCT}
			comp2 := *comp
			cli = websocket.VerifNewConn(&c01End{link, 0}, true, comp, cs.Cfg.Threshold)
			srv = websocket.VerifNewConn(&c01End{link, 1}, false, &comp2, cs.Cfg.Threshold)
			return
		}
		rt := &c01RT{link: link, srvOpts: websocket.AcceptOptions{CompressionMode: c01Mode(cs.Cfg.ServerMode), CompressionThreshold: cs.Cfg.Threshold}}
		var err error
		cli, _, err = websocket.Dial(ctx, "ws://example.com/c01", &websocket.DialOptions{
			HTTPClient:           &http.Client{Transport: rt},
			CompressionMode:      c01Mode(cs.Cfg.ClientMode),
			CompressionThreshold: cs.Cfg.Threshold,
		})
		srv = rt.srv
		if err != nil || rt.srvErr != nil || cli == nil || srv == nil || rt.calls != 1 {
			setupErr = fmt.Sprintf("handshake between two library endpoints failed: dial err=%v accept err=%v round trips=%d", err, rt.srvErr, rt.calls)
		}
	})
	defer func() {
		// every Conn owns a goroutine: always release both
		for _, cn := range []*websocket.Conn{cli, srv} {
			if cn == nil {
				continue
			}
			cn := cn
			if p := fw.Recover(func() { cn.CloseNow() }); p != "" {
				c01Poisoned = true
				c.Violate("C01/panic", fmt.Sprintf("%+v: panic in CloseNow after the exchange: %s", cs, p), cs)
			}
		}
	}()
	if pan != "" {
		c01Poisoned = true
		c.Violate("C01/panic", fmt.Sprintf("%+v: panic while connecting: %s", cs, pan), cs)
		return
	}
	if setupErr != "" {
		// the handshake is the subject of C11-C14, not of this property
		c.EngineError(fmt.Sprintf("%+v: %s", cs, setupErr))
		return
	}
	if _, comp, thr := websocket.VerifConnInfo(cli); comp == nil {
		negotiated = "off"
	} else {
		negotiated = fmt.Sprintf("c%v,s%v,t%d", comp.ClientNoContextTakeover, comp.ServerNoContextTakeover, thr)
	}

	wconn, rconn, wside, wrole := cli, srv, 0, "client"
	if cs.Dir == "server-to-client" {
		wconn, rconn, wside, wrole = srv, cli, 1, "server"
	}
	rconn.SetReadLimit(-1) // limits are the subject of C08

	wapi, rapi := "", "read"
	if cs.Reader != "read" {
		rapi = "reader"
	}
	for _, m := range cs.Msgs {
		switch {
		case wapi == "":
			wapi = m.API
		case wapi != m.API:
			wapi = "mixed"
		}
	}
	locus := cs.Dir + "/" + cs.Cfg.label() + "/" + wapi + "+" + rapi

	// payloads
	wants := make([][]byte, len(cs.Msgs))
	goff := 0
	for i, m := range cs.Msgs {
		wants[i] = c01Payload(m, i, goff, cs.Seed)
		goff += m.Len
	}

	var shape strings.Builder
	shape.WriteString(negotiated + "|" + cs.Dir + "|")

	// send writes message i; it returns false when the case must stop.
	send := func(i int) bool {
		m, want := cs.Msgs[i], wants[i]
		arg := make([]byte, len(want))
		copy(arg, want)
		var werr error
		step := "Write"
		modified := -1
		p := fw.Recover(func() {
			if m.API == "write" {
				werr = wconn.Write(ctx, c01Type(m.Type), arg)
				return
			}
			step = "Writer"
			w, err := wconn.Writer(ctx, c01Type(m.Type))
			if err != nil {
				werr = err
				return
			}
			off := 0
			for k, n := range c01Chunks(m.Chunking, len(arg)) {
				step = fmt.Sprintf("Writer.Write call %d (%d bytes at offset %d)", k, n, off)
				chunk := arg[off : off+n]
				nn, err := w.Write(chunk)
				if d := c01FirstDiff(chunk, want[off:off+n]); d >= 0 && modified < 0 {
					modified = off + d
				}
				if err != nil {
					werr = err
					return
				}
				if nn != n {
					werr = fmt.Errorf("Writer.Write returned n=%d for %d bytes and a nil error", nn, n)
					return
				}
				off += n
			}
			step = "Writer.Close"
			werr = w.Close()
		})
		if p != "" {
			c01Poisoned = true
			c.Violate("C01/panic", fmt.Sprintf("%+v: message %d: panic in %s: %s", cs, i, step, p), cs)
			return false
		}
		if d := c01FirstDiff(arg, want); d >= 0 && modified < 0 {
			modified = d
		}
		if modified >= 0 {
			c.Violate("C01/caller-buffer-modified/"+wrole+"/"+m.API,
				fmt.Sprintf("%+v: message %d: the caller's buffer differs from its private copy at offset %d after %s (is %#x, was %#x)", cs, i, modified, step, arg[modified], want[modified]), cs)
			return false
		}
		if werr != nil {
			c.Violate("C01/write-error/"+locus, fmt.Sprintf("%+v: message %d: %s failed on a transport that never fails: %v", cs, i, step, werr), cs)
			return false
		}
		return true
	}

	// recv reads one message; ok=false when the case must stop.
	var rbuf []byte
	var rnc net.Conn
	recv := func(i int, expectNone bool) (g c01Got, ok bool) {
		var rerr error
		overrun := false
		p := fw.Recover(func() {
			if cs.Reader == "read" {
				g.typ, g.p, rerr = rconn.Read(ctx)
				return
			}
			if strings.HasPrefix(cs.Reader, "netconn:") {
				// the peer endpoint receives through the net.Conn adapter: the payloads of the
				// messages are its byte stream (all messages of such a case have one type)
				if rnc == nil {
					rnc = websocket.NetConn(ctx, rconn, c01Type(cs.Msgs[0].Type))
				}
				g.typ = c01Type(cs.Msgs[0].Type)
				if expectNone {
					var one [1]byte
					_, rerr = rnc.Read(one[:])
					return
				}
				n, _ := strconv.Atoi(strings.TrimPrefix(cs.Reader, "netconn:"))
				g.p = make([]byte, len(wants[i]))
				for off := 0; off < len(g.p) && rerr == nil; {
					end := off + n
					if end > len(g.p) {
						end = len(g.p)
					}
					var m int
					m, rerr = rnc.Read(g.p[off:end])
					off += m
					if rerr != nil {
						g.p = g.p[:off]
					}
				}
				return
			}
			var r io.Reader
			g.typ, r, rerr = rconn.Reader(ctx)
			if rerr != nil {
				return
			}
			if rbuf == nil {
				n, _ := strconv.Atoi(strings.TrimPrefix(cs.Reader, "reader:"))
				if n <= 0 {
					n = 512
				}
				rbuf = make([]byte, n)
			}
			g.p = []byte{}
			idle := 0
			for {
				n, err := r.Read(rbuf)
				if n < 0 || n > len(rbuf) {
					overrun = true
					return
				}
				g.p = append(g.p, rbuf[:n]...)
				if err == io.EOF {
					return
				}
				if err != nil {
					rerr = err
					return
				}
				if n == 0 {
					idle++
					if idle > 1000 {
						rerr = fmt.Errorf("1000 consecutive Read calls returned (0, nil)")
						return
					}
				} else {
					idle = 0
				}
			}
		})
		if p != "" {
			c01Poisoned = true
			c.Violate("C01/panic", fmt.Sprintf("%+v: reading message %d: panic: %s", cs, i, p), cs)
			return g, false
		}
		if expectNone {
			if rerr == nil {
				c.Violate("C01/message-count-differs/"+locus,
					fmt.Sprintf("%+v: %d messages were written but the peer received one more (type %v, %d bytes)", cs, len(cs.Msgs), g.typ, len(g.p)), cs)
			}
			return g, false
		}
		if overrun {
			c.Violate("C01/read-error/"+locus, fmt.Sprintf("%+v: message %d: Reader.Read returned a count outside its buffer", cs, i), cs)
			return g, false
		}
		if rerr != nil {
			c.Violate("C01/read-error/"+locus,
				fmt.Sprintf("%+v: message %d (of %d written, %d payload bytes delivered before the error): %v", cs, i, len(cs.Msgs), len(g.p), rerr), cs)
			return g, false
		}
		return g, true
	}

	check := func(i int, g c01Got) bool {
		m, want := cs.Msgs[i], wants[i]
		if g.typ != c01Type(m.Type) {
			c.Violate("C01/type-differs/"+locus, fmt.Sprintf("%+v: message %d written as %s was received with type %v", cs, i, m.Type, g.typ), cs)
			return false
		}
		if d := c01FirstDiff(g.p, want); d >= 0 {
			detail := fmt.Sprintf("%+v: message %d: sent %d bytes, received %d bytes, first difference at offset %d", cs, i, len(want), len(g.p), d)
			if d < len(want) && d < len(g.p) {
				detail += fmt.Sprintf(" (sent %#x, received %#x)", want[d], g.p[d])
			}
			c.Violate("C01/payload-differs/"+locus, detail, cs)
			return false
		}
		return true
	}

	// every payload handed over is kept: it must still be what was sent after the later reads
	var kept []c01Got
	if cs.Sched == "alternate" {
		for i := range cs.Msgs {
			if !send(i) {
				return
			}
			c01Shape(link.pending(wside), &shape)
			g, ok := recv(i, false)
			if !ok || !check(i, g) {
				return
			}
			kept = append(kept, g)
			if i == 0 {
				c01Bystander(cs)
			}
		}
	} else {
		for i := range cs.Msgs {
			if !send(i) {
				return
			}
		}
		c01Shape(link.pending(wside), &shape)
		c01Bystander(cs)
		for i := range cs.Msgs {
			g, ok := recv(i, false)
			if !ok || !check(i, g) {
				return
			}
			kept = append(kept, g)
		}
	}
	// exactly one message per message written: nothing more may be delivered
	recv(len(cs.Msgs), true)
	for i, g := range kept {
		if d := c01FirstDiff(g.p, wants[i]); d >= 0 {
			c.Violate("C01/payload-changed-after-delivery/"+locus, fmt.Sprintf("%+v: the payload returned for message %d was correct when the read returned and differs at offset %d after later reads on the connection: the returned slice is reused", cs, i, d), cs)
			return
		}
	}
	c.OutcomeStr(shape.String())
}

// ---------------------------------------------------------------- part single

// c01SingleSkip is the stated reduction of the single-message product (si is
// the index of the write variant: 0 = Write, 1 = one-write Writer, 2.. = the
// other chunkings).
func c01SingleSkip(thorough bool, n, si int, rd, typ string) bool {
	if !thorough && si >= 2 && (rd != "read" || typ != "binary") {
		// quick tier: reader and type dimensions only for Write and the one-write Writer
		return true
	}
	if rd == "reader:7" && n > c01TinyReaderMax {
		// 7-byte reads of a large compressed message cost one 32 KiB history shift
		// per call inside the library: only with Write and the one-write Writer,
		// and for the 1 MiB message only with Write
		if si >= 2 || (n > 1<<20 && si >= 1) {
			return true
		}
	}
	return false
}

// c01SingleEach enumerates the single-message cases of a tier in a fixed order and
// calls f for those whose index is congruent to shard modulo nshards.
func c01SingleEach(c *fw.Ctx, shard, nshards int, f func(cs c01Case) bool) (total int64) {
	thorough := c.Thorough()
	cfgs := c01Configs()
	idx := int64(0)
	for _, n := range c01Sizes(thorough) {
		for _, content := range c01Contents {
			for _, cf := range cfgs {
				specs := append([]string{"write"}, c01ChunkSpecs(n, cf.Threshold)...)
				for _, dir := range c01Dirs {
					for si, spec := range specs {
						for _, rd := range c01Readers {
							if rd == "reader:1" && n > c01SmallReaderMax {
								continue
							}
							for _, typ := range c01Types {
								if c01SingleSkip(thorough, n, si, rd, typ) {
									continue
								}
								mine := idx%int64(nshards) == int64(shard)
								idx++
								if !mine {
									continue
								}
								m := c01Msg{Type: typ, Len: n, Content: content, API: "writer", Chunking: spec}
								if spec == "write" {
									m.API, m.Chunking = "write", ""
								}
								if !f(c01Case{Cfg: cf, Dir: dir, Msgs: []c01Msg{m}, Reader: rd, Sched: "batch", Seed: c.Seed}) {
									return -1
								}
							}
						}
					}
				}
			}
		}
	}
	return idx
}

func c01SingleRun(c *fw.Ctx, shard, nshards int) {
	total := c01SingleEach(c, shard, nshards, func(cs c01Case) bool {
		if c.OutOfTime() {
			c.NotExhaustive("C01 single: budget exhausted before the grid was complete")
			return false
		}
		if c01Poisoned {
			c.NotExhaustive(c01PoisonNote)
			return false
		}
		c01One(c, cs)
		if c.WantSample() && cs.Msgs[0].Len == 126 && cs.Cfg.Threshold == 1 && cs.Msgs[0].Chunking == "split:125" {
			c.Sample(cs)
		}
		return true
	})
	if total >= 0 {
		c.Bound("single_cases", total)
	}
	c.Bound("sizes", c01Sizes(c.Thorough()))
	c.Bound("contents", c01Contents)
	c.Bound("types", c01Types)
	c.Bound("readers", c01Readers)
	c.Bound("thresholds", c01Thresholds)
	c.Bound("modes_client_x_server", c01Modes)
	c.Bound("direct_asymmetric_configs", []string{"client_no_context_takeover only", "server_no_context_takeover only"})
	c.Bound("split_points", c01SplitPoints)
	c.Bound("directions", c01Dirs)
	if !c.Thorough() {
		c.Bound("single_quick_reduction", "reader x type dimensions only for Write and one-write Writer; other chunkings with Read and binary")
	}
	c.Bound("single_reader_reduction", "reader:1 only for messages <= 600 bytes; reader:7 with every chunking for messages <= 8193 bytes, above that only with Write and the one-write Writer (1 MiB: Write only)")
}

// ---------------------------------------------------------------- part seq / window

// c01SeqAlphabet: 8 messages chosen to sit on both sides of every threshold
// (128/200/512/70000), to mix both types, both APIs and compressible and
// incompressible contents.
var c01SeqAlphabet = []c01Msg{
	{Type: "binary", Len: 0, Content: "zeros", API: "write"},
	{Type: "text", Len: 5, Content: "text37", API: "write"},
	{Type: "text", Len: 300, Content: "text37", API: "write"},
	{Type: "binary", Len: 600, Content: "zeros", API: "writer", Chunking: "split:1"},
	{Type: "binary", Len: 1000, Content: "prng", API: "writer", Chunking: "eq:1000"},
	{Type: "text", Len: 5000, Content: "text37", API: "writer", Chunking: "split:4096"},
	{Type: "binary", Len: 33000, Content: "window-edge", API: "write"},
	{Type: "text", Len: 70001, Content: "text37", API: "writer", Chunking: "eq:4097"},
}

// c01WindowAlphabet: large messages; sequences over it push the receiver's
// 32 KiB history through partial fill, shift and overflow.
var c01WindowAlphabet = []c01Msg{
	{Type: "binary", Len: 100, Content: "window-edge", API: "write"},
	{Type: "binary", Len: 20000, Content: "window-edge", API: "write"},
	{Type: "text", Len: 32768, Content: "text37", API: "writer", Chunking: "eq:4096"},
	{Type: "binary", Len: 40000, Content: "longrange", API: "write"},
	{Type: "binary", Len: 70000, Content: "window-edge", API: "writer", Chunking: "split:32768"},
	{Type: "binary", Len: 12345, Content: "prng", API: "write"},
}

func c01Sequences(alpha []c01Msg, maxLen int) [][]c01Msg {
	var out [][]c01Msg
	var cur []c01Msg
	var rec func(depth int)
	for l := 1; l <= maxLen; l++ {
		rec = func(depth int) {
			if depth == l {
				out = append(out, append([]c01Msg(nil), cur...))
				return
			}
			for _, m := range alpha {
				cur = append(cur, m)
				rec(depth + 1)
				cur = cur[:len(cur)-1]
			}
		}
		rec(0)
	}
	return out
}

func c01SeqRunWith(c *fw.Ctx, shard, nshards int, name string, alpha []c01Msg, maxLen int, readers, scheds []string) {
	seqs := c01Sequences(alpha, maxLen)
	cfgs := c01Configs()
	idx := int64(0)
	sampled := false
loop:
	for _, sq := range seqs { // shortest first
		for _, cf := range cfgs {
			for _, dir := range c01Dirs {
				for _, rd := range readers {
					for _, sch := range scheds {
						mine := idx%int64(nshards) == int64(shard)
						idx++
						if !mine {
							continue
						}
						if c.OutOfTime() {
							c.NotExhaustive("C01 " + name + ": budget exhausted before all sequences were run")
							break loop
						}
						if c01Poisoned {
							c.NotExhaustive(c01PoisonNote)
							break loop
						}
						if strings.HasPrefix(rd, "netconn:") {
							oneType := true
							for _, m := range sq {
								oneType = oneType && m.Type == sq[0].Type
							}
							if !oneType || sch != "batch" && cf.Threshold > 1 {
								continue
							}
						}
						cs := c01Case{Cfg: cf, Dir: dir, Msgs: sq, Reader: rd, Sched: sch, Seed: c.Seed}
						c01One(c, cs)
						if !sampled && len(sq) == 3 && cf.Threshold == 1 && cf.ClientMode == "context-takeover" && cf.ServerMode == "context-takeover" && sq[0].Len != sq[1].Len && sq[1].Len != sq[2].Len && sq[2].Len >= 5000 {
							c.Sample(cs)
							sampled = true
						}
					}
				}
			}
		}
	}
	c.Bound(name+"_max_sequence_length", maxLen)
	c.Bound(name+"_sequences", len(seqs))
	c.Bound(name+"_alphabet", alpha)
	c.Bound(name+"_readers", readers)
	c.Bound(name+"_schedules", scheds)
	c.Bound(name+"_cases", int64(len(seqs))*int64(len(cfgs))*2*int64(len(readers))*int64(len(scheds)))
}

func c01SeqRun(c *fw.Ctx, shard, nshards int) {
	maxLen := 3
	if c.Thorough() {
		maxLen = 4
	}
	c01SeqRunWith(c, shard, nshards, "seq", c01SeqAlphabet, maxLen, []string{"read", "reader:4096", "netconn:4096", "netconn:100"}, []string{"batch", "alternate"})
}

func c01WindowRun(c *fw.Ctx, shard, nshards int) {
	readers, scheds := []string{"read", "reader:32769"}, []string{"batch"}
	if c.Thorough() {
		readers = []string{"read", "reader:7", "reader:4096", "reader:32769"}
		scheds = []string{"batch", "alternate"}
	}
	c01SeqRunWith(c, shard, nshards, "window", c01WindowAlphabet, 3, readers, scheds)
}

// c01DistanceRun: back-references at chosen distances across the message
// boundary. The history carries 1024 pseudo-random bytes exactly d bytes before
// its end (everything else is a run of 'x', which keeps the sender's match table
// intact); the next message starts with those bytes, so a context-takeover
// sender refers d bytes back from the first byte of the message.
func c01DistanceRun(c *fw.Ctx, shard, nshards int) {
	dists := []int{1024, 20000, 32766, 32767, 32768}
	type shape struct {
		name  string
		total int
		piece int
	}
	shapes := []shape{{"one-message", 32768, 32768}, {"three-messages", 99000, 33000}, {"many-1k-messages", 65536, 1024}, {"two-uneven", 40000, 39999}}
	idx := 0
	for _, cf := range c01Configs() {
		for _, dir := range c01Dirs {
			for _, d := range dists {
				for _, sh := range shapes {
					for _, api := range []string{"write", "writer"} {
						mine := idx%nshards == shard
						idx++
						if !mine {
							continue
						}
						if c01Poisoned {
							c.NotExhaustive(c01PoisonNote)
							return
						}
						var msgs []c01Msg
						for off := 0; off < sh.total; off += sh.piece {
							n := sh.piece
							if off+n > sh.total {
								n = sh.total - off
							}
							msgs = append(msgs, c01Msg{Type: "binary", Len: n, Content: fmt.Sprintf("dhist:%d:%d", d, sh.total), API: "write"})
						}
						probe := c01Msg{Type: "binary", Len: 1100, Content: "dprobe", API: api}
						if api == "writer" {
							probe.Chunking = "one"
						}
						msgs = append(msgs, probe)
						c01One(c, c01Case{Cfg: cf, Dir: dir, Msgs: msgs, Reader: "read", Sched: "batch", Seed: c.Seed})
					}
				}
			}
		}
	}
	c.Bound("distance_probes", map[string]interface{}{"distances": dists, "history_shapes": len(shapes)})
}

func c01Replay(c *fw.Ctx, data json.RawMessage) {
	var cs c01Case
	if json.Unmarshal(data, &cs) != nil || len(cs.Msgs) == 0 {
		c.EngineError("bad replay data")
		return
	}
	c01One(c, cs)
}

func init() {
	if len(c01Text37) != 37 || !bytes.HasSuffix([]byte(c01Text37), []byte("\n")) {
		panic("c01Text37 must be 37 bytes")
	}
	fw.Register(fw.Part{Prop: "C01", Name: "single",
		Units:  func(tier string) []fw.Unit { return fw.Shards("grid", 16, c01SingleRun) },
		Replay: c01Replay})
	fw.Register(fw.Part{Prop: "C01", Name: "seq",
		Units:  func(tier string) []fw.Unit { return fw.Shards("sequences", 16, c01SeqRun) },
		Replay: c01Replay})
	fw.Register(fw.Part{Prop: "C01", Name: "distance",
		Units:  func(tier string) []fw.Unit { return fw.Shards("probes", 16, c01DistanceRun) },
		Replay: c01Replay})
	fw.Register(fw.Part{Prop: "C01", Name: "window",
		Units:  func(tier string) []fw.Unit { return fw.Shards("sequences", 16, c01WindowRun) },
		Replay: c01Replay})
}

// ---------------------------------------------------------------- part bystander

// Each unit is one process and one case: a connection obtained through the real
// handshake carries a message, the process performs an unrelated handshake with
// the opposite context-takeover parameters on a server of the same mode
// (c01Bystander), and the connection carries two more messages with the same
// content (they refer back to the first if a context is kept). A unit per case,
// because state shared between handshakes would be changed by the first bystander
// of the process for good.
func c01BystanderCases() []c01Case {
	var out []c01Case
	m := func(n int) c01Msg { return c01Msg{Type: "text", Len: n, Content: "text37", API: "write"} }
	for _, mode := range []string{"context-takeover", "no-context-takeover"} {
		for _, dir := range c01Dirs {
			cf := c01Config{Via: "handshake", ClientMode: mode, ServerMode: mode, Threshold: 1}
			out = append(out, c01Case{Cfg: cf, Dir: dir, Msgs: []c01Msg{m(900), m(901), m(902)}, Reader: "read", Sched: "alternate", Seed: 1})
		}
	}
	return out
}

func init() {
	fw.Register(fw.Part{
		Prop: "C01", Name: "bystander",
		Units: func(tier string) []fw.Unit {
			var us []fw.Unit
			for i, cs := range c01BystanderCases() {
				cs := cs
				us = append(us, fw.Unit{ID: fmt.Sprintf("case-%d", i), Run: func(c *fw.Ctx) {
					c01One(c, cs)
					c.AddStates(1)
					c.Bound("bystander_cases", len(c01BystanderCases()))
					c.Sample(cs)
				}})
			}
			return us
		},
		Replay: c01Replay,
	}) // C03: the connection that only receives (a valid stream) while the process performs the
	// unrelated handshake is the one judged: its reads yield the sender's messages
	fw.Register(fw.Part{
		Prop: "C03", Name: "bystander",
		Units: func(tier string) []fw.Unit {
			var us []fw.Unit
			for i, cs := range c01BystanderCases() {
				cs := cs
				us = append(us, fw.Unit{ID: fmt.Sprintf("case-%d", i), Run: func(c *fw.Ctx) {
					c.Reprefix = true
					c01One(c, cs)
					c.AddStates(1)
					c.Bound("bystander_cases", len(c01BystanderCases()))
				}})
			}
			return us
		},
		Replay: func(c *fw.Ctx, data json.RawMessage) {
			c.Reprefix = true
			c01Replay(c, data)
		},
	})
}
