package seq

import (
	"bufio"
	"bytes"
	"context"
	crand "crypto/rand"
	"encoding/json"
	"fmt"
	"io"
	"net"
	"net/http"
	"net/url"
	"strings"
	"sync"
	"time"

	"nhooyr.io/websocket"
	"verif/fw"
	"verif/refws/deflate"
	"verif/refws/frame"
	"verif/refws/hsclient"
)

// C02: emitted stream conformance.
//
// One library endpoint is driven through its API by one goroutine over a
// scripted transport: Write appends to a log and never blocks; Read serves the
// scripted peer bytes (the peer's Close frame answering the program's Close
// call, if any) and then io.EOF. The log is judged by the independent strict
// validator refws/frame.Validate and the independent inflater refws/deflate.
//
// crypto/rand.Reader is replaced by a counting source for the duration of a
// case, so the exact masking key of every frame is known to the oracle.
//
// Parts:
//   programs - all API programs up to the depth of the tier x role x negotiated
//              parameters (VerifNewConn) x thresholds
//   hs       - programs up to depth 2 on connections obtained through the real
//              Accept / Dial with foreign offers / scripted responses (asymmetric
//              takeover parameters the way a foreign peer causes them)
//   lengths  - one message of every length 0..300 and 65400..65700, uncompressed
//   close    - Close(code, reason) over sendable and non-sendable codes and
//              reason lengths around 123

// ---------------------------------------------------------------- transport

type c02Wire struct {
	mu     sync.Mutex
	in     []byte
	off    int
	log    []byte
	closed bool
}

func (w *c02Wire) Read(p []byte) (int, error) {
	w.mu.Lock()
	defer w.mu.Unlock()
	if w.closed {
		return 0, net.ErrClosed
	}
	if w.off >= len(w.in) {
		return 0, io.EOF
	}
	n := copy(p, w.in[w.off:])
	w.off += n
	return n, nil
}

func (w *c02Wire) Write(p []byte) (int, error) {
	w.mu.Lock()
	defer w.mu.Unlock()
	if w.closed {
		return 0, net.ErrClosed
	}
	w.log = append(w.log, p...)
	return len(p), nil
}

func (w *c02Wire) Close() error {
	w.mu.Lock()
	defer w.mu.Unlock()
	w.closed = true
	return nil
}

func (w *c02Wire) bytes() []byte {
	w.mu.Lock()
	defer w.mu.Unlock()
	return w.log
}

type c02Addr struct{}

func (c02Addr) Network() string { return "scripted" }
func (c02Addr) String() string  { return "scripted" }

func (w *c02Wire) LocalAddr() net.Addr                { return c02Addr{} }
func (w *c02Wire) RemoteAddr() net.Addr               { return c02Addr{} }
func (w *c02Wire) SetDeadline(t time.Time) error      { return nil }
func (w *c02Wire) SetReadDeadline(t time.Time) error  { return nil }
func (w *c02Wire) SetWriteDeadline(t time.Time) error { return nil }

// c02Rand is the counting randomness source: byte k is byte k%4 (little
// endian) of word(k/4), and word() is a bijection on 32 bits, so any two
// aligned 4-byte keys drawn from it differ.
type c02Rand struct{ pos int64 }

func c02RandByte(k int64) byte {
	w := uint32(k/4)*2654435761 + 0x9E3779B9
	return byte(w >> (8 * uint(k%4)))
}

func (r *c02Rand) Read(p []byte) (int, error) {
	for i := range p {
		p[i] = c02RandByte(r.pos)
		r.pos++
	}
	return len(p), nil
}

// c02RespWriter records Accept's response and hands out the wire on Hijack.
type c02RespWriter struct {
	h      http.Header
	status int
	sent   http.Header
	conn   *c02Wire
}

func (w *c02RespWriter) Header() http.Header { return w.h }
func (w *c02RespWriter) WriteHeader(code int) {
	if w.status == 0 {
		w.status = code
		w.sent = w.h.Clone()
	}
}
func (w *c02RespWriter) Write(p []byte) (int, error) {
	if w.status == 0 {
		w.WriteHeader(200)
	}
	return len(p), nil
}
func (w *c02RespWriter) Hijack() (net.Conn, *bufio.ReadWriter, error) {
	return w.conn, bufio.NewReadWriter(bufio.NewReaderSize(w.conn, 4096), bufio.NewWriterSize(w.conn, 4096)), nil
}

// c02RT answers Dial with a scripted 101 response whose body is the wire.
type c02RT struct {
	ext   string
	wire  *c02Wire
	calls int
}

func (rt *c02RT) RoundTrip(r *http.Request) (*http.Response, error) {
	rt.calls++
	h := http.Header{}
	h.Set("Connection", "Upgrade")
	h.Set("Upgrade", "websocket")
	h.Set("Sec-WebSocket-Accept", hsclient.AcceptFor(r.Header.Get("Sec-WebSocket-Key")))
	if rt.ext != "" {
		h.Set("Sec-WebSocket-Extensions", rt.ext)
	}
	return &http.Response{
		Status: "101 Switching Protocols", StatusCode: 101,
		Proto: "HTTP/1.1", ProtoMajor: 1, ProtoMinor: 1,
		Header: h, Body: rt.wire, Request: r,
	}, nil
}

// ---------------------------------------------------------------- cases

type c02Op struct {
	Kind      string `json:"kind"`             // write | writer | close
	Type      string `json:"type,omitempty"`   // text | binary
	Chunks    []int  `json:"chunks,omitempty"` // write: one element; writer: one Write call per element
	Code      int    `json:"code,omitempty"`
	ReasonLen int    `json:"reason_len,omitempty"`
}

func (o c02Op) String() string {
	if o.Kind == "close" {
		return fmt.Sprintf("Close(%d,%dB)", o.Code, o.ReasonLen)
	}
	return fmt.Sprintf("%s(%s,%v)", o.Kind, o.Type, o.Chunks)
}

// c02Ops is the alphabet of the programs part (9 message ops, 2 Close ops).
var c02Ops = []c02Op{
	{Kind: "write", Type: "binary", Chunks: []int{0}},
	{Kind: "write", Type: "text", Chunks: []int{5}},
	{Kind: "write", Type: "binary", Chunks: []int{125}},
	{Kind: "write", Type: "text", Chunks: []int{126}},
	{Kind: "write", Type: "binary", Chunks: []int{65535}},
	{Kind: "write", Type: "binary", Chunks: []int{65536}},
	{Kind: "writer", Type: "text", Chunks: []int{3, 0, 4}},
	{Kind: "writer", Type: "binary", Chunks: []int{200, 5000}}, // crosses every threshold on the first write
	{Kind: "writer", Type: "text", Chunks: []int{5, 5000}},     // below threshold on the first write
	{Kind: "close", Code: 1000, ReasonLen: 3},
	{Kind: "close", Code: 4999, ReasonLen: 123},
}

type c02Case struct {
	Via       string  `json:"via"`  // direct (VerifNewConn) | accept | dial
	Role      string  `json:"role"` // client | server (endpoint under test)
	Comp      string  `json:"negotiated,omitempty"`
	Mode      string  `json:"library_mode,omitempty"` // accept/dial
	Ext       string  `json:"peer_extension_header"`  // accept: the foreign client's offer; dial: the foreign server's response
	Want      string  `json:"expected_negotiated"`    // accept/dial: combination the case is meant to obtain
	Threshold int     `json:"threshold"`
	Ops       []c02Op `json:"program"`
	Seed      int64   `json:"seed"`
}

var c02Comps = []string{"off", "takeover-both", "client-nct", "server-nct", "nct-both"}
var c02Thresholds = []int{0, 1, 200}

func c02CompLabel(on, cn, sn bool) string {
	switch {
	case !on:
		return "off"
	case cn && sn:
		return "nct-both"
	case cn:
		return "client-nct"
	case sn:
		return "server-nct"
	}
	return "takeover-both"
}

func c02CompFlags(label string) (on, cn, sn bool) {
	switch label {
	case "takeover-both":
		return true, false, false
	case "client-nct":
		return true, true, false
	case "server-nct":
		return true, false, true
	case "nct-both":
		return true, true, true
	}
	return false, false, false
}

const c02Text = "abcdefghijklmnopqrstuvwxyz0123456789\n"
const c02ReasonText = "bye, and thanks for all the frames; "

// c02Reason: n < 10000: n ASCII bytes; n >= 10000: n-10000 two-byte characters
// (the limit of 123 is on bytes, not on characters).
func c02Reason(n int) string {
	if n >= 10000 {
		return strings.Repeat("é", n-10000)
	}
	var sb strings.Builder
	for sb.Len() < n {
		sb.WriteString(c02ReasonText)
	}
	return sb.String()[:n]
}

// c02Payload: text = period-37 text; binary = pseudo-random first half (from
// the seed), period-37 text second half. The same op always has the same
// content, so a repeated op is fully redundant with its predecessor.
func c02Payload(typ string, n int, seed int64) []byte {
	p := make([]byte, n)
	start := 0
	if typ == "binary" {
		start = n / 2
		x := uint64(seed)*0x9E3779B97F4A7C15 + uint64(n) + 77
		for i := 0; i < start; i++ {
			x ^= x << 13
			x ^= x >> 7
			x ^= x << 17
			p[i] = byte(x >> 32)
		}
	}
	for i := start; i < n; i++ {
		p[i] = c02Text[i%len(c02Text)]
	}
	return p
}

type c02Sent struct {
	op      byte
	payload []byte
}

var c02Poisoned bool

const c02PoisonNote = "stopped after a library panic (reported as C02/panic): package-level state of the library is no longer trustworthy in this process"

func c02LenClass(n int) string {
	switch {
	case n == 0:
		return "0"
	case n <= 125:
		return "s"
	case n <= 65535:
		return "m"
	}
	return "l"
}

func c02One(c *fw.Ctx, cs c02Case) {
	c.Eval()
	ctx := context.Background()
	isClient := cs.Role == "client"

	// the peer's answer to the program's Close call (if any), then EOF
	var script []byte
	for _, op := range cs.Ops {
		if op.Kind != "close" {
			continue
		}
		reason := c02Reason(op.ReasonLen)
		var echo []byte
		switch {
		case frame.ValidCloseCode(op.Code) && len(reason) <= 123:
			echo = frame.ClosePayload(op.Code, reason)
		case op.Code == 1005:
			echo = nil
		default:
			echo = frame.ClosePayload(1000, "")
		}
		script = frame.Ctl(frame.OpClose, !isClient, echo).Encode(nil)
		break
	}
	wire := &c02Wire{in: script}

	// deterministic masking keys
	rnd := &c02Rand{}
	saved := crand.Reader
	crand.Reader = rnd
	defer func() { crand.Reader = saved }()

	var conn *websocket.Conn
	var setupErr string
	peerExt := "" // the extension header a foreign peer would go by
	pan := fw.Recover(func() {
		switch cs.Via {
		case "direct":
			on, cn, sn := c02CompFlags(cs.Comp)
			var comp *websocket.VerifCompression
			if on {
				comp = &websocket.VerifCompression{ClientNoContextTakeover: cn, ServerNoContextTakeover: sn}
			}
			conn = websocket.VerifNewConn(wire, isClient, comp, cs.Threshold)
		case "accept":
			hdr := http.Header{}
			hdr["Connection"] = []string{"Upgrade"}
			hdr["Upgrade"] = []string{"websocket"}
			hdr["Sec-Websocket-Version"] = []string{"13"}
			hdr["Sec-Websocket-Key"] = []string{"dGhlIHNhbXBsZSBub25jZQ=="}
			if cs.Ext != "" {
				hdr["Sec-Websocket-Extensions"] = []string{cs.Ext}
			}
			req := &http.Request{Method: "GET", URL: &url.URL{Path: "/"}, RequestURI: "/", Proto: "HTTP/1.1", ProtoMajor: 1, ProtoMinor: 1,
				Header: hdr, Host: "example.com", Body: http.NoBody, RemoteAddr: "192.0.2.1:1234"}
			w := &c02RespWriter{h: http.Header{}, conn: wire}
			var err error
			conn, err = websocket.Accept(w, req, &websocket.AcceptOptions{CompressionMode: c02Mode(cs.Mode), CompressionThreshold: cs.Threshold})
			if err != nil || conn == nil || w.status != 101 {
				setupErr = fmt.Sprintf("Accept failed: %v (status %d)", err, w.status)
				return
			}
			peerExt = strings.Join(w.sent["Sec-Websocket-Extensions"], ", ")
		case "dial":
			rt := &c02RT{ext: cs.Ext, wire: wire}
			var err error
			conn, _, err = websocket.Dial(ctx, "ws://example.com/c02", &websocket.DialOptions{
				HTTPClient: &http.Client{Transport: rt}, CompressionMode: c02Mode(cs.Mode), CompressionThreshold: cs.Threshold})
			if err != nil || conn == nil {
				setupErr = fmt.Sprintf("Dial failed: %v", err)
				return
			}
			peerExt = cs.Ext
		default:
			setupErr = "unknown via " + cs.Via
		}
	})
	defer func() {
		if conn != nil {
			if p := fw.Recover(func() { conn.CloseNow() }); p != "" {
				c02Poisoned = true
				c.Violate("C02/panic", fmt.Sprintf("%+v: panic in CloseNow after the program: %s", cs, p), cs)
			}
		}
	}()
	if pan != "" {
		c02Poisoned = true
		c.Violate("C02/panic", fmt.Sprintf("%+v: panic while connecting: %s", cs, pan), cs)
		return
	}
	if setupErr != "" {
		// a handshake that fails is the subject of C11-C14
		c.EngineError(fmt.Sprintf("%+v: %s", cs, setupErr))
		return
	}

	// negotiated parameters: what the Conn holds, and what the peer goes by
	gotClient, gotComp, _ := websocket.VerifConnInfo(conn)
	if gotClient != isClient {
		c.EngineError(fmt.Sprintf("%+v: connection role client=%v", cs, gotClient))
		return
	}
	connLabel := "off"
	if gotComp != nil {
		connLabel = c02CompLabel(true, gotComp.ClientNoContextTakeover, gotComp.ServerNoContextTakeover)
	}
	deflateOn, senderNCT := false, false
	if cs.Via == "direct" {
		on, cn, sn := c02CompFlags(cs.Comp)
		deflateOn = on
		senderNCT = sn
		if isClient {
			senderNCT = cn
		}
	} else {
		deflateOn = strings.Contains(peerExt, "permessage-deflate")
		if isClient {
			senderNCT = strings.Contains(peerExt, "client_no_context_takeover")
		} else {
			senderNCT = strings.Contains(peerExt, "server_no_context_takeover")
		}
		if connLabel != cs.Want {
			// coverage, not conformance: the case did not obtain the combination it was written for
			c.NotExhaustive(fmt.Sprintf("C02 hs: %s under mode %s with peer header %q gave %s, the case was written to obtain %s", cs.Via, cs.Mode, cs.Ext, connLabel, cs.Want))
		}
	}
	randStart := rnd.pos
	locus := cs.Role + "/" + connLabel

	// run the program
	var sent []c02Sent
	var closeOp *c02Op
	for i := range cs.Ops {
		op := cs.Ops[i]
		var err error
		step := op.String()
		var payload []byte
		p := fw.Recover(func() {
			switch op.Kind {
			case "close":
				closeOp = &cs.Ops[i]
				conn.Close(websocket.StatusCode(op.Code), c02Reason(op.ReasonLen)) // its result is the subject of C06
			case "write":
				payload = c02Payload(op.Type, op.Chunks[0], cs.Seed)
				err = conn.Write(ctx, c02Type(op.Type), append([]byte(nil), payload...))
			case "writer":
				total := 0
				for _, n := range op.Chunks {
					total += n
				}
				payload = c02Payload(op.Type, total, cs.Seed)
				arg := append([]byte(nil), payload...)
				var w io.WriteCloser
				w, err = conn.Writer(ctx, c02Type(op.Type))
				if err != nil {
					return
				}
				off := 0
				for _, n := range op.Chunks {
					if _, err = w.Write(arg[off : off+n]); err != nil {
						return
					}
					off += n
				}
				err = w.Close()
			}
		})
		if p != "" {
			c02Poisoned = true
			c.Violate("C02/panic", fmt.Sprintf("%+v: op %d %s: panic: %s", cs, i, step, p), cs)
			return
		}
		if closeOp != nil {
			break // a Close ends the program
		}
		if err != nil {
			c.Violate("C02/write-error/"+locus, fmt.Sprintf("%+v: op %d %s failed on a transport that never fails: %v", cs, i, step, err), cs)
			return
		}
		opc := byte(frame.OpBinary)
		if op.Type == "text" {
			opc = frame.OpText
		}
		sent = append(sent, c02Sent{opc, payload})
	}

	log := append([]byte(nil), wire.bytes()...)
	res := frame.Validate(log, frame.StreamRules{SenderIsClient: isClient, Deflate: deflateOn})
	reported := map[string]bool{}
	violate := func(class, detail string) {
		if !reported[class] {
			reported[class] = true
			c.Violate(class, fmt.Sprintf("%+v: %s", cs, detail), cs)
		}
	}
	for _, v := range res.Violations {
		violate("C02/wire/"+v.Rule+"/"+locus, fmt.Sprintf("frame %d of %d (%v): %s", v.Frame, len(res.Frames), res.Frames[v.Frame], v.Msg))
	}
	if len(res.Rest) > 0 {
		violate("C02/wire/truncated-frame/"+locus, fmt.Sprintf("the emitted stream ends inside a frame (%d bytes after %d complete frames)", len(res.Rest), len(res.Frames)))
	}

	// masking keys: frame i of a client carries exactly the next 4 bytes of the source
	if isClient {
		allMasked := true
		for _, f := range res.Frames {
			allMasked = allMasked && f.Masked
		}
		if allMasked {
			for i, f := range res.Frames {
				var want [4]byte
				for k := 0; k < 4; k++ {
					want[k] = c02RandByte(randStart + int64(4*i+k))
				}
				if f.Key != want {
					violate("C02/mask-key-not-fresh/"+cs.Role, fmt.Sprintf("frame %d of %d carries masking key %x; the next 4 unused bytes of the randomness source are %x (frame %d would be the first with a key not drawn freshly from the source)", i, len(res.Frames), f.Key, want, i))
					break
				}
			}
			seen := map[[4]byte]int{}
			for i, f := range res.Frames {
				if j, dup := seen[f.Key]; dup {
					violate("C02/mask-key-not-fresh/"+cs.Role, fmt.Sprintf("frames %d and %d carry the same masking key %x", j, i, f.Key))
					break
				}
				seen[f.Key] = i
			}
		}
	}

	// reconstruction by the independent receiver
	inf := &deflate.Inflater{NoContextTakeover: senderNCT}
	type recon struct {
		op byte
		p  []byte
	}
	var got []recon
	decodable := true
	for i, m := range res.Messages {
		p := m.Payload
		if m.Compressed {
			if !deflateOn {
				violate("C02/compressed-without-negotiation", fmt.Sprintf("message %d has RSV1 set although permessage-deflate was not negotiated", i))
				decodable = false
				break
			}
			out, err := inf.Message(m.Payload)
			if err != nil {
				violate("C02/undecodable-compressed-message/"+locus,
					fmt.Sprintf("message %d (%d compressed bytes in %d frames) does not inflate with sender no_context_takeover=%v: %v (%d bytes came out)", i, len(m.Payload), m.Frames, senderNCT, err, len(out)))
				decodable = false
				break
			}
			p = out
		}
		got = append(got, recon{m.Opcode, p})
	}
	if decodable {
		diff := ""
		if len(got) != len(sent) || res.InMessage {
			diff = fmt.Sprintf("%d messages written, %d complete messages on the wire (stream ends inside a message: %v)", len(sent), len(got), res.InMessage)
		} else {
			for i := range sent {
				if got[i].op != sent[i].op {
					diff = fmt.Sprintf("message %d written with opcode %d, on the wire opcode %d", i, sent[i].op, got[i].op)
					break
				}
				if !bytes.Equal(got[i].p, sent[i].payload) {
					diff = fmt.Sprintf("message %d: written %d bytes, reconstructed %d bytes, first difference at offset %d", i, len(sent[i].payload), len(got[i].p), c02FirstDiff(got[i].p, sent[i].payload))
					break
				}
			}
		}
		if diff != "" {
			violate("C02/reconstructed-messages-differ/"+locus, diff)
		}
	}

	// Close frame payload
	if closeOp != nil && res.FirstClose >= 0 {
		reason := c02Reason(closeOp.ReasonLen)
		if frame.ValidCloseCode(closeOp.Code) && len(reason) <= 123 {
			want := frame.ClosePayload(closeOp.Code, reason)
			if f := res.Frames[res.FirstClose]; !bytes.Equal(f.Payload, want) {
				violate("C02/wire/close-payload-differs/"+locus, fmt.Sprintf("Close(%d, %d-byte reason) put a Close frame with payload %x… (%d bytes) on the wire, want code and reason as passed (%d bytes)", closeOp.Code, len(reason), f.Payload[:c02Min(len(f.Payload), 8)], len(f.Payload), len(want)))
			}
		}
		// non-sendable codes and long reasons: frame.Validate has already rejected any Close frame carrying them
	}

	// outcome: frame-shape signature
	var sb strings.Builder
	sb.WriteString(locus)
	for _, f := range res.Frames {
		fmt.Fprintf(&sb, "|%d%v%v%s", f.Opcode, f.Fin, f.Rsv1, c02LenClass(len(f.Payload)))
	}
	c.OutcomeStr(sb.String())
}

func c02Mode(s string) websocket.CompressionMode {
	switch s {
	case "context-takeover":
		return websocket.CompressionContextTakeover
	case "no-context-takeover":
		return websocket.CompressionNoContextTakeover
	}
	return websocket.CompressionDisabled
}

func c02Type(s string) websocket.MessageType {
	if s == "text" {
		return websocket.MessageText
	}
	return websocket.MessageBinary
}

func c02FirstDiff(a, b []byte) int {
	n := c02Min(len(a), len(b))
	for i := 0; i < n; i++ {
		if a[i] != b[i] {
			return i
		}
	}
	if len(a) != len(b) {
		return n
	}
	return -1
}

func c02Min(a, b int) int {
	if a < b {
		return a
	}
	return b
}

// ---------------------------------------------------------------- enumeration

// c02Programs lists all programs up to maxLen ops over alpha in which a Close,
// if any, is the last op; shortest first.
func c02Programs(alpha []c02Op, maxLen int) [][]c02Op {
	var out [][]c02Op
	var cur []c02Op
	var rec func(l int)
	for l := 1; l <= maxLen; l++ {
		l := l
		rec = func(d int) {
			if d == l {
				out = append(out, append([]c02Op(nil), cur...))
				return
			}
			for _, op := range alpha {
				if op.Kind == "close" && d != l-1 {
					continue
				}
				cur = append(cur, op)
				rec(d + 1)
				cur = cur[:len(cur)-1]
			}
		}
		rec(0)
	}
	return out
}

type c02Cfg struct {
	via, role, comp, mode, ext, want string
	threshold                        int
}

func c02DirectCfgs() []c02Cfg {
	var out []c02Cfg
	for _, role := range []string{"client", "server"} {
		for _, comp := range c02Comps {
			for _, t := range c02Thresholds {
				if comp == "off" && t != 0 {
					continue
				}
				out = append(out, c02Cfg{via: "direct", role: role, comp: comp, threshold: t})
			}
		}
	}
	return out
}

// c02HsTable: handshakes with a foreign peer. want = the parameters the library
// connection is expected to hold (checked with VerifConnInfo; a mismatch is a
// coverage note, not a violation).
var c02HsTable = []c02Cfg{
	{via: "accept", role: "server", mode: "context-takeover", ext: "permessage-deflate; client_no_context_takeover", want: "client-nct"},
	{via: "accept", role: "server", mode: "context-takeover", ext: "permessage-deflate; server_no_context_takeover", want: "server-nct"},
	{via: "accept", role: "server", mode: "context-takeover", ext: "permessage-deflate", want: "takeover-both"},
	{via: "accept", role: "server", mode: "context-takeover", ext: "permessage-deflate; client_max_window_bits", want: "takeover-both"},
	{via: "accept", role: "server", mode: "context-takeover", ext: "permessage-deflate; client_no_context_takeover; server_no_context_takeover", want: "nct-both"},
	{via: "accept", role: "server", mode: "no-context-takeover", ext: "permessage-deflate", want: "nct-both"},
	{via: "accept", role: "server", mode: "no-context-takeover", ext: "permessage-deflate; client_no_context_takeover", want: "nct-both"},
	{via: "accept", role: "server", mode: "disabled", ext: "permessage-deflate", want: "off"},
	{via: "accept", role: "server", mode: "context-takeover", ext: "", want: "off"},
	{via: "dial", role: "client", mode: "context-takeover", ext: "permessage-deflate; client_no_context_takeover", want: "client-nct"},
	{via: "dial", role: "client", mode: "context-takeover", ext: "permessage-deflate; server_no_context_takeover", want: "server-nct"},
	{via: "dial", role: "client", mode: "context-takeover", ext: "permessage-deflate", want: "takeover-both"},
	{via: "dial", role: "client", mode: "context-takeover", ext: "permessage-deflate; client_no_context_takeover; server_no_context_takeover", want: "nct-both"},
	{via: "dial", role: "client", mode: "no-context-takeover", ext: "permessage-deflate; client_no_context_takeover", want: "client-nct"},
	{via: "dial", role: "client", mode: "no-context-takeover", ext: "permessage-deflate", want: "client-nct"},
	{via: "dial", role: "client", mode: "no-context-takeover", ext: "permessage-deflate; server_no_context_takeover", want: "nct-both"},
	{via: "dial", role: "client", mode: "no-context-takeover", ext: "permessage-deflate; client_no_context_takeover; server_no_context_takeover", want: "nct-both"},
	// a valued parameter in front of the flag that decides how this endpoint compresses
	{via: "dial", role: "client", mode: "context-takeover", ext: "permessage-deflate; server_max_window_bits=15; client_no_context_takeover", want: "client-nct"},
	{via: "dial", role: "client", mode: "context-takeover", ext: "permessage-deflate; client_no_context_takeover; server_max_window_bits=15", want: "client-nct"},
	{via: "accept", role: "server", mode: "context-takeover", ext: "permessage-deflate; client_max_window_bits=15; server_no_context_takeover", want: "server-nct"},
	{via: "dial", role: "client", mode: "context-takeover", ext: "", want: "off"},
	{via: "dial", role: "client", mode: "disabled", ext: "", want: "off"},
}

func c02HsCfgs() []c02Cfg {
	var out []c02Cfg
	for _, h := range c02HsTable {
		for _, t := range c02Thresholds {
			h.threshold = t
			out = append(out, h)
		}
	}
	return out
}

func (cf c02Cfg) with(ops []c02Op, seed int64) c02Case {
	return c02Case{Via: cf.via, Role: cf.role, Comp: cf.comp, Mode: cf.mode, Ext: cf.ext, Want: cf.want, Threshold: cf.threshold, Ops: ops, Seed: seed}
}

func c02RunGrid(c *fw.Ctx, shard, nshards int, name string, progs [][]c02Op, cfgs []c02Cfg) {
	idx := 0
	sampled := false
loop:
	for _, ops := range progs { // shortest first
		for _, cf := range cfgs {
			mine := idx%nshards == shard
			idx++
			if !mine {
				continue
			}
			if c.OutOfTime() {
				c.NotExhaustive("C02 " + name + ": budget exhausted before all programs were run")
				break loop
			}
			if c02Poisoned {
				c.NotExhaustive(c02PoisonNote)
				break loop
			}
			cs := cf.with(ops, c.Seed)
			c02One(c, cs)
			if !sampled && len(ops) >= 2 && ops[0].Kind == "writer" && ops[len(ops)-1].Kind == "close" && cf.threshold == 1 && (cf.comp == "client-nct" || cf.want == "client-nct") {
				c.Sample(cs)
				sampled = true
			}
		}
	}
	c.Bound(name+"_programs", len(progs))
	c.Bound(name+"_configurations", len(cfgs))
	c.Bound(name+"_cases", len(progs)*len(cfgs))
}

func c02ProgramsRun(c *fw.Ctx, shard, nshards int) {
	depth := 3
	if c.Thorough() {
		depth = 4
	}
	c02RunGrid(c, shard, nshards, "programs", c02Programs(c02Ops, depth), c02DirectCfgs())
	c.Bound("programs_max_depth", depth)
	var names []string
	for _, op := range c02Ops {
		names = append(names, op.String())
	}
	c.Bound("ops", names)
	c.Bound("negotiated_parameters", c02Comps)
	c.Bound("thresholds", c02Thresholds)
	c.Bound("roles", []string{"client", "server"})
}

func c02HsRun(c *fw.Ctx, shard, nshards int) {
	c02RunGrid(c, shard, nshards, "hs", c02Programs(c02Ops, 2), c02HsCfgs())
	var hs []string
	for _, h := range c02HsTable {
		hs = append(hs, fmt.Sprintf("%s mode=%s peer header=%q -> %s", h.via, h.mode, h.ext, h.want))
	}
	c.Bound("hs_handshakes", hs)
}

var c02CloseCodes = []int{-1, 0, 999, 1000, 1001, 1003, 1004, 1005, 1006, 1007, 1011, 1014, 1015, 1016, 2999, 3000, 4999, 5000, 65535}
var c02CloseReasonLens = []int{0, 1, 123, 124, 125, 126, 1000, 10061, 10062, 10123}

func c02ClosePrograms() [][]c02Op {
	var out [][]c02Op
	for _, code := range c02CloseCodes {
		for _, rl := range c02CloseReasonLens {
			cl := c02Op{Kind: "close", Code: code, ReasonLen: rl}
			out = append(out, []c02Op{cl}, []c02Op{c02Ops[1], cl}, []c02Op{c02Ops[7], cl})
		}
	}
	return out
}

func c02CloseRun(c *fw.Ctx, shard, nshards int) {
	var cfgs []c02Cfg
	for _, role := range []string{"client", "server"} {
		cfgs = append(cfgs, c02Cfg{via: "direct", role: role, comp: "off"}, c02Cfg{via: "direct", role: role, comp: "takeover-both"}, c02Cfg{via: "direct", role: role, comp: "nct-both", threshold: 1})
	}
	c02RunGrid(c, shard, nshards, "close", c02ClosePrograms(), cfgs)
	c.Bound("close_codes", c02CloseCodes)
	c.Bound("close_reason_lengths", c02CloseReasonLens)
}

// c02LengthPrograms: one message of every length around the two length-class
// boundaries, by Write and by a one-write Writer.
func c02LengthPrograms() [][]c02Op {
	var out [][]c02Op
	for _, r := range [][2]int{{0, 300}, {65400, 65700}} {
		for n := r[0]; n <= r[1]; n++ {
			out = append(out, []c02Op{{Kind: "write", Type: "binary", Chunks: []int{n}}}, []c02Op{{Kind: "writer", Type: "text", Chunks: []int{n}}})
		}
	}
	return out
}

const c02NeverCompress = 1 << 30 // threshold no message reaches: compression negotiated, every message sent uncompressed

func c02LengthsRun(c *fw.Ctx, shard, nshards int) {
	var cfgs []c02Cfg
	for _, role := range []string{"client", "server"} {
		cfgs = append(cfgs, c02Cfg{via: "direct", role: role, comp: "off"}, c02Cfg{via: "direct", role: role, comp: "takeover-both", threshold: c02NeverCompress})
	}
	c02RunGrid(c, shard, nshards, "lengths", c02LengthPrograms(), cfgs)
	c.Bound("lengths_ranges", [][2]int{{0, 300}, {65400, 65700}})
}

func c02Replay(c *fw.Ctx, data json.RawMessage) {
	var cs c02Case
	if json.Unmarshal(data, &cs) != nil || len(cs.Ops) == 0 {
		c.EngineError("bad replay data")
		return
	}
	for _, op := range cs.Ops {
		if op.Kind != "close" && len(op.Chunks) == 0 {
			c.EngineError("bad replay data: message op without chunks")
			return
		}
	}
	c02One(c, cs)
}

func init() {
	fw.Register(fw.Part{Prop: "C02", Name: "programs",
		Units:  func(tier string) []fw.Unit { return fw.Shards("grid", 16, c02ProgramsRun) },
		Replay: c02Replay})
	fw.Register(fw.Part{Prop: "C02", Name: "hs",
		Units:  func(tier string) []fw.Unit { return fw.Shards("grid", 4, c02HsRun) },
		Replay: c02Replay})
	fw.Register(fw.Part{Prop: "C02", Name: "lengths",
		Units:  func(tier string) []fw.Unit { return fw.Shards("grid", 4, c02LengthsRun) },
		Replay: c02Replay})
	fw.Register(fw.Part{Prop: "C02", Name: "close",
		Units:  func(tier string) []fw.Unit { return fw.Shards("grid", 2, c02CloseRun) },
		Replay: c02Replay})
}
