package seq

import (
	"bytes"
	"context"
	"encoding/json"
	"errors"
	"fmt"
	"sync"
	"time"

	"nhooyr.io/websocket"
	"verif/fw"
	"verif/refws/deflate"
	"verif/refws/frame"
)

// C02, part fault: the k-th transport Write fails once after a short write
// (n < len(p), transient error), the connection's context stays alive, and the
// program goes on. Whatever the calls answer, the bytes on the transport stay
// a well-formed frame stream, possibly ending inside a frame: complete messages
// on the wire are written messages, in order, and a message whose write call
// returned nil is on the wire completely.

type c02FaultWire struct {
	mu     sync.Mutex
	log    []byte
	writes int
	failAt int // 1-based index of the Write call that fails; 0: never
	closed bool
}

var errC02Transient = errors.New("scripted transport: transient write error")

func (w *c02FaultWire) Read(p []byte) (int, error) { select {} }
func (w *c02FaultWire) Write(p []byte) (int, error) {
	w.mu.Lock()
	defer w.mu.Unlock()
	if w.closed {
		return 0, errXportClosed
	}
	w.writes++
	if w.writes == w.failAt {
		n := len(p) / 2
		w.log = append(w.log, p[:n]...)
		return n, errC02Transient
	}
	w.log = append(w.log, p...)
	return len(p), nil
}
func (w *c02FaultWire) Close() error {
	w.mu.Lock()
	defer w.mu.Unlock()
	w.closed = true
	return nil
}

type c02FaultCase struct {
	Client bool   `json:"client"`
	Comp   string `json:"comp"` // "" | takeover | no-takeover
	Prog   int    `json:"program"`
	FailAt int    `json:"fail_at_transport_write"`
	Prop   string `json:"prop,omitempty"` // "" = C02; "C05": frames stay atomic, received messages are written messages
}

type c02FaultOp struct {
	stream bool
	text   bool
	chunks []int
}

var c02FaultProgs = [][]c02FaultOp{
	{{false, false, []int{6000}}, {false, true, []int{10}}, {false, false, []int{300}}},
	{{true, true, []int{3000, 3000}}, {false, false, []int{5}}, {true, false, []int{100, 100}}},
	{{false, true, []int{10}}, {false, false, []int{9000}}, {false, true, []int{20}}},
}

// c02FaultRun executes the program; returns the log, per-message results and the number of transport writes.
func c02FaultRun(cs c02FaultCase) (log []byte, sent [][]byte, text []bool, errs []error, writes int, pan string) {
	w := &c02FaultWire{failAt: cs.FailAt}
	conn := websocket.VerifNewConn(w, cs.Client, mxComp(cs.Comp), 1)
	defer func() {
		// not CloseNow: its forced locks are C09's subject; the transport is simply abandoned
		w.Close()
	}()
	ctx := context.Background()
	failed := false
	pan = fw.Recover(func() {
		for i, op := range c02FaultProgs[cs.Prog] {
			if failed {
				// after a failed write the message lock may stay held (known C10 finding on
				// compressed connections): later calls get a deadline so that they return;
				// that they may fail is admissible, only what reaches the wire is judged
				var cancel context.CancelFunc
				ctx, cancel = context.WithTimeout(context.Background(), 150*time.Millisecond)
				defer cancel()
			}
			n := 0
			for _, ch := range op.chunks {
				n += ch
			}
			// compressible but message-specific content
			msg := make([]byte, n)
			for j := range msg {
				msg[j] = "abcdefghij klmnopqrstuvwxyz0123456789\n"[(j+j/37+i*5)%38]
			}
			typ := websocket.MessageBinary
			if op.text {
				typ = websocket.MessageText
			}
			var err error
			if !op.stream {
				err = conn.Write(ctx, typ, msg)
			} else {
				wr, werr := conn.Writer(ctx, typ)
				err = werr
				off := 0
				for _, ch := range op.chunks {
					if err != nil {
						break
					}
					_, err = wr.Write(msg[off : off+ch])
					off += ch
				}
				if err == nil {
					err = wr.Close()
				}
			}
			sent = append(sent, msg)
			text = append(text, op.text)
			errs = append(errs, err)
			if err != nil {
				failed = true
			}
		}
	})
	w.mu.Lock()
	defer w.mu.Unlock()
	return append([]byte(nil), w.log...), sent, text, errs, w.writes, pan
}

func c02FaultOne(c *fw.Ctx, cs c02FaultCase) {
	c.Eval()
	c.AddTraces(1)
	log, sent, text, errs, _, pan := c02FaultRun(cs)
	desc := fmt.Sprintf("%+v", cs)
	P := "C02"
	if cs.Prop != "" {
		P = cs.Prop
	}
	if pan != "" {
		c.Violate(P+"/panic/fault", desc+": "+pan, cs)
		return
	}
	res := frame.Validate(log, frame.StreamRules{SenderIsClient: cs.Client, Deflate: cs.Comp != ""})
	for _, v := range res.Violations {
		c.Violate(P+"/fault/wire/"+v.Rule, fmt.Sprintf("%s: after a transport write that failed half way the stream is no longer well-formed: %v", desc, v), cs)
		return
	}
	inf := &deflate.Inflater{NoContextTakeover: cs.Comp == "no-takeover"}
	next := 0
	seen := make([]bool, len(sent))
	for mi, m := range res.Messages {
		pl := m.Payload
		if m.Compressed {
			var err error
			if pl, err = inf.Message(m.Payload); err != nil {
				c.Violate(P+"/fault/undecodable-message", fmt.Sprintf("%s: message %d on the wire does not inflate: %v", desc, mi, err), cs)
				return
			}
		}
		found := -1
		for j := next; j < len(sent); j++ {
			if bytes.Equal(sent[j], pl) && text[j] == (m.Opcode == frame.OpText) {
				found = j
				break
			}
		}
		if found < 0 {
			c.Violate(P+"/fault/message-not-written", fmt.Sprintf("%s: complete message %d on the wire (%d bytes) is none of the messages written (in order): what follows a torn frame was read as part of it", desc, mi, len(pl)), cs)
			return
		}
		seen[found] = true
		next = found + 1
	}
	outc := ""
	for j := range errs {
		if errs[j] == nil && !seen[j] {
			c.Violate(P+"/fault/acked-write-missing", fmt.Sprintf("%s: the write of message %d returned nil but it is not completely on the wire (%d stray bytes at the end)", desc, j, len(res.Rest)), cs)
			return
		}
		outc += fmt.Sprintf("%v/%v ", errs[j] == nil, seen[j])
	}
	c.OutcomeStr(fmt.Sprintf("fault %v %s p%d: %s rest=%v", cs.Client, cs.Comp, cs.Prog, outc, len(res.Rest) > 0))
}

func c02FaultCases() []c02FaultCase {
	var out []c02FaultCase
	for _, client := range []bool{false, true} {
		for _, comp := range []string{"", "takeover", "no-takeover"} {
			for p := range c02FaultProgs {
				base := c02FaultCase{Client: client, Comp: comp, Prog: p}
				_, _, _, _, writes, _ := c02FaultRun(base)
				for k := 0; k <= writes; k++ {
					cs := base
					cs.FailAt = k
					out = append(out, cs)
				}
			}
		}
	}
	return out
}

func init() {
	fw.Register(fw.Part{
		Prop: "C05", Name: "fault",
		Units: func(tier string) []fw.Unit {
			return []fw.Unit{{ID: "short-write", Run: func(c *fw.Ctx) {
				cases := c02FaultCases()
				for _, cs := range cases {
					cs.Prop = "C05"
					c02FaultOne(c, cs)
				}
				c.AddStates(int64(len(cases)))
				c.AddTransitions(int64(len(cases)))
				c.Bound("fault_cases", len(cases))
			}}}
		},
		Replay: func(c *fw.Ctx, data json.RawMessage) {
			var cs c02FaultCase
			if json.Unmarshal(data, &cs) != nil {
				c.EngineError("bad replay data")
				return
			}
			c02FaultOne(c, cs)
		},
	})
	fw.Register(fw.Part{
		Prop: "C02", Name: "fault",
		Units: func(tier string) []fw.Unit {
			return []fw.Unit{{ID: "short-write", Run: func(c *fw.Ctx) {
				cases := c02FaultCases()
				for _, cs := range cases {
					c02FaultOne(c, cs)
				}
				c.AddStates(int64(len(cases)))
				c.AddTransitions(int64(len(cases)))
				c.Bound("fault_cases", len(cases))
				c.Bound("fault_programs", len(c02FaultProgs))
				c.Sample(cases[len(cases)/2])
			}}}
		},
		Replay: func(c *fw.Ctx, data json.RawMessage) {
			var cs c02FaultCase
			if json.Unmarshal(data, &cs) != nil {
				c.EngineError("bad replay data")
				return
			}
			c02FaultOne(c, cs)
		},
	})
}
