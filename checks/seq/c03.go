package seq

import (
	"bytes"
	"context"
	"encoding/json"
	"fmt"
	"strings"

	"nhooyr.io/websocket"
	"verif/fw"
	"verif/refws/deflate"
	"verif/refws/frame"
	"verif/refws/recv"
)

// C03: inbound decoding equals the reference decoder refws/recv.
//
// Model-path enumeration: all sequences of frame symbols up to a depth, pruned
// where the model has reached Closed / Failed / Unconstrained, each path encoded
// to bytes, cut into transport chunks in several ways and replayed against a
// real Conn over the scripted transport.

// ------------------------------------------------------------- alphabet ---

const (
	c03ZNone = iota
	c03ZWhole
	c03ZStart
	c03ZPart
	c03ZRest
	c03ZBFWhole
	c03ZBFStart
	c03ZBFStartTail
)

type c03Sym struct {
	Name                   string
	Op                     byte
	Fin                    bool
	Rsv1, Rsv2, Rsv3       bool
	Payload                []byte
	FlipMask               bool
	LenClass               int
	Declared               uint64
	Z                      int // compressed-message unit kind
	Plain                  int // index into c03Plain for Z symbols
	onlyOff, onlyOn, onlyN bool
}

var c03Plain = [][]byte{
	[]byte("hello hello hello hello"),
	{0, 1, 2, 3, 4, 0, 1, 2, 3, 4, 0, 1, 2, 3, 4, 9, 9, 9, 9, 9, 9, 9, 9, 0, 1, 2, 3, 4},
}

func c03Fill(n int) []byte {
	b := make([]byte, n)
	for i := range b {
		b[i] = byte('A' + i%23)
	}
	return b
}

var c03Symbols = func() []c03Sym {
	var s []c03Sym
	one := []byte("a")
	long := c03Fill(126)
	ops := []struct {
		n  string
		op byte
	}{{"T", frame.OpText}, {"B", frame.OpBinary}, {"C", frame.OpCont}}
	for _, o := range ops {
		for _, fin := range []bool{true, false} {
			fs := "0"
			if fin {
				fs = "1"
			}
			s = append(s,
				c03Sym{Name: o.n + fs + "e", Op: o.op, Fin: fin},
				c03Sym{Name: o.n + fs + "a", Op: o.op, Fin: fin, Payload: one},
				c03Sym{Name: o.n + fs + "L", Op: o.op, Fin: fin, Payload: long})
		}
	}
	s = append(s,
		// compressed messages, generated as units by the stateful sender c03Gen
		c03Sym{Name: "ZT1", Op: frame.OpText, Fin: true, Rsv1: true, Z: c03ZWhole, Plain: 0, onlyOn: true},
		c03Sym{Name: "ZB0start", Op: frame.OpBinary, Rsv1: true, Z: c03ZStart, Plain: 1, onlyOn: true},
		c03Sym{Name: "ZC0part", Op: frame.OpCont, Z: c03ZPart, onlyOn: true},
		c03Sym{Name: "ZC1rest", Op: frame.OpCont, Fin: true, Z: c03ZRest, onlyOn: true},
		c03Sym{Name: "ZFT1", Op: frame.OpText, Fin: true, Rsv1: true, Z: c03ZBFWhole, Plain: 0, onlyOn: true},
		c03Sym{Name: "ZFB0start", Op: frame.OpBinary, Rsv1: true, Z: c03ZBFStart, Plain: 1, onlyOn: true},
		c03Sym{Name: "ZFB0allbuttail", Op: frame.OpBinary, Rsv1: true, Z: c03ZBFStartTail, Plain: 1, onlyOn: true},
		// control frames
		c03Sym{Name: "PingE", Op: frame.OpPing, Fin: true},
		c03Sym{Name: "Ping125", Op: frame.OpPing, Fin: true, Payload: c03Fill(125)},
		c03Sym{Name: "Pong", Op: frame.OpPong, Fin: true, Payload: []byte("p")},
		c03Sym{Name: "CloseE", Op: frame.OpClose, Fin: true},
		c03Sym{Name: "Close1000bye", Op: frame.OpClose, Fin: true, Payload: frame.ClosePayload(1000, "bye")},
		c03Sym{Name: "Close1byte", Op: frame.OpClose, Fin: true, Payload: []byte{0x03}},
		c03Sym{Name: "Close999", Op: frame.OpClose, Fin: true, Payload: frame.ClosePayload(999, "")},
		c03Sym{Name: "Close1005", Op: frame.OpClose, Fin: true, Payload: frame.ClosePayload(1005, "")},
		c03Sym{Name: "Close1015", Op: frame.OpClose, Fin: true, Payload: frame.ClosePayload(1015, "x")},
		c03Sym{Name: "Close2999", Op: frame.OpClose, Fin: true, Payload: frame.ClosePayload(2999, "")},
		c03Sym{Name: "Close5000", Op: frame.OpClose, Fin: true, Payload: frame.ClosePayload(5000, "")},
		// the ends of the ranges of codes that may appear on the wire
		c03Sym{Name: "Close1014", Op: frame.OpClose, Fin: true, Payload: frame.ClosePayload(1014, "gw")},
		c03Sym{Name: "Close1016", Op: frame.OpClose, Fin: true, Payload: frame.ClosePayload(1016, "")},
		c03Sym{Name: "Close3000", Op: frame.OpClose, Fin: true, Payload: frame.ClosePayload(3000, "")},
		c03Sym{Name: "Close4999", Op: frame.OpClose, Fin: true, Payload: frame.ClosePayload(4999, "x")},
		// violations
		c03Sym{Name: "vRsv2", Op: frame.OpText, Fin: true, Rsv2: true, Payload: one},
		c03Sym{Name: "vRsv3", Op: frame.OpText, Fin: true, Rsv3: true, Payload: one},
		c03Sym{Name: "vRsv1NoNeg", Op: frame.OpText, Fin: true, Rsv1: true, Payload: one, onlyOff: true},
		c03Sym{Name: "vRsv1Ping", Op: frame.OpPing, Fin: true, Rsv1: true},
		c03Sym{Name: "vRsv1Cont", Op: frame.OpCont, Fin: true, Rsv1: true, Payload: one},
		c03Sym{Name: "vOp3", Op: 3, Fin: true, Payload: one},
		c03Sym{Name: "vOpB", Op: 0xB, Fin: true},
		c03Sym{Name: "vMask", Op: frame.OpText, Fin: true, Payload: one, FlipMask: true},
		c03Sym{Name: "vPing126", Op: frame.OpPing, Fin: true, Payload: long},
		c03Sym{Name: "vPingFrag", Op: frame.OpPing, Fin: false, Payload: one},
		c03Sym{Name: "vTopBit", Op: frame.OpBinary, Fin: true, Payload: []byte("12345"), LenClass: 2, Declared: 1<<63 | 5},
	)
	return s
}()

var c03Deep = map[string][]string{
	"off":         {"T1a", "T0a", "T0e", "B1e", "C0a", "C0e", "C1a", "C1e", "PingE", "Pong", "B0L", "C1L"},
	"takeover":    {"T1a", "T0a", "C0e", "C1a", "C1e", "PingE", "ZT1", "ZB0start", "ZC0part", "ZC1rest", "B1e", "Pong"},
	"no-takeover": {"T1a", "T0a", "C0e", "C1a", "C1e", "PingE", "ZT1", "ZB0start", "ZC0part", "ZC1rest", "ZFT1", "ZFB0start"},
}

var c03Comps = []string{"off", "takeover", "no-takeover"}

func c03Alphabet(comp string) []c03Sym {
	var out []c03Sym
	for _, s := range c03Symbols {
		switch {
		case s.onlyOff && comp != "off":
		case s.onlyOn && comp == "off":
		case s.onlyN && comp != "no-takeover":
		default:
			out = append(out, s)
		}
	}
	return out
}

func c03SubAlphabet(comp string) []c03Sym {
	var out []c03Sym
	for _, n := range c03Deep[comp] {
		for _, s := range c03Symbols {
			if s.Name == n {
				out = append(out, s)
			}
		}
	}
	return out
}

// ------------------------------------------------------------ generator ---

// c03Gen is the sending peer: it turns symbols into frames, keeping the
// compression context and the not yet sent rest of a compressed message.
type c03Gen struct {
	comp    string
	masked  bool   // frames are masked (receiver under test is a server)
	hist    string // plaintext indices compressed so far (context takeover)
	pending []byte
	open    bool // a compressed message has fragments left to send
}

var c03ZCache = map[string][]byte{}

// c03Compress returns the compressed payload of plaintext idx after the
// plaintexts in hist went through the same context (takeover only).
func c03Compress(comp, hist string, idx int, bfinal bool) []byte {
	key := fmt.Sprintf("%s|%s|%d|%v", comp, hist, idx, bfinal)
	if b, ok := c03ZCache[key]; ok {
		return b
	}
	d := &deflate.Deflater{NoContextTakeover: comp == "no-takeover"}
	if comp == "takeover" {
		for _, h := range hist {
			d.Message(c03Plain[h-'0'])
		}
	}
	var b []byte
	if bfinal {
		b = d.MessageBFinal(c03Plain[idx])
	} else {
		b = d.Message(c03Plain[idx])
	}
	c03ZCache[key] = b
	return b
}

// emit returns the frame for sym, or ok=false if the symbol is not enabled in
// the sender's state (rest-of-compressed-message symbols with nothing pending).
func (g *c03Gen) emit(sym c03Sym) (frame.Frame, bool) {
	f := frame.Frame{Fin: sym.Fin, Rsv1: sym.Rsv1, Rsv2: sym.Rsv2, Rsv3: sym.Rsv3, Opcode: sym.Op, Payload: sym.Payload,
		Masked: g.masked != sym.FlipMask, LenClass: sym.LenClass}
	if sym.Op >= 8 {
		f.Key = [4]byte{0x11, 0x22, 0x33, 0x44}
	} else {
		f.Key = [4]byte{0xA5, 0x5A, 0x3C, 0xC3}
	}
	if sym.Declared != 0 {
		f.HasDeclared, f.DeclaredLen = true, sym.Declared
	}
	switch sym.Z {
	case c03ZWhole, c03ZBFWhole:
		f.Payload = c03Compress(g.comp, g.hist, sym.Plain, sym.Z == c03ZBFWhole)
		g.hist += string(rune('0' + sym.Plain))
		g.pending, g.open = nil, false
	case c03ZStart, c03ZBFStart, c03ZBFStartTail:
		z := c03Compress(g.comp, g.hist, sym.Plain, sym.Z != c03ZStart)
		g.hist += string(rune('0' + sym.Plain))
		k := (len(z) + 2) / 3
		if sym.Z == c03ZBFStart {
			k = len(z) / 2
		}
		if sym.Z == c03ZBFStartTail {
			k = len(z) - 1
		}
		f.Payload, g.pending, g.open = z[:k], z[k:], true
	case c03ZPart:
		if !g.open {
			return f, false
		}
		k := (len(g.pending) + 1) / 2
		f.Payload, g.pending = g.pending[:k], g.pending[k:]
	case c03ZRest:
		if !g.open {
			return f, false
		}
		f.Payload, g.pending, g.open = g.pending, nil, false
	}
	return f, true
}

// ----------------------------------------------------------------- case ---

type c03Chunking struct {
	Kind string `json:"kind"` // whole | bytes | split
	Cuts []int  `json:"cuts,omitempty"`
}

type c03Case struct {
	Client bool        `json:"client"`
	Comp   string      `json:"comp"`
	Syms   []string    `json:"syms,omitempty"` // symbol names (frame paths)
	Raw    []byte      `json:"raw,omitempty"`  // raw byte string cases
	IsRaw  bool        `json:"is_raw,omitempty"`
	Chunk  c03Chunking `json:"chunking"`
	Buf    int         `json:"caller_buffer"`
	Stream string      `json:"stream_hex,omitempty"` // informational
}

func (cs c03Case) cfg() recv.Config {
	return recv.Config{ReceiverIsClient: cs.Client, Deflate: cs.Comp != "off", PeerNoContextTakeover: cs.Comp == "no-takeover"}
}

func (cs c03Case) describe() string {
	in := strings.Join(cs.Syms, " ")
	if cs.IsRaw {
		in = fmt.Sprintf("raw % x", cs.Raw)
	}
	return fmt.Sprintf("role=%s comp=%s input=[%s] chunking=%s%v caller-buffer=%d", xportRole(cs.Client), cs.Comp, in, cs.Chunk.Kind, cs.Chunk.Cuts, cs.Buf)
}

func c03Build(client bool, comp string, names []string) ([]byte, bool) {
	g := &c03Gen{comp: comp, masked: !client}
	var stream []byte
	for _, n := range names {
		found := false
		for _, s := range c03Symbols {
			if s.Name == n {
				f, ok := g.emit(s)
				if !ok {
					return nil, false
				}
				stream = f.Encode(stream)
				found = true
				break
			}
		}
		if !found {
			return nil, false
		}
	}
	return stream, true
}

func c03TraceStr(t recv.Trace) string {
	var sb strings.Builder
	for i, m := range t.Messages {
		fmt.Fprintf(&sb, "msg%d{type=%d len=%d compressed=%v bfinal=%v unconstrained=%v} ", i, m.Type, len(m.Payload), m.Compressed, m.BFinal, m.Unconstrained)
	}
	fmt.Fprintf(&sb, "pongs=%d end=%v", len(t.Pongs), t.End)
	if t.Open != nil {
		fmt.Fprintf(&sb, " open{type=%d received=%d compressed=%v}", t.Open.Type, len(t.Open.Wire), t.Open.Compressed)
	}
	return sb.String()
}

func c03ObsStr(o xportObs, sent xportSent) string {
	var sb strings.Builder
	for i, m := range o.Complete {
		d := m.Data
		suffix := ""
		if len(d) > 16 {
			d, suffix = d[:16], "…"
		}
		fmt.Fprintf(&sb, "msg%d{type=%d len=%d %x%s} ", i, m.Type, len(m.Data), d, suffix)
	}
	if o.Partial != nil {
		d := o.Partial.Data
		if len(d) > 16 {
			d = d[:16]
		}
		fmt.Fprintf(&sb, "partial{type=%d len=%d %x} ", o.Partial.Type, len(o.Partial.Data), d)
	}
	fmt.Fprintf(&sb, "err=%q fromReader=%v pongs=%d closes=%v", fmt.Sprint(o.Err), o.FromReader, len(sent.Pongs), c03Closes(sent))
	return sb.String()
}

func c03Closes(s xportSent) []string {
	var out []string
	for _, c := range s.Closes {
		out = append(out, fmt.Sprintf("(%d,%q)", c.Code, c.Reason))
	}
	return out
}

// c03Locus names, abstractly, the message at which a valid stream was refused.
func c03Locus(t recv.Trace, idx int) string {
	if idx >= len(t.Messages) {
		return "after-last-message"
	}
	kind := "plain-message"
	if t.Messages[idx].Compressed {
		kind = "compressed-message"
	}
	for j := 0; j < idx; j++ {
		if t.Messages[j].BFinal {
			return kind + "-after-bfinal-message"
		}
	}
	return kind
}

// c03Hazard names the earliest feature of the stream, located before the point
// the library reached, that is known to derail decoders which take the end of
// the DEFLATE stream for the end of the message: a discrepancy observed after
// such a feature is reported under the feature's class (one class per root
// cause instead of one per symptom).
func c03Hazard(t recv.Trace, delivered int) string {
	for i, m := range t.Messages {
		if delivered <= i {
			return ""
		}
		if m.EndedEarly {
			return "compressed-message-ended-before-final-frame"
		}
		if m.BFinal {
			later := t.Open != nil && t.Open.Compressed
			for _, m2 := range t.Messages[i+1:] {
				later = later || m2.Compressed
			}
			if later {
				return "compressed-message-after-bfinal-message"
			}
		}
	}
	if t.OpenDeflateEnded && delivered > len(t.Messages) {
		return "compressed-message-ended-before-final-frame"
	}
	return ""
}

// c03One replays one case and compares with the model trace t of the same
// stream. A discrepancy is recorded only if two immediate re-runs show the same
// one: the library arms real 5 s timers while it handles control frames, so on
// an overloaded machine a run can differ for reasons that are not properties of
// the input; such transient differences are counted and noted, never reported.
func c03One(c *fw.Ctx, sink *xportSink, cs c03Case, stream []byte, t recv.Trace) {
	if xportLockStalls >= 6 {
		// the library leaks its read lock (recorded as C03/no-termination): every further
		// case would wait 3 s per message; the rest of this unit is skipped
		if xportLockStalls == 6 {
			xportLockStalls++
			c.NotExhaustive("unit stopped early: the read lock was leaked repeatedly (see the C03/no-termination violation)")
		}
		return
	}
	c.Eval()
	class, detail := c03Try(c, cs, stream, t)
	if class == "" {
		return
	}
	for i := 0; i < 2; i++ {
		if c2, _ := c03Try(c, cs, stream, t); c2 != class {
			sink.transient++
			c.Note(fmt.Sprintf("transient discrepancy not confirmed by immediate re-run (first: %s on %s; re-run: %q)", class, cs.describe(), c2))
			return
		}
	}
	size := cs.size(len(stream))
	if !sink.want(class, size) {
		return
	}
	cs.Stream = fmt.Sprintf("%x", stream)
	if len(cs.Stream) > 400 {
		cs.Stream = cs.Stream[:400] + "…"
	}
	sink.keep(class, size, cs.describe()+"\n"+detail(), cs)
}

// c03Try runs the case once; class is "" if the observation equals the model.
func c03Try(c *fw.Ctx, cs c03Case, stream []byte, t recv.Trace) (class string, detail func() string) {
	var chunks [][]byte
	switch cs.Chunk.Kind {
	case "whole":
		chunks = xportChunks(stream)
	case "bytes":
		chunks = xportBytewise(stream)
	default:
		chunks = xportChunks(stream, cs.Chunk.Cuts...)
	}
	script := &xportScript{Chunks: chunks}
	var obs xportObs
	var conn *websocket.Conn
	panicked := fw.Recover(func() {
		conn = websocket.VerifNewConn(script, cs.Client, xportComp(cs.Comp, cs.Client), 0)
		obs = xportReadAll(context.Background(), conn, cs.Buf)
	})
	if conn != nil && !strings.Contains(obs.Stuck, "read lock") {
		// (a connection whose read lock is leaked cannot be closed either: it is abandoned)
		if p := fw.Recover(func() { conn.CloseNow() }); p != "" && panicked == "" {
			panicked = p
		}
	}
	role := xportRole(cs.Client)
	var vClass, vFormat string
	var vArgs []interface{}
	viol := func(class, format string, a ...interface{}) {
		if vClass == "" {
			vClass, vFormat, vArgs = class, format, a
		}
	}
	defer func() {
		if vClass == "" {
			return
		}
		observed := ""
		if hz := c03Hazard(t, len(obs.Complete)); hz != "" && !strings.HasPrefix(vClass, "C03/panic") {
			// attribute the discrepancy to the earliest abstract hazard the library had passed
			observed = "observed as " + vClass + ": "
			vClass = "C03/" + hz + "/" + role
		}
		class = vClass
		detail = func() string { return observed + fmt.Sprintf(vFormat, vArgs...) }
	}()
	if panicked != "" {
		where := "idle"
		if t.Open != nil {
			where = "in-plain-message"
			if t.Open.Compressed {
				where = "in-compressed-message"
			}
		}
		viol("C03/panic/"+t.End.Kind()+"/"+where+"/"+cs.Comp, "model: %s\nlibrary panicked: %s", c03TraceStr(t), panicked)
		return
	}
	sent := xportParseOut(script.Out)
	exp, got := c03Lazy(func() string { return c03TraceStr(t) }), c03Lazy(func() string { return c03ObsStr(obs, sent) })
	if obs.Stuck != "" {
		viol("C03/no-termination", "model: %s\nlibrary: %s\n%s", exp, got, obs.Stuck)
		return
	}
	if obs.Err == nil {
		viol("C03/no-termination", "model: %s\nlibrary: %s\nread loop ended without an error", exp, got)
		return
	}

	// messages completed before the end of the model trace
	want := t.Messages
	_, unconstrained := t.End.(recv.Unconstrained)
	if unconstrained && len(want) > 0 && want[len(want)-1].Unconstrained {
		want = want[:len(want)-1]
	}
	if obs.AfterEOF != "" && !unconstrained {
		viol("C03/data-after-end-of-message/"+role+"/"+cs.Comp, "%s\nmodel: %s\nlibrary: %s", obs.AfterEOF, exp, got)
	}
	if obs.AfterErr != "" && !unconstrained {
		viol("C03/failed-read-then-clean-end/"+role+"/"+cs.Comp, "a Read of the last message failed (%v); the next Read on the same reader %s\nmodel: %s\nlibrary: %s", obs.Err, obs.AfterErr, exp, got)
		return
	}
	common := len(want)
	if len(obs.Complete) < common {
		common = len(obs.Complete)
	}
	for i := 0; i < common; i++ {
		if obs.Complete[i].Type != int(want[i].Type) || !bytes.Equal(obs.Complete[i].Data, want[i].Payload) {
			viol("C03/messages-differ/"+role+"/"+cs.Comp, "message %d differs: want type=%d %d bytes %x\nmodel: %s\nlibrary: %s", i, want[i].Type, len(want[i].Payload), xportHead(want[i].Payload), exp, got)
			return
		}
	}
	if len(obs.Complete) < len(want) {
		// the library failed before the model's end of trace: it refused a valid prefix
		viol("C03/valid-stream-rejected/"+role+"/"+cs.Comp+"/"+c03Locus(t, len(obs.Complete)),
			"the stream is valid up to and including message %d, but the library delivered only %d message(s) and failed\nmodel: %s\nlibrary: %s", len(want)-1, len(obs.Complete), exp, got)
		return
	}
	// pongs: every Ping before the model's end must have been answered, in order
	pongsOK := len(sent.Pongs) >= len(t.Pongs)
	if !unconstrained && len(sent.Pongs) != len(t.Pongs) {
		pongsOK = false
	}
	if pongsOK {
		for i := range t.Pongs {
			if !bytes.Equal(sent.Pongs[i], t.Pongs[i]) {
				pongsOK = false
			}
		}
	}
	checkPongs := func() bool {
		if !pongsOK {
			viol("C03/pongs-differ", "Pongs sent %d, model %d (payloads compared in order)\nmodel: %s\nlibrary: %s", len(sent.Pongs), len(t.Pongs), exp, got)
		}
		return pongsOK
	}
	// bytes handed to the caller for a message that did not complete
	partialOK := func() bool {
		if obs.Partial == nil || len(obs.Partial.Data) == 0 {
			return true
		}
		if t.Open == nil {
			return false
		}
		if t.Open.Compressed {
			return true // prefix of an inflated payload: compared by C04, which knows the plaintext
		}
		return xportIsPrefix(obs.Partial.Data, t.Open.Wire)
	}

	switch e := t.End.(type) {
	case recv.Unconstrained:
		// nothing after this point is compared; Pings before it must have been answered
		if !checkPongs() {
			return
		}
		c.OutcomeStr(fmt.Sprintf("%s %s unconstrained %s msgs=%d", role, cs.Comp, e.Why, len(want)))
		return

	case recv.StreamEnd:
		extra := len(obs.Complete) - len(want)
		if extra > 1 || (extra == 1 && !e.InsideMessage) {
			viol("C03/messages-differ/"+role+"/"+cs.Comp, "library delivered %d complete messages, the stream holds %d\nmodel: %s\nlibrary: %s", len(obs.Complete), len(want), exp, got)
			return
		}
		if extra == 1 {
			// the truncated message was reported complete: C04's subject; here only the prefix rule
			last := obs.Complete[len(obs.Complete)-1]
			if !e.PrefixUnconstrained && !xportIsPrefix(last.Data, e.DeliveredPrefix) {
				viol("C03/delivered-bytes-not-received/"+role, "bytes delivered for the message open at the end of the stream are not a prefix of the payload bytes received (%x)\nmodel: %s\nlibrary: %s", xportHead(e.DeliveredPrefix), exp, got)
				return
			}
		}
		if !partialOK() {
			viol("C03/delivered-bytes-not-received/"+role, "bytes handed over before the failing read are not a prefix of the payload bytes received\nmodel: %s\nlibrary: %s", exp, got)
			return
		}
		if !checkPongs() {
			return
		}
		c.OutcomeStr(fmt.Sprintf("%s %s stream-end inside=%v msgs=%d pongs=%d", role, cs.Comp, e.InsideMessage, len(want), len(t.Pongs)))

	case recv.ProtocolError:
		if len(obs.Complete) > len(want) {
			viol("C03/violation-not-rejected/"+e.Rule+"/"+role, "the library delivered a complete message at or after the violating frame\nmodel: %s\nlibrary: %s", exp, got)
			return
		}
		if _, _, isClose := xportCloseErr(obs.Err); isClose {
			viol("C03/violation-not-rejected/"+e.Rule+"/"+role, "the failing read reports a CloseError as if a valid Close frame had been received\nmodel: %s\nlibrary: %s", exp, got)
			return
		}
		if len(sent.Pongs) > len(t.Pongs) {
			viol("C03/violation-not-rejected/"+e.Rule+"/"+role, "the library answered a Ping at or after the violating frame (Pongs sent %d, Pings before the violation %d)\nmodel: %s\nlibrary: %s", len(sent.Pongs), len(t.Pongs), exp, got)
			return
		}
		if !partialOK() {
			viol("C03/delivered-data-of-violating-frame/"+e.Rule, "bytes handed over before the failing read are not a prefix of the fragments received before the violation\nmodel: %s\nlibrary: %s", exp, got)
			return
		}
		if !checkPongs() {
			return
		}
		c.OutcomeStr(fmt.Sprintf("%s %s violation %s msgs=%d pongs=%d open=%v", role, cs.Comp, e.Rule, len(want), len(t.Pongs), t.Open != nil))

	case recv.CloseReceived:
		if len(obs.Complete) > len(want) {
			viol("C03/messages-differ/"+role+"/"+cs.Comp, "library delivered %d complete messages, the stream holds %d before the Close frame\nmodel: %s\nlibrary: %s", len(obs.Complete), len(want), exp, got)
			return
		}
		if !partialOK() {
			viol("C03/delivered-bytes-not-received/"+role, "bytes handed over before the failing read are not a prefix of the fragments received before the Close frame\nmodel: %s\nlibrary: %s", exp, got)
			return
		}
		code, reason, isClose := xportCloseErr(obs.Err)
		where := "idle"
		if t.Open != nil {
			where = "in-plain-message"
			if t.Open.Compressed {
				where = "in-compressed-message"
			}
		}
		if !isClose && t.Open != nil {
			// The property requires the CloseError "at a message boundary" (C06);
			// for a Close frame between the fragments of a message it only requires
			// that the read fails (checked above) and that the Close is echoed.
			isClose, code, reason = true, e.Code, e.Reason
		}
		if !isClose {
			viol("C03/close-error-differs/"+role+"/"+where, "a valid Close frame (%d,%q) was received but the failing read does not report a CloseError\nmodel: %s\nlibrary: %s", e.Code, e.Reason, exp, got)
			return
		}
		if code != e.Code || reason != e.Reason {
			viol("C03/close-error-differs/"+role+"/"+where, "CloseError (%d,%q), want (%d,%q)\nmodel: %s\nlibrary: %s", code, reason, e.Code, e.Reason, exp, got)
			return
		}
		if len(sent.Closes) != 1 || sent.Closes[0].Code != e.Code {
			viol("C03/close-echo-differs", "Close frames sent %v, want exactly one with code %d\nmodel: %s\nlibrary: %s", c03Closes(sent), e.Code, exp, got)
			return
		}
		if !checkPongs() {
			return
		}
		c.OutcomeStr(fmt.Sprintf("%s %s close %d msgs=%d pongs=%d open=%v", role, cs.Comp, e.Code, len(want), len(t.Pongs), t.Open != nil))
	}
	return
}

// size orders cases from simple to complex.
func (cs c03Case) size(streamLen int) int {
	n := len(cs.Syms)
	if cs.IsRaw {
		n = len(cs.Raw)
	}
	k := 0
	switch cs.Chunk.Kind {
	case "bytes":
		k = 1
	case "split":
		k = 1 + len(cs.Chunk.Cuts)
	}
	if cs.Buf != 4096 {
		k += 4
	}
	return n*1000000 + streamLen*100 + k
}

// c03Lazy defers building a description until a violation message needs it.
type c03Lazy func() string

func (l c03Lazy) String() string { return l() }

// c03Replays runs every chunking of one path.
func c03Replays(c *fw.Ctx, sink *xportSink, client bool, comp string, names []string, stream []byte, t recv.Trace) {
	base := c03Case{Client: client, Comp: comp, Syms: names}
	run := func(kind string, cuts []int, buf int) {
		cs := base
		cs.Chunk = c03Chunking{Kind: kind, Cuts: cuts}
		cs.Buf = buf
		c03One(c, sink, cs, stream, t)
	}
	run("whole", nil, 4096)
	run("whole", nil, 1)
	run("bytes", nil, 4096)
	run("bytes", nil, 1)
	if len(stream) <= 64 {
		for s := 1; s < len(stream); s++ {
			run("split", []int{s}, 4096)
		}
		if c.Thorough() && len(stream) <= c03PairMax {
			for s1 := 1; s1 < len(stream); s1++ {
				for s2 := s1 + 1; s2 < len(stream); s2++ {
					run("split", []int{s1, s2}, 4096)
				}
			}
		}
	}
}

const c03PairMax = 64

type c03Walker struct {
	c              *fw.Ctx
	sink           *xportSink
	shard, nshards int
	client         bool
	comp           string
	cfg            recv.Config
	alpha          []c03Sym
	maxDepth       int
	minReplayDepth int // paths shorter than this were replayed by another walk of the same configuration
	idx            int64
	states         map[string]struct{}
	nodes, mine    int64
	stop           bool
	names          []string
}

func c03AbstractState(client bool, comp string, t recv.Trace) string {
	n := len(t.Messages)
	if n > 3 {
		n = 3
	}
	hist := false
	for _, m := range t.Messages {
		if m.Compressed {
			hist = true
		}
	}
	return fmt.Sprintf("%s|%s|%s|msgs=%d|ctx=%v|pongs=%v", xportRole(client), comp, t.State, n, hist && comp == "takeover", len(t.Pongs) > 0)
}

// owner: the shortest paths (depth <= 2) all belong to shard 0, so that the unit
// listed first reports the globally smallest counter-example of a class;
// deeper paths are dealt round-robin by path index.
func (w *c03Walker) owner(depth int, idx int64) int {
	if depth <= 2 {
		return 0
	}
	return int(idx % int64(w.nshards))
}

func (w *c03Walker) walk(g c03Gen, stream []byte, depth int) {
	if w.stop {
		return
	}
	for _, sym := range w.alpha {
		g2 := g
		f, ok := g2.emit(sym)
		if !ok {
			continue
		}
		s2 := f.Encode(stream[:len(stream):len(stream)])
		w.names[depth] = sym.Name
		t := recv.Run(s2, w.cfg)
		d := depth + 1
		idx := w.idx
		w.idx++
		if d >= w.minReplayDepth {
			w.nodes++
			if w.shard == 0 {
				w.states[c03AbstractState(w.client, w.comp, t)] = struct{}{}
				w.c.AddTransitions(1)
			}
			if w.owner(d, idx) == w.shard {
				w.mine++
				if w.mine&63 == 0 && w.c.OutOfTime() {
					w.c.NotExhaustive(fmt.Sprintf("time budget reached in %s/%s at path %d", xportRole(w.client), w.comp, idx))
					w.stop = true
					return
				}
				w.c.AddTraces(1)
				names := append([]string(nil), w.names[:d]...)
				c03Replays(w.c, w.sink, w.client, w.comp, names, s2, t)
				if w.c.WantSample() && idx%9973 == 17 {
					w.c.Sample(map[string]interface{}{"role": xportRole(w.client), "comp": w.comp, "path": names, "model": c03TraceStr(t)})
				}
			}
		}
		if d < w.maxDepth {
			if _, live := t.End.(recv.StreamEnd); live {
				w.walk(g2, s2, d)
			}
		}
		if w.stop {
			return
		}
	}
}

func c03Depths(tier string) (full, deep int) {
	if tier == "thorough" {
		return 4, 5
	}
	return 3, 4
}

func c03RunPaths(c *fw.Ctx, shard, nshards int) {
	full, deep := c03Depths(c.Tier)
	states := map[string]struct{}{}
	var nodes int64
	sink := &xportSink{}
	defer sink.flush(c)
	for _, client := range []bool{true, false} {
		for _, comp := range c03Comps {
			cfg := recv.Config{ReceiverIsClient: client, Deflate: comp != "off", PeerNoContextTakeover: comp == "no-takeover"}
			// all paths up to depth `full` over the full alphabet
			w := &c03Walker{c: c, sink: sink, shard: shard, nshards: nshards, client: client, comp: comp, cfg: cfg,
				alpha: c03Alphabet(comp), maxDepth: full, minReplayDepth: 1, states: states, names: make([]string, 8)}
			w.walk(c03Gen{comp: comp, masked: !client}, nil, 0)
			nodes += w.nodes
			// paths of depth full+1..deep over the sub-alphabet (shorter ones are a subset of the above)
			w2 := &c03Walker{c: c, sink: sink, shard: shard, nshards: nshards, client: client, comp: comp, cfg: cfg,
				alpha: c03SubAlphabet(comp), maxDepth: deep, minReplayDepth: full + 1, states: states, names: make([]string, 8)}
			w2.walk(c03Gen{comp: comp, masked: !client}, nil, 0)
			nodes += w2.nodes
			if shard == 0 {
				c.Bound("alphabet_"+comp, len(w.alpha))
				c.Bound("sub_alphabet_"+comp, len(w2.alpha))
			}
		}
	}
	if shard == 0 {
		c.AddStates(int64(len(states)))
		c.Bound("paths", nodes)
	}
	c.Bound("depth_full_alphabet", full)
	c.Bound("depth_sub_alphabet", deep)
	c.Bound("split_enumeration_max_stream", 64)
	c.Bound("chunking_deviations", map[string]int{"quick": 1, "thorough": 2}[c.Tier])
}

// ------------------------------------------------------------ raw bytes ---

var c03RawAlpha = []byte{0x00, 0x01, 0x02, 0x08, 0x09, 0x0A, 0x80, 0x81, 0x82, 0x88, 0x89, 0x8A, 0xC1, 0x7E, 0x7F, 0xFE, 0xFF, 0x7D, 0x03, 0x8B}
var c03RawAlpha8 = []byte{0x00, 0x01, 0x80, 0x81, 0x82, 0x88, 0x89, 0x8A}

func c03RawOne(c *fw.Ctx, sink *xportSink, client bool, comp string, raw []byte) {
	c03RawOneBufs(c, sink, client, comp, raw, []int{4096})
}

// c03RawOneBufs: as c03RawOne with the caller's read buffer sizes given.
func c03RawOneBufs(c *fw.Ctx, sink *xportSink, client bool, comp string, raw []byte, bufs []int) {
	cfg := recv.Config{ReceiverIsClient: client, Deflate: comp != "off", PeerNoContextTakeover: comp == "no-takeover"}
	t := recv.Run(raw, cfg)
	c.AddTraces(1)
	base := c03Case{Client: client, Comp: comp, Raw: append([]byte(nil), raw...), IsRaw: true}
	for _, k := range []string{"whole", "bytes"} {
		for _, b := range bufs {
			cs := base
			cs.Chunk = c03Chunking{Kind: k}
			cs.Buf = b
			c03One(c, sink, cs, raw, t)
		}
	}
}

func c03RunRaw(c *fw.Ctx, shard, nshards int) {
	maxLen, maxLen8 := 3, 0
	if c.Thorough() {
		maxLen, maxLen8 = 4, 6
	}
	var idx, mine int64
	sink := &xportSink{}
	defer sink.flush(c)
	buf := make([]byte, 8)
	var rec func(alpha []byte, depth, max, min int)
	stop := false
	rec = func(alpha []byte, depth, max, min int) {
		if stop {
			return
		}
		if depth >= min {
			i := idx
			idx++
			if i%int64(nshards) == int64(shard) {
				mine++
				if mine&255 == 0 && c.OutOfTime() {
					c.NotExhaustive(fmt.Sprintf("time budget reached at raw string %d", i))
					stop = true
					return
				}
				for _, client := range []bool{true, false} {
					for _, comp := range c03Comps {
						c03RawOne(c, sink, client, comp, buf[:depth])
					}
				}
			}
		}
		if depth == max {
			return
		}
		for _, b := range alpha {
			buf[depth] = b
			rec(alpha, depth+1, max, min)
		}
	}
	rec(c03RawAlpha, 0, maxLen, 0)
	if maxLen8 > 0 {
		rec(c03RawAlpha8, 0, maxLen8, 5) // lengths 5..6 (shorter ones are covered by the 20-byte alphabet)
	}
	c.Bound("raw_max_len_20_byte_alphabet", maxLen)
	c.Bound("raw_max_len_8_byte_alphabet", maxLen8)
}

// --------------------------------------------------------------- replay ---

func c03Replay(c *fw.Ctx, data json.RawMessage) {
	var cs c03Case
	if json.Unmarshal(data, &cs) != nil {
		c.EngineError("bad replay data")
		return
	}
	stream := cs.Raw
	if !cs.IsRaw {
		var ok bool
		stream, ok = c03Build(cs.Client, cs.Comp, cs.Syms)
		if !ok {
			c.EngineError("replay: path cannot be generated")
			return
		}
	}
	sink := &xportSink{}
	c03One(c, sink, cs, stream, recv.Run(stream, cs.cfg()))
	sink.flush(c)
}

func init() {
	fw.Register(fw.Part{
		Prop: "C03", Name: "paths",
		Units:  func(tier string) []fw.Unit { return fw.Shards("bfs", 16, c03RunPaths) },
		Replay: c03Replay,
	})
	fw.Register(fw.Part{
		Prop: "C03", Name: "raw",
		Units:  func(tier string) []fw.Unit { return fw.Shards("strings", 16, c03RunRaw) },
		Replay: c03Replay,
	})
}
