package seq

import (
	"bytes"
	"encoding/json"
	"fmt"
	"io"
	"runtime"

	"nhooyr.io/websocket"
	"verif/fw"
	"verif/refws/deflate"
	"verif/refws/frame"
)

// C03, part after-failure: what a connection decodes does not depend on what
// happened to earlier connections of the process. Connection A fails in the
// middle of a compressed message (transport end, protocol violation, read limit,
// corrupt deflate data) and is closed; then connections B and C each receive a
// compressed fragmented message and are read alternately, a few bytes at a
// time, so that both have a message open at once. B and C deliver exactly what
// their peers sent.

type c03AfterCase struct {
	Client  bool   `json:"client"`
	Comp    string `json:"comp"`
	Failure string `json:"failure_on_a"` // none | eof | proto | limit | corrupt | abandon
	Rounds  int    `json:"rounds"`
	// ColdPools: the collector runs twice after A is closed (B and C start from empty pools)
	ColdPools bool `json:"cold_pools,omitempty"`
}

func c03AfterOne(c *fw.Ctx, cs c03AfterCase) { c03AfterOneP(c, cs, "C03") }

func c03AfterOneP(c *fw.Ctx, cs c03AfterCase, prop string) {
	c.Eval()
	c.AddTraces(1)
	masked := !cs.Client
	ctx, cancel := mxGuard(mxGuardTime)
	defer cancel()
	desc := fmt.Sprintf("%+v", cs)
	mkMsg := func(tag byte, n int) []byte {
		// half noise (so that the compressed form has some length), half text
		b := make([]byte, n)
		x := uint32(tag) * 2654435761
		for i := range b {
			x = x*1664525 + 1013904223
			if i%2 == 0 {
				b[i] = byte(x >> 24)
			} else {
				b[i] = tag + byte(i%7)
			}
		}
		return b
	}
	frames := func(payload []byte) []byte {
		d := &deflate.Deflater{NoContextTakeover: cs.Comp == "no-takeover"}
		w := d.Message(payload)
		h := len(w) / 2
		return mxEncode(frame.Frame{Fin: false, Rsv1: true, Opcode: frame.OpBinary, Masked: masked, Key: [4]byte{1, 2, 3, 4}, Payload: w[:h]},
			frame.Frame{Fin: true, Opcode: frame.OpCont, Masked: masked, Key: [4]byte{5, 6, 7, 8}, Payload: w[h:]})
	}
	for round := 0; round < cs.Rounds; round++ {
		// --- connection A
		if cs.Failure != "none" {
			full := frames(mkMsg('A', 3000))
			in := full
			switch cs.Failure {
			case "eof":
				in = full[:len(full)*3/4]
			case "proto":
				in = append(append([]byte{}, full[:len(full)/2]...), mxEncode(frame.Frame{Fin: true, Rsv2: true, Opcode: frame.OpText, Masked: masked, Payload: []byte("x")})...)
			case "corrupt":
				in = append([]byte{}, full...)
				for i := len(in) * 3 / 4; i < len(in)*3/4+10; i++ {
					in[i] ^= 0x5a
				}
			}
			ta := mxNewTransport(in)
			a := mxConn(ta, cs.Client, cs.Comp)
			if cs.Failure == "limit" {
				a.SetReadLimit(100)
			}
			if p := fw.Recover(func() {
				_, r, err := a.Reader(ctx)
				if err == nil {
					if cs.Failure == "abandon" {
						var b [10]byte
						r.Read(b[:])
					} else {
						io.Copy(io.Discard, r)
					}
				}
				a.CloseNow()
			}); p != "" {
				c.Violate(prop+"/panic/after-failure", desc+": connection A: "+p, cs)
				return
			}
		}
		if cs.ColdPools {
			runtime.GC()
			runtime.GC()
		}
		// --- connections B and C, read alternately
		type side struct {
			tag  byte
			want [][]byte // two messages per connection
			conn *websocket.Conn
			got  [][]byte
			err  error
		}
		var sides []*side
		for _, tag := range []byte{'B', 'C'} {
			w1, w2 := mkMsg(tag, 2500+int(tag)), mkMsg(tag+2, 1800+int(tag))
			dd := &deflate.Deflater{NoContextTakeover: cs.Comp == "no-takeover"}
			two := func(payload []byte) []byte {
				w := dd.Message(payload)
				h := len(w) / 2
				return mxEncode(frame.Frame{Fin: false, Rsv1: true, Opcode: frame.OpBinary, Masked: masked, Key: [4]byte{1, 2, 3, 4}, Payload: w[:h]},
					frame.Frame{Fin: true, Opcode: frame.OpCont, Masked: masked, Key: [4]byte{5, 6, 7, 8}, Payload: w[h:]})
			}
			t := mxNewTransport(append(two(w1), two(w2)...))
			sides = append(sides, &side{tag: tag, want: [][]byte{w1, w2}, conn: mxConn(t, cs.Client, cs.Comp)})
		}
		b, cc := sides[0], sides[1]
		buf := make([]byte, 97)
		readAll := func(s *side) {
			if s.err != nil {
				return
			}
			_, r, err := s.conn.Reader(ctx)
			if err != nil {
				s.err = err
				return
			}
			data, err := io.ReadAll(r)
			s.got = append(s.got, data)
			s.err = err
		}
		pan := fw.Recover(func() {
			// B's first message completely; C's first message opened and partly read; B's second
			// message completely (B reuses whatever it keeps between messages while C is in the
			// middle of one); the rest of C's first message; C's second message
			readAll(b)
			var rc io.Reader
			var part []byte
			_, rc, cc.err = cc.conn.Reader(ctx)
			if cc.err == nil {
				n, err := rc.Read(buf)
				part = append(part, buf[:n]...)
				if err != nil {
					cc.err = err
				}
			}
			readAll(b)
			if cc.err == nil {
				rest, err := io.ReadAll(rc)
				cc.got = append(cc.got, append(part, rest...))
				cc.err = err
			}
			readAll(cc)
		})
		for _, s := range sides {
			s.conn.CloseNow()
		}
		if pan != "" {
			c.Violate(prop+"/panic/after-failure", desc+": "+pan, cs)
			return
		}
		for _, s := range sides {
			if mxHung(s.err) {
				c.EngineError(desc + ": hang guard fired")
				return
			}
			ok := s.err == nil && len(s.got) == 2 && bytes.Equal(s.got[0], s.want[0]) && bytes.Equal(s.got[1], s.want[1])
			if !ok {
				c.Violate(prop+"/valid-stream-not-delivered/after-failure-of-another-connection/"+cs.Failure, fmt.Sprintf("%s, round %d: connection %c was sent two valid compressed messages (%d and %d bytes) and was read while the other connection had a message open; it delivered %d message(s), err=%v", desc, round, s.tag, len(s.want[0]), len(s.want[1]), len(s.got), s.err), cs)
				return
			}
		}
		c.AddTransitions(3)
	}
	c.OutcomeStr(fmt.Sprintf("after %v %s %s", cs.Client, cs.Comp, cs.Failure))
}

func c03AfterCases() []c03AfterCase {
	var out []c03AfterCase
	for _, client := range []bool{false, true} {
		for _, comp := range []string{"takeover", "no-takeover"} {
			for _, f := range []string{"none", "eof", "proto", "limit", "corrupt", "abandon"} {
				out = append(out, c03AfterCase{Client: client, Comp: comp, Failure: f, Rounds: 4})
				out = append(out, c03AfterCase{Client: client, Comp: comp, Failure: f, Rounds: 4, ColdPools: true})
			}
		}
	}
	return out
}

func init() {
	for _, prop := range []string{"C03", "C07", "C14"} {
		c03AfterRegister(prop)
	}
}

func c03AfterRegister(prop string) {
	fw.Register(fw.Part{
		Prop: prop, Name: "after-failure",
		Units: func(tier string) []fw.Unit {
			return []fw.Unit{{ID: "three-connections", Run: func(c *fw.Ctx) {
				cases := c03AfterCases()
				for _, cs := range cases {
					c03AfterOneP(c, cs, prop)
				}
				c.AddStates(int64(len(cases)))
				c.Bound("after_failure_cases", len(cases))
				c.Sample(cases[1])
			}}}
		},
		Replay: func(c *fw.Ctx, data json.RawMessage) {
			var cs c03AfterCase
			if json.Unmarshal(data, &cs) != nil {
				c.EngineError("bad replay data")
				return
			}
			c03AfterOneP(c, cs, prop)
		},
	})
}
