package seq

import (
	"bytes"
	"encoding/json"
	"fmt"
	"io"
	"runtime"

	"nhooyr.io/websocket"
	"verif/fw"
	"verif/refws/deflate"
	"verif/refws/frame"
)

// C03, part after-failure: what a connection decodes does not depend on what
// happened to earlier connections of the process. Connection A fails in the
// middle of a compressed message (transport end, protocol violation, read limit,
// corrupt deflate data) and is closed; then connections B and C each receive a
// compressed fragmented message and are read alternately, a few bytes at a
// time, so that both have a message open at once. B and C deliver exactly what
// their peers sent.

type c03AfterCase struct {
	Client  bool   `json:"client"`
	Comp    string `json:"comp"`
	Failure string `json:"failure_on_a"` // none | eof | proto | limit | corrupt | abandon
	Rounds  int    `json:"rounds"`
	// ColdPools: the collector runs twice after A is closed (B and C start from empty pools)
	ColdPools bool `json:"cold_pools,omitempty"`
}

func c03AfterOne(c *fw.Ctx, cs c03AfterCase) { c03AfterOneP(c, cs, "C03") }

func c03AfterOneP(c *fw.Ctx, cs c03AfterCase, prop string) {
	c.Eval()
	c.AddTraces(1)
	masked := !cs.Client
	ctx, cancel := mxGuard(mxGuardTime)
	defer cancel()
	desc := fmt.Sprintf("%+v", cs)
	mkMsg := func(tag byte, n int) []byte {
		// half noise (so that the compressed form has some length), half text
		b := make([]byte, n)
		x := uint32(tag) * 2654435761
		for i := range b {
			x = x*1664525 + 1013904223
			if i%2 == 0 {
				b[i] = byte(x >> 24)
			} else {
				b[i] = tag + byte(i%7)
			}
		}
		return b
	}
	frames := func(payload []byte) []byte {
		d := &deflate.Deflater{NoContextTakeover: cs.Comp == "no-takeover"}
		w := d.Message(payload)
		h := len(w) / 2
		return mxEncode(frame.Frame{Fin: false, Rsv1: true, Opcode: frame.OpBinary, Masked: masked, Key: [4]byte{1, 2, 3, 4}, Payload: w[:h]},
			frame.Frame{Fin: true, Opcode: frame.OpCont, Masked: masked, Key: [4]byte{5, 6, 7, 8}, Payload: w[h:]})
	}
	for round := 0; round < cs.Rounds; round++ {
		// --- connection A
		if cs.Failure != "none" {
			full := frames(mkMsg('A', 3000))
			in := full
			switch cs.Failure {
			case "eof":
				in = full[:len(full)*3/4]
			case "proto":
				in = append(append([]byte{}, full[:len(full)/2]...), mxEncode(frame.Frame{Fin: true, Rsv2: true, Opcode: frame.OpText, Masked: masked, Payload: []byte("x")})...)
			case "corrupt":
				in = append([]byte{}, full...)
				for i := len(in) * 3 / 4; i < len(in)*3/4+10; i++ {
					in[i] ^= 0x5a
				}
			}
			ta := mxNewTransport(in)
			a := mxConn(ta, cs.Client, cs.Comp)
			if cs.Failure == "limit" {
				a.SetReadLimit(100)
			}
			if p := fw.Recover(func() {
				_, r, err := a.Reader(ctx)
				if err == nil {
					if cs.Failure == "abandon" {
						var b [10]byte
						r.Read(b[:])
					} else {
						io.Copy(io.Discard, r)
					}
				}
				a.CloseNow()
			}); p != "" {
				c.Violate(prop+"/panic/after-failure", desc+": connection A: "+p, cs)
				return
			}
		}
		if cs.ColdPools {
			runtime.GC()
			runtime.GC()
		}
		// --- connections B and C, read alternately
		type side struct {
			tag  byte
			want []byte
			conn *websocket.Conn
			r    io.Reader
			got  []byte
			done bool
			err  error
		}
		var sides []*side
		for _, tag := range []byte{'B', 'C'} {
			want := mkMsg(tag, 2500+int(tag))
			t := mxNewTransport(frames(want))
			sides = append(sides, &side{tag: tag, want: want, conn: mxConn(t, cs.Client, cs.Comp)})
		}
		pan := fw.Recover(func() {
			for _, s := range sides {
				_, s.r, s.err = s.conn.Reader(ctx)
			}
			buf := make([]byte, 97)
			for open := 2; open > 0; {
				open = 0
				for _, s := range sides {
					if s.done || s.err != nil {
						continue
					}
					n, err := s.r.Read(buf)
					s.got = append(s.got, buf[:n]...)
					if err == io.EOF {
						s.done = true
					} else if err != nil {
						s.err = err
					} else {
						open++
					}
				}
			}
		})
		for _, s := range sides {
			s.conn.CloseNow()
		}
		if pan != "" {
			c.Violate(prop+"/panic/after-failure", desc+": "+pan, cs)
			return
		}
		for _, s := range sides {
			if mxHung(s.err) {
				c.EngineError(desc + ": hang guard fired")
				return
			}
			if s.err != nil || !bytes.Equal(s.got, s.want) {
				c.Violate(prop+"/valid-stream-not-delivered/after-failure-of-another-connection/"+cs.Failure, fmt.Sprintf("%s, round %d: connection %c was sent a valid %d-byte compressed message; it read %d bytes (identical prefix %d), err=%v", desc, round, s.tag, len(s.want), len(s.got), c08CommonPrefix(s.got, s.want), s.err), cs)
				return
			}
		}
		c.AddTransitions(3)
	}
	c.OutcomeStr(fmt.Sprintf("after %v %s %s", cs.Client, cs.Comp, cs.Failure))
}

func c03AfterCases() []c03AfterCase {
	var out []c03AfterCase
	for _, client := range []bool{false, true} {
		for _, comp := range []string{"takeover", "no-takeover"} {
			for _, f := range []string{"none", "eof", "proto", "limit", "corrupt", "abandon"} {
				out = append(out, c03AfterCase{Client: client, Comp: comp, Failure: f, Rounds: 4})
				out = append(out, c03AfterCase{Client: client, Comp: comp, Failure: f, Rounds: 4, ColdPools: true})
			}
		}
	}
	return out
}

func init() {
	for _, prop := range []string{"C03", "C07"} {
		c03AfterRegister(prop)
	}
}

func c03AfterRegister(prop string) {
	fw.Register(fw.Part{
		Prop: prop, Name: "after-failure",
		Units: func(tier string) []fw.Unit {
			return []fw.Unit{{ID: "three-connections", Run: func(c *fw.Ctx) {
				cases := c03AfterCases()
				for _, cs := range cases {
					c03AfterOneP(c, cs, prop)
				}
				c.AddStates(int64(len(cases)))
				c.Bound("after_failure_cases", len(cases))
				c.Sample(cases[1])
			}}}
		},
		Replay: func(c *fw.Ctx, data json.RawMessage) {
			var cs c03AfterCase
			if json.Unmarshal(data, &cs) != nil {
				c.EngineError("bad replay data")
				return
			}
			c03AfterOneP(c, cs, prop)
		},
	})
}
