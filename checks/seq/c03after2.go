package seq

import (
	"encoding/json"
	"fmt"
	"io"

	"nhooyr.io/websocket"
	"verif/fw"
	"verif/refws/frame"
)

// Part afterviolation (C03 and C08): a read has failed because of a protocol violation
// (C03) or because the message exceeded the read limit (C08), and the library has sent
// its Close frame. The application calls Read / Reader once more — a loop that logs the
// error and goes on, or a second goroutine. The bytes of the offending frame that were
// not consumed are still in the transport; they are laid out so that they form complete,
// valid frames for the endpoint's role. "Fails the read without delivering that frame's
// data as a message" / "a message exceeding the limit is never reported complete; at most
// limit+1 bytes are handed to the caller": no later read may return a message made of
// those bytes.

type c03AfterViolationCase struct {
	Prop   string `json:"prop"`
	Client bool   `json:"client"`
	Kind   string `json:"kind"` // rsv2 | rsv3 | reserved-opcode | unmasked-or-masked | over-limit | over-limit-fragmented | control-too-long | continuation-first
	API    string `json:"api"`  // read | reader
	Inner  int    `json:"inner_frames"`
}

func c03AfterViolationOne(c *fw.Ctx, cs c03AfterViolationCase) {
	c.Eval()
	c.AddTraces(1)
	masked := !cs.Client
	var inner []byte
	for i := 0; i < cs.Inner; i++ {
		inner = append(inner, frame.Data(frame.OpText, true, masked, []byte(fmt.Sprintf("SMUGGLED-%d", i))).Encode(nil)...)
	}
	limit := int64(-2) // leave the default
	var in []byte
	switch cs.Kind {
	case "rsv2", "rsv3":
		f := frame.Frame{Fin: true, Rsv2: cs.Kind == "rsv2", Rsv3: cs.Kind == "rsv3", Opcode: frame.OpBinary, Masked: masked, Payload: inner}
		in = f.Encode(nil)
	case "reserved-opcode":
		in = frame.Frame{Fin: true, Opcode: 3, Masked: masked, Payload: inner}.Encode(nil)
	case "unmasked-or-masked":
		in = frame.Frame{Fin: true, Opcode: frame.OpBinary, Masked: !masked, Payload: inner}.Encode(nil)
	case "continuation-first":
		in = frame.Frame{Fin: true, Opcode: frame.OpCont, Masked: masked, Payload: inner}.Encode(nil)
	case "control-too-long":
		pl := append(inner, make([]byte, 130)...)
		in = frame.Frame{Fin: true, Opcode: frame.OpPing, Masked: masked, Payload: pl}.Encode(nil)
	case "over-limit":
		limit = 20
		pl := append(make([]byte, 21), inner...)
		in = frame.Data(frame.OpBinary, true, masked, pl).Encode(nil)
	case "over-limit-fragmented":
		limit = 20
		in = frame.Data(frame.OpBinary, false, masked, make([]byte, 10)).Encode(nil)
		in = append(in, frame.Data(frame.OpCont, true, masked, append(make([]byte, 11), inner...)).Encode(nil)...)
	}
	// (a masked frame's payload is XORed on the wire: what the endpoint would re-parse is the
	// wire image, so the inner frames are written into the wire bytes)
	if masked || cs.Kind == "unmasked-or-masked" {
		if n := len(inner); n > 0 && len(in) >= n {
			// place the inner frames at the end of the wire image; the filler in front keeps its length
			copy(in[len(in)-n:], inner)
			if cs.Kind == "control-too-long" {
				copy(in[len(in)-130-n:], inner)
			}
		}
	}
	t := mxNewTransport(in)
	conn := mxConn(t, cs.Client, "")
	defer conn.CloseNow()
	if limit != -2 {
		conn.SetReadLimit(limit)
	}
	ctx, cancel := mxGuard(mxGuardTime)
	defer cancel()
	desc := fmt.Sprintf("%+v", cs)
	readOne := func() (typ websocket.MessageType, b []byte, err error) {
		if cs.API == "read" {
			return conn.Read(ctx)
		}
		var r io.Reader
		typ, r, err = conn.Reader(ctx)
		if err != nil {
			return
		}
		b, err = io.ReadAll(r)
		return
	}
	var first error
	var later []string
	pan := fw.Recover(func() {
		_, _, first = readOne()
		for i := 0; i < cs.Inner+1; i++ {
			typ, b, err := readOne()
			if err != nil {
				if mxHung(err) {
					first = err
				}
				return
			}
			later = append(later, fmt.Sprintf("%v:%q", typ, b))
		}
	})
	if pan != "" {
		c.Violate(cs.Prop+"/panic/afterviolation", desc+": "+pan, cs)
		return
	}
	if mxHung(first) {
		c.EngineError(desc + ": hang guard fired")
		return
	}
	c.OutcomeStr(fmt.Sprintf("afterviolation %s/%s/%v first-failed=%v later=%d", cs.Kind, cs.API, cs.Client, first != nil, len(later)))
	if first == nil {
		// (what the first read has to answer is the subject of the other parts)
		return
	}
	if len(later) > 0 {
		c.Violate(cs.Prop+"/data-of-rejected-frame-delivered-as-message/"+cs.Kind, fmt.Sprintf("%s: the read failed with %q (the library sent its Close frame); the next read(s) returned %v: bytes of the rejected frame's own payload were parsed as frames and delivered as messages the peer never sent", desc, first, later), cs)
	}
}

func c03AfterViolationCases(prop string) []c03AfterViolationCase {
	kinds := []string{"rsv2", "rsv3", "reserved-opcode", "unmasked-or-masked", "control-too-long", "continuation-first"}
	if prop == "C08" {
		kinds = []string{"over-limit", "over-limit-fragmented"}
	}
	var out []c03AfterViolationCase
	for _, client := range []bool{false, true} {
		for _, k := range kinds {
			for _, api := range []string{"read", "reader"} {
				for _, n := range []int{1, 3} {
					out = append(out, c03AfterViolationCase{Prop: prop, Client: client, Kind: k, API: api, Inner: n})
				}
			}
		}
	}
	return out
}

func init() {
	for _, prop := range []string{"C03", "C08"} {
		prop := prop
		fw.Register(fw.Part{
			Prop: prop, Name: "afterviolation",
			Units: func(tier string) []fw.Unit {
				return []fw.Unit{{ID: "read-after-rejected-frame", Run: func(c *fw.Ctx) {
					cases := c03AfterViolationCases(prop)
					for _, cs := range cases {
						c03AfterViolationOne(c, cs)
					}
					c.AddStates(int64(len(cases)))
					c.AddTransitions(int64(len(cases)))
					c.Bound("afterviolation_cases", len(cases))
				}}}
			},
			Replay: func(c *fw.Ctx, data json.RawMessage) {
				var cs c03AfterViolationCase
				if json.Unmarshal(data, &cs) != nil {
					c.EngineError("bad replay data")
					return
				}
				c03AfterViolationOne(c, cs)
			},
		})
	}
}
