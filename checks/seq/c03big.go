package seq

import (
	"encoding/json"
	"math/rand"

	"verif/fw"
	"verif/refws/deflate"
	"verif/refws/frame"
)

// C03, part big: frames around the receiver's buffer and length-class
// boundaries (4096-byte bufio, 16-/64-bit lengths), as plain, compressed and
// BFINAL-terminated compressed messages (incompressible contents, so the
// deflate stream consists of stored blocks and its length tracks the plaintext
// length byte by byte), each followed by a small message that must still be
// delivered. The full model comparison of the raw-stream part is used.

func c03BigSizes(thorough bool) []int {
	var s []int
	add := func(lo, hi int) {
		for n := lo; n <= hi; n++ {
			s = append(s, n)
		}
	}
	add(4070, 4110)
	add(8170, 8200)
	s = append(s, 10000, 12287, 12288, 12289)
	if thorough {
		add(4000, 4069)
		add(8100, 8169)
		add(16370, 16390)
		s = append(s, 65535, 65536, 65537)
	}
	return s
}

func c03BigRun(c *fw.Ctx, shard, nshards int) {
	rnd := rand.New(rand.NewSource(c.Seed*7919 + 5))
	pool := make([]byte, 70000)
	rnd.Read(pool)
	sink := &xportSink{}
	idx := 0
	next := func(client bool) []byte {
		return frame.Frame{Fin: true, Opcode: frame.OpText, Masked: !client, Key: [4]byte{9, 8, 7, 6}, Payload: []byte("next")}.Encode(nil)
	}
	for _, n := range c03BigSizes(c.Thorough()) {
		for _, client := range []bool{false, true} {
			for _, kind := range []string{"plain", "deflate", "bfinal", "bfinal-fragmented", "deflate-fragmented"} {
				mine := idx%nshards == shard
				idx++
				if !mine {
					continue
				}
				msg := pool[:n]
				comp := "off"
				var stream []byte
				mk := func(fin, rsv1 bool, op byte, pl []byte) {
					stream = append(stream, frame.Frame{Fin: fin, Rsv1: rsv1, Opcode: op, Masked: !client, Key: [4]byte{0x5a, 0xa5, 0x3c, 0xc3}, Payload: pl}.Encode(nil)...)
				}
				switch kind {
				case "plain":
					mk(true, false, frame.OpBinary, msg)
				case "deflate", "deflate-fragmented":
					comp = "no-takeover"
					pl := (&deflate.Deflater{NoContextTakeover: true}).Message(msg)
					if kind == "deflate" {
						mk(true, true, frame.OpBinary, pl)
					} else {
						mk(false, true, frame.OpBinary, pl[:len(pl)-3])
						mk(true, false, frame.OpCont, pl[len(pl)-3:])
					}
				case "bfinal", "bfinal-fragmented":
					comp = "no-takeover"
					pl := (&deflate.Deflater{NoContextTakeover: true}).MessageBFinal(msg)
					if kind == "bfinal" {
						mk(true, true, frame.OpBinary, pl)
					} else {
						mk(false, true, frame.OpBinary, pl[:100])
						mk(true, false, frame.OpCont, pl[100:])
					}
				}
				stream = append(stream, next(client)...)
				c03RawOne(c, sink, client, comp, stream)
			}
		}
	}
	// context takeover with messages around the size of the 32 KiB window: the first
	// message of the connection fills (or overfills) the window in one go when the
	// caller's buffer is large enough; the second refers back into it
	text := make([]byte, 70000)
	for i := range text {
		text[i] = "the quick brown fox jumps over the lazy dog 0123456789\n"[(i+i/97+i/8191)%55]
	}
	for _, n := range []int{32767, 32768, 32769, 40000, 70000} {
		for _, client := range []bool{false, true} {
			mine := idx%nshards == shard
			idx++
			if !mine {
				continue
			}
			def := &deflate.Deflater{}
			var stream []byte
			for _, m := range [][]byte{text[:n], append([]byte("again: "), text[n-5000:n-4700]...)} {
				stream = append(stream, frame.Frame{Fin: true, Rsv1: true, Opcode: frame.OpText, Masked: !client, Key: [4]byte{0x5a, 0xa5, 0x3c, 0xc3}, Payload: def.Message(m)}.Encode(nil)...)
			}
			stream = append(stream, next(client)...)
			c03RawOneBufs(c, sink, client, "takeover", stream, []int{4096, 32768, 65536})
		}
	}
	sink.flush(c)
	c.Bound("big_sizes", len(c03BigSizes(c.Thorough())))
}

func init() {
	fw.Register(fw.Part{
		Prop: "C03", Name: "big",
		Units:  func(tier string) []fw.Unit { return fw.Shards("frames", 8, c03BigRun) },
		Replay: func(c *fw.Ctx, data json.RawMessage) { c03Replay(c, data) },
	})
}
