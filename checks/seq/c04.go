package seq

import (
	"bytes"
	"context"
	"encoding/json"
	"errors"
	"fmt"
	"io"
	"strings"

	"nhooyr.io/websocket"
	"nhooyr.io/websocket/wsjson"
	"verif/fw"
	"verif/refws/deflate"
	"verif/refws/frame"
	"verif/refws/recv"
)

// C04: no silent truncation. Every cut offset of scripted multi-message streams
// x transport terminations x caller buffers x APIs x roles; oracle from the
// reference model refws/recv run on the full stream.

// -------------------------------------------------------------- streams ---

// c04Builder is the sending peer of a scripted stream.
type c04Builder struct {
	masked  bool
	d       *deflate.Deflater
	frames  []frame.Frame
	typ     byte
	rsv1    bool
	pending []byte
	first   bool
}

func (b *c04Builder) add(f frame.Frame) {
	f.Masked = b.masked
	i := byte(len(b.frames))
	f.Key = [4]byte{i*37 + 1, i*11 + 0x80, 0x5A ^ i, 0xC3 + i}
	b.frames = append(b.frames, f)
}

// begin starts a message; its wire payload is sent by part/rest.
func (b *c04Builder) begin(typ byte, compressed bool, payload []byte) *c04Builder {
	b.typ, b.rsv1, b.first = typ, compressed, true
	b.pending = payload
	if compressed {
		b.pending = b.d.Message(payload)
	}
	return b
}

// beginBFinal starts a compressed message whose deflate stream ends with a
// BFINAL=1 block followed by 0x00 (RFC 7692 7.2.3.4).
func (b *c04Builder) beginBFinal(typ byte, payload []byte) *c04Builder {
	b.typ, b.rsv1, b.first = typ, true, true
	b.pending = (&deflate.Deflater{NoContextTakeover: true}).MessageBFinal(payload)
	return b
}

// part sends the next n bytes (all that is left if n is larger) as a non-final fragment.
func (b *c04Builder) part(n int) *c04Builder { return b.frag(n, false) }

// rest sends what is left (possibly nothing) as the final fragment.
func (b *c04Builder) rest() *c04Builder { return b.frag(len(b.pending), true) }

func (b *c04Builder) frag(n int, fin bool) *c04Builder {
	if n > len(b.pending) {
		n = len(b.pending)
	}
	f := frame.Frame{Fin: fin, Opcode: frame.OpCont, Payload: b.pending[:n]}
	if b.first {
		f.Opcode, f.Rsv1, b.first = b.typ, b.rsv1, false
	}
	b.pending = b.pending[n:]
	b.add(f)
	return b
}

func (b *c04Builder) ctl(op byte, payload []byte) *c04Builder {
	b.add(frame.Frame{Fin: true, Opcode: op, Payload: payload})
	return b
}

type c04Spec struct {
	Name    string
	Comp    string
	JSON    bool // every message is a JSON text: wsjson.Read is exercised
	NetConn int  // message type if all messages have the same one (NetConn is exercised), else 0
	Build   func(b *c04Builder)
}

// c04BigSpecs: messages whose frames are larger than the library's 4096-byte buffers.
var c04BigSpecs = []c04Spec{
	{Name: "binary-big", Comp: "off", NetConn: frame.OpBinary, Build: func(b *c04Builder) {
		b.begin(frame.OpBinary, false, c04Noise(9000, 1)).rest()
		b.begin(frame.OpBinary, false, c04Noise(10000, 2)).part(5000).rest()
		b.begin(frame.OpBinary, false, []byte("after")).rest()
	}},
}

func c04Text(n int, seed byte) []byte {
	b := make([]byte, n)
	for i := range b {
		b[i] = 'a' + (byte(i)*7+seed)%26
	}
	return b
}

func c04Noise(n int, seed uint32) []byte {
	b := make([]byte, n)
	x := seed*2654435761 + 12345
	for i := range b {
		x = x*1664525 + 1013904223
		b[i] = byte(x >> 24)
	}
	return b
}

var c04Specs = []c04Spec{
	{Name: "plain-mixed", Comp: "off", Build: func(b *c04Builder) {
		b.begin(frame.OpText, false, []byte("hello")).rest()
		b.begin(frame.OpBinary, false, []byte("abcdef")).part(2).ctl(frame.OpPing, []byte("p1")).part(3).ctl(frame.OpPong, []byte("x")).rest()
		b.begin(frame.OpText, false, []byte("xyz")).part(3).rest()    // empty final fragment
		b.begin(frame.OpBinary, false, []byte("data")).part(0).rest() // empty first fragment
		b.ctl(frame.OpPing, nil)
		b.begin(frame.OpText, false, c04Text(130, 3)).rest() // 16-bit length
		b.begin(frame.OpBinary, false, nil).rest()           // empty message
		b.begin(frame.OpText, false, []byte("tail")).part(1).part(0).rest()
	}},
	{Name: "json-text", Comp: "off", JSON: true, NetConn: frame.OpText, Build: func(b *c04Builder) {
		b.begin(frame.OpText, false, []byte(`12345`)).part(2).rest() // every fragment prefix is itself valid JSON
		b.begin(frame.OpText, false, []byte(`{"a":[1,2]}`)).rest()
		// white space after the value, as encoders that end documents with a newline send it:
		// the value is complete before the message is
		b.begin(frame.OpText, false, []byte("{\"b\":[3]}\n")).rest()
		b.begin(frame.OpText, false, []byte("[4,5] \n")).part(5).rest()
		b.begin(frame.OpText, false, []byte(`7`)).part(1).rest() // empty final fragment
		b.begin(frame.OpText, false, []byte(`"s"`)).part(0).rest()
		b.begin(frame.OpText, false, []byte(`[1,2]`)).part(3).ctl(frame.OpPing, []byte("k")).rest()
		b.begin(frame.OpText, false, []byte(`true`)).rest()
		b.begin(frame.OpText, false, []byte(`"`+string(c04Text(130, 1))+`"`)).rest()
		b.begin(frame.OpText, false, []byte(`900`)).part(1).part(1).rest()
	}},
	{Name: "deflate-bfinal", Comp: "no-takeover", NetConn: frame.OpBinary, Build: func(b *c04Builder) {
		// the final deflate block ends before the message does: the 0x00 travels in later fragments
		p := append(c04Noise(30, 5), c04Text(90, 3)...)
		b.beginBFinal(frame.OpBinary, p).rest()
		n := len((&deflate.Deflater{NoContextTakeover: true}).MessageBFinal(p))
		b.beginBFinal(frame.OpBinary, p).part(n - 1).rest()
		b.beginBFinal(frame.OpBinary, p).part(n-1).ctl(frame.OpPing, []byte("p")).part(0).rest()
		b.beginBFinal(frame.OpBinary, p).part(20).part(n - 21).rest()
		b.begin(frame.OpBinary, false, []byte("after")).rest()
	}},
	{Name: "deflate-takeover", Comp: "takeover", Build: c04DeflateMixed},
	{Name: "deflate-no-takeover", Comp: "no-takeover", Build: c04DeflateMixed},
	{Name: "binary-long", Comp: "off", NetConn: frame.OpBinary, Build: func(b *c04Builder) {
		b.begin(frame.OpBinary, false, c04Noise(300, 1)).part(126).part(126).rest() // 16-bit headers
		b.begin(frame.OpBinary, false, []byte("0123456789")).rest()
		b.begin(frame.OpBinary, false, nil).rest()
		b.begin(frame.OpBinary, false, []byte("ABCDEFGH")).part(1).part(1).part(1).part(1).part(1).part(1).part(1).rest()
		b.begin(frame.OpBinary, false, c04Noise(70, 2)).part(35).ctl(frame.OpPing, c04Text(20, 0)).rest()
	}},
	{Name: "control-heavy", Comp: "off", NetConn: frame.OpText, Build: func(b *c04Builder) {
		b.ctl(frame.OpPing, c04Text(125, 5))
		b.begin(frame.OpText, false, []byte("fragmented text message")).part(5).ctl(frame.OpPing, c04Text(125, 9)).part(5).ctl(frame.OpPong, []byte("pp")).ctl(frame.OpPing, nil).part(5).rest()
		b.begin(frame.OpText, false, []byte("second")).rest()
		b.ctl(frame.OpClose, frame.ClosePayload(1000, "bye"))
	}},
	{Name: "deflate-takeover-json", Comp: "takeover", JSON: true, NetConn: frame.OpText, Build: c04DeflateJSON},
	{Name: "deflate-no-takeover-json", Comp: "no-takeover", JSON: true, NetConn: frame.OpText, Build: c04DeflateJSON},
	{Name: "empty-messages", Comp: "off", Build: func(b *c04Builder) {
		b.begin(frame.OpText, false, nil).rest()
		b.begin(frame.OpText, false, nil).part(0).part(0).rest()
		b.begin(frame.OpBinary, false, nil).rest()
		b.begin(frame.OpText, false, []byte("end")).rest()
	}},
	{Name: "deflate-no-takeover-long", Comp: "no-takeover", NetConn: frame.OpBinary, Build: func(b *c04Builder) {
		b.begin(frame.OpBinary, true, append(c04Noise(150, 7), c04Text(150, 2)...)).part(70).part(70).rest()
		b.begin(frame.OpBinary, true, c04Text(400, 4)).part(10).ctl(frame.OpPing, nil).part(10).rest()
		b.begin(frame.OpBinary, false, []byte("plain between")).rest()
		b.begin(frame.OpBinary, true, c04Noise(100, 9)).part(50).part(1000).rest() // empty final fragment
		b.ctl(frame.OpClose, frame.ClosePayload(1001, ""))
	}},
}

func c04DeflateMixed(b *c04Builder) {
	p1 := []byte("hello hello hello hello, compressed world")
	p2 := append(c04Noise(40, 3), c04Text(60, 8)...)
	b.begin(frame.OpText, true, p1).rest()
	b.begin(frame.OpBinary, true, p2).part(20).ctl(frame.OpPing, []byte("z")).part(20).rest() // 3 fragments
	b.begin(frame.OpText, false, []byte("plain")).rest()
	b.begin(frame.OpText, true, p1).part(1000).rest() // back-reference under takeover; empty final fragment
	b.begin(frame.OpBinary, true, p2).part(0).part(7).rest()
	b.begin(frame.OpText, true, c04Text(200, 6)).rest()
}

func c04DeflateJSON(b *c04Builder) {
	b.begin(frame.OpText, true, []byte(`{"name":"value","list":[1,2,3,4,5,6,7,8,9,10]}`)).part(9).rest()
	b.begin(frame.OpText, true, []byte(`{"name":"value","list":[1,2,3,4,5,6,7,8,9,10],"more":true}`)).part(5).ctl(frame.OpPing, []byte("j")).part(5).rest()
	b.begin(frame.OpText, false, []byte(`12345`)).part(2).rest()
	b.begin(frame.OpText, true, []byte(`"`+string(c04Text(150, 2))+`"`)).part(1000).rest()
}

// c04Stream is a built stream for one role with everything the oracle needs.
type c04Stream struct {
	spec   c04Spec
	client bool
	bytes  []byte
	trace  recv.Trace
	canon  []string // canonical JSON of each message (JSON streams)
	// closeEnd: offset one past a Close frame with code 1000/1001, or -1
	closeEnd int
}

func c04BuildStream(spec c04Spec, client bool) (*c04Stream, error) {
	b := &c04Builder{masked: !client, d: &deflate.Deflater{NoContextTakeover: spec.Comp == "no-takeover"}}
	spec.Build(b)
	s := &c04Stream{spec: spec, client: client, closeEnd: -1}
	for _, f := range b.frames {
		s.bytes = f.Encode(s.bytes)
	}
	cfg := recv.Config{ReceiverIsClient: client, Deflate: spec.Comp != "off", PeerNoContextTakeover: spec.Comp == "no-takeover"}
	s.trace = recv.Run(s.bytes, cfg)
	switch e := s.trace.End.(type) {
	case recv.StreamEnd:
		if e.InsideMessage {
			return nil, fmt.Errorf("stream %s: model ends inside a message", spec.Name)
		}
	case recv.CloseReceived:
		if e.Code == 1000 || e.Code == 1001 {
			last := s.trace.Frames[len(s.trace.Frames)-1]
			s.closeEnd = last.Offset + last.HeaderLen + last.PayloadLen
		}
		if s.closeEnd != len(s.bytes) {
			return nil, fmt.Errorf("stream %s: Close frame is not the last frame", spec.Name)
		}
	default:
		return nil, fmt.Errorf("stream %s: model says %v", spec.Name, s.trace.End)
	}
	for _, m := range s.trace.Messages {
		if m.Unconstrained {
			return nil, fmt.Errorf("stream %s: unconstrained message", spec.Name)
		}
		if spec.NetConn != 0 && int(m.Type) != spec.NetConn {
			return nil, fmt.Errorf("stream %s: message type %d in a NetConn stream", spec.Name, m.Type)
		}
		if spec.JSON {
			cj, err := c04Canon(m.Payload)
			if err != nil {
				return nil, fmt.Errorf("stream %s: message is not JSON: %v", spec.Name, err)
			}
			s.canon = append(s.canon, cj)
		}
	}
	// self-check: the model run on every truncated stream agrees with the offsets of the full run
	for k := 0; k <= len(s.bytes); k++ {
		tk := recv.Run(s.bytes[:k], cfg)
		n := 0
		for _, m := range s.trace.Messages {
			if m.End <= k {
				n++
			}
		}
		if len(tk.Messages) != n {
			return nil, fmt.Errorf("stream %s cut %d: truncated model run completes %d messages, offsets say %d", spec.Name, k, len(tk.Messages), n)
		}
		p := s.at(k)
		if se, ok := tk.End.(recv.StreamEnd); ok && se.InsideMessage != p.started {
			return nil, fmt.Errorf("stream %s cut %d: truncated model run InsideMessage=%v, offsets say %v", spec.Name, k, se.InsideMessage, p.started)
		}
	}
	return s, nil
}

func c04Canon(b []byte) (string, error) {
	var v interface{}
	if err := json.Unmarshal(b, &v); err != nil {
		return "", err
	}
	out, err := json.Marshal(v)
	return string(out), err
}

// c04Pos describes a cut offset.
type c04Pos struct {
	nBefore  int    // messages whose final frame ends at or before the cut
	cut      int    // index of the message that contains the cut, -1 if none
	started  bool   // the first frame header of that message is completely before the cut
	where    string // abstract position class
	received int    // uncompressed cut message: payload bytes located before the cut; -1 if compressed
	closed   bool   // a Close frame with 1000/1001 lies completely before the cut
	inCtl    bool   // the cut lies inside a control frame (header or payload)
}

func (s *c04Stream) at(k int) c04Pos {
	p := c04Pos{cut: -1, where: "idle", received: -1}
	for i, m := range s.trace.Messages {
		if m.End <= k {
			p.nBefore++
		} else {
			p.cut = i
			break
		}
	}
	p.closed = s.closeEnd >= 0 && k >= s.closeEnd
	if p.cut < 0 {
		return p
	}
	m := s.trace.Messages[p.cut]
	received := 0
	for _, f := range s.trace.Frames {
		if f.Msg != p.cut {
			continue
		}
		data := f.Opcode < 8
		hdrEnd := f.Offset + f.HeaderLen
		end := hdrEnd + f.PayloadLen
		if data && f.Offset == m.Start && k >= hdrEnd {
			p.started = true
		}
		if data {
			switch {
			case k >= end:
				received += f.PayloadLen
			case k > hdrEnd:
				received += k - hdrEnd
			}
		}
		if !p.started {
			continue
		}
		if !data && k > f.Offset && k < end {
			p.inCtl = true
		}
		switch {
		case k == f.Offset || k == end:
			p.where = "between-fragments"
		case k > f.Offset && k < hdrEnd:
			p.where = "inside-header"
		case k == hdrEnd:
			p.where = "after-header"
		case k > hdrEnd && k < end:
			p.where = "inside-payload"
			if data && f.Fin && m.Compressed {
				p.where = "inside-compressed-final-frame"
			}
		}
	}
	if !m.Compressed {
		p.received = received
	}
	return p
}

// ---------------------------------------------------------------- cases ---

var c04Terms = []string{"eof", "unexpected-eof", "boom", "eof-with-data", "boom-with-data"}

var errC04Boom = errors.New("boom")

const (
	c04APIReader  = "reader"
	c04APIRead    = "read"
	c04APINetConn = "netconn"
	c04APIJSON    = "wsjson"
)

type c04Case struct {
	Stream string `json:"stream"`
	Client bool   `json:"client"`
	Cut    int    `json:"cut"`
	Term   string `json:"termination"`
	API    string `json:"api"`
	Buf    int    `json:"caller_buffer"` // 0 = io.ReadAll
	Extra  int    `json:"extra_short_read_at"`
	Prefix string `json:"delivered_hex,omitempty"` // informational: the bytes the transport delivered
	Where  string `json:"where,omitempty"`
}

func (cs c04Case) describe() string {
	return fmt.Sprintf("stream=%s role=%s cut=%d (%s) termination=%s api=%s caller-buffer=%d extra-short-read-at=%d", cs.Stream, xportRole(cs.Client), cs.Cut, cs.Where, cs.Term, cs.API, cs.Buf, cs.Extra)
}

func c04Script(s *c04Stream, cs c04Case) *xportScript {
	prefix := s.bytes[:cs.Cut]
	sc := &xportScript{}
	if cs.Extra > 0 {
		sc.Chunks = xportChunks(prefix, cs.Extra)
	} else {
		sc.Chunks = xportChunks(prefix)
	}
	switch cs.Term {
	case "unexpected-eof":
		sc.EndErr = io.ErrUnexpectedEOF
	case "boom":
		sc.EndErr = errC04Boom
	case "eof-with-data":
		sc.EndWithData = true
	case "boom-with-data":
		// a transport that reports its failure together with the last bytes it got (crypto/tls does)
		sc.EndErr = errC04Boom
		sc.EndWithData = true
	}
	return sc
}

type c04Obs struct {
	xportObs
	stream    []byte // NetConn: all bytes read
	streamErr error
	panicked  string
}

func c04Drive(s *c04Stream, cs c04Case) (obs c04Obs) {
	script := c04Script(s, cs)
	ctx := context.Background()
	var conn *websocket.Conn
	obs.panicked = fw.Recover(func() {
		conn = websocket.VerifNewConn(script, cs.Client, xportComp(s.spec.Comp, cs.Client), 0)
		switch cs.API {
		case c04APIReader:
			obs.xportObs = xportReadAll(ctx, conn, cs.Buf)
		case c04APIRead:
			for len(obs.Complete) < xportMaxMsgs {
				typ, b, err := conn.Read(ctx)
				if err != nil {
					if b != nil || typ != 0 {
						obs.Partial = &xportMsg{int(typ), b}
					}
					obs.Err = err
					break
				}
				obs.Complete = append(obs.Complete, xportMsg{int(typ), b})
			}
		case c04APIJSON:
			for len(obs.Complete) < xportMaxMsgs {
				var v interface{}
				if err := wsjson.Read(ctx, conn, &v); err != nil {
					obs.Err = err
					break
				}
				cj, _ := json.Marshal(v)
				obs.Complete = append(obs.Complete, xportMsg{frame.OpText, cj})
			}
		case c04APINetConn:
			nc := websocket.NetConn(ctx, conn, websocket.MessageType(s.spec.NetConn))
			if cs.Buf == 0 {
				obs.stream, obs.streamErr = io.ReadAll(nc)
				if obs.streamErr == nil {
					obs.streamErr = io.EOF
				}
				return
			}
			buf := make([]byte, cs.Buf)
			for i := 0; ; i++ {
				n, err := nc.Read(buf)
				obs.stream = append(obs.stream, buf[:n]...)
				if err != nil {
					obs.streamErr = err
					return
				}
				if i > 1<<20 {
					obs.Stuck = "NetConn.Read did not end"
					return
				}
			}
		}
	})
	if conn != nil {
		if p := fw.Recover(func() { conn.CloseNow() }); p != "" && obs.panicked == "" {
			obs.panicked = p
		}
	}
	return obs
}

func c04ErrKind(err error) string {
	switch {
	case err == nil:
		return "nil"
	case err == io.EOF:
		return "io.EOF"
	case websocket.CloseStatus(err) != -1:
		return "close-error"
	case errors.Is(err, io.EOF):
		return "wraps-eof"
	case errors.Is(err, io.ErrUnexpectedEOF):
		return "wraps-unexpected-eof"
	case errors.Is(err, errC04Boom):
		return "wraps-transport-error"
	}
	return "other"
}

// c04One runs one case and returns the violated rule's class and detail ("" if none).
func c04One(c *fw.Ctx, s *c04Stream, cs c04Case) (class, detail string) {
	p := s.at(cs.Cut)
	cs.Where = p.where
	role := xportRole(cs.Client)
	obs := c04Drive(s, cs)
	msgs := s.trace.Messages
	fail := func(cl, format string, a ...interface{}) (string, string) {
		return cl, cs.describe() + "\n" + fmt.Sprintf(format, a...)
	}
	if obs.panicked != "" {
		return fail("C04/panic/"+role+"/"+p.where, "library panicked: %s", obs.panicked)
	}
	if obs.Stuck != "" {
		return fail("C04/no-termination/"+role, "%s", obs.Stuck)
	}
	var cutPayload []byte
	cutInside := p.cut >= 0 && p.started
	if p.cut >= 0 {
		cutPayload = msgs[p.cut].Payload
		if p.received >= 0 {
			cutPayload = cutPayload[:p.received] // never more than what arrived before the cut
		}
	}

	if cs.API == c04APINetConn {
		var before []byte
		for _, m := range msgs[:p.nBefore] {
			before = append(before, m.Payload...)
		}
		got := obs.stream
		if !xportIsPrefix(before, got) {
			return fail("C04/completed-message-lost-or-altered/"+role, "NetConn delivered %d bytes, which do not start with the %d bytes of the %d messages completed before the cut; err=%v", len(got), len(before), p.nBefore, obs.streamErr)
		}
		rest := got[len(before):]
		if len(rest) > 0 && !cutInside {
			return fail("C04/message-after-cut-delivered", "NetConn delivered %d bytes beyond the messages completed before the cut although no further message had started; err=%v", len(rest), obs.streamErr)
		}
		if !xportIsPrefix(rest, cutPayload) {
			return fail("C04/non-prefix-bytes/"+role+"/"+p.where, "NetConn: bytes delivered for the message containing the cut (%d: %x) are not a prefix of the payload bytes received (%d: %x); err=%v", len(rest), xportHead(rest), len(cutPayload), xportHead(cutPayload), obs.streamErr)
		}
		if obs.streamErr == nil {
			return fail("C04/no-termination/"+role, "NetConn read loop ended without error")
		}
		if obs.streamErr == io.EOF && !p.closed {
			return fail("C04/clean-eof-on-transport-end/"+role+"/"+p.where, "NetConn.Read returned io.EOF after %d bytes although the transport ended (%s) without a Close frame 1000/1001", len(got), cs.Term)
		}
		c.OutcomeStr(fmt.Sprintf("%s %s netconn %s bytes=%d rest=%d err=%s", cs.Stream, role, p.where, len(before), len(rest), c04ErrKind(obs.streamErr)))
		return "", ""
	}

	// message-oriented APIs
	equal := func(o xportMsg, i int) bool {
		if cs.API == c04APIJSON {
			return string(o.Data) == s.canon[i]
		}
		return o.Type == int(msgs[i].Type) && bytes.Equal(o.Data, msgs[i].Payload)
	}
	got := func() string {
		var parts string
		for i, m := range obs.Complete {
			parts += fmt.Sprintf("msg%d{type=%d len=%d %x} ", i, m.Type, len(m.Data), xportHead(m.Data))
		}
		if obs.Partial != nil {
			parts += fmt.Sprintf("partial{type=%d len=%d %x} ", obs.Partial.Type, len(obs.Partial.Data), xportHead(obs.Partial.Data))
		}
		return parts + fmt.Sprintf("err=%q", fmt.Sprint(obs.Err))
	}
	for i := 0; i < p.nBefore && i < len(obs.Complete); i++ {
		if !equal(obs.Complete[i], i) {
			return fail("C04/completed-message-lost-or-altered/"+role, "message %d, complete before the cut, was delivered altered (want type=%d len=%d)\nlibrary: %s", i, msgs[i].Type, len(msgs[i].Payload), got())
		}
	}
	if len(obs.Complete) < p.nBefore {
		return fail("C04/completed-message-lost-or-altered/"+role, "%d messages are complete before the cut, only %d were delivered\nlibrary: %s", p.nBefore, len(obs.Complete), got())
	}
	if obs.Err == nil {
		return fail("C04/no-termination/"+role, "read loop ended without error\nlibrary: %s", got())
	}
	if obs.AfterErr != "" {
		return fail("C04/clean-eof-after-failed-read/"+role, "the read of the message containing the cut failed (%v); reading the same message again %s\nlibrary: %s", obs.Err, obs.AfterErr, got())
	}
	extra := len(obs.Complete) - p.nBefore
	if extra > 0 {
		if !cutInside {
			return fail("C04/message-after-cut-delivered", "a message was delivered complete although no message had started before the cut\nlibrary: %s", got())
		}
		return fail("C04/clean-eof-on-transport-end/"+role+"/"+p.where, "message %d ends at offset %d, the transport ended at %d (%s), yet the read reported a clean end of message after %d of %d payload bytes\nlibrary: %s",
			p.cut, msgs[p.cut].End, cs.Cut, cs.Term, len(obs.Complete[p.nBefore].Data), len(msgs[p.cut].Payload), got())
	}
	if obs.Partial != nil && len(obs.Partial.Data) > 0 {
		if !cutInside {
			return fail("C04/message-after-cut-delivered", "bytes were delivered although no message had started before the cut\nlibrary: %s", got())
		}
		if !xportIsPrefix(obs.Partial.Data, cutPayload) {
			return fail("C04/non-prefix-bytes/"+role+"/"+p.where, "bytes handed over before the error (%d: %x) are not a prefix of the payload bytes of message %d received before the cut (%d: %x)\nlibrary: %s",
				len(obs.Partial.Data), xportHead(obs.Partial.Data), p.cut, len(cutPayload), xportHead(cutPayload), got())
		}
	}
	np := 0
	if obs.Partial != nil {
		np = len(obs.Partial.Data)
	}
	c.OutcomeStr(fmt.Sprintf("%s %s %s %s msgs=%d partial=%d err=%s", cs.Stream, role, cs.API, p.where, len(obs.Complete), np, c04ErrKind(obs.Err)))
	return "", ""
}

// ------------------------------------------------------------ enumerate ---

func c04Bufs(thorough bool) []int {
	if !thorough {
		return []int{1, 3, 64, 4096, 0}
	}
	var b []int
	for i := 1; i <= 17; i++ {
		b = append(b, i)
	}
	return append(b, 64, 127, 4096, 0)
}

func c04NumStreams(tier string) int {
	if tier == "thorough" {
		return len(c04Specs)
	}
	return 5
}

const c04QuickExtraMax = 240

func c04Run(c *fw.Ctx, shard, nshards int) {
	thorough := c.Thorough()
	bufs := c04Bufs(thorough)
	sink := &xportSink{}
	defer sink.flush(c)
	var idx, mine int64
	var lens []int
	run := func(s *c04Stream, cs c04Case) bool {
		i := idx
		idx++
		if i%int64(nshards) != int64(shard) {
			return true
		}
		mine++
		if mine&1023 == 0 && c.OutOfTime() {
			c.NotExhaustive(fmt.Sprintf("time budget reached at case %d", i))
			return false
		}
		c.Eval()
		class, detail := c04One(c, s, cs)
		if class != "" {
			// confirm by immediate re-runs (the library arms real 5 s timers while handling control frames)
			for r := 0; r < 2; r++ {
				if c2, _ := c04One(c, s, cs); c2 != class {
					sink.transient++
					c.Note(fmt.Sprintf("transient discrepancy not confirmed by immediate re-run (first: %s on %s; re-run: %q)", class, cs.describe(), c2))
					return true
				}
			}
			size := cs.Cut*100 + len(cs.Term)
			if cs.Extra > 0 {
				size += 50
			}
			if cs.API != c04APIReader {
				size += 20
			}
			if s.at(cs.Cut).inCtl {
				// a failure while a control frame is being read leaves the library's own 5 s
				// context armed; cancelling it closes the connection from the timeout
				// goroutine, racing with the caller's next call: prefer other counter-examples
				size += 1000000
			}
			if sink.want(class, size) {
				cs.Where = s.at(cs.Cut).where
				cs.Prefix = fmt.Sprintf("%x", s.bytes[:cs.Cut])
				if len(cs.Prefix) > 600 {
					cs.Prefix = cs.Prefix[:600] + "…"
				}
				sink.keep(class, size, detail, cs)
			}
		} else if c.WantSample() && i%50021 == 11 {
			cs.Where = s.at(cs.Cut).where
			c.Sample(cs)
		}
		return true
	}
	for _, spec := range c04Specs[:c04NumStreams(c.Tier)] {
		for _, client := range []bool{true, false} {
			s, err := c04BuildStream(spec, client)
			if err != nil {
				c.EngineError(err.Error())
				return
			}
			if client {
				lens = append(lens, len(s.bytes))
			}
			for k := 0; k <= len(s.bytes); k++ {
				for _, term := range c04Terms {
					if strings.HasSuffix(term, "-with-data") && k == 0 {
						continue
					}
					base := c04Case{Stream: spec.Name, Client: client, Cut: k, Term: term}
					for _, buf := range bufs {
						cs := base
						cs.API, cs.Buf = c04APIReader, buf
						if !run(s, cs) {
							return
						}
						if spec.NetConn != 0 {
							cs.API = c04APINetConn
							if !run(s, cs) {
								return
							}
						}
					}
					cs := base
					cs.API = c04APIRead
					if !run(s, cs) {
						return
					}
					if spec.JSON {
						cs.API = c04APIJSON
						if !run(s, cs) {
							return
						}
					}
					// one extra short read at every position (E <= 1)
					if thorough || len(s.bytes) <= c04QuickExtraMax {
						for j := 1; j < k; j++ {
							for _, buf := range []int{3, 4096} {
								cs := base
								cs.API, cs.Buf, cs.Extra = c04APIReader, buf, j
								if !run(s, cs) {
									return
								}
							}
						}
					}
				}
			}
		}
	}
	// streams with frames larger than every internal buffer: the library's reads go straight to the
	// transport there (a buffered reader passes a large read through, together with whatever
	// error the transport reports in the same call). Cuts around every frame boundary and header
	// end and every 499th byte; caller buffers at and above the library's read buffer size.
	for _, spec := range c04BigSpecs {
		for _, client := range []bool{true, false} {
			s, err := c04BuildStream(spec, client)
			if err != nil {
				c.EngineError(err.Error())
				return
			}
			cuts := map[int]bool{}
			fs, _ := frame.ParseAll(s.bytes)
			for _, f := range fs {
				for _, b := range []int{f.Offset, f.Offset + f.HeaderLen, f.Offset + f.HeaderLen + len(f.Payload)} {
					for d := -2; d <= 2; d++ {
						if b+d >= 0 && b+d <= len(s.bytes) {
							cuts[b+d] = true
						}
					}
				}
			}
			for k := 0; k <= len(s.bytes); k += 499 {
				cuts[k] = true
			}
			for k := 0; k <= len(s.bytes); k++ {
				if !cuts[k] {
					continue
				}
				for _, term := range c04Terms {
					if strings.HasSuffix(term, "-with-data") && k == 0 {
						continue
					}
					base := c04Case{Stream: spec.Name, Client: client, Cut: k, Term: term}
					for _, buf := range []int{100, 4096, 16384, 0} {
						cs := base
						cs.API, cs.Buf = c04APIReader, buf
						if !run(s, cs) {
							return
						}
						cs.API = c04APINetConn
						if !run(s, cs) {
							return
						}
					}
					cs := base
					cs.API = c04APIRead
					if !run(s, cs) {
						return
					}
				}
			}
		}
	}
	c.Bound("big_streams", len(c04BigSpecs))
	c.Bound("streams", c04NumStreams(c.Tier))
	c.Bound("stream_lengths", lens)
	c.Bound("terminations", c04Terms)
	c.Bound("caller_buffers_0_is_ReadAll", bufs)
	c.Bound("apis", []string{c04APIReader, c04APIRead, c04APINetConn, c04APIJSON})
	if thorough {
		c.Bound("extra_short_read", "every position of every stream")
	} else {
		c.Bound("extra_short_read", fmt.Sprintf("every position of streams <= %d bytes", c04QuickExtraMax))
	}
}

func c04Replay(c *fw.Ctx, data json.RawMessage) {
	var cs c04Case
	if json.Unmarshal(data, &cs) != nil {
		c.EngineError("bad replay data")
		return
	}
	for _, spec := range append(append([]c04Spec(nil), c04Specs...), c04BigSpecs...) {
		if spec.Name == cs.Stream {
			s, err := c04BuildStream(spec, cs.Client)
			if err != nil {
				c.EngineError(err.Error())
				return
			}
			if cs.Cut > len(s.bytes) {
				c.EngineError("replay: cut beyond the stream")
				return
			}
			if class, detail := c04One(c, s, cs); class != "" {
				c.Violate(class, detail, cs)
			}
			return
		}
	}
	c.EngineError("replay: unknown stream " + cs.Stream)
}

func init() {
	fw.Register(fw.Part{
		Prop: "C04", Name: "cuts",
		Units:  func(tier string) []fw.Unit { return fw.Shards("faults", 16, c04Run) },
		Replay: c04Replay,
	})
}
