package seq

import (
	"context"
	"encoding/json"
	"fmt"
	"io"

	"nhooyr.io/websocket"
	"verif/fw"
	"verif/refws/frame"
)

// C04, part localclose: the connection is closed locally (CloseNow, or Close
// answered by the peer) while a message is only partly read. Reading on with
// the same message reader may fail or may still hand over bytes, but it
// reports a clean end of message only if the whole message was delivered, and
// whatever it delivers is a prefix of the message.

func c04ClosePlain(cs c06MidCase) []byte {
	p := make([]byte, 10)
	tag := map[string]byte{"single": 0x81, "fragmented": 0x82, "two-messages": 0x88, "with-ping": 0x8a}[cs.Shape]
	for i := range p {
		if cs.Comp != "" {
			p[i] = 0x41 + byte(i)
		} else {
			p[i] = tag
		}
	}
	return p
}

func c04CloseOne(c *fw.Ctx, cs c06MidCase) {
	c.Eval()
	c.AddTraces(1)
	role := mxRole(cs.Client)
	desc := fmt.Sprintf("%+v", cs)
	in, _ := c06MidStream(cs)
	in = append(in, frame.Ctl(frame.OpClose, !cs.Client, frame.ClosePayload(1000, "")).Encode(nil)...)
	want := c04ClosePlain(cs)
	t := mxNewTransport(in)
	conn := mxConn(t, cs.Client, cs.Comp)
	defer conn.CloseNow()
	var got []byte
	var rerr error
	p := fw.Recover(func() {
		_, r, err := conn.Reader(context.Background())
		if err != nil {
			rerr = err
			return
		}
		if cs.Read > 0 {
			buf := make([]byte, cs.Read)
			n, err := r.Read(buf)
			got = append(got, buf[:n]...)
			if err != nil {
				rerr = err
				return
			}
		}
		if cs.Ender == "CloseNow" {
			conn.CloseNow()
		} else {
			conn.Close(websocket.StatusNormalClosure, "")
		}
		buf := make([]byte, 3)
		for i := 0; i < 64; i++ {
			n, err := r.Read(buf)
			got = append(got, buf[:n]...)
			if err != nil {
				rerr = err
				return
			}
		}
	})
	if p != "" {
		c.Violate("C04/panic/"+role+"/local-close", desc+": "+p, cs)
		return
	}
	kind := "plain"
	if cs.Comp != "" {
		kind = "compressed"
	}
	c.OutcomeStr(fmt.Sprintf("localclose|%s|%s|%s|%s|%d|%d|%s", role, cs.Shape, cs.Comp, cs.Ender, cs.Read, len(got), c04ErrKind(rerr)))
	if !xportIsPrefix(got, want) {
		c.Violate("C04/non-prefix-bytes/"+role+"/local-close", fmt.Sprintf("%s: bytes delivered (%x) are not a prefix of the message (%x); err=%v", desc, got, want, rerr), cs)
		return
	}
	if rerr == io.EOF && len(got) != len(want) {
		c.Violate("C04/clean-eof-after-local-close/"+role+"/"+kind, fmt.Sprintf("%s: %d of %d bytes of the message were delivered when the connection was closed by %s; the next Read on the same reader reported a clean end of message", desc, len(got), len(want), cs.Ender), cs)
		return
	}
	if rerr == nil {
		c.Violate("C04/no-termination/"+role, fmt.Sprintf("%s: 64 reads after the close neither failed nor ended the message", desc), cs)
	}
}

func c04CloseCases() []c06MidCase {
	var out []c06MidCase
	for _, client := range []bool{false, true} {
		for _, sh := range []string{"single", "fragmented", "two-messages", "with-ping"} {
			for _, rd := range []int{0, 1, 5, 9} {
				for _, comp := range []string{"", "takeover", "no-takeover"} {
					for _, ender := range []string{"Close", "CloseNow"} {
						out = append(out, c06MidCase{Client: client, Shape: sh, Read: rd, Kind: "local-close", Comp: comp, Ender: ender})
					}
				}
			}
		}
	}
	return out
}

func init() {
	fw.Register(fw.Part{
		Prop: "C04", Name: "localclose",
		Units: func(tier string) []fw.Unit {
			return []fw.Unit{{ID: "cases", Run: func(c *fw.Ctx) {
				cases := c04CloseCases()
				for _, cs := range cases {
					c04CloseOne(c, cs)
				}
				c.AddStates(int64(len(cases)))
				c.AddTransitions(int64(len(cases)))
				c.Sample(cases[7])
				c.Bound("localclose_cases", len(cases))
			}}}
		},
		Replay: func(c *fw.Ctx, data json.RawMessage) {
			var cs c06MidCase
			if json.Unmarshal(data, &cs) != nil {
				c.EngineError("bad replay data")
				return
			}
			c04CloseOne(c, cs)
		},
	})
}
