package seq

import (
	"encoding/json"
	"fmt"
	"io"

	"nhooyr.io/websocket"
	"nhooyr.io/websocket/wsjson"
	"verif/fw"
	"verif/refws/frame"
)

// C04, part closemid: the peer's Close frame arrives between the fragments of
// a message (a peer that closes while its writer is still open) and then the
// transport ends, or a continuation follows and then the transport ends. The
// message was not received completely, so no API may report its clean end:
// Reader/Read, Conn.Read and wsjson.Read fail, and NetConn does not turn the
// Close into io.EOF (that translation is for a Close at a message boundary).

type c04CloseMidCase struct {
	Client bool   `json:"client"`
	Code   int    `json:"code"`
	Pre    bool   `json:"complete_message_first"`
	Frag   int    `json:"first_fragment_bytes"`
	Ping   bool   `json:"ping_before_close"`
	After  string `json:"after_close"` // eof | continuation+eof | error
	API    string `json:"api"`         // netconn | netconn-readall | reader | read | wsjson
	// Prop "C06": the same stream judged by C06's clause "a received Close frame is
	// echoed with the same code and reported the same way": the read that meets the
	// Close frame fails with an error whose CloseStatus is the peer's code.
	Prop string `json:"prop,omitempty"`
}

func c04CloseMidOne(c *fw.Ctx, cs c04CloseMidCase) {
	c.Eval()
	c.AddTraces(1)
	masked := !cs.Client
	pre := []byte(`"first"`)
	doc := []byte(`[1,2,3,4]`)
	var in []byte
	if cs.Pre {
		in = append(in, frame.Data(frame.OpText, true, masked, pre).Encode(nil)...)
	}
	in = append(in, frame.Data(frame.OpText, false, masked, doc[:cs.Frag]).Encode(nil)...)
	if cs.Ping {
		in = append(in, frame.Ctl(frame.OpPing, masked, []byte("p")).Encode(nil)...)
	}
	in = append(in, frame.Ctl(frame.OpClose, masked, frame.ClosePayload(cs.Code, "bye")).Encode(nil)...)
	if cs.After == "continuation+eof" {
		in = append(in, frame.Data(frame.OpCont, true, masked, doc[cs.Frag:]).Encode(nil)...)
	}
	t := mxNewTransport(in)
	if cs.After == "error" {
		t.EndErr = io.ErrUnexpectedEOF
	}
	conn := mxConn(t, cs.Client, "")
	defer conn.CloseNow()
	ctx, cancel := mxGuard(mxGuardTime)
	defer cancel()
	desc := fmt.Sprintf("%+v", cs)
	var got []byte
	var err error
	clean := false // the API reported the clean end of the second message / of the stream
	pan := fw.Recover(func() {
		switch cs.API {
		case "netconn", "netconn-readall":
			nc := websocket.NetConn(ctx, conn, websocket.MessageText)
			if cs.API == "netconn-readall" {
				got, err = io.ReadAll(nc)
				clean = err == nil
				return
			}
			buf := make([]byte, 4)
			for i := 0; i < 1000; i++ {
				n, rerr := nc.Read(buf)
				got = append(got, buf[:n]...)
				if rerr != nil {
					err = rerr
					clean = rerr == io.EOF
					return
				}
			}
			err = fmt.Errorf("1000 reads without an error")
		case "reader":
			for {
				_, r, rerr := conn.Reader(ctx)
				if rerr != nil {
					err = rerr
					return
				}
				b, rerr := io.ReadAll(r)
				got = append(got, b...)
				if rerr != nil {
					err = rerr
					return
				}
				if len(got) > len(pre) || !cs.Pre {
					clean = true // the second message ended cleanly
					return
				}
			}
		case "read":
			for {
				_, b, rerr := conn.Read(ctx)
				if rerr != nil {
					err = rerr
					return
				}
				got = append(got, b...)
				if len(got) > len(pre) || !cs.Pre {
					clean = true
					return
				}
			}
		case "wsjson":
			n := 0
			for {
				var v interface{}
				if rerr := wsjson.Read(ctx, conn, &v); rerr != nil {
					err = rerr
					return
				}
				j, _ := json.Marshal(v)
				got = append(got, j...)
				n++
				if n == 2 || !cs.Pre {
					clean = true
					return
				}
			}
		}
	})
	if pan != "" {
		c.Violate("C04/panic/closemid", desc+": "+pan, cs)
		return
	}
	if mxHung(err) {
		c.EngineError(desc + ": hang guard fired: " + fmt.Sprint(err))
		return
	}
	c.OutcomeStr(fmt.Sprintf("closemid %+v clean=%v got=%d", cs, clean, len(got)))
	if cs.Prop == "C06" {
		if err != nil && websocket.CloseStatus(err) != websocket.StatusCode(cs.Code) {
			c.Violate("C06/received-close-not-reported/inside-message/"+cs.API, fmt.Sprintf("%s: the peer's Close frame (code %d) arrived between the fragments of a message; the read that met it failed with %q, whose CloseStatus is %d", desc, cs.Code, err, websocket.CloseStatus(err)), cs)
			return
		}
		echo := false
		fs, _ := frame.ParseAll(t.Log())
		for _, f := range fs {
			if f.Opcode == frame.OpClose {
				echo = len(f.Payload) >= 2 && int(f.Payload[0])<<8|int(f.Payload[1]) == cs.Code
				break
			}
		}
		if !echo {
			c.Violate("C06/received-close-not-echoed/inside-message/"+cs.API, fmt.Sprintf("%s: the peer's Close frame (code %d) arrived between the fragments of a message; the first Close frame on the wire does not carry that code (wire %x)", desc, cs.Code, t.Log()), cs)
		}
		return
	}
	if clean {
		c.Violate("C04/clean-end-after-close-inside-message/"+cs.API, fmt.Sprintf("%s: the peer's Close frame (code %d) arrived after the first fragment (%d of %d bytes) of a message whose final frame %s; %s nevertheless reported a clean end after %d bytes (%q)", desc, cs.Code, cs.Frag, len(doc), map[bool]string{true: "arrived only behind the Close frame", false: "never arrived"}[cs.After == "continuation+eof"], cs.API, len(got), got), cs)
		return
	}
	want := []byte{}
	if cs.Pre {
		want = append(want, pre...)
	}
	if cs.API == "wsjson" || cs.API == "read" {
		// whole messages only
		if string(got) != string(want) {
			c.Violate("C04/completed-message-lost-or-altered/closemid/"+cs.API, fmt.Sprintf("%s: delivered %q, want exactly the message completed before (%q)", desc, got, want), cs)
		}
		return
	}
	full := append(append([]byte{}, want...), doc[:cs.Frag]...)
	if !xportIsPrefix(want, got) || !xportIsPrefix(got, full) {
		c.Violate("C04/non-prefix-bytes/closemid/"+cs.API, fmt.Sprintf("%s: delivered %q, which is not the completed message followed by a prefix of the fragment received (%q)", desc, got, full), cs)
	}
}

func c04CloseMidCases() []c04CloseMidCase {
	var out []c04CloseMidCase
	for _, client := range []bool{false, true} {
		for _, code := range []int{1000, 1001, 1002, 3000} {
			for _, pre := range []bool{false, true} {
				for _, frag := range []int{0, 3} {
					for _, ping := range []bool{false, true} {
						for _, after := range []string{"eof", "continuation+eof", "error"} {
							for _, api := range []string{"netconn", "netconn-readall", "reader", "read", "wsjson"} {
								out = append(out, c04CloseMidCase{Client: client, Code: code, Pre: pre, Frag: frag, Ping: ping, After: after, API: api})
							}
						}
					}
				}
			}
		}
	}
	return out
}

func init() {
	fw.Register(fw.Part{
		Prop: "C06", Name: "closemid",
		Units: func(tier string) []fw.Unit {
			return []fw.Unit{{ID: "close-between-fragments", Run: func(c *fw.Ctx) {
				n := 0
				for _, cs := range c04CloseMidCases() {
					if cs.API != "reader" && cs.API != "read" {
						continue
					}
					cs.Prop = "C06"
					c04CloseMidOne(c, cs)
					n++
				}
				c.AddStates(int64(n))
				c.AddTransitions(int64(n))
				c.Bound("closemid_cases", n)
			}}}
		},
		Replay: func(c *fw.Ctx, data json.RawMessage) {
			var cs c04CloseMidCase
			if json.Unmarshal(data, &cs) != nil {
				c.EngineError("bad replay data")
				return
			}
			c04CloseMidOne(c, cs)
		},
	})
	fw.Register(fw.Part{
		Prop: "C04", Name: "closemid",
		Units: func(tier string) []fw.Unit {
			return []fw.Unit{{ID: "close-between-fragments", Run: func(c *fw.Ctx) {
				cases := c04CloseMidCases()
				for _, cs := range cases {
					c04CloseMidOne(c, cs)
				}
				c.AddStates(int64(len(cases)))
				c.AddTransitions(int64(len(cases)))
				c.Bound("closemid_cases", len(cases))
				c.Sample(cases[17])
			}}}
		},
		Replay: func(c *fw.Ctx, data json.RawMessage) {
			var cs c04CloseMidCase
			if json.Unmarshal(data, &cs) != nil {
				c.EngineError("bad replay data")
				return
			}
			c04CloseMidOne(c, cs)
		},
	})
}
