package seq

import (
	"bytes"
	"encoding/json"
	"errors"
	"fmt"
	"io"
	"sync"

	"nhooyr.io/websocket"
	"verif/fw"
	"verif/refws/frame"
)

// C04, part write-fails: the peer sent its last complete messages and went
// away; the application's own write hits the dead transport (an error) before it
// has read them. "Every message completed before that point is still delivered
// intact": the reads that follow deliver all of them, then fail.

type c04WFTransport struct {
	mu     sync.Mutex
	in     []byte
	closed bool
	endErr error
}

func (t *c04WFTransport) Read(p []byte) (int, error) {
	t.mu.Lock()
	defer t.mu.Unlock()
	if t.closed {
		return 0, io.ErrClosedPipe
	}
	if len(t.in) == 0 {
		if t.endErr != nil {
			return 0, t.endErr
		}
		return 0, io.EOF
	}
	n := copy(p, t.in)
	t.in = t.in[n:]
	return n, nil
}
func (t *c04WFTransport) Write(p []byte) (int, error) {
	return 0, errors.New("scripted transport: broken pipe")
}
func (t *c04WFTransport) Close() error {
	t.mu.Lock()
	defer t.mu.Unlock()
	t.closed = true
	return nil
}

type c04WFCase struct {
	Client  bool   `json:"client"`
	Msgs    int    `json:"complete_messages"`
	Attempt string `json:"failing_call"` // write | writer | ping
	API     string `json:"api"`          // read | reader
	EndErr  bool   `json:"transport_ends_with_error"`
}

func c04WFOne(c *fw.Ctx, cs c04WFCase) {
	c.Eval()
	c.AddTraces(1)
	masked := !cs.Client
	var in []byte
	var want [][]byte
	for i := 0; i < cs.Msgs; i++ {
		pl := bytes.Repeat([]byte{byte('a' + i)}, 20+i)
		want = append(want, pl)
		if i%2 == 0 {
			in = append(in, frame.Data(frame.OpBinary, true, masked, pl).Encode(nil)...)
		} else {
			in = append(in, frame.Data(frame.OpBinary, false, masked, pl[:5]).Encode(nil)...)
			in = append(in, frame.Data(frame.OpCont, true, masked, pl[5:]).Encode(nil)...)
		}
	}
	t := &c04WFTransport{in: in}
	if cs.EndErr {
		t.endErr = io.ErrUnexpectedEOF
	}
	conn := websocket.VerifNewConn(t, cs.Client, nil, 0)
	defer conn.CloseNow()
	ctx, cancel := mxGuard(mxGuardTime)
	defer cancel()
	desc := fmt.Sprintf("%+v", cs)
	var werr error
	var got [][]byte
	var rerr error
	pan := fw.Recover(func() {
		switch cs.Attempt {
		case "write":
			werr = conn.Write(ctx, websocket.MessageText, []byte("hello?"))
		case "writer":
			w, err := conn.Writer(ctx, websocket.MessageText)
			if err == nil {
				_, err = w.Write(bytes.Repeat([]byte("x"), 5000))
				if err == nil {
					err = w.Close()
				}
			}
			werr = err
		}
		for {
			var b []byte
			var err error
			if cs.API == "read" {
				_, b, err = conn.Read(ctx)
			} else {
				var r io.Reader
				_, r, err = conn.Reader(ctx)
				if err == nil {
					b, err = io.ReadAll(r)
				}
			}
			if err != nil {
				rerr = err
				return
			}
			got = append(got, b)
			if len(got) > cs.Msgs+2 {
				return
			}
		}
	})
	if pan != "" {
		c.Violate("C04/panic/write-fails", desc+": "+pan, cs)
		return
	}
	if mxHung(rerr) || mxHung(werr) {
		c.EngineError(desc + ": hang guard fired")
		return
	}
	c.OutcomeStr(fmt.Sprintf("wf %+v werr=%v got=%d", cs, werr != nil, len(got)))
	if werr == nil {
		c.Violate("C04/write-succeeds-on-dead-transport", desc+": the write returned nil although the transport refuses every write", cs)
		return
	}
	if len(got) != len(want) {
		c.Violate("C04/completed-message-lost-or-altered/after-failed-write", fmt.Sprintf("%s: %d complete messages had arrived before the transport ended; after the application's own %s failed (%v) the reads delivered %d of them and then %v", desc, len(want), cs.Attempt, werr, len(got), rerr), cs)
		return
	}
	for i := range want {
		if !bytes.Equal(got[i], want[i]) {
			c.Violate("C04/completed-message-lost-or-altered/after-failed-write", fmt.Sprintf("%s: message %d differs", desc, i), cs)
			return
		}
	}
	if rerr == nil || rerr == io.EOF {
		c.Violate("C04/clean-eof-on-transport-end/after-failed-write", fmt.Sprintf("%s: the read after the last message returned %v", desc, rerr), cs)
	}
}

func init() {
	fw.Register(fw.Part{
		Prop: "C04", Name: "write-fails",
		Units: func(tier string) []fw.Unit {
			return []fw.Unit{{ID: "dead-transport", Run: func(c *fw.Ctx) {
				n := 0
				for _, client := range []bool{false, true} {
					for msgs := 0; msgs <= 3; msgs++ {
						for _, at := range []string{"write", "writer"} {
							for _, api := range []string{"read", "reader"} {
								for _, ee := range []bool{false, true} {
									c04WFOne(c, c04WFCase{client, msgs, at, api, ee})
									n++
								}
							}
						}
					}
				}
				c.AddStates(int64(n))
				c.AddTransitions(int64(n))
				c.Bound("write_fails_cases", n)
				c.Sample(c04WFCase{false, 2, "write", "read", false})
			}}}
		},
		Replay: func(c *fw.Ctx, data json.RawMessage) {
			var cs c04WFCase
			if json.Unmarshal(data, &cs) != nil {
				c.EngineError("bad replay data")
				return
			}
			c04WFOne(c, cs)
		},
	})
}
