package seq

import (
	"bytes"
	"context"
	"encoding/json"
	"errors"
	"fmt"
	"net"
	"strings"
	"time"

	"nhooyr.io/websocket"
	"verif/fw"
	"verif/refws/frame"
)

// C06 (sequential part): the values of the close handshake. Part "sender":
// conn.Close(code, reason) for every status code and reason length against a
// scripted peer; part "receiver": a peer-initiated Close frame with every code
// at every position of a small stream. The model is {Open, CloseSent,
// CloseReceived, Closed} x code class; refws/frame decides which codes may be
// on the wire. How many Close frames follow the first one is property C16's
// question and is not judged here.

// ------------------------------------------------------------------ model ---

// c06CodeClass is the abstract class of a status code (used in violation
// classes and model states).
func c06CodeClass(code int64) string {
	switch {
	case code < 0 || code > 65535:
		return "out-of-uint16"
	case code < 1000:
		return "below-1000"
	case code == 1005:
		return "1005"
	case code >= 1004 && code <= 1006:
		return "1004-1006"
	case code == 1015:
		return "1015"
	case code >= 1000 && code <= 1014:
		return "valid-1000-1014"
	case code >= 1016 && code <= 2999:
		return "1016-2999"
	case code >= 3000 && code <= 4999:
		return "valid-3000-4999"
	}
	return ">=5000"
}

// c06InvalidClass maps 1005 (which has its own rule as an argument of Close)
// into the class the task names for codes that may not be on the wire.
func c06InvalidClass(code int64) string {
	if code == 1005 {
		return "1004-1006"
	}
	return c06CodeClass(code)
}

func c06Sendable(code int64) bool {
	return code >= 0 && code <= 65535 && frame.ValidCloseCode(int(code))
}

const c06MaxReason = 123

// c06PingGuard bounds the calls made on a closed connection (a Ping on a
// connection that is wrongly still open would otherwise wait for a Pong
// forever). c06Abort stops the unit after a guard ended a call: every further
// case would wait just as long.
const c06PingGuard = 10 * time.Second

var c06Abort bool

// ----------------------------------------------------------- after close ---

// c06AfterClose performs the calls the property constrains once the
// connection is closed. withCloses: Close or CloseNow has returned before, so
// further calls to either must match net.ErrClosed.
func c06AfterClose(c *fw.Ctx, conn *websocket.Conn, withCloses bool, replay interface{}, desc string) bool {
	ctx, cancel := mxGuard(c06PingGuard)
	defer cancel()
	hung := func(api string, err error) bool {
		if mxHung(err) {
			c.EngineError(fmt.Sprintf("%s: %s after close only ended with the hang guard: %v", desc, api, err))
			c06Abort = true
			return true
		}
		return false
	}
	ok := true
	fail := func(class, detail string) {
		c.Violate(class, desc+": "+detail, replay)
		ok = false
	}

	var err error
	var got []byte
	if p := fw.Recover(func() { _, got, err = conn.Read(ctx) }); p != "" {
		fail("C06/panic", "Read after close panicked: "+p)
		return false
	}
	if hung("Read", err) {
		return false
	}
	if err == nil {
		fail("C06/after-close/Read-succeeds", fmt.Sprintf("Read on the closed connection returned a %d-byte message and no error", len(got)))
	}
	c.AddTransitions(1)

	if p := fw.Recover(func() { err = conn.Write(ctx, websocket.MessageText, []byte("x")) }); p != "" {
		fail("C06/panic", "Write after close panicked: "+p)
		return false
	}
	if hung("Write", err) {
		return false
	}
	if err == nil {
		fail("C06/after-close/Write-succeeds", "Write on the closed connection returned nil")
	}
	c.AddTransitions(1)

	if p := fw.Recover(func() {
		w, e := conn.Writer(ctx, websocket.MessageBinary)
		err = e
		if e == nil && w != nil {
			w.Close()
		}
	}); p != "" {
		fail("C06/panic", "Writer after close panicked: "+p)
		return false
	}
	if hung("Writer", err) {
		return false
	}
	if err == nil {
		fail("C06/after-close/Writer-succeeds", "Writer on the closed connection returned a writer and no error")
	}
	c.AddTransitions(1)

	if !ok {
		// the connection is evidently still open (a call that must fail succeeded): a Ping
		// would wait for its Pong until the guard ends it; the violation is recorded already
		return false
	}
	if p := fw.Recover(func() { err = conn.Ping(ctx) }); p != "" {
		fail("C06/panic", "Ping after close panicked: "+p)
		return false
	}
	if hung("Ping", err) {
		return false
	}
	if err == nil {
		fail("C06/after-close/Ping-succeeds", "Ping on the closed connection returned nil")
	}
	c.AddTransitions(1)

	if withCloses {
		if p := fw.Recover(func() { err = conn.Close(websocket.StatusNormalClosure, "") }); p != "" {
			fail("C06/panic", "second Close panicked: "+p)
			return false
		}
		if !errors.Is(err, net.ErrClosed) {
			fail("C06/after-close/not-ErrClosed/Close", fmt.Sprintf("Close after an earlier Close/CloseNow had returned gave %v, want an error matching net.ErrClosed", err))
		}
		c.AddTransitions(1)
		if p := fw.Recover(func() { err = conn.CloseNow() }); p != "" {
			fail("C06/panic", "CloseNow after close panicked: "+p)
			return false
		}
		if !errors.Is(err, net.ErrClosed) {
			fail("C06/after-close/not-ErrClosed/CloseNow", fmt.Sprintf("CloseNow after an earlier Close/CloseNow had returned gave %v, want an error matching net.ErrClosed", err))
		}
		c.AddTransitions(1)
	}
	return ok
}

// ----------------------------------------------------------------- sender ---

type c06SCase struct {
	Kind      string `json:"kind"` // close | closenow
	Client    bool   `json:"client"`
	Code      int64  `json:"code"`
	ReasonLen int    `json:"reason_len"`
	Peer      string `json:"peer"` // echo-same | echo-other | none
	Second    string `json:"second,omitempty"`
	Runes     int    `json:"runes,omitempty"` // 0 ASCII reason; 2/3/4: reason built from 2-/3-/4-byte UTF-8 runes (same byte length)
	// Before: what the application has open on the endpoint when it calls Close:
	// "writer-open" (a Writer with 3 bytes written and not closed), "writer-empty" (a Writer nothing
	// was written to), "reader-open" (a Reader of a 6-byte message with 2 bytes consumed)
	Before string `json:"before,omitempty"`
}

var c06Befores = []string{"writer-open", "writer-empty", "reader-open"}

var c06Extra = []int64{-1, 65536, 66536, 100000, 1 << 31}
var c06RepCodes = []int64{1000, 1001, 1011, 3000, 4999, 1005}
var c06Peers = []string{"echo-same", "echo-other", "none"}

const c06SweepCodes = 65536

func c06SenderTotal() int {
	sweep := (c06SweepCodes + len(c06Extra)) * 2 * 2 * 3
	reasons := 131 * len(c06RepCodes) * 2 * 3 * 4
	return sweep + reasons + 4 + len(c06Befores)*len(c06RepCodes)*2*3
}

// c06Reason builds a reason of exactly n bytes; runes > 0 uses multi-byte
// UTF-8 runes (padded with ASCII), so byte length and rune count differ.
func c06Reason(n, runes, seed int) string {
	if runes == 0 || n < runes {
		return mxASCII(n, seed)
	}
	r := map[int]string{2: "\u00e9", 3: "\u20ac", 4: "\U0001F600"}[runes]
	s := ""
	for len(s)+runes <= n {
		s += r
	}
	for len(s) < n {
		s += "x"
	}
	return s
}

func c06SenderCase(i int) c06SCase {
	sweep := (c06SweepCodes + len(c06Extra)) * 2 * 2 * 3
	reasons := 131 * len(c06RepCodes) * 2 * 3 * 4
	switch {
	case i < sweep:
		peer := c06Peers[i%3]
		i /= 3
		client := i%2 == 1
		i /= 2
		rl := []int{0, c06MaxReason}[i%2]
		i /= 2
		var code int64
		if i < c06SweepCodes {
			code = int64(i)
		} else {
			code = c06Extra[i-c06SweepCodes]
		}
		return c06SCase{Kind: "close", Client: client, Code: code, ReasonLen: rl, Peer: peer}
	case i < sweep+reasons:
		i -= sweep
		peer := c06Peers[i%3]
		i /= 3
		client := i%2 == 1
		i /= 2
		code := c06RepCodes[i%len(c06RepCodes)]
		i /= len(c06RepCodes)
		runes := []int{0, 2, 3, 4}[i%4]
		i /= 4
		return c06SCase{Kind: "close", Client: client, Code: code, ReasonLen: i, Peer: peer, Runes: runes}
	}
	i -= sweep + reasons
	if i >= 4 {
		i -= 4
		peer := c06Peers[i%3]
		i /= 3
		client := i%2 == 1
		i /= 2
		code := c06RepCodes[i%len(c06RepCodes)]
		i /= len(c06RepCodes)
		return c06SCase{Kind: "close", Client: client, Code: code, ReasonLen: 5, Peer: peer, Before: c06Befores[i]}
	}
	return c06SCase{Kind: "closenow", Client: i%2 == 1, Second: []string{"closenow", "close"}[i/2%2]}
}

// c06PeerReply scripts what the peer sends after the library's Close frame.
func c06PeerReply(cs c06SCase) (in []byte, echoCode int, echoes bool) {
	masked := !cs.Client // frames towards a server are masked
	switch cs.Peer {
	case "none":
		return nil, 0, false
	case "echo-other":
		other := 1001
		if cs.Code == 1001 {
			other = 1000
		}
		return frame.Ctl(frame.OpClose, masked, frame.ClosePayload(other, "")).Encode(nil), other, false
	}
	switch {
	case cs.Code == 1005:
		return frame.Ctl(frame.OpClose, masked, nil).Encode(nil), 1005, true
	case c06Sendable(cs.Code):
		return frame.Ctl(frame.OpClose, masked, frame.ClosePayload(int(cs.Code), "")).Encode(nil), int(cs.Code), true
	}
	// the code cannot be echoed because it can never be on the wire; the peer
	// answers with the 1011 the library may use instead
	return frame.Ctl(frame.OpClose, masked, frame.ClosePayload(1011, "")).Encode(nil), 1011, false
}

func c06SenderOne(c *fw.Ctx, cs c06SCase) {
	c.Eval()
	c.AddTraces(1)
	desc := fmt.Sprintf("%+v", cs)
	if cs.Kind == "closenow" {
		c06CloseNowOne(c, cs, desc)
		return
	}
	reason := c06Reason(cs.ReasonLen, cs.Runes, int(cs.Code&0xff))
	in, echoCode, echoes := c06PeerReply(cs)
	if cs.Before == "reader-open" {
		in = append(frame.Data(frame.OpBinary, true, !cs.Client, []byte("sixsix")).Encode(nil), in...)
	}
	t := mxNewTransport(in)
	conn := mxConn(t, cs.Client, "")
	defer conn.CloseNow()
	switch cs.Before {
	case "writer-open", "writer-empty":
		if wr, werr := conn.Writer(context.Background(), websocket.MessageText); werr == nil && cs.Before == "writer-open" {
			wr.Write([]byte("abc"))
		}
	case "reader-open":
		if _, r, rerr := conn.Reader(context.Background()); rerr == nil {
			var b [2]byte
			r.Read(b[:])
		}
	}

	var err error
	if p := fw.Recover(func() { err = conn.Close(websocket.StatusCode(cs.Code), reason) }); p != "" {
		c.Violate("C06/panic", desc+": Close panicked: "+p, cs)
		return
	}
	c.AddTransitions(2) // Open -Close()-> CloseSent -echo|EOF-> Closed
	out := t.Log()
	closes := mxCloseFrames(out)
	role := mxRole(cs.Client)
	sendable := c06Sendable(cs.Code) && cs.ReasonLen <= c06MaxReason
	okAll := true

	switch {
	case sendable:
		want := frame.ClosePayload(int(cs.Code), reason)
		if len(closes) == 0 || !bytes.Equal(closes[0].Payload, want) {
			got := "no Close frame at all"
			if len(closes) > 0 {
				code, rs, _ := mxCloseCode(closes[0].Payload)
				got = fmt.Sprintf("first Close frame has a %d-byte payload (code %d, %d-byte reason %q)", len(closes[0].Payload), code, len(rs), rs)
			}
			c.Violate("C06/sender/wrong-close-frame/"+role, fmt.Sprintf("%s: Close(%d, %d-byte reason %q) must emit a Close frame with exactly that code and reason; %s; Close returned %v", desc, cs.Code, cs.ReasonLen, reason, got, err), cs)
			okAll = false
		}
		if echoes && err != nil {
			c.Violate("C06/sender/close-error-despite-echo/"+role, fmt.Sprintf("%s: the peer answered with a Close frame carrying the same code %d but Close returned %v", desc, echoCode, err), cs)
			okAll = false
		}
		if !echoes && err == nil {
			what := "the peer sent nothing (transport EOF)"
			if cs.Peer == "echo-other" {
				what = fmt.Sprintf("the peer answered with code %d", echoCode)
			}
			c.Violate("C06/sender/close-nil-without-echo", fmt.Sprintf("%s: %s but Close(%d) returned nil", desc, what, cs.Code), cs)
			okAll = false
		}
	case cs.Code == 1005:
		// the no-status code: a Close frame with an empty payload
		if len(closes) == 0 || len(closes[0].Payload) != 0 {
			got := "no Close frame at all"
			if len(closes) > 0 {
				got = fmt.Sprintf("first Close frame has a %d-byte payload %x", len(closes[0].Payload), closes[0].Payload)
			}
			c.Violate("C06/sender/no-status-payload-not-empty/"+role, fmt.Sprintf("%s: Close(1005) must send a Close frame with an empty payload; %s; Close returned %v", desc, got, err), cs)
			okAll = false
		}
		if cs.ReasonLen <= c06MaxReason {
			if echoes && err != nil {
				c.Violate("C06/sender/close-error-despite-echo/"+role, fmt.Sprintf("%s: the peer answered Close(1005) with an empty Close frame (status 1005) but Close returned %v", desc, err), cs)
				okAll = false
			}
			if !echoes && err == nil {
				c.Violate("C06/sender/close-nil-without-echo", fmt.Sprintf("%s: no matching echo (peer: %s) but Close(1005) returned nil", desc, cs.Peer), cs)
				okAll = false
			}
		}
		// with an oversize reason the text does not say what Close(1005) returns
	default:
		if err == nil {
			if !c06Sendable(cs.Code) {
				c.Violate("C06/sender/close-nil-for-unsendable/"+c06InvalidClass(cs.Code), fmt.Sprintf("%s: code %d may not appear on the wire but Close returned nil", desc, cs.Code), cs)
			} else {
				c.Violate("C06/sender/close-nil-for-oversize-reason", fmt.Sprintf("%s: reason of %d bytes (max %d) but Close returned nil", desc, cs.ReasonLen, c06MaxReason), cs)
			}
			okAll = false
		}
	}
	// whatever was asked for: nothing unsendable may be on the wire
	for i, f := range closes {
		code, rs, okp := mxCloseCode(f.Payload)
		if !okp || len(f.Payload) < 2 {
			continue
		}
		if !c06Sendable(cs.Code) && cs.Code != 1005 && code == int(uint16(cs.Code)) {
			c.Violate("C06/sender/unsendable-code-sent/"+c06InvalidClass(cs.Code), fmt.Sprintf("%s: Close(%d): Close frame #%d on the wire carries code %d (%d-byte reason)", desc, cs.Code, i, code, len(rs)), cs)
			okAll = false
		}
		if cs.Code == 1005 && code == 1005 {
			c.Violate("C06/sender/unsendable-code-sent/1004-1006", fmt.Sprintf("%s: Close(1005): Close frame #%d on the wire carries the code 1005 itself", desc, i), cs)
			okAll = false
		}
		if len(rs) > c06MaxReason {
			c.Violate("C06/sender/oversize-reason-sent", fmt.Sprintf("%s: Close frame #%d on the wire has a %d-byte reason (payload %d > 125 bytes); Close returned %v", desc, i, len(rs), len(f.Payload), err), cs)
			okAll = false
		}
	}

	if !c06AfterClose(c, conn, true, cs, desc) {
		okAll = false
	}
	if okAll {
		first := "none"
		if len(closes) > 0 {
			code, rs, _ := mxCloseCode(closes[0].Payload)
			first = fmt.Sprintf("%d/%d", code, len(rs))
		}
		c.OutcomeStr(fmt.Sprintf("S %s %s first=%s nil=%v", role, cs.Peer, first, err == nil))
	}
}

func c06CloseNowOne(c *fw.Ctx, cs c06SCase, desc string) {
	t := mxNewTransport()
	conn := mxConn(t, cs.Client, "")
	defer conn.CloseNow()
	var err error
	if p := fw.Recover(func() { err = conn.CloseNow() }); p != "" {
		c.Violate("C06/panic", desc+": CloseNow panicked: "+p, cs)
		return
	}
	c.AddTransitions(1)
	if err != nil {
		c.Note(fmt.Sprintf("first CloseNow on an open connection returned %v (not judged)", err))
	}
	if len(mxCloseFrames(t.Log())) != 0 {
		c.Note("CloseNow wrote a Close frame (not judged)")
	}
	// the order of the two later calls follows cs.Second
	ok := true
	check := func(api string) {
		var e error
		if p := fw.Recover(func() {
			if api == "Close" {
				e = conn.Close(websocket.StatusNormalClosure, "")
			} else {
				e = conn.CloseNow()
			}
		}); p != "" {
			c.Violate("C06/panic", desc+": "+api+" after CloseNow panicked: "+p, cs)
			ok = false
			return
		}
		c.AddTransitions(1)
		if !errors.Is(e, net.ErrClosed) {
			c.Violate("C06/after-close/not-ErrClosed/"+api, fmt.Sprintf("%s: %s after CloseNow had returned gave %v, want an error matching net.ErrClosed", desc, api, e), cs)
			ok = false
		}
	}
	if cs.Second == "close" {
		check("Close")
		check("CloseNow")
	} else {
		check("CloseNow")
		check("Close")
	}
	if !c06AfterClose(c, conn, false, cs, desc) {
		ok = false
	}
	if ok {
		c.OutcomeStr("N " + mxRole(cs.Client) + " " + cs.Second)
	}
}

func c06SenderStates() map[string]struct{} {
	st := map[string]struct{}{}
	n := c06SenderTotal()
	for i := 0; i < n; i++ {
		cs := c06SenderCase(i)
		if cs.Kind != "close" {
			st["Open"], st["Closed/closenow"] = struct{}{}, struct{}{}
			continue
		}
		cl := c06CodeClass(cs.Code)
		if cs.ReasonLen > c06MaxReason {
			cl += "+oversize-reason"
		}
		if (c06Sendable(cs.Code) || cs.Code == 1005) && cs.ReasonLen <= c06MaxReason {
			st["CloseSent/"+cl] = struct{}{}
			st["Closed/"+cl+"/"+cs.Peer] = struct{}{}
		} else {
			st["Closed/refused/"+cl] = struct{}{}
		}
	}
	return st
}

func c06SenderRun(c *fw.Ctx, shard, nshards int) {
	total := c06SenderTotal()
	for i := shard; i < total; i += nshards {
		if (i/nshards)&1023 == 0 && c.OutOfTime() {
			c.NotExhaustive(fmt.Sprintf("time budget reached at sender case %d of %d", i, total))
			break
		}
		if c06Abort {
			c.NotExhaustive("unit stopped after a hang guard ended a call")
			break
		}
		cs := c06SenderCase(i)
		c06SenderOne(c, cs)
		if c.WantSample() && (i/nshards)%30011 == 17 {
			c.Sample(cs)
		}
	}
	if shard == 0 {
		c.AddStates(int64(len(c06SenderStates())))
	}
	c.Bound("sender_cases", total)
	c.Bound("sender_codes", "0..65535 plus -1, 65536, 66536, 100000, 2^31")
	c.Bound("sender_reason_lengths", "{0,123} for every code; 0..130 for codes 1000,1001,1011,3000,4999,1005")
	c.Bound("sender_peers", c06Peers)
	c.Bound("roles", 2)
}

// --------------------------------------------------------------- receiver ---

type c06RCase struct {
	Client     bool   `json:"client"`
	PayloadLen int    `json:"payload_len"` // 0, 1, or 2..125 (code + reason of PayloadLen-2 bytes)
	Code       int    `json:"code"`        // used when PayloadLen >= 2
	Byte       int    `json:"byte"`        // the single byte when PayloadLen == 1
	Position   string `json:"position"`    // before | between | after | in-fragment
	// RKind: 0 ASCII reason; 1 three-byte runes; 2 three-byte runes cut after n bytes
	// (ends inside a character unless n is a multiple of 3); 3 bytes >= 0x80 (no
	// valid UTF-8 at all): what a peer holding a Go string may send
	RKind int `json:"reason_kind,omitempty"`
	// Chunk > 0: the transport delivers the stream in pieces of that many bytes (the
	// Close frame's payload arrives in several reads)
	Chunk int `json:"chunk,omitempty"`
}

var c06Positions = []string{"before", "between", "after", "in-fragment"}
var c06OneBytes = []int{0x00, 0x03, 0xe8, 0xff}

// codes whose Close frame is sent with every reason length 0..123
var c06RecvRepCodes = []int{1000, 1001, 1011, 3000, 4999, 1005, 999}

func c06ReceiverTotal() int {
	return 65536*2*4*2 + (1+len(c06OneBytes))*4*2 + 124*len(c06RecvRepCodes)*4*2 + c06RecvKindCases
}

// reasons that are not ASCII: lengths 1..123 x kinds 1..3 x 2 codes x positions x roles
const c06RecvKindCases = 123 * 3 * 2 * 2 * 4 * 2

func c06ReceiverCase(i int) c06RCase {
	sweep := 65536 * 2 * 4 * 2
	if i < sweep {
		pos := c06Positions[i%4]
		i /= 4
		client := i%2 == 1
		i /= 2
		pl := []int{2, 125}[i%2]
		i /= 2
		return c06RCase{Client: client, PayloadLen: pl, Code: i, Position: pos}
	}
	i -= sweep
	pos := c06Positions[i%4]
	i /= 4
	client := i%2 == 1
	i /= 2
	if i == 0 {
		return c06RCase{Client: client, PayloadLen: 0, Position: pos}
	}
	if i <= len(c06OneBytes) {
		return c06RCase{Client: client, PayloadLen: 1, Byte: c06OneBytes[i-1], Position: pos}
	}
	i -= 1 + len(c06OneBytes)
	if i < 124*len(c06RecvRepCodes) {
		return c06RCase{Client: client, PayloadLen: 2 + i%124, Code: c06RecvRepCodes[i/124], Position: pos}
	}
	i -= 124 * len(c06RecvRepCodes)
	n := 1 + i%123
	i /= 123
	kind := 1 + i%3
	i /= 3
	chunk := []int{0, 7}[i%2]
	i /= 2
	return c06RCase{Client: client, PayloadLen: 2 + n, Code: []int{1000, 4999}[i%2], Position: pos, RKind: kind, Chunk: chunk}
}

type c06Msg struct {
	typ     websocket.MessageType
	payload []byte
}

var (
	c06M1 = c06Msg{websocket.MessageText, []byte("first message")}
	c06M2 = c06Msg{websocket.MessageBinary, []byte{0, 1, 2, 0xfe, 0xff, 'x', 'y'}}
)

// c06Stream builds the peer's stream and says which complete messages precede
// the Close frame.
func c06Stream(cs c06RCase) (in []byte, before []c06Msg, reason string) {
	masked := !cs.Client
	var payload []byte
	switch cs.PayloadLen {
	case 0:
	case 1:
		payload = []byte{byte(cs.Byte)}
	case 2:
		payload = frame.ClosePayload(cs.Code, "")
	default:
		n := cs.PayloadLen - 2
		switch cs.RKind {
		case 1:
			reason = c06Reason(n, 3, cs.Code&0xff)
		case 2:
			reason = strings.Repeat("\u20ac", n/3+1)[:n]
		case 3:
			b := make([]byte, n)
			for i := range b {
				b[i] = byte(0x80 + (i*37+cs.Code)%0x80)
			}
			reason = string(b)
		default:
			reason = mxASCII(n, cs.Code)
		}
		payload = frame.ClosePayload(cs.Code, reason)
	}
	cl := frame.Ctl(frame.OpClose, masked, payload)
	m1 := frame.Data(frame.OpText, true, masked, c06M1.payload)
	m2 := frame.Data(frame.OpBinary, true, masked, c06M2.payload)
	switch cs.Position {
	case "before":
		return mxEncode(cl, m1), nil, reason
	case "between":
		return mxEncode(m1, cl, m2), []c06Msg{c06M1}, reason
	case "after":
		return mxEncode(m1, m2, cl), []c06Msg{c06M1, c06M2}, reason
	}
	f1 := frame.Data(frame.OpBinary, false, masked, c06M2.payload[:3])
	f2 := frame.Data(frame.OpCont, true, masked, c06M2.payload[3:])
	return mxEncode(m1, f1, cl, f2), []c06Msg{c06M1}, reason
}

func c06ReceiverOne(c *fw.Ctx, cs c06RCase) {
	c.Eval()
	c.AddTraces(1)
	desc := fmt.Sprintf("%+v", cs)
	in, before, reason := c06Stream(cs)
	ctx, cancel := mxGuard(mxGuardTime)
	defer cancel()
	t := mxNewTransport(in)
	if cs.Chunk > 0 {
		var chunks [][]byte
		for off := 0; off < len(in); off += cs.Chunk {
			end := off + cs.Chunk
			if end > len(in) {
				end = len(in)
			}
			chunks = append(chunks, in[off:end])
		}
		t = mxNewTransport(chunks...)
	}
	conn := mxConn(t, cs.Client, "")
	defer conn.CloseNow()
	role := mxRole(cs.Client)

	for i, m := range before {
		var typ websocket.MessageType
		var got []byte
		var err error
		if p := fw.Recover(func() { typ, got, err = conn.Read(ctx) }); p != "" {
			c.Violate("C06/panic", desc+": Read panicked: "+p, cs)
			return
		}
		if mxHung(err) {
			c.EngineError(desc + ": hang guard fired while reading a message before the Close frame: " + err.Error())
			c06Abort = true
			return
		}
		if err != nil || typ != m.typ || !bytes.Equal(got, m.payload) {
			c.Violate("C06/receiver/message-before-close-lost/"+role+"/"+cs.Position, fmt.Sprintf("%s: message %d sent before the Close frame was read as (%v, %q, err=%v), want (%v, %q)", desc, i, typ, got, err, m.typ, m.payload), cs)
			return
		}
		c.AddTransitions(1)
	}
	var err error
	var got []byte
	if p := fw.Recover(func() { _, got, err = conn.Read(ctx) }); p != "" {
		c.Violate("C06/panic", desc+": Read panicked: "+p, cs)
		return
	}
	if mxHung(err) {
		c.EngineError(desc + ": hang guard fired while reading the Close frame: " + err.Error())
		c06Abort = true
		return
	}
	c.AddTransitions(2) // Open -Close frame-> CloseReceived -echo-> Closed (or -> Failed)

	valid, wantCode := false, 0
	switch {
	case cs.PayloadLen == 0:
		valid, wantCode = true, 1005
	case cs.PayloadLen >= 2:
		valid, wantCode = frame.ValidCloseCode(cs.Code), cs.Code
	}
	out := t.Log()
	if !valid {
		cl := "one-byte-payload"
		if cs.PayloadLen >= 2 {
			cl = c06InvalidClass(int64(cs.Code))
		}
		if err == nil {
			c.Violate("C06/receiver/invalid-close-accepted/"+cl, fmt.Sprintf("%s: the read that met the invalid Close frame returned a %d-byte message and no error", desc, len(got)), cs)
			return
		}
		if cs.PayloadLen >= 2 && int(websocket.CloseStatus(err)) == cs.Code {
			c.Violate("C06/receiver/invalid-close-accepted/"+cl, fmt.Sprintf("%s: code %d may not appear in a Close frame but the read reported it as a CloseError: %v", desc, cs.Code, err), cs)
			return
		}
		c.OutcomeStr(fmt.Sprintf("R %s %s invalid %s status=%d", role, cs.Position, cl, websocket.CloseStatus(err)))
		return
	}

	var ce websocket.CloseError
	if err == nil || int(websocket.CloseStatus(err)) != wantCode || !errors.As(err, &ce) || int(ce.Code) != wantCode || ce.Reason != reason {
		c.Violate("C06/receiver/close-error-differs/"+role+"/"+cs.Position, fmt.Sprintf("%s: the read that met the peer's Close frame (code %d, %d-byte reason) returned %v; want a CloseError with exactly that code and reason (CloseStatus = %d)", desc, wantCode, len(reason), err, wantCode), cs)
		return
	}
	echoed := false
	var seen []string
	for _, f := range mxCloseFrames(out) {
		code, _, okp := mxCloseCode(f.Payload)
		seen = append(seen, fmt.Sprintf("%d-byte payload code %d", len(f.Payload), code))
		if !okp {
			continue
		}
		if wantCode == 1005 {
			echoed = echoed || len(f.Payload) == 0
		} else {
			echoed = echoed || (len(f.Payload) >= 2 && code == wantCode)
		}
	}
	if !echoed {
		c.Violate("C06/receiver/echo-differs/"+role, fmt.Sprintf("%s: received Close frame with code %d; Close frames written in answer: %v; want one echoing the same code", desc, wantCode, seen), cs)
		return
	}
	if !c06AfterClose(c, conn, false, cs, desc) {
		return
	}
	c.OutcomeStr(fmt.Sprintf("R %s %s valid %d/%d", role, cs.Position, wantCode, len(reason)))
}

func c06ReceiverStates() map[string]struct{} {
	st := map[string]struct{}{"Open": {}}
	for code := 0; code < 65536; code++ {
		cl := c06CodeClass(int64(code))
		if frame.ValidCloseCode(code) {
			st["CloseReceived/"+cl] = struct{}{}
			st["Closed/"+cl] = struct{}{}
		} else {
			st["Failed/"+cl] = struct{}{}
		}
	}
	st["CloseReceived/empty-payload"], st["Closed/empty-payload"], st["Failed/one-byte-payload"] = struct{}{}, struct{}{}, struct{}{}
	return st
}

func c06ReceiverRun(c *fw.Ctx, shard, nshards int) {
	total := c06ReceiverTotal()
	for i := shard; i < total; i += nshards {
		if (i/nshards)&1023 == 0 && c.OutOfTime() {
			c.NotExhaustive(fmt.Sprintf("time budget reached at receiver case %d of %d", i, total))
			break
		}
		if c06Abort {
			c.NotExhaustive("unit stopped after a hang guard ended a call")
			break
		}
		cs := c06ReceiverCase(i)
		c06ReceiverOne(c, cs)
		if c.WantSample() && (i/nshards)%30011 == 23 {
			c.Sample(cs)
		}
	}
	if shard == 0 {
		c.AddStates(int64(len(c06ReceiverStates())))
	}
	c.Bound("receiver_cases", total)
	c.Bound("receiver_payloads", "every code 0..65535 x {2-byte payload, 125-byte payload}; empty payload; 1-byte payloads 00 03 e8 ff; every payload length 2..125 for codes 1000 1001 1011 3000 4999 1005 999")
	c.Bound("receiver_positions", c06Positions)
}

func init() {
	fw.Register(fw.Part{
		Prop: "C06", Name: "sender",
		Units: func(tier string) []fw.Unit { return fw.Shards("codes", 16, c06SenderRun) },
		Replay: func(c *fw.Ctx, data json.RawMessage) {
			var cs c06SCase
			if json.Unmarshal(data, &cs) != nil {
				c.EngineError("bad replay data")
				return
			}
			c06SenderOne(c, cs)
		},
	})
	fw.Register(fw.Part{
		Prop: "C06", Name: "receiver",
		Units: func(tier string) []fw.Unit { return fw.Shards("codes", 16, c06ReceiverRun) },
		Replay: func(c *fw.Ctx, data json.RawMessage) {
			var cs c06RCase
			if json.Unmarshal(data, &cs) != nil {
				c.EngineError("bad replay data")
				return
			}
			c06ReceiverOne(c, cs)
		},
	})
}
