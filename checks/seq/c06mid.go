package seq

import (
	"context"
	"encoding/json"
	"errors"
	"fmt"
	"io"
	"time"

	"nhooyr.io/websocket"
	"verif/fw"
	"verif/refws/deflate"
	"verif/refws/frame"
)

// C06, part midread: Close while a received message is only partly read (the
// rest of it, other messages and control frames still precede the peer's echo
// in the stream), and a received Close frame whose echo cannot be written.

type c06MidCase struct {
	Client bool   `json:"client"`
	Shape  string `json:"shape"` // single | fragmented | two-messages | with-ping
	Read   int    `json:"read"`  // bytes of the first message consumed before Close (-1: Reader not even called)
	Kind   string `json:"kind"`  // close-midread | echo-write-fails
	Code   int    `json:"code"`  // echo-write-fails: the peer's close code
	Comp   string `json:"comp"`  // close-midread: "" | takeover | no-takeover (the messages are compressed)
	Ender  string `json:"ender"` // close-midread: Close (default) | CloseNow
}

func c06MidStream(cs c06MidCase) (in []byte, msgLen int) {
	masked := !cs.Client
	if cs.Comp != "" {
		return c06MidCompressedStream(cs)
	}
	data := func(op byte, fin bool, n int, tag byte) []byte {
		p := make([]byte, n)
		for i := range p {
			p[i] = tag
		}
		return frame.Frame{Fin: fin, Opcode: op, Masked: masked, Key: [4]byte{1, 2, 3, 4}, Payload: p}.Encode(nil)
	}
	switch cs.Shape {
	case "single":
		in = append(in, data(frame.OpBinary, true, 10, 0x81)...) // payload bytes look like frame headers
		msgLen = 10
	case "fragmented":
		in = append(in, data(frame.OpBinary, false, 6, 0x82)...)
		in = append(in, data(frame.OpCont, true, 4, 0x82)...)
		msgLen = 10
	case "two-messages":
		in = append(in, data(frame.OpText, true, 10, 0x88)...)
		in = append(in, data(frame.OpBinary, true, 5, 0x89)...)
		msgLen = 10
	case "with-ping":
		in = append(in, data(frame.OpBinary, false, 6, 0x8a)...)
		in = append(in, frame.Ctl(frame.OpPing, masked, []byte("p")).Encode(nil)...)
		in = append(in, data(frame.OpCont, true, 4, 0x8a)...)
		msgLen = 10
	case "large":
		// more unread data in flight than the read limit allows a single message to have
		in = append(in, data(frame.OpBinary, true, 40000, 0x8b)...)
		msgLen = 40000
	case "many-large":
		for i := 0; i < 3; i++ {
			in = append(in, data(frame.OpBinary, true, 20000, 0x8c)...)
		}
		msgLen = 20000
	}
	return
}

// c06MidCompressedStream: the same shapes with compressed messages of 10
// (first) and 5 bytes of plaintext; fragments split the deflate stream.
func c06MidCompressedStream(cs c06MidCase) (in []byte, msgLen int) {
	masked := !cs.Client
	def := &deflate.Deflater{NoContextTakeover: cs.Comp == "no-takeover"}
	plain := func(n int, tag byte) []byte {
		p := make([]byte, n)
		for i := range p {
			p[i] = tag + byte(i) // not a run: keeps the deflate stream a few bytes long
		}
		return p
	}
	fr := func(op byte, fin, rsv1 bool, pl []byte) []byte {
		return frame.Frame{Fin: fin, Rsv1: rsv1, Opcode: op, Masked: masked, Key: [4]byte{1, 2, 3, 4}, Payload: pl}.Encode(nil)
	}
	first := def.Message(plain(10, 0x41))
	msgLen = 10
	half := len(first) / 2
	switch cs.Shape {
	case "single":
		in = append(in, fr(frame.OpBinary, true, true, first)...)
	case "fragmented":
		in = append(in, fr(frame.OpBinary, false, true, first[:half])...)
		in = append(in, fr(frame.OpCont, true, false, first[half:])...)
	case "two-messages":
		in = append(in, fr(frame.OpText, true, true, first)...)
		in = append(in, fr(frame.OpBinary, true, true, def.Message(plain(5, 0x61)))...)
	case "with-ping":
		in = append(in, fr(frame.OpBinary, false, true, first[:half])...)
		in = append(in, frame.Ctl(frame.OpPing, masked, []byte("p")).Encode(nil)...)
		in = append(in, fr(frame.OpCont, true, false, first[half:])...)
	}
	return
}

func c06MidOne(c *fw.Ctx, cs c06MidCase) {
	c.Eval()
	c.AddTraces(1)
	role := mxRole(cs.Client)
	desc := fmt.Sprintf("%+v", cs)
	masked := !cs.Client
	switch cs.Kind {
	case "close-midread":
		in, msgLen := c06MidStream(cs)
		in = append(in, frame.Ctl(frame.OpClose, masked, frame.ClosePayload(1000, "")).Encode(nil)...)
		t := mxNewTransport(in)
		conn := mxConn(t, cs.Client, cs.Comp)
		defer conn.CloseNow()
		var r io.Reader
		if cs.Read >= 0 {
			var err error
			_, r, err = conn.Reader(context.Background())
			if err != nil {
				c.EngineError("midread: Reader failed: " + err.Error())
				return
			}
			if cs.Read > 0 && cs.Read < msgLen {
				buf := make([]byte, cs.Read)
				if _, err := r.Read(buf); err != nil {
					c.EngineError("midread: Read failed: " + err.Error())
					return
				}
			}
		}
		var err error
		if p := fw.Recover(func() {
			if cs.Ender == "CloseNow" {
				err = conn.CloseNow()
			} else {
				err = conn.Close(websocket.StatusNormalClosure, "")
			}
		}); p != "" {
			c.Violate("C06/panic", desc+": "+p, cs)
			return
		}
		c.OutcomeStr(fmt.Sprintf("mid|%s|%s|%s|%s|%d|%v", role, cs.Shape, cs.Comp, cs.Ender, cs.Read, err == nil))
		if err != nil {
			c.Violate("C06/sender/close-error-despite-echo/"+role+"/message-partly-read", fmt.Sprintf("%s: a %s message was pending (%d bytes of it consumed), the peer's stream then echoes Close(1000), but %s returned %v", desc, cs.Shape, cs.Read, cs.Ender, err), cs)
			return
		}
		// the connection is closed: reading on with the message reader obtained
		// before must fail (neither more data nor a clean end of message)
		if r != nil && cs.Read < msgLen {
			var n int
			var rerr error
			buf := make([]byte, 64)
			if p := fw.Recover(func() { n, rerr = r.Read(buf) }); p != "" {
				c.Violate("C06/panic", desc+": Read after close: "+p, cs)
				return
			}
			if rerr == nil || rerr == io.EOF {
				kind := "plain"
				if cs.Comp != "" {
					kind = "compressed"
				}
				c.Violate("C06/read-succeeds-after-close/"+role+"/"+kind+"-message-reader", fmt.Sprintf("%s: after %s returned, Read on the reader of the partly read message (%d of %d bytes consumed) returned n=%d err=%v; every read on a closed connection must fail", desc, cs.Ender, cs.Read, msgLen, n, rerr), cs)
			}
		}
	case "echo-write-fails":
		var pl []byte
		if cs.Code != 1005 {
			pl = frame.ClosePayload(cs.Code, "bye")
		}
		t := mxNewTransport(frame.Ctl(frame.OpClose, masked, pl).Encode(nil))
		t.WriteErr = errors.New("peer is gone")
		conn := mxConn(t, cs.Client, "")
		defer conn.CloseNow()
		ctx, cancel := context.WithTimeout(context.Background(), 30*time.Second)
		defer cancel()
		_, _, err := conn.Read(ctx)
		var ce websocket.CloseError
		c.OutcomeStr(fmt.Sprintf("echofail|%s|%d|%d", role, cs.Code, websocket.CloseStatus(err)))
		if err == nil || !errors.As(err, &ce) || int(ce.Code) != cs.Code {
			c.Violate("C06/receiver/close-error-differs/"+role+"/echo-write-fails", fmt.Sprintf("%s: the peer's Close frame (code %d) was received completely; the echo could not be written; the read returned %v, want a CloseError with that code", desc, cs.Code, err), cs)
		}
	}
}

func c06MidCases() []c06MidCase {
	var out []c06MidCase
	for _, client := range []bool{false, true} {
		for _, sh := range []string{"single", "fragmented", "two-messages", "with-ping"} {
			for _, rd := range []int{-1, 0, 1, 5, 9, 10} {
				for _, comp := range []string{"", "takeover", "no-takeover"} {
					for _, ender := range []string{"Close", "CloseNow"} {
						out = append(out, c06MidCase{Client: client, Shape: sh, Read: rd, Kind: "close-midread", Comp: comp, Ender: ender})
					}
				}
			}
		}
		for _, sh := range []string{"large", "many-large"} {
			for _, rd := range []int{-1, 0, 5} {
				for _, ender := range []string{"Close", "CloseNow"} {
					out = append(out, c06MidCase{Client: client, Shape: sh, Read: rd, Kind: "close-midread", Ender: ender})
				}
			}
		}
		for _, code := range []int{1000, 1001, 1005, 1011, 3000, 4999} {
			out = append(out, c06MidCase{Client: client, Kind: "echo-write-fails", Code: code})
		}
	}
	return out
}

func init() {
	// C03: what is left unread of a data frame when the endpoint closes is discarded as payload,
	// never decoded as frames (the close handshake still completes: Close returns nil when echoed)
	for _, prop := range []string{"C06", "C03"} {
		c06MidRegister(prop)
	}
}

func c06MidRegister(prop string) {
	fw.Register(fw.Part{
		Prop: prop, Name: "midread",
		Units: func(tier string) []fw.Unit {
			return []fw.Unit{{ID: "cases", Run: func(c *fw.Ctx) {
				c.Reprefix = prop != "C06"
				cases := c06MidCases()
				for _, cs := range cases {
					c06MidOne(c, cs)
				}
				c.AddStates(int64(len(cases)))
				c.AddTransitions(int64(len(cases)))
				c.Sample(cases[3])
				c.Bound("midread_cases", len(cases))
			}}}
		},
		Replay: func(c *fw.Ctx, data json.RawMessage) {
			var cs c06MidCase
			if json.Unmarshal(data, &cs) != nil {
				c.EngineError("bad replay data")
				return
			}
			c.Reprefix = prop != "C06"
			c06MidOne(c, cs)
		},
	})
}
