package seq

import (
	"bytes"
	"context"
	"encoding/json"
	"fmt"
	"io"
	"math"
	"net"
	"reflect"
	"runtime"
	"strings"

	"nhooyr.io/websocket"
	"nhooyr.io/websocket/wsjson"
	"verif/fw"
	"verif/refws/deflate"
	"verif/refws/frame"
)

// C08: read limit and memory. One goroutine reads scripted streams whose
// messages sit around the configured limit, in several framings, plain and
// compressed (reference sender refws/deflate), and streams whose frame header
// declares an absurd length. The oracle is the property text itself:
// size <= L => delivered in full; size > L => never a clean end, at most L+1
// bytes handed out, Close 1009 on the wire; TotalAlloc of the read bounded by
// what was delivered.

const c08DefaultLimit = 32768

type c08Msg struct {
	Size    int    `json:"size"`
	Framing string `json:"framing"` // one | split-at-limit | bytes | empty-frags
	// SetLimit: call SetReadLimit(Limit) before reading this message; otherwise
	// the limit in force stays (default 32768 for the first message).
	SetLimit bool  `json:"set_limit"`
	Limit    int64 `json:"limit"`
}

type c08Case struct {
	Kind   string   `json:"kind"` // limit | declared
	Client bool     `json:"client"`
	Comp   string   `json:"comp"` // off | zeros | no-takeover
	API    string   `json:"api"`  // read | reader
	Msgs   []c08Msg `json:"msgs,omitempty"`
	// declared-length cases
	Declared uint64 `json:"declared,omitempty"`
	Opcode   int    `json:"opcode,omitempty"`
	InMsg    bool   `json:"in_msg,omitempty"` // the lying frame follows a non-final first fragment
	K        int    `json:"k,omitempty"`
	Unlim    bool   `json:"unlimited,omitempty"` // SetReadLimit(-1) first
	Limit    int64  `json:"limit,omitempty"`     // declared-over-limit: the read limit
	// ColdPools: the collector runs twice before every message is read (empties the library's sync.Pools)
	ColdPools bool `json:"cold_pools,omitempty"`
	// HoldWriter: the application has an outgoing message open (a Writer obtained and not yet
	// closed) while it reads
	HoldWriter bool `json:"hold_writer,omitempty"`
}

func c08CompMode(comp string) string {
	switch comp {
	case "zeros", "takeover-text":
		return "takeover"
	case "no-takeover", "bfinal", "stored-open", "bfinal-tail":
		return "no-takeover"
	}
	return ""
}

// c08StoredOpen is a deflate stream made of non-final stored blocks holding p,
// without the header byte of the sync-flush block that a conforming sender
// leaves behind: the receiver's appended 00 00 ff ff then reads as a truncated
// block. What such a stream inflates to is the sender's business; how many
// bytes the receiver hands over before it stops is not.
func c08StoredOpen(p []byte) []byte {
	var out []byte
	for first := true; first || len(p) > 0; first = false {
		n := len(p)
		if n > 65535 {
			n = 65535
		}
		out = append(out, 0x00, byte(n), byte(n>>8), ^byte(n), ^byte(n>>8))
		out = append(out, p[:n]...)
		p = p[n:]
	}
	return out
}

// c08Payload is the application payload of message number idx.
func c08Payload(comp string, size, idx int) []byte {
	switch comp {
	case "zeros":
		return make([]byte, size)
	case "no-takeover", "bfinal", "stored-open", "bfinal-tail":
		// compressible text with some variation
		b := make([]byte, size)
		for i := range b {
			b[i] = "the quick brown fox jumps over the lazy dog 0123456789\n"[(i+i/97+idx)%55]
		}
		return b
	}
	if comp == "takeover-text" {
		// incompressible at short range; every other message has the same content, so a
		// sender that keeps its context refers back across the message in between
		b := make([]byte, size)
		x := uint32(77 + idx%2)
		for i := range b {
			x = x*1664525 + 1013904223
			b[i] = byte(x >> 24)
		}
		return b
	}
	return mxPattern(size, 11+idx)
}

// c08Cuts gives the frame boundaries (offsets into the wire payload).
func c08Cuts(framing string, wireLen int, limit int64) []int {
	switch framing {
	case "split-at-limit":
		at := wireLen / 2
		if limit >= 0 && int(limit) < wireLen {
			at = int(limit)
		}
		return []int{at}
	case "bytes":
		var cuts []int
		for i := 1; i < wireLen; i++ {
			cuts = append(cuts, i)
		}
		return cuts
	case "empty-frags":
		h := wireLen / 2
		return []int{0, h, h, wireLen}
	case "many-empty-frags":
		// 150 empty continuation frames in the middle of the (compressed) data
		h := wireLen / 2
		cuts := make([]int, 0, 151)
		for i := 0; i < 151; i++ {
			cuts = append(cuts, h)
		}
		return cuts
	}
	return nil
}

type c08Reading struct {
	typ       websocket.MessageType
	data      []byte
	err       error // nil = clean end of message
	panicked  string
	alloc     uint64
	openErr   bool // the error came from Reader() itself (no message started)
	guardFire bool
	afterErr  string // what one more Read on the failed reader did ("" = it failed again)
}

// The harness's own buffers are allocated once, outside the measured window.
var (
	c08Scratch = make([]byte, 0, 1<<20)
	c08Buf     [512]byte
)

// c08ReadOne reads one message with the chosen API and measures allocation.
// The returned data is only valid until the next call.
func c08ReadOne(conn *websocket.Conn, api string) (r c08Reading) {
	ctx, cancel := mxGuard(mxGuardTime)
	defer cancel()
	var before, after runtime.MemStats
	runtime.ReadMemStats(&before)
	r.panicked = fw.Recover(func() {
		if api == "read" {
			r.typ, r.data, r.err = conn.Read(ctx)
			return
		}
		if api == "close" {
			// the application closes while the peer's frame is in flight: the close
			// handshake skips the frame (nothing is delivered)
			r.err = conn.Close(websocket.StatusNormalClosure, "")
			return
		}
		if api == "closeread" {
			// CloseRead is active: an unexpected data frame makes the library close with a
			// policy violation and skip what arrives until the peer's Close frame
			cctx := conn.CloseRead(context.Background())
			select {
			case <-cctx.Done():
			case <-ctx.Done():
				r.err = ctx.Err()
			}
			conn.CloseNow() // waits for the CloseRead goroutine
			return
		}
		typ, rd, err := conn.Reader(ctx)
		if err != nil {
			r.err, r.openErr = err, true
			return
		}
		r.typ = typ
		r.data = c08Scratch[:0]
		buf := c08Buf[:]
		if api == "reader0" {
			// a Read with an empty buffer first (a length-prefixed protocol reading an empty
			// field): it transfers nothing and decides nothing about the message
			if n, err := rd.Read(buf[:0]); n != 0 || (err != nil && err != io.EOF) {
				r.err = fmt.Errorf("Read with an empty buffer returned (%d, %v)", n, err)
				return
			}
		}
		for {
			n, err := rd.Read(buf)
			r.data = append(r.data, buf[:n]...)
			if err == io.EOF {
				return
			}
			if err != nil {
				r.err = err
				r.afterErr = xportReadAfterError(rd)
				return
			}
		}
	})
	runtime.ReadMemStats(&after)
	r.alloc = after.TotalAlloc - before.TotalAlloc
	r.guardFire = mxHung(r.err)
	return r
}

// c08JSONDoc is a JSON document of exactly size bytes: one string ("wsjson-string"), or a
// short value followed by white space ("wsjson-padded": the value is complete long before
// the message is; the document as a whole is still valid JSON).
func c08JSONDoc(api string, size int) []byte {
	b := bytes.Repeat([]byte{' '}, size)
	switch {
	case size < 2:
		return bytes.Repeat([]byte{'7'}, size) // "7", or the empty (invalid) document
	case api == "wsjson-padded" && size >= 7:
		copy(b, `{"a":1}`)
	default:
		for i := range b {
			b[i] = 'a' + byte(i%26)
		}
		b[0], b[size-1] = '"', '"'
	}
	return b
}

// c08ReadJSON reads one message with wsjson.Read; data is the document when the decoded
// value is the document's value, nil otherwise.
func c08ReadJSON(conn *websocket.Conn, doc []byte) (r c08Reading) {
	ctx, cancel := mxGuard(mxGuardTime)
	defer cancel()
	var v interface{}
	r.panicked = fw.Recover(func() { r.err = wsjson.Read(ctx, conn, &v) })
	r.guardFire = mxHung(r.err)
	if r.err == nil {
		var want interface{}
		if json.Unmarshal(doc, &want) == nil && reflect.DeepEqual(v, want) {
			r.data = doc
		}
	}
	return r
}

// c08ReadNetConn reads one message's worth of bytes through the net.Conn adapter:
// exactly size bytes when the message is within the limit (an empty message is
// skipped by the adapter), otherwise until the read fails.
func c08ReadNetConn(nc net.Conn, size int, limit int64) (r c08Reading) {
	within := limit < 0 || int64(size) <= limit
	r.panicked = fw.Recover(func() {
		r.data = c08Scratch[:0]
		buf := c08Buf[:]
		for within && len(r.data) < size || !within && len(r.data) <= size+16 {
			want := len(buf)
			if within && size-len(r.data) < want {
				want = size - len(r.data)
			}
			n, err := nc.Read(buf[:want])
			r.data = append(r.data, buf[:n]...)
			if err != nil {
				r.err = err
				return
			}
		}
	})
	return r
}

// c08Bound: generous on purpose (pooled flate readers and bufio buffers are
// 40-64 KiB when the pools are cold; append doubling of the harness itself).
func c08Bound(delivered int) uint64 { return 4*uint64(delivered) + 1<<20 }

func c08One(c *fw.Ctx, cs c08Case) { c08OneP(c, cs, "C08") }

// c08OneP reports under prop (C14 runs the context-takeover sequences: each side
// decodes everything the other compresses, whatever read limit is set).
func c08OneP(c *fw.Ctx, cs c08Case, prop string) {
	pc := func(class string) string { return prop + strings.TrimPrefix(class, "C08") }
	c.Eval()
	if cs.Kind == "declared-over-limit" {
		c08DeclaredOverLimit(c, cs)
		return
	}
	if cs.Kind == "declared" {
		c08Declared(c, cs)
		return
	}
	desc := fmt.Sprintf("%+v", cs)
	masked := !cs.Client
	def := &deflate.Deflater{NoContextTakeover: cs.Comp == "no-takeover" || cs.Comp == "bfinal" || cs.Comp == "bfinal-tail"}
	// the limit in force per message is known before the stream is built
	var in []byte
	limits := make([]int64, len(cs.Msgs))
	payloads := make([][]byte, len(cs.Msgs))
	cur := int64(c08DefaultLimit)
	for i, m := range cs.Msgs {
		if m.SetLimit {
			cur = m.Limit
		}
		limits[i] = cur
		payloads[i] = c08Payload(cs.Comp, m.Size, i)
		if strings.HasPrefix(cs.API, "wsjson") {
			payloads[i] = c08JSONDoc(cs.API, m.Size)
		}
		wire := payloads[i]
		if cs.Comp == "bfinal-tail" {
			// a final deflate block early in the message, followed by 8 MiB that carry no
			// data (discarded by the receiver): what is delivered is the few bytes in front
			wire = append(def.MessageBFinal(payloads[i]), make([]byte, 8<<20)...)
		} else if cs.Comp == "bfinal" {
			// the sender ends every message with a BFINAL=1 block (RFC 7692 7.2.3.4)
			wire = def.MessageBFinal(payloads[i])
		} else if cs.Comp == "stored-open" {
			wire = c08StoredOpen(payloads[i])
		} else if cs.Comp != "off" {
			wire = def.Message(payloads[i])
		}
		op := byte(frame.OpBinary)
		if i%2 == 1 && cs.API != "netconn" || strings.HasPrefix(cs.API, "wsjson") {
			op = frame.OpText
		}
		in = append(in, mxEncode(mxSplit(op, masked, cs.Comp != "off", wire, c08Cuts(m.Framing, len(wire), cur))...)...)
	}
	t := mxNewTransport(in)
	conn := mxConn(t, cs.Client, c08CompMode(cs.Comp))
	defer conn.CloseNow()
	var nc net.Conn
	if cs.API == "netconn" {
		// the adapter lifts the limit when it is created; the application sets its own afterwards
		nc = websocket.NetConn(context.Background(), conn, websocket.MessageBinary)
	}

	if cs.HoldWriter {
		hctx, hcancel := mxGuard(mxGuardTime)
		defer hcancel()
		if _, err := conn.Writer(hctx, websocket.MessageText); err != nil {
			c.EngineError(desc + ": could not open a Writer: " + err.Error())
			return
		}
	}
	for i, m := range cs.Msgs {
		L := limits[i]
		if nc != nil && i == 0 && !m.SetLimit {
			conn.SetReadLimit(L)
		}
		if m.SetLimit {
			if p := fw.Recover(func() { conn.SetReadLimit(m.Limit) }); p != "" {
				c.Violate(pc("C08/panic"), desc+": SetReadLimit panicked: "+p, cs)
				return
			}
		}
		if cs.ColdPools {
			runtime.GC()
			runtime.GC()
		}
		logBefore := t.LogLen()
		var r c08Reading
		if nc != nil {
			r = c08ReadNetConn(nc, m.Size, L)
		} else if strings.HasPrefix(cs.API, "wsjson") {
			r = c08ReadJSON(conn, payloads[i])
		} else {
			r = c08ReadOne(conn, cs.API)
		}
		if r.panicked != "" {
			c.Violate(pc("C08/panic"), fmt.Sprintf("%s: message %d: %s panicked: %s", desc, i, cs.API, r.panicked), cs)
			return
		}
		if r.guardFire {
			c.EngineError(fmt.Sprintf("%s: hang guard fired while reading message %d: %v", desc, i, r.err))
			return
		}
		within := L < 0 || int64(m.Size) <= L
		where := fmt.Sprintf("message %d (%d bytes, framing %s, limit %d)", i, m.Size, m.Framing, L)
		if within && cs.Comp == "stored-open" {
			// a malformed ending: what a within-limit message decodes to is not judged,
			// and nothing after it on this connection either
			c.OutcomeStr(fmt.Sprintf("stored-open within L=%d size=%d got=%d err=%v", L, m.Size, len(r.data), r.err != nil))
			return
		}
		if within {
			if r.err != nil || !bytes.Equal(r.data, payloads[i]) {
				c.Violate(pc("C08/within-limit-not-delivered/")+cs.Comp, fmt.Sprintf("%s: %s is within the limit but was read as %d bytes (identical prefix: %d), err=%v", desc, where, len(r.data), c08CommonPrefix(r.data, payloads[i]), r.err), cs)
				return
			}
		} else {
			if r.err == nil {
				c.Violate(pc("C08/over-limit-reported-complete/")+cs.Comp+"/"+m.Framing, fmt.Sprintf("%s: %s exceeds the limit but the read ended cleanly after %d bytes", desc, where, len(r.data)), cs)
				return
			}
			if r.afterErr != "" {
				c.Violate(pc("C08/over-limit-reported-complete/")+cs.Comp+"/read-after-failure", fmt.Sprintf("%s: %s exceeds the limit and its read failed (%v), but the next Read on the same reader %s", desc, where, r.err, r.afterErr), cs)
				return
			}
			if int64(len(r.data)) > L+1 {
				c.Violate(pc("C08/over-limit-too-many-bytes"), fmt.Sprintf("%s: %s: %d bytes were handed to the caller before the failure, more than limit+1 = %d (err=%v)", desc, where, len(r.data), L+1, r.err), cs)
				return
			}
			if !mxHasCloseStatus(t.Log()[logBefore:], 1009) {
				c.Violate(pc("C08/over-limit-no-1009"), fmt.Sprintf("%s: %s: the read failed (%v) but no Close frame with status 1009 was written; Close frames written: %s", desc, where, r.err, c08Closes(t.Log()[logBefore:])), cs)
				return
			}
		}
		// (for messages beyond 1 MiB the growth policy of io.ReadAll and of the harness's own
		// buffer dominates: about 5x; the bound is judged for the messages below that)
		if m.Size <= 1<<20 && r.alloc > c08Bound(len(r.data)) {
			kind := "plain"
			if cs.Comp != "off" {
				kind = "ratio"
			}
			c.Violate(pc("C08/memory-exceeds-bound/")+kind, fmt.Sprintf("%s: %s: reading allocated %d bytes (TotalAlloc delta) for %d bytes delivered; bound 4x+1MiB = %d", desc, where, r.alloc, len(r.data), c08Bound(len(r.data))), cs)
			return
		}
		c.OutcomeStr(fmt.Sprintf("%s %s %s %s L=%d size=%d within=%v got=%d", cs.Comp, mxRole(cs.Client), cs.API, m.Framing, L, m.Size, within, len(r.data)))
		if !within {
			return // nothing is stated about the connection after the failure
		}
	}
}

func c08CommonPrefix(a, b []byte) int {
	n := 0
	for n < len(a) && n < len(b) && a[n] == b[n] {
		n++
	}
	return n
}

func c08Closes(out []byte) string {
	var s []string
	for _, f := range mxCloseFrames(out) {
		code, rs, _ := mxCloseCode(f.Payload)
		s = append(s, fmt.Sprintf("{code %d reason %q}", code, rs))
	}
	return fmt.Sprint(s)
}

// c08Declared: a header that declares Declared bytes followed by K real bytes
// and the end of the transport. Only memory (and absence of a panic) is judged:
// what the truncated read reports is property C04's question.
func c08Declared(c *fw.Ctx, cs c08Case) {
	desc := fmt.Sprintf("%+v", cs)
	masked := !cs.Client
	real := mxPattern(cs.K, 5)
	compressed := false
	if cs.Comp != "off" && (cs.Opcode == frame.OpText || cs.Opcode == frame.OpBinary) {
		z := (&deflate.Deflater{}).Message(make([]byte, 100000))
		if len(z) < cs.K {
			real = z
		} else {
			real = z[:cs.K]
		}
		compressed = true
	}
	var fs []frame.Frame
	if cs.InMsg {
		fs = append(fs, frame.Data(frame.OpBinary, false, masked, []byte("head")))
	}
	lie := frame.Frame{Fin: true, Opcode: byte(cs.Opcode), Masked: masked, Key: [4]byte{9, 8, 7, 6}, Payload: real,
		HasDeclared: true, DeclaredLen: cs.Declared, LenClass: 2, Rsv1: compressed && !cs.InMsg}
	fs = append(fs, lie)
	t := mxNewTransport(mxEncode(fs...))
	conn := mxConn(t, cs.Client, c08CompMode(cs.Comp))
	defer conn.CloseNow()
	if cs.Unlim {
		conn.SetReadLimit(-1)
	}
	r := c08ReadOne(conn, cs.API)
	if r.panicked != "" {
		c.Violate("C08/panic", fmt.Sprintf("%s: %s panicked: %s", desc, cs.API, r.panicked), cs)
		return
	}
	if r.guardFire {
		c.EngineError(fmt.Sprintf("%s: hang guard fired: %v", desc, r.err))
		return
	}
	if r.alloc > c08Bound(len(r.data)) {
		c.Violate("C08/memory-exceeds-bound/declared", fmt.Sprintf("%s: a frame header declaring %d bytes followed by %d real bytes and EOF made the read allocate %d bytes (TotalAlloc delta) for %d bytes delivered; bound 4x+1MiB = %d", desc, cs.Declared, len(real), r.alloc, len(r.data), c08Bound(len(r.data))), cs)
		return
	}
	c.OutcomeStr(fmt.Sprintf("declared %s %s %s op=%d inmsg=%v k=%d unlim=%v got=%d clean=%v", cs.Comp, mxRole(cs.Client), cs.API, cs.Opcode, cs.InMsg, cs.K, cs.Unlim, len(r.data), r.err == nil))
}

// c08DeclaredOverLimit: a data frame whose header declares Declared bytes and
// that really carries K bytes, more than the read limit allows: however large
// the declared length, the read must fail after at most limit+1 bytes and a
// Close frame with status 1009 must be written.
func c08DeclaredOverLimit(c *fw.Ctx, cs c08Case) {
	desc := fmt.Sprintf("%+v", cs)
	masked := !cs.Client
	real := mxPattern(cs.K, 3)
	lie := frame.Frame{Fin: true, Opcode: byte(cs.Opcode), Masked: masked, Key: [4]byte{9, 8, 7, 6}, Payload: real,
		HasDeclared: true, DeclaredLen: cs.Declared, LenClass: 2}
	t := mxNewTransport(mxEncode(lie))
	conn := mxConn(t, cs.Client, "")
	defer conn.CloseNow()
	conn.SetReadLimit(cs.Limit)
	r := c08ReadOne(conn, cs.API)
	if r.panicked != "" {
		c.Violate("C08/panic", fmt.Sprintf("%s: %s panicked: %s", desc, cs.API, r.panicked), cs)
		return
	}
	if r.guardFire {
		c.EngineError(fmt.Sprintf("%s: hang guard fired: %v", desc, r.err))
		return
	}
	c.OutcomeStr(fmt.Sprintf("declared-over-limit %s %s L=%d declared=%d got=%d clean=%v", mxRole(cs.Client), cs.API, cs.Limit, cs.Declared, len(r.data), r.err == nil))
	if r.err == nil {
		c.Violate("C08/over-limit-reported-complete/off/declared-length", fmt.Sprintf("%s: %d bytes arrived for limit %d but the read ended cleanly", desc, cs.K, cs.Limit), cs)
		return
	}
	if int64(len(r.data)) > cs.Limit+1 {
		c.Violate("C08/over-limit-too-many-bytes", fmt.Sprintf("%s: %d bytes handed over, limit %d", desc, len(r.data), cs.Limit), cs)
		return
	}
	if !mxHasCloseStatus(t.Log(), 1009) {
		c.Violate("C08/over-limit-no-1009/declared-length", fmt.Sprintf("%s: the message exceeded the limit (frame declares %d bytes, %d arrived) but no Close frame with status 1009 was written: %s", desc, cs.Declared, cs.K, c08Closes(t.Log())), cs)
	}
}

// ------------------------------------------------------------ enumeration ---

var c08Limits = []int64{0, 1, 2, 125, 126, 4096, c08DefaultLimit, 65536, -1, math.MaxInt64, math.MaxInt64 - 1}
var c08Framings = []string{"one", "split-at-limit", "bytes", "empty-frags", "many-empty-frags"}
var c08Comps = []string{"off", "zeros", "no-takeover", "bfinal", "stored-open"}
var c08APIs = []string{"read", "reader", "netconn", "reader0"}

func c08Sizes(L int64, thorough bool) []int {
	if L < 0 || L > 1<<40 {
		// unlimited (any negative value), or a limit no message can reach
		return []int{0, 1, 32768, 32769, 100000}
	}
	var out []int
	seen := map[int64]bool{}
	for _, s := range []int64{L - 1, L, L + 1, L + 2, 2 * L, 10 * L} {
		if s < 0 || seen[s] {
			continue
		}
		if s == 10*L && L >= 65535 && !thorough {
			continue
		}
		seen[s] = true
		out = append(out, int(s))
	}
	return out
}

var c08MoreLimits = []int64{3, 127, 4095, 4097, 65535, 131072}

func c08Cases(thorough bool) []c08Case {
	var out []c08Case
	for _, client := range []bool{false, true} {
		for _, api := range c08APIs {
			for _, decl := range []uint64{40000, 1 << 32, 99999999999999, 100000000000000, 1 << 50, 1<<63 - 1} {
				for _, L := range []int64{0, 10, 100} {
					for _, op := range []int{frame.OpText, frame.OpBinary} {
						out = append(out, c08Case{Kind: "declared-over-limit", Client: client, Comp: "off", API: api, Declared: decl, Opcode: op, K: 1000, Limit: L})
					}
				}
			}
		}
	}
	limits := c08Limits
	maxBytes := 300
	if thorough {
		limits = append(append([]int64(nil), c08Limits...), c08MoreLimits...)
		maxBytes = 5000
	}
	for _, comp := range c08Comps {
		for _, client := range []bool{false, true} {
			for _, api := range c08APIs {
				// one message per connection
				for _, L := range limits {
					for _, size := range c08Sizes(L, thorough) {
						for _, fr := range c08Framings {
							if fr == "bytes" && size > maxBytes {
								continue
							}
							m := c08Msg{Size: size, Framing: fr, SetLimit: L != c08DefaultLimit, Limit: L}
							out = append(out, c08Case{Kind: "limit", Client: client, Comp: comp, API: api, Msgs: []c08Msg{m}})
						}
					}
				}
				// the limit changes between two messages
				for _, ch := range [][2]int64{{125, 126}, {126, 125}, {4096, 1}, {1, 4096}, {c08DefaultLimit, 0}, {0, -1}, {-1, 125}, {c08DefaultLimit, 65536}, {65536, c08DefaultLimit}} {
					first := ch[0]
					if first < 0 {
						first = 40000
					}
					for _, s2 := range c08Sizes(ch[1], false) {
						if ch[1] >= 0 && int64(s2) > 2*ch[1]+2 {
							continue
						}
						for _, fr := range []string{"one", "empty-frags"} {
							m1 := c08Msg{Size: int(first), Framing: "one", SetLimit: ch[0] != c08DefaultLimit, Limit: ch[0]}
							m2 := c08Msg{Size: s2, Framing: fr, SetLimit: true, Limit: ch[1]}
							out = append(out, c08Case{Kind: "limit", Client: client, Comp: comp, API: api, Msgs: []c08Msg{m1, m2}})
						}
					}
				}
			}
		}
	}
	// a large message (limit lifted), then the limit lowered and a tiny message: what reading the
	// tiny one allocates is bounded by the tiny one, not by its predecessor
	for _, client := range []bool{false, true} {
		for _, api := range c08APIs {
			for _, comp := range []string{"off", "zeros"} {
				m1 := c08Msg{Size: 4 << 20, Framing: "one", SetLimit: true, Limit: -1}
				m2 := c08Msg{Size: 10, Framing: "one", SetLimit: true, Limit: 1024}
				m3 := c08Msg{Size: 10, Framing: "one"}
				out = append(out, c08Case{Kind: "limit", Client: client, Comp: comp, API: api, Msgs: []c08Msg{m1, m2, m3}})
			}
		}
	}
	// a message that ends early in a huge frame
	for _, client := range []bool{false, true} {
		for _, api := range []string{"read", "reader"} {
			for _, fr := range []string{"one", "split-at-limit"} {
				m := c08Msg{Size: 5, Framing: fr, SetLimit: true, Limit: 1024}
				out = append(out, c08Case{Kind: "limit", Client: client, Comp: "bfinal-tail", API: api, Msgs: []c08Msg{m}})
			}
		}
	}
	// an over-limit message arrives while the application has an outgoing message open
	for _, client := range []bool{false, true} {
		for _, api := range []string{"read", "reader"} {
			for _, comp := range []string{"off", "zeros"} {
				for _, L := range []int64{125, 4096} {
					for _, size := range []int{int(L), int(L) + 1, int(2 * L)} {
						m := c08Msg{Size: size, Framing: "one", SetLimit: true, Limit: L}
						out = append(out, c08Case{Kind: "limit", Client: client, Comp: comp, API: api, Msgs: []c08Msg{m}, HoldWriter: true})
					}
				}
			}
		}
	}
	// wsjson.Read: documents around the limit, as one long string and as a short value padded with white space
	for _, client := range []bool{false, true} {
		for _, api := range []string{"wsjson-string", "wsjson-padded"} {
			for _, comp := range []string{"off", "no-takeover"} {
				for _, L := range []int64{125, 4096, c08DefaultLimit, -1} {
					for _, size := range c08Sizes(L, false) {
						if size < 1 {
							continue
						}
						for _, fr := range []string{"one", "split-at-limit"} {
							m := c08Msg{Size: size, Framing: fr, SetLimit: L != c08DefaultLimit, Limit: L}
							out = append(out, c08Case{Kind: "limit", Client: client, Comp: comp, API: api, Msgs: []c08Msg{m}})
						}
					}
				}
			}
		}
	}
	// context takeover with a small limit: messages A, B, A, A each exactly at the limit; the
	// third and fourth refer back further than the limit (but within the 32 KiB window)
	for _, client := range []bool{false, true} {
		for _, api := range c08APIs {
			for _, L := range []int64{1024, 4096, 10000} {
				for _, fr := range []string{"one", "split-at-limit"} {
					var ms []c08Msg
					for i := 0; i < 4; i++ {
						ms = append(ms, c08Msg{Size: int(L), Framing: fr, SetLimit: i == 0, Limit: L})
					}
					out = append(out, c08Case{Kind: "limit", Client: client, Comp: "takeover-text", API: api, Msgs: ms})
					out = append(out, c08Case{Kind: "limit", Client: client, Comp: "takeover-text", API: api, Msgs: ms, ColdPools: true})
				}
			}
		}
	}
	// lying headers met by the close handshake instead of a reader
	for _, client := range []bool{false, true} {
		for _, api := range []string{"close", "closeread"} {
			for _, decl := range []uint64{1 << 28, 1 << 40} {
				for _, op := range []int{frame.OpBinary, frame.OpCont, frame.OpPing} {
					out = append(out, c08Case{Kind: "declared", Client: client, Comp: "off", API: api, Declared: decl, Opcode: op, InMsg: op != frame.OpBinary, K: 10})
				}
			}
		}
	}
	// lying headers
	for _, comp := range []string{"off", "zeros"} {
		for _, client := range []bool{false, true} {
			for _, api := range c08APIs {
				for _, decl := range []uint64{1 << 40, 1<<63 - 1, 1 << 63, 1<<64 - 1} {
					for _, k := range []int{0, 1, 1000} {
						for _, unlim := range []bool{false, true} {
							for _, op := range []int{frame.OpBinary, frame.OpText, frame.OpCont, frame.OpPing, frame.OpPong, frame.OpClose} {
								if op == frame.OpCont {
									out = append(out, c08Case{Kind: "declared", Client: client, Comp: comp, API: api, Declared: decl, Opcode: op, InMsg: true, K: k, Unlim: unlim})
									continue
								}
								out = append(out, c08Case{Kind: "declared", Client: client, Comp: comp, API: api, Declared: decl, Opcode: op, K: k, Unlim: unlim})
								if op >= 8 {
									out = append(out, c08Case{Kind: "declared", Client: client, Comp: comp, API: api, Declared: decl, Opcode: op, InMsg: true, K: k, Unlim: unlim})
								}
							}
						}
					}
				}
			}
		}
	}
	return out
}

func c08Run(c *fw.Ctx, shard, nshards int) {
	cases := c08Cases(c.Thorough())
	for i := shard; i < len(cases); i += nshards {
		if c.OutOfTime() {
			c.NotExhaustive(fmt.Sprintf("time budget reached at case %d of %d", i, len(cases)))
			break
		}
		c08One(c, cases[i])
		if c.WantSample() && (i/nshards)%97 == 5 {
			c.Sample(cases[i])
		}
	}
	c.Bound("cases", len(cases))
	if c.Thorough() {
		c.Bound("limits", "0 1 2 3 125 126 127 4095 4096 4097 32768(default, SetReadLimit not called) 65535 65536 131072 -1")
		c.Bound("one_byte_fragments_up_to", 5000)
	} else {
		c.Bound("limits", "0 1 2 125 126 4096 32768(default, SetReadLimit not called) 65536 -1")
		c.Bound("one_byte_fragments_up_to", 300)
	}
	c.Bound("sizes", "L-1 L L+1 L+2 2L 10L (10L at L=65536 only in tier thorough); for -1: 0 1 32768 32769 100000")
	c.Bound("framings", c08Framings)
	c.Bound("compression", c08Comps)
	c.Bound("apis", c08APIs)
	c.Bound("declared_lengths", "2^40 2^63-1 2^63 2^64-1 x k in {0,1,1000} x data, continuation and control frames")
	c.Bound("alloc_bound", "TotalAlloc delta <= 4 x delivered + 1 MiB")
}

func c14LimitCases() []c08Case {
	var out []c08Case
	for _, cs := range c08Cases(false) {
		if cs.Comp == "takeover-text" {
			out = append(out, cs)
		}
	}
	return out
}

func init() {
	fw.Register(fw.Part{
		Prop: "C14", Name: "limited",
		Units: func(tier string) []fw.Unit {
			return []fw.Unit{{ID: "takeover-sequences", Run: func(c *fw.Ctx) {
				cases := c14LimitCases()
				for _, cs := range cases {
					c08OneP(c, cs, "C14")
				}
				c.AddStates(int64(len(cases)))
				c.AddTransitions(int64(4 * len(cases)))
				c.AddTraces(int64(len(cases)))
				c.Bound("limited_takeover_sequences", len(cases))
				c.Sample(cases[0])
			}}}
		},
		Replay: func(c *fw.Ctx, data json.RawMessage) {
			var cs c08Case
			if json.Unmarshal(data, &cs) != nil {
				c.EngineError("bad replay data")
				return
			}
			c08OneP(c, cs, "C14")
		},
	})
	fw.Register(fw.Part{
		Prop: "C08", Name: "limit",
		Units: func(tier string) []fw.Unit { return fw.Shards("grid", 16, c08Run) },
		Replay: func(c *fw.Ctx, data json.RawMessage) {
			var cs c08Case
			if json.Unmarshal(data, &cs) != nil {
				c.EngineError("bad replay data")
				return
			}
			c08One(c, cs)
		},
	})
}
