package seq

import (
	"bytes"
	"encoding/json"
	"fmt"
	"io"

	"verif/fw"
	"verif/refws/deflate"
	"verif/refws/frame"
)

// C08, part afterexact: the application knows the length of a compressed message and
// reads exactly that many bytes (io.ReadFull) without asking for io.EOF, then goes on to
// the next message (Reader again). The next message is compressed too: it is counted
// after decompression like any other (a 100000-byte run of zeros, about 120 bytes on the
// wire, never completes under the default limit; a 1000-byte one is delivered).

type c08ExactCase struct {
	Client bool   `json:"client"`
	Comp   string `json:"comp"` // takeover | no-takeover
	First  int    `json:"first_message_bytes"`
	Second int    `json:"second_message_bytes"`
	Frags  bool   `json:"first_message_fragmented"`
}

func c08ExactOne(c *fw.Ctx, cs c08ExactCase) {
	c.Eval()
	c.AddTraces(1)
	masked := !cs.Client
	def := &deflate.Deflater{NoContextTakeover: cs.Comp == "no-takeover"}
	m1 := bytes.Repeat([]byte("abcdefghij"), cs.First/10+1)[:cs.First]
	m2 := make([]byte, cs.Second)
	var in []byte
	z1 := def.Message(m1)
	if cs.Frags {
		in = append(in, frame.Frame{Fin: false, Rsv1: true, Opcode: frame.OpBinary, Masked: masked, Payload: z1[:len(z1)/2]}.Encode(nil)...)
		in = append(in, frame.Frame{Fin: true, Opcode: frame.OpCont, Masked: masked, Payload: z1[len(z1)/2:]}.Encode(nil)...)
	} else {
		in = append(in, frame.Frame{Fin: true, Rsv1: true, Opcode: frame.OpBinary, Masked: masked, Payload: z1}.Encode(nil)...)
	}
	in = append(in, frame.Frame{Fin: true, Rsv1: true, Opcode: frame.OpBinary, Masked: masked, Payload: def.Message(m2)}.Encode(nil)...)
	t := mxNewTransport(in)
	conn := mxConn(t, cs.Client, cs.Comp)
	defer conn.CloseNow()
	ctx, cancel := mxGuard(mxGuardTime)
	defer cancel()
	desc := fmt.Sprintf("%+v", cs)
	var got1, got2 []byte
	var err1, err2 error
	pan := fw.Recover(func() {
		_, r, err := conn.Reader(ctx)
		if err != nil {
			err1 = err
			return
		}
		got1 = make([]byte, cs.First)
		if _, err1 = io.ReadFull(r, got1); err1 != nil {
			return
		}
		_, r, err = conn.Reader(ctx)
		if err != nil {
			err2 = err
			return
		}
		got2, err2 = io.ReadAll(r)
	})
	if pan != "" {
		c.Violate("C08/panic/afterexact", desc+": "+pan, cs)
		return
	}
	if mxHung(err1) || mxHung(err2) {
		c.EngineError(desc + ": hang guard fired")
		return
	}
	c.OutcomeStr(fmt.Sprintf("afterexact %+v e1=%v e2=%v n2=%d", cs, err1 != nil, err2 != nil, len(got2)))
	if err1 != nil || !bytes.Equal(got1, m1) {
		c.Violate("C08/within-limit-not-delivered/afterexact", fmt.Sprintf("%s: the first message (%d bytes, within the limit) read with io.ReadFull: err=%v, equal=%v", desc, cs.First, err1, bytes.Equal(got1, m1)), cs)
		return
	}
	const limit = 32768
	if cs.Second <= limit {
		if err2 != nil || !bytes.Equal(got2, m2) {
			c.Violate("C08/within-limit-not-delivered/afterexact", fmt.Sprintf("%s: the second message (%d bytes of zeros, within the limit) after a message that was read by its exact length: %d bytes, err=%v", desc, cs.Second, len(got2), err2), cs)
		}
		return
	}
	if err2 == nil {
		c.Violate("C08/over-limit-reported-complete/afterexact", fmt.Sprintf("%s: the second message inflates to %d bytes (limit %d) and was reported complete after %d bytes: the limit was counted before decompression", desc, cs.Second, limit, len(got2)), cs)
		return
	}
	if len(got2) > limit+1 {
		c.Violate("C08/over-limit-bytes-delivered/afterexact", fmt.Sprintf("%s: %d bytes handed to the caller, limit %d", desc, len(got2), limit), cs)
		return
	}
	has1009 := false
	for _, f := range mxCloseFrames(t.Log()) {
		if code, _, ok := mxCloseCode(f.Payload); ok && code == 1009 {
			has1009 = true
		}
	}
	if !has1009 {
		c.Violate("C08/over-limit-no-1009/afterexact", fmt.Sprintf("%s: the second message exceeded the limit (err=%v) but no Close frame with status 1009 was written", desc, err2), cs)
	}
}

func c08ExactCases() []c08ExactCase {
	var out []c08ExactCase
	for _, client := range []bool{false, true} {
		for _, comp := range []string{"takeover", "no-takeover"} {
			for _, first := range []int{10, 600, 5000} {
				for _, second := range []int{1000, 32768, 32769, 100000, 1 << 20} {
					for _, fr := range []bool{false, true} {
						out = append(out, c08ExactCase{Client: client, Comp: comp, First: first, Second: second, Frags: fr})
					}
				}
			}
		}
	}
	return out
}

func init() {
	fw.Register(fw.Part{
		Prop: "C08", Name: "afterexact",
		Units: func(tier string) []fw.Unit {
			return []fw.Unit{{ID: "compressed-message-after-exact-length-read", Run: func(c *fw.Ctx) {
				cases := c08ExactCases()
				for _, cs := range cases {
					c08ExactOne(c, cs)
				}
				c.AddStates(int64(len(cases)))
				c.AddTransitions(int64(2 * len(cases)))
				c.Bound("afterexact_cases", len(cases))
			}}}
		},
		Replay: func(c *fw.Ctx, data json.RawMessage) {
			var cs c08ExactCase
			if json.Unmarshal(data, &cs) != nil {
				c.EngineError("bad replay data")
				return
			}
			c08ExactOne(c, cs)
		},
	})
}
