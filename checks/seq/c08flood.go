package seq

import (
	"bytes"
	"encoding/json"
	"fmt"
	"runtime"

	"verif/fw"
	"verif/refws/deflate"
	"verif/refws/frame"
)

// C08, part flood: memory while receiving is bounded by what is delivered, not
// by how many control frames (or empty fragments) the peer puts in front of or
// inside a message. The transport delivers the stream in 4 KiB pieces and
// records, at every read, how deep the reading goroutine's call stack is: that
// depth must not grow with the number of frames received.

type c08FloodCase struct {
	Client bool   `json:"client"`
	Comp   string `json:"comp"`  // "" | no-takeover
	Kind   string `json:"kind"`  // pongs | pings | empty-fragments
	Count  int    `json:"count"` // number of frames between the two halves of the message
}

func c08FloodOne(c *fw.Ctx, cs c08FloodCase) { c08FloodOneP(c, cs, "C08") }

// c08FloodOneP: under C03 only delivery is judged (a valid stream with any number
// of empty fragments / control frames inside a message yields the sender's message).
func c08FloodOneP(c *fw.Ctx, cs c08FloodCase, prop string) {
	c.Eval()
	c.AddTraces(1)
	desc := fmt.Sprintf("%+v", cs)
	masked := !cs.Client
	msg := bytes.Repeat([]byte("flood-"), 20)
	wire, rsv1 := msg, false
	if cs.Comp != "" {
		wire, rsv1 = (&deflate.Deflater{NoContextTakeover: true}).Message(msg), true
	}
	h := len(wire) / 2
	var in []byte
	in = append(in, frame.Frame{Fin: false, Rsv1: rsv1, Opcode: frame.OpBinary, Masked: masked, Key: [4]byte{1, 3, 5, 7}, Payload: wire[:h]}.Encode(nil)...)
	var mid []byte
	switch cs.Kind {
	case "pongs":
		mid = frame.Ctl(frame.OpPong, masked, nil).Encode(nil)
	case "pings":
		mid = frame.Ctl(frame.OpPing, masked, nil).Encode(nil)
	case "empty-fragments":
		mid = frame.Frame{Fin: false, Opcode: frame.OpCont, Masked: masked, Key: [4]byte{2, 4, 6, 8}}.Encode(nil)
	}
	in = append(in, bytes.Repeat(mid, cs.Count)...)
	in = append(in, frame.Frame{Fin: true, Opcode: frame.OpCont, Masked: masked, Key: [4]byte{1, 3, 5, 9}, Payload: wire[h:]}.Encode(nil)...)
	var chunks [][]byte
	for off := 0; off < len(in); off += 4096 {
		end := off + 4096
		if end > len(in) {
			end = len(in)
		}
		chunks = append(chunks, in[off:end])
	}
	t := mxNewTransport(chunks...)
	minDepth, maxDepth := 1<<30, 0
	pcs := make([]uintptr, 4096)
	t.Hook = func(int) {
		d := runtime.Callers(0, pcs)
		if d < minDepth {
			minDepth = d
		}
		if d > maxDepth {
			maxDepth = d
		}
	}
	conn := mxConn(t, cs.Client, cs.Comp)
	defer conn.CloseNow()
	r := c08ReadOne(conn, "reader")
	if r.panicked != "" {
		c.Violate(prop+"/panic", desc+": "+r.panicked, cs)
		return
	}
	if r.guardFire {
		c.EngineError(desc + ": hang guard fired: " + fmt.Sprint(r.err))
		return
	}
	c.OutcomeStr(fmt.Sprintf("flood %v %s %s n=%d depth=%d", cs.Client, cs.Comp, cs.Kind, len(r.data), maxDepth-minDepth))
	if r.err != nil || !bytes.Equal(r.data, msg) {
		cls := "C08/within-limit-not-delivered/flood-" + cs.Kind
		if prop == "C03" {
			cls = fmt.Sprintf("C03/valid-stream-not-delivered/%s-inside-message/comp=%q", cs.Kind, cs.Comp)
		}
		c.Violate(cls, fmt.Sprintf("%s: a %d-byte message with %d %s between its two fragments was read as %d bytes, err=%v", desc, len(msg), cs.Count, cs.Kind, len(r.data), r.err), cs)
		return
	}
	if prop == "C08" && maxDepth-minDepth > 64 {
		c.Violate("C08/memory-grows-with-frames-received/stack/"+cs.Kind, fmt.Sprintf("%s: the reading goroutine's call depth at transport reads went from %d to %d frames while %d %s arrived (%d bytes delivered): stack use grows with the number of frames received", desc, minDepth, maxDepth, cs.Count, cs.Kind, len(r.data)), cs)
		return
	}
}

func c08FloodCases(thorough bool) []c08FloodCase {
	n := 20000
	if thorough {
		n = 300000
	}
	var out []c08FloodCase
	for _, client := range []bool{false, true} {
		for _, comp := range []string{"", "no-takeover"} {
			for _, kind := range []string{"pongs", "pings", "empty-fragments"} {
				out = append(out, c08FloodCase{Client: client, Comp: comp, Kind: kind, Count: n})
			}
		}
	}
	return out
}

// c03FloodCases: runs of 1..1000 empty fragments / control frames inside a message
// (counts around 100, where a buffered reader gives up on empty reads).
func c03FloodCases() []c08FloodCase {
	var out []c08FloodCase
	for _, client := range []bool{false, true} {
		for _, comp := range []string{"", "no-takeover"} {
			for _, kind := range []string{"pongs", "pings", "empty-fragments"} {
				for _, n := range []int{1, 2, 50, 98, 99, 100, 101, 128, 300, 1000} {
					out = append(out, c08FloodCase{Client: client, Comp: comp, Kind: kind, Count: n})
				}
			}
		}
	}
	return out
}

func init() {
	fw.Register(fw.Part{
		Prop: "C03", Name: "runs",
		Units: func(tier string) []fw.Unit {
			return []fw.Unit{{ID: "cases", Run: func(c *fw.Ctx) {
				cases := c03FloodCases()
				for _, cs := range cases {
					c08FloodOneP(c, cs, "C03")
				}
				c.AddStates(int64(len(cases)))
				c.AddTransitions(int64(len(cases)))
				c.Bound("run_cases", len(cases))
				c.Sample(cases[5])
			}}}
		},
		Replay: func(c *fw.Ctx, data json.RawMessage) {
			var cs c08FloodCase
			if json.Unmarshal(data, &cs) != nil {
				c.EngineError("bad replay data")
				return
			}
			c08FloodOneP(c, cs, "C03")
		},
	})
	fw.Register(fw.Part{
		Prop: "C08", Name: "flood",
		Units: func(tier string) []fw.Unit {
			return []fw.Unit{{ID: "cases", Run: func(c *fw.Ctx) {
				cases := c08FloodCases(c.Thorough())
				for _, cs := range cases {
					c08FloodOne(c, cs)
				}
				c.Bound("flood_cases", len(cases))
				c.Bound("frames_per_flood", cases[0].Count)
			}}}
		},
		Replay: func(c *fw.Ctx, data json.RawMessage) {
			var cs c08FloodCase
			if json.Unmarshal(data, &cs) != nil {
				c.EngineError("bad replay data")
				return
			}
			c08FloodOne(c, cs)
		},
	})
}
