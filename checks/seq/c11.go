package seq

import (
	"bufio"
	"bytes"
	"context"
	"encoding/base64"
	"encoding/json"
	"errors"
	"fmt"
	"io"
	"net"
	"net/http"
	"net/url"
	"sort"
	"strings"
	"time"

	"nhooyr.io/websocket"
	"nhooyr.io/websocket/wsjson"
	"verif/fw"
	"verif/refws/frame"
	"verif/refws/handshake"
)

// C11: Accept upgrades exactly the valid WebSocket requests and answers them
// correctly. Part "grammar": the full cross product of a header grammar goes
// straight to websocket.Accept with a recording ResponseWriter+Hijacker; the
// oracle is refws/handshake. Part "buffered": client frames that were read
// ahead into the hijacked bufio.Reader must be seen by the first reads.

// ---------------------------------------------------------------- harness ---

// c11Conn is the net.Conn handed out by Hijack. Read returns exactly the next
// scripted chunk, then io.EOF; nothing ever blocks.
type c11Conn struct {
	chunks [][]byte
	closed bool
	wrote  int
	out    []byte
}

func (f *c11Conn) Read(p []byte) (int, error) {
	if f.closed {
		return 0, net.ErrClosed
	}
	for len(f.chunks) > 0 && len(f.chunks[0]) == 0 {
		f.chunks = f.chunks[1:]
	}
	if len(f.chunks) == 0 {
		return 0, io.EOF
	}
	n := copy(p, f.chunks[0])
	f.chunks[0] = f.chunks[0][n:]
	return n, nil
}
func (f *c11Conn) Write(p []byte) (int, error) {
	if f.closed {
		return 0, net.ErrClosed
	}
	f.wrote += len(p)
	f.out = append(f.out, p...)
	return len(p), nil
}
func (f *c11Conn) Close() error                       { f.closed = true; return nil }
func (f *c11Conn) LocalAddr() net.Addr                { return c11Addr{} }
func (f *c11Conn) RemoteAddr() net.Addr               { return c11Addr{} }
func (f *c11Conn) SetDeadline(t time.Time) error      { return nil }
func (f *c11Conn) SetReadDeadline(t time.Time) error  { return nil }
func (f *c11Conn) SetWriteDeadline(t time.Time) error { return nil }

type c11Addr struct{}

func (c11Addr) Network() string { return "scripted" }
func (c11Addr) String() string  { return "scripted" }

// c11Writer records what Accept writes and implements http.Hijacker.
type c11Writer struct {
	h       http.Header
	status  int         // first status written, 0 = nothing written
	sent    http.Header // headers as they were when the status was written
	hijacks int
	conn    *c11Conn
	brw     *bufio.ReadWriter
	bufSize int
}

func c11NewWriter() *c11Writer { return &c11Writer{h: http.Header{}, bufSize: 256} }

func (w *c11Writer) Header() http.Header { return w.h }
func (w *c11Writer) WriteHeader(code int) {
	if w.status == 0 {
		w.status = code
		w.sent = w.h.Clone()
	}
}
func (w *c11Writer) Write(p []byte) (int, error) {
	if w.status == 0 {
		w.WriteHeader(200)
	}
	return len(p), nil
}
func (w *c11Writer) Hijack() (net.Conn, *bufio.ReadWriter, error) {
	w.hijacks++
	if w.conn == nil {
		w.conn = &c11Conn{}
	}
	if w.brw == nil {
		w.brw = bufio.NewReadWriter(bufio.NewReaderSize(w.conn, w.bufSize), bufio.NewWriterSize(w.conn, w.bufSize))
	}
	return w.conn, w.brw, nil
}

// c11Finish releases everything a successful Accept created.
func c11Finish(w *c11Writer, conn *websocket.Conn) {
	if conn != nil {
		conn.CloseNow()
	}
	if w.conn != nil {
		w.conn.Close()
	}
}

const c11ValidKey = "dGhlIHNhbXBsZSBub25jZQ==" // RFC 6455 section 1.3

// c11Request builds the *http.Request the way net/http would hand it to a handler.
func c11Request(method, proto string, major, minor int, host string, hdr http.Header) *http.Request {
	return &http.Request{
		Method: method, URL: &url.URL{Path: "/"}, RequestURI: "/",
		Proto: proto, ProtoMajor: major, ProtoMinor: minor,
		Header: hdr, Host: host, Body: http.NoBody, RemoteAddr: "192.0.2.1:1234",
	}
}

func c11SetLines(h http.Header, canonicalKey string, lines []string) {
	if lines != nil {
		h[canonicalKey] = append([]string(nil), lines...)
	}
}

// ---------------------------------------------------------------- grammar ---

type c11Lines struct {
	Name  string
	Lines []string // nil = header absent
}

var c11Methods = []string{"GET", "POST", "HEAD", "get"}

var c11Protos = []struct {
	Proto        string
	Major, Minor int
}{{"HTTP/1.1", 1, 1}, {"HTTP/1.0", 1, 0}, {"HTTP/2.0", 2, 0}, {"HTTP/0.9", 0, 9}, {"HTTP/1.2", 1, 2}}

var c11Connections = []c11Lines{
	{"exact", []string{"Upgrade"}},
	{"lower", []string{"upgrade"}},
	{"in-list", []string{"keep-alive, Upgrade"}},
	{"second-line", []string{"keep-alive", "Upgrade"}},
	{"first-line", []string{"Upgrade", "keep-alive"}},
	{"prefixed-lookalike", []string{"xUpgrade"}},
	{"suffixed-lookalike", []string{"Upgrade2"}},
	{"other-token", []string{"keep-alive"}},
	{"space-glued", []string{"close upgrade"}}, // one list element; the keyword is only part of it
	// the other header's keyword next to / instead of this header's own (an implementation that
	// looks for both keywords in one merged token list accepts what it must refuse)
	{"both-keywords", []string{"Upgrade, websocket"}},
	{"other-headers-keyword", []string{"websocket"}},
	{"other-headers-keyword-second-line", []string{"Upgrade", "WebSocket"}},
	{"empty", []string{""}},
	{"absent", nil},
}

var c11Upgrades = []c11Lines{
	{"exact", []string{"websocket"}},
	{"mixed-case", []string{"WebSocket"}},
	{"in-list", []string{"h2c, websocket"}},
	{"second-line", []string{"h2c", "websocket"}},
	{"first-line", []string{"websocket", "h2c"}},
	{"suffixed-lookalike", []string{"websockets"}},
	{"prefixed-lookalike", []string{"xwebsocket"}},
	{"other-token", []string{"h2c"}},
	{"space-glued", []string{"not websocket"}},
	{"other-headers-keyword", []string{"Upgrade"}},
	{"both-keywords", []string{"websocket, Upgrade"}},
	{"empty", []string{""}},
	{"absent", nil},
}

var c11Versions = []c11Lines{
	{"13", []string{"13"}},
	{"8", []string{"8"}},
	{"absent", nil},
	{"13-in-list", []string{"13, 8"}},
	{"leading-zero", []string{"013"}}, // numerically 13, not the value "13"
	{"signed", []string{"+13"}},
}

var c11Keys = []c11Lines{
	{"valid", []string{c11ValidKey}},
	{"valid-ff", []string{"/////////////////////w=="}},
	// 16 bytes whose last digit carries non-zero padding bits: not what an encoder
	// produces, still "decodes to 16 bytes"; the accept value hashes the key as sent
	{"noncanonical-zero", []string{"AAAAAAAAAAAAAAAAAAAAAB=="}},
	{"noncanonical-sample", []string{"dGhlIHNhbXBsZSBub25jZR=="}},
	{"absent", nil},
	{"two-lines", []string{c11ValidKey, c11ValidKey}},
	{"valid+blank", []string{c11ValidKey, ""}}, // two header lines, one of them empty: not "exactly one key"
	{"blank+valid", []string{"", c11ValidKey}},
	{"15-bytes", []string{"AAECAwQFBgcICQoLDA0O"}},
	{"21-bytes", []string{"AAECAwQFBgcICQoLDA0ODxAREhMU"}}, // valid base64, more than the decoded size of a 24-character key
	{"32-bytes", []string{"AAECAwQFBgcICQoLDA0ODxAREhMUFRYXGBkaGxwdHh8="}},
	{"17-bytes", []string{"AAECAwQFBgcICQoLDA0ODxA="}},
	{"not-base64", []string{"!!!!not*base64!!!!!!!!=="}},
	// a complete, padded 16-byte key followed by something else on the same line
	{"valid-then-garbage", []string{c11ValidKey + "xyz"}},
	{"two-keys-one-line", []string{c11ValidKey + ", " + c11ValidKey}},
	{"two-keys-concatenated", []string{c11ValidKey + c11ValidKey}},
	{"empty", []string{""}},
}

func c11NonCanonicalKey(key []string) bool {
	if len(key) != 1 {
		return false
	}
	raw, err := base64.StdEncoding.DecodeString(key[0])
	return err == nil && base64.StdEncoding.EncodeToString(raw) != key[0]
}

var c11Offered = []c11Lines{
	{"none", nil},
	{"chat", []string{"chat"}},
	{"chat,echo", []string{"chat, echo"}},
	{"ECHO", []string{"ECHO"}},
	{"two-lines", []string{"chat", "echo"}},
	{"two-lines-rev", []string{"echo", "chat"}},
	{"three-lines", []string{"echo", "foo", "bar"}},
	{"mixed-case-pair", []string{"v1.chat, v2.Chat"}},
	{"punctuation-lookalike", []string{"chat~2, echo"}}, // '~' and '^' differ in the bit that separates the two letter cases
}

var c11Supported = [][]string{nil, {"echo"}, {"echo", "chat"}, {"foo"}, {"ECHO"}, {"v2.Chat", "v1.chat"}, {"chat^2", "echo"}}

// dimensions, least significant first (simplest values first in every dimension)
var c11Dims = []int{len(c11Offered), len(c11Supported), len(c11Keys), len(c11Versions), len(c11Upgrades), len(c11Connections), len(c11Protos), len(c11Methods)}

func c11Total() int {
	n := 1
	for _, d := range c11Dims {
		n *= d
	}
	return n
}

type c11Case struct {
	Idx        int      `json:"idx"`
	Method     string   `json:"method"`
	Proto      string   `json:"proto"`
	Major      int      `json:"major"`
	Minor      int      `json:"minor"`
	Connection []string `json:"connection"` // null = header absent
	Upgrade    []string `json:"upgrade"`
	Version    []string `json:"version"`
	Key        []string `json:"key"`
	Offered    []string `json:"offered"`
	Supported  []string `json:"supported"`
}

func c11Decode(idx int) c11Case {
	d := make([]int, len(c11Dims))
	x := idx
	for i, n := range c11Dims {
		d[i] = x % n
		x /= n
	}
	p := c11Protos[d[6]]
	return c11Case{
		Idx: idx, Method: c11Methods[d[7]], Proto: p.Proto, Major: p.Major, Minor: p.Minor,
		Connection: c11Connections[d[5]].Lines, Upgrade: c11Upgrades[d[4]].Lines,
		Version: c11Versions[d[3]].Lines, Key: c11Keys[d[2]].Lines,
		Supported: c11Supported[d[1]], Offered: c11Offered[d[0]].Lines,
	}
}

func (cs c11Case) model() handshake.Request {
	return handshake.Request{Method: cs.Method, Major: cs.Major, Minor: cs.Minor,
		Connection: cs.Connection, Upgrade: cs.Upgrade, Version: cs.Version, Key: cs.Key}
}

// c11ModelState is the abstract state of the reference model a case lands in.
func c11ModelState(cs c11Case) string {
	failed := cs.model().Failed()
	if len(failed) > 0 {
		return "refuse:" + strings.Join(failed, "+")
	}
	ex, fc, fs := handshake.Subprotocols(cs.Offered, cs.Supported)
	switch {
	case ex == "" && fc == "":
		return "upgrade:no-subprotocol"
	case ex != "":
		return "upgrade:subprotocol"
	default:
		_ = fs
		return "upgrade:subprotocol-case-differs"
	}
}

func c11One(c *fw.Ctx, cs c11Case) {
	c.Eval()
	c.AddTraces(1)
	c.AddTransitions(1)
	failed := cs.model().Failed()

	hdr := http.Header{}
	c11SetLines(hdr, "Connection", cs.Connection)
	c11SetLines(hdr, "Upgrade", cs.Upgrade)
	c11SetLines(hdr, "Sec-Websocket-Version", cs.Version)
	c11SetLines(hdr, "Sec-Websocket-Key", cs.Key)
	rawKeyName := cs.Idx%7 == 3 && cs.Key != nil
	if rawKeyName {
		// a header map built by hand (a test, a proxy, an adapter from another server
		// framework): the key sits under the RFC's own spelling of the field name
		delete(hdr, "Sec-Websocket-Key")
		hdr["Sec-WebSocket-Key"] = append([]string(nil), cs.Key...)
	}
	c11SetLines(hdr, "Sec-Websocket-Protocol", cs.Offered)
	if cs.Idx%2 == 1 {
		// a browser also names its origin; a same-host origin is authorised and has no
		// bearing on whether the request is a valid handshake
		hdr["Origin"] = []string{"https://example.com"}
	}
	r := c11Request(cs.Method, cs.Proto, cs.Major, cs.Minor, "example.com", hdr)
	w := c11NewWriter()

	var conn *websocket.Conn
	var err error
	// the options are the application's: the library gets its own copy of the list and must leave it alone
	given := append([]string(nil), cs.Supported...)
	if p := fw.Recover(func() {
		conn, err = websocket.Accept(w, r, &websocket.AcceptOptions{Subprotocols: given})
	}); p != "" {
		c.Violate("C11/panic", fmt.Sprintf("%+v: Accept panicked: %s", cs, p), cs)
		c11Finish(w, conn)
		return
	}
	defer c11Finish(w, conn)
	if strings.Join(given, "\x00") != strings.Join(cs.Supported, "\x00") {
		c.Violate("C11/caller-options-modified", fmt.Sprintf("%+v: AcceptOptions.Subprotocols was %q before Accept and is %q afterwards (the order is the server's preference)", cs, cs.Supported, given), cs)
		return
	}

	upgraded := conn != nil
	clauses := strings.Join(failed, "+")
	if upgraded && err != nil {
		c.Violate("C11/conn-and-error", fmt.Sprintf("%+v: Accept returned both a connection and error %v", cs, err), cs)
		return
	}

	if !upgraded {
		// must not have touched the connection, must have answered with an error status
		if w.hijacks != 0 {
			c.Violate("C11/hijacked-on-refusal", fmt.Sprintf("%+v: Accept returned no connection (err=%v) but called Hijack %d time(s)", cs, err, w.hijacks), cs)
			return
		}
		if len(failed) == 0 && rawKeyName {
			// a field name the header map does not hold in canonical form may be invisible to
			// the endpoint; only the answer to an accepted request is judged
			c.OutcomeStr(fmt.Sprintf("refused %d raw-key-name", w.status))
			return
		}
		if len(failed) == 0 && c11NonCanonicalKey(cs.Key) {
			// a stricter decoder may refuse padding bits; only the answer to an
			// accepted request is judged for these keys
			c.OutcomeStr(fmt.Sprintf("refused %d noncanonical-key", w.status))
			return
		}
		if len(failed) == 0 {
			c.Violate("C11/refused-valid-request", fmt.Sprintf("%+v: request satisfies every clause of the predicate but Accept refused it: status %d, err=%v", cs, w.status, err), cs)
			return
		}
		if err == nil {
			c.Violate("C11/refusal-without-error", fmt.Sprintf("%+v: Accept returned neither a connection nor an error (status %d; failed clauses: %s)", cs, w.status, clauses), cs)
			return
		}
		if w.status < 400 || w.status > 599 {
			c.Violate("C11/status-not-error", fmt.Sprintf("%+v: request refused (failed clauses: %s, err=%v) but the status written is %d, want 4xx/5xx", cs, clauses, err, w.status), cs)
			return
		}
		c.OutcomeStr(fmt.Sprintf("refused %d %s", w.status, clauses))
		return
	}

	if len(failed) > 0 {
		c.Violate("C11/upgraded-invalid-request/"+clauses, fmt.Sprintf("%+v: request fails clause(s) [%s] of the predicate but Accept upgraded it (status %d, hijacks %d)", cs, clauses, w.status, w.hijacks), cs)
		return
	}
	if w.status != http.StatusSwitchingProtocols {
		c.Violate("C11/upgrade-status-not-101", fmt.Sprintf("%+v: Accept returned a connection but the status written is %d, want 101", cs, w.status), cs)
		return
	}
	if w.hijacks != 1 {
		c.Violate("C11/upgrade-hijack-count", fmt.Sprintf("%+v: Accept returned a connection but called Hijack %d times, want 1", cs, w.hijacks), cs)
		return
	}
	wantAccept := handshake.AcceptKey(cs.Key[0])
	if got := w.sent["Sec-Websocket-Accept"]; len(got) != 1 || got[0] != wantAccept {
		c.Violate("C11/wrong-accept-key", fmt.Sprintf("%+v: Sec-WebSocket-Accept = %q, want [%q] = base64(SHA-1(key+GUID))", cs, got, wantAccept), cs)
		return
	}
	ex, fc, fs := handshake.Subprotocols(cs.Offered, cs.Supported)
	admissible := func(s string) bool { return s == ex || s == fc || s == fs }
	gotHdr := ""
	if v := w.sent["Sec-Websocket-Protocol"]; len(v) > 1 {
		c.Violate("C11/wrong-subprotocol", fmt.Sprintf("%+v: %d Sec-WebSocket-Protocol response headers %q", cs, len(v), v), cs)
		return
	} else if len(v) == 1 {
		gotHdr = v[0]
	}
	gotConn := conn.Subprotocol()
	if !admissible(gotHdr) || !admissible(gotConn) || gotHdr != gotConn {
		c.Violate("C11/wrong-subprotocol", fmt.Sprintf("%+v: response Sec-WebSocket-Protocol %q, Conn.Subprotocol() %q; want %q (byte-wise comparison) or %q/%q (case-insensitive comparison), the same in both places", cs, gotHdr, gotConn, ex, fc, fs), cs)
		return
	}
	kind := "none"
	if gotConn != "" {
		kind = "selected"
	}
	c.OutcomeStr(fmt.Sprintf("upgraded 101 %s %s", kind, wantAccept))
}

func c11SelfTest(c *fw.Ctx) bool {
	// RFC 6455 section 1.3 test vector pins the reference itself.
	if handshake.AcceptKey(c11ValidKey) != "s3pPLMBiTxaQ9kYGzzhZRbK+xOo=" {
		c.EngineError("refws/handshake.AcceptKey disagrees with the RFC 6455 test vector")
		return false
	}
	ok := handshake.Request{Method: "GET", Major: 1, Minor: 1, Connection: []string{"Upgrade"}, Upgrade: []string{"websocket"}, Version: []string{"13"}, Key: []string{c11ValidKey}}
	if f := ok.Failed(); len(f) != 0 {
		c.EngineError(fmt.Sprintf("reference predicate rejects the RFC example request: %v", f))
		return false
	}
	// every key variant must land in the model clause its name announces
	wantClause := map[string]string{"valid": "", "valid-ff": "", "noncanonical-zero": "", "noncanonical-sample": "", "absent": handshake.ClKeyMissing, "two-lines": handshake.ClKeyDuplicate, "valid+blank": handshake.ClKeyDuplicate, "blank+valid": handshake.ClKeyDuplicate,
		"15-bytes": handshake.ClKeyLength, "21-bytes": handshake.ClKeyLength, "32-bytes": handshake.ClKeyLength, "17-bytes": handshake.ClKeyLength, "not-base64": handshake.ClKeyNotBase64, "valid-then-garbage": handshake.ClKeyNotBase64, "two-keys-one-line": handshake.ClKeyNotBase64, "two-keys-concatenated": handshake.ClKeyNotBase64, "empty": handshake.ClKeyLength}
	for _, k := range c11Keys {
		r := ok
		r.Key = k.Lines
		got := strings.Join(r.Failed(), "+")
		if want, known := wantClause[k.Name]; !known || got != want {
			c.EngineError(fmt.Sprintf("key variant %q lands in model clause %q, want %q", k.Name, got, want))
			return false
		}
	}
	return true
}

func c11Run(c *fw.Ctx, shard, nshards int) {
	if !c11SelfTest(c) {
		return
	}
	total := c11Total()
	states := map[string]struct{}{}
	modelUpgrades := 0
	for i := 0; i < total; i++ {
		mine := i%nshards == shard
		if !mine && shard != 0 {
			continue
		}
		cs := c11Decode(i)
		if shard == 0 {
			// shard 0 alone walks the whole model so that model states are counted once
			st := c11ModelState(cs)
			states[st] = struct{}{}
			if strings.HasPrefix(st, "upgrade:") {
				modelUpgrades++
			}
		}
		if !mine {
			continue
		}
		if i&1023 == 0 && c.OutOfTime() {
			c.NotExhaustive(fmt.Sprintf("time budget reached at case %d of %d", i, total))
			break
		}
		c11One(c, cs)
		if c.WantSample() && (i/nshards)%40009 == 7 {
			c.Sample(cs)
		}
	}
	c.AddStates(int64(len(states)))
	c.Bound("requests", total)
	if shard == 0 {
		c.Bound("model_must_upgrade", modelUpgrades)
		c.Bound("model_must_refuse", total-modelUpgrades)
	}
	c.Bound("methods", c11Methods)
	c.Bound("protocols", len(c11Protos))
	c.Bound("connection_values", len(c11Connections))
	c.Bound("upgrade_values", len(c11Upgrades))
	c.Bound("version_values", len(c11Versions))
	c.Bound("key_values", len(c11Keys))
	c.Bound("offered_x_supported", len(c11Offered)*len(c11Supported))
}

// --------------------------------------------------------------- buffered ---

type c11Msg struct {
	Binary  bool   `json:"binary"`
	Payload string `json:"payload"`
}

type c11Stream struct {
	Name   string
	Wire   []byte
	Expect []c11Msg
	Pings  []string // payloads of the Ping frames in Wire, in order
	// CloseCode > 0: the stream ends with a Close frame carrying this code and CloseReason
	CloseCode   int
	CloseReason string
}

// c11Frame builds one masked client frame by hand (RFC 6455 section 5.2).
func c11Frame(fin bool, opcode byte, key [4]byte, payload string) []byte {
	if len(payload) > 125 {
		panic("c11Frame: short frames only")
	}
	b0 := opcode
	if fin {
		b0 |= 0x80
	}
	out := []byte{b0, 0x80 | byte(len(payload)), key[0], key[1], key[2], key[3]}
	for i := 0; i < len(payload); i++ {
		out = append(out, payload[i]^key[i%4])
	}
	return out
}

func c11Streams() []c11Stream {
	k1, k2, k3 := [4]byte{0x11, 0x22, 0x33, 0x44}, [4]byte{0xA1, 0x00, 0xFF, 0x7E}, [4]byte{0, 0, 0, 0}
	cat := func(bs ...[]byte) []byte { return bytes.Join(bs, nil) }
	long1 := "the quick brown fox!"                     // 20
	long2 := "0123456789abcdefghijklmnopqrstuvwxyzABCD" // 40
	return []c11Stream{
		{"hi+yo", cat(c11Frame(true, 1, k1, "hi"), c11Frame(true, 2, k2, "yo!")),
			[]c11Msg{{false, "hi"}, {true, "yo!"}}, nil, 0, ""},
		{"20+40", cat(c11Frame(true, 1, k2, long1), c11Frame(true, 2, k1, long2)),
			[]c11Msg{{false, long1}, {true, long2}}, nil, 0, ""},
		{"fragmented+ping", cat(c11Frame(false, 1, k1, "he"), c11Frame(true, 9, k3, "p"), c11Frame(true, 0, k2, "llo"), c11Frame(true, 2, k1, long1)),
			[]c11Msg{{false, "hello"}, {true, long1}}, []string{"p"}, 0, ""},
		{"pings-first", cat(c11Frame(true, 9, k1, "a"), c11Frame(true, 9, k2, "bb"), c11Frame(true, 1, k3, "hi"), c11Frame(true, 9, k1, ""), c11Frame(true, 2, k2, "yo!")),
			[]c11Msg{{false, "hi"}, {true, "yo!"}}, []string{"a", "bb", ""}, 0, ""},
		{"msg+close", cat(c11Frame(true, 1, k1, "hi"), c11Frame(true, 8, k2, "\x03\xe9going")),
			[]c11Msg{{false, "hi"}}, nil, 1001, "going"},
		{"close-only", c11Frame(true, 8, k3, "\x0f\xa0x"), nil, nil, 4000, "x"},
		// JSON documents (under C19 they are read through wsjson.Read)
		{"json-docs", cat(c11Frame(true, 1, k1, `{"n":1}`), c11Frame(false, 1, k2, `[2,`), c11Frame(true, 0, k3, `"x"]`), c11Frame(true, 1, k1, `3`)),
			[]c11Msg{{false, `{"n":1}`}, {false, `[2,"x"]`}, {false, `3`}}, nil, 0, ""},
	}
}

type c11BufCase struct {
	Stream  string `json:"stream"`
	K       int    `json:"k"`        // bytes of client frames already in the bufio.Reader at Hijack time
	Prefix  int    `json:"prefix"`   // bytes of the request itself that came in the same read and were consumed
	BufSize int    `json:"buf_size"` // size of the hijacked bufio.Reader
	Drip    bool   `json:"drip"`     // rest of the stream arrives one byte per Read instead of in one piece
	// Other: between Accept and the first Read another (client) connection is opened and
	// reads a message of its own: it takes its read buffer from the library's pool
	Other bool `json:"other_connection_first"`
}

func c11BufCases() []c11BufCase { return c11BufCasesFor(false) }

func c11BufCasesFor(jsonOnly bool) []c11BufCase {
	var out []c11BufCase
	for _, s := range c11Streams() {
		if jsonOnly && !strings.HasPrefix(s.Name, "json") {
			continue
		}
		maxK := len(s.Wire)
		if maxK > 64 {
			maxK = 64
		}
		for k := 0; k <= maxK; k++ {
			for _, bs := range []int{4096, 128} {
				for _, prefix := range []int{0, 50} {
					for _, drip := range []bool{false, true} {
						out = append(out, c11BufCase{s.Name, k, prefix, bs, drip, false})
						if !drip {
							out = append(out, c11BufCase{s.Name, k, prefix, bs, drip, true})
						}
					}
				}
			}
		}
	}
	return out
}

func c11BufOne(c *fw.Ctx, cs c11BufCase) { c11BufOneP(c, cs, "C11") }

// c11BufOneP: the same cases under C03 ("any transport chunking" includes the
// chunk that carried the handshake request).
func c11BufOneP(c *fw.Ctx, cs c11BufCase, prop string) {
	pc := func(class string) string { return prop + strings.TrimPrefix(class, "C11") }
	c.Eval()
	c.AddTraces(1)
	var st *c11Stream
	for _, s := range c11Streams() {
		if s.Name == cs.Stream {
			s := s
			st = &s
		}
	}
	if st == nil || cs.K > len(st.Wire) || cs.Prefix+cs.K > cs.BufSize {
		c.EngineError(fmt.Sprintf("bad buffered case %+v", cs))
		return
	}
	// what the server's read of the request also pulled in: prefix + first K bytes
	first := append(bytes.Repeat([]byte{'h'}, cs.Prefix), st.Wire[:cs.K]...)
	chunks := [][]byte{first}
	rest := st.Wire[cs.K:]
	if cs.Drip {
		for i := range rest {
			chunks = append(chunks, rest[i:i+1])
		}
	} else {
		chunks = append(chunks, rest)
	}
	fc := &c11Conn{chunks: chunks}
	br := bufio.NewReaderSize(fc, cs.BufSize)
	if len(first) > 0 {
		if _, err := br.Peek(len(first)); err != nil {
			c.EngineError(fmt.Sprintf("%+v: harness could not pre-buffer: %v", cs, err))
			return
		}
		if _, err := br.Discard(cs.Prefix); err != nil {
			c.EngineError(fmt.Sprintf("%+v: harness could not consume prefix: %v", cs, err))
			return
		}
	}
	if br.Buffered() != cs.K {
		c.EngineError(fmt.Sprintf("%+v: harness buffered %d bytes, want %d", cs, br.Buffered(), cs.K))
		return
	}
	w := c11NewWriter()
	w.conn = fc
	w.brw = bufio.NewReadWriter(br, bufio.NewWriterSize(fc, cs.BufSize))

	hdr := http.Header{}
	hdr["Connection"] = []string{"Upgrade"}
	hdr["Upgrade"] = []string{"websocket"}
	hdr["Sec-Websocket-Version"] = []string{"13"}
	hdr["Sec-Websocket-Key"] = []string{c11ValidKey}
	r := c11Request("GET", "HTTP/1.1", 1, 1, "example.com", hdr)

	var conn *websocket.Conn
	var err error
	if p := fw.Recover(func() { conn, err = websocket.Accept(w, r, nil) }); p != "" {
		c.Violate(pc("C11/panic"), fmt.Sprintf("%+v: Accept panicked: %s", cs, p), cs)
		c11Finish(w, conn)
		return
	}
	defer c11Finish(w, conn)
	if conn == nil {
		c.Violate(pc("C11/refused-valid-request"), fmt.Sprintf("%+v: valid request refused with pre-buffered client bytes: status %d err=%v", cs, w.status, err), cs)
		return
	}
	c.AddTransitions(1)
	ctx, cancel := context.WithTimeout(context.Background(), 5*time.Second)
	defer cancel()
	if cs.Other {
		foreign := bytes.Repeat([]byte{0x7a}, 100)
		ot := mxNewTransport(frame.Data(frame.OpBinary, true, false, foreign).Encode(nil))
		other := mxConn(ot, true, "")
		_, got, rerr := other.Read(ctx)
		other.CloseNow()
		if rerr != nil || !bytes.Equal(got, foreign) {
			c.EngineError(fmt.Sprintf("%+v: the other connection could not read its own message: %v", cs, rerr))
			return
		}
	}
	var nc net.Conn
	if prop == "C18" && len(st.Expect) > 0 {
		// the byte stream of the adapter: the payloads of the messages, in order
		t := websocket.MessageText
		if st.Expect[0].Binary {
			t = websocket.MessageBinary
		}
		nc = websocket.NetConn(ctx, conn, t)
	}
	for i, want := range st.Expect {
		var typ websocket.MessageType
		var got []byte
		var rerr error
		if nc != nil && want.Binary != st.Expect[0].Binary {
			break // a message of the other type ends the adapter's stream (1003): not this part's subject
		}
		p := fw.Recover(func() {
			if nc != nil {
				typ = websocket.MessageText
				if want.Binary {
					typ = websocket.MessageBinary
				}
				got = make([]byte, len(want.Payload))
				if len(got) > 0 {
					_, rerr = io.ReadFull(nc, got)
				}
				return
			}
			if prop == "C19" {
				var v interface{}
				typ = websocket.MessageText
				if rerr = wsjson.Read(ctx, conn, &v); rerr == nil {
					got, _ = json.Marshal(v)
				}
				return
			}
			typ, got, rerr = conn.Read(ctx)
		})
		if p != "" {
			c.Violate(pc("C11/panic"), fmt.Sprintf("%+v: Read panicked: %s", cs, p), cs)
			return
		}
		if rerr != nil && (ctx.Err() != nil || errors.Is(rerr, context.DeadlineExceeded)) {
			// the scripted transport never blocks, so this is the machinery, not the library
			c.EngineError(fmt.Sprintf("%+v: hang guard fired while reading message %d: %v", cs, i, rerr))
			return
		}
		wantTyp := websocket.MessageText
		if want.Binary {
			wantTyp = websocket.MessageBinary
		}
		if rerr != nil || typ != wantTyp || string(got) != want.Payload {
			c.Violate(pc("C11/buffered-bytes-lost"), fmt.Sprintf("%+v: message %d read after Accept = (%v, %q, err=%v), want (%v, %q): the %d byte(s) of client frames that were already buffered in the hijacked reader were not (correctly) seen", cs, i, typ, got, rerr, wantTyp, want.Payload, cs.K), cs)
			return
		}
		c.AddTransitions(1)
	}
	if nc != nil {
		c.OutcomeStr(fmt.Sprintf("buffered %s k=%d delivered through NetConn", cs.Stream, cs.K))
		return
	}
	if st.CloseCode > 0 {
		// the peer's Close frame is reported and echoed, wherever its bytes were when Accept ran
		var rerr error
		if p := fw.Recover(func() { _, _, rerr = conn.Read(ctx) }); p != "" {
			c.Violate(pc("C11/panic"), fmt.Sprintf("%+v: Read panicked: %s", cs, p), cs)
			return
		}
		var ce websocket.CloseError
		if !errors.As(rerr, &ce) || int(ce.Code) != st.CloseCode || ce.Reason != st.CloseReason {
			c.Violate(pc("C11/buffered-close-lost"), fmt.Sprintf("%+v: the stream ends with a Close frame (%d, %q; the first %d bytes of the stream were already buffered when Accept ran); the read returned %v", cs, st.CloseCode, st.CloseReason, cs.K, rerr), cs)
			return
		}
		echoed := false
		out := fc.out
		if i := bytes.Index(out, []byte("\r\n\r\n")); i >= 0 {
			out = out[i+4:]
		}
		ofs, _ := frame.ParseAll(out)
		for _, f := range ofs {
			if f.Opcode == frame.OpClose && len(f.Payload) >= 2 && int(f.Payload[0])<<8|int(f.Payload[1]) == st.CloseCode {
				echoed = true
			}
		}
		if !echoed {
			c.Violate(pc("C11/buffered-close-not-echoed"), fmt.Sprintf("%+v: the peer's Close frame (%d) was reported but not echoed", cs, st.CloseCode), cs)
			return
		}
	}
	// every Ping of the stream is answered, in order, wherever its bytes were when Accept ran
	wire := fc.out
	if i := bytes.Index(wire, []byte("\r\n\r\n")); i >= 0 {
		wire = wire[i+4:]
	}
	fs, _ := frame.ParseAll(wire)
	var pongs []string
	for _, f := range fs {
		if f.Opcode == frame.OpPong {
			pongs = append(pongs, string(f.Payload))
		}
	}
	if fmt.Sprint(pongs) != fmt.Sprint(st.Pings) {
		c.Violate(pc("C11/buffered-pings-not-answered"), fmt.Sprintf("%+v: the stream carries Pings %q (the first %d bytes were already buffered when Accept ran); Pongs written: %q", cs, st.Pings, cs.K, pongs), cs)
		return
	}
	c.OutcomeStr(fmt.Sprintf("buffered %s k=%d delivered", cs.Stream, cs.K))
}

func c11BufRun(c *fw.Ctx, shard, nshards int) { c11BufRunP(c, shard, nshards, "C11") }

func c11BufRunP(c *fw.Ctx, shard, nshards int, prop string) {
	cases := c11BufCasesFor(prop == "C19")
	kinds := map[string]struct{}{}
	for i, cs := range cases {
		if shard == 0 {
			kinds[fmt.Sprintf("%s/%d", cs.Stream, cs.K)] = struct{}{}
		}
		if i%nshards != shard {
			continue
		}
		if c.OutOfTime() {
			c.NotExhaustive("time budget reached in buffered-bytes enumeration")
			break
		}
		c11BufOneP(c, cs, prop)
		if c.WantSample() && i%97 == 11 {
			c.Sample(cs)
		}
	}
	c.AddStates(int64(len(kinds)))
	c.Bound("buffered_cases", len(cases))
	var names []string
	for _, s := range c11Streams() {
		names = append(names, fmt.Sprintf("%s(%dB)", s.Name, len(s.Wire)))
	}
	sort.Strings(names)
	c.Bound("buffered_streams", names)
	c.Bound("buffered_k_max", 64)
}

func init() {
	fw.Register(fw.Part{
		Prop: "C11", Name: "grammar",
		Units: func(tier string) []fw.Unit { return fw.Shards("product", 16, c11Run) },
		Replay: func(c *fw.Ctx, data json.RawMessage) {
			var cs c11Case
			if json.Unmarshal(data, &cs) != nil {
				c.EngineError("bad replay data")
				return
			}
			c11One(c, cs)
		},
	})
	for _, prop := range []string{"C01", "C03", "C06", "C15", "C18", "C19"} {
		prop := prop
		fw.Register(fw.Part{
			Prop: prop, Name: "accepted",
			Units: func(tier string) []fw.Unit {
				return fw.Shards("splits", 2, func(c *fw.Ctx, shard, n int) { c11BufRunP(c, shard, n, prop) })
			},
			Replay: func(c *fw.Ctx, data json.RawMessage) {
				var cs c11BufCase
				if json.Unmarshal(data, &cs) != nil {
					c.EngineError("bad replay data")
					return
				}
				c11BufOneP(c, cs, prop)
			},
		})
	}
	fw.Register(fw.Part{
		Prop: "C11", Name: "buffered",
		Units: func(tier string) []fw.Unit { return fw.Shards("splits", 2, c11BufRun) },
		Replay: func(c *fw.Ctx, data json.RawMessage) {
			var cs c11BufCase
			if json.Unmarshal(data, &cs) != nil {
				c.EngineError("bad replay data")
				return
			}
			c11BufOne(c, cs)
		},
	})
}
