package seq

import (
	"encoding/json"
	"fmt"
	"net/http"

	"nhooyr.io/websocket"
	"verif/fw"
)

// C11, part nohijack: a valid upgrade request that reaches Accept through a
// ResponseWriter which cannot be hijacked (a wrapping middleware, a recorder,
// http.TimeoutHandler). The connection cannot be taken over, so the request
// "receives an HTTP error status": never 101.

// c11PlainWriter is an http.ResponseWriter without Hijack.
type c11PlainWriter struct {
	h      http.Header
	status int
}

func (w *c11PlainWriter) Header() http.Header { return w.h }
func (w *c11PlainWriter) WriteHeader(code int) {
	if w.status == 0 {
		w.status = code
	}
}
func (w *c11PlainWriter) Write(p []byte) (int, error) {
	if w.status == 0 {
		w.status = 200
	}
	return len(p), nil
}

type c11NoHijackCase struct {
	Offered   string `json:"offered_protocols"`
	Extension string `json:"extensions"`
	Mode      string `json:"mode"`
}

func c11NoHijackOne(c *fw.Ctx, cs c11NoHijackCase) {
	c.Eval()
	c.AddTraces(1)
	hdr := http.Header{}
	hdr["Connection"] = []string{"Upgrade"}
	hdr["Upgrade"] = []string{"websocket"}
	hdr["Sec-Websocket-Version"] = []string{"13"}
	hdr["Sec-Websocket-Key"] = []string{c11ValidKey}
	if cs.Offered != "" {
		hdr["Sec-Websocket-Protocol"] = []string{cs.Offered}
	}
	if cs.Extension != "" {
		hdr["Sec-Websocket-Extensions"] = []string{cs.Extension}
	}
	r := c11Request("GET", "HTTP/1.1", 1, 1, "example.com", hdr)
	w := &c11PlainWriter{h: http.Header{}}
	var conn *websocket.Conn
	var err error
	if p := fw.Recover(func() {
		conn, err = websocket.Accept(w, r, &websocket.AcceptOptions{Subprotocols: []string{"chat"}, CompressionMode: hsMode(cs.Mode)})
	}); p != "" {
		c.Violate("C11/panic", fmt.Sprintf("%+v: Accept panicked with a ResponseWriter that is no Hijacker: %s", cs, p), cs)
		return
	}
	c.OutcomeStr(fmt.Sprintf("nohijack %+v status=%d", cs, w.status))
	switch {
	case conn != nil:
		conn.CloseNow()
		c.Violate("C11/connection-without-hijack", fmt.Sprintf("%+v: Accept returned a connection although the ResponseWriter cannot be hijacked", cs), cs)
	case err == nil:
		c.Violate("C11/refusal-without-error", fmt.Sprintf("%+v: Accept returned neither a connection nor an error", cs), cs)
	case w.status == 101 || w.status == 0 || w.status < 400:
		c.Violate("C11/not-taken-over-but-no-error-status", fmt.Sprintf("%+v: the connection was not taken over (err=%v) but the response status is %d: a request that is not upgraded receives an HTTP error status", cs, err, w.status), cs)
	}
}

func init() {
	fw.Register(fw.Part{
		Prop: "C11", Name: "nohijack",
		Units: func(tier string) []fw.Unit {
			return []fw.Unit{{ID: "plain-writer", Run: func(c *fw.Ctx) {
				n := 0
				for _, off := range []string{"", "chat", "other, chat"} {
					for _, ext := range []string{"", "permessage-deflate", "permessage-deflate; client_no_context_takeover"} {
						for _, m := range hsModes {
							c11NoHijackOne(c, c11NoHijackCase{off, ext, m})
							n++
						}
					}
				}
				c.AddStates(int64(n))
				c.AddTransitions(int64(n))
				c.Bound("nohijack_cases", n)
				c.Sample(c11NoHijackCase{"chat", "permessage-deflate", hsModes[0]})
			}}}
		},
		Replay: func(c *fw.Ctx, data json.RawMessage) {
			var cs c11NoHijackCase
			if json.Unmarshal(data, &cs) != nil {
				c.EngineError("bad replay data")
				return
			}
			c11NoHijackOne(c, cs)
		},
	})
}
