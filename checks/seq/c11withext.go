package seq

import (
	"encoding/json"
	"fmt"

	"verif/fw"
	"verif/refws/hsclient"
)

// C11, part withext: a request that meets every condition of the property is upgraded
// whatever else it carries. Every list of up to two extension offers of the C14 alphabet
// (well-formed, malformed, quoted, unknown, duplicated; on one header line or on two) x every
// compression mode of the server: the answer is 101 with the accept value of the key, the
// connection is taken over, Accept does not panic. What the server does with the offer is
// C14's subject and not judged here.

type c11ExtCase struct {
	Offers []string `json:"offers"`
	Mode   string   `json:"server_mode"`
	Split  bool     `json:"split_header_lines"`
}

func c11ExtOne(c *fw.Ctx, cs c11ExtCase) {
	c.Eval()
	c.AddTraces(1)
	o := c14Accept(cs.Offers, cs.Mode, cs.Split)
	if o.conn != nil {
		defer o.conn.CloseNow()
	}
	if o.pan != "" {
		c.Violate("C11/panic", fmt.Sprintf("%+v: Accept panicked on a request that meets every condition of the property: %s", cs, o.pan), cs)
		return
	}
	c.OutcomeStr(fmt.Sprintf("withext status=%d ext=%q", o.rw.code, o.rw.sent.Get("Sec-WebSocket-Extensions")))
	switch {
	case o.rw.code != 101 || o.conn == nil || o.err != nil || !o.rw.hijacked:
		c.Violate("C11/refused-valid-request/extension-offer", fmt.Sprintf("%+v: the request meets every condition of the property (GET, HTTP/1.1, Connection: Upgrade, Upgrade: websocket, version 13, one 16-byte key) but the answer is status %d, connection=%v, err=%v, taken over=%v", cs, o.rw.code, o.conn != nil, o.err, o.rw.hijacked), cs)
	case o.rw.sent.Get("Sec-WebSocket-Accept") != hsclient.AcceptFor("dGhlIHNhbXBsZSBub25jZQ=="):
		c.Violate("C11/wrong-accept-value/extension-offer", fmt.Sprintf("%+v: Sec-WebSocket-Accept is %q", cs, o.rw.sent.Get("Sec-WebSocket-Accept")), cs)
	}
}

func init() {
	fw.Register(fw.Part{
		Prop: "C11", Name: "withext",
		Units: func(tier string) []fw.Unit {
			return fw.Shards("offers", 4, func(c *fw.Ctx, shard, nshards int) {
				cases := c14SrvCases(2)
				n := 0
				for i := shard; i < len(cases); i += nshards {
					cs := cases[i]
					c11ExtOne(c, c11ExtCase{cs.Offers, cs.Mode, cs.Split})
					n++
				}
				c.AddStates(int64(n))
				c.AddTransitions(int64(n))
				c.Bound("withext_cases", len(cases))
				if shard == 0 {
					c.Sample(c11ExtCase{[]string{"permessage-deflate; client_max_window_bits=\"10\""}, hsModes[1], false})
				}
			})
		},
		Replay: func(c *fw.Ctx, data json.RawMessage) {
			var cs c11ExtCase
			if json.Unmarshal(data, &cs) != nil {
				c.EngineError("bad replay data")
				return
			}
			c11ExtOne(c, cs)
		},
	})
}
