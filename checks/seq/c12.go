package seq

import (
	"encoding/json"
	"fmt"
	"io"
	"log"
	"net/http"
	"net/url"
	"strconv"
	"strings"

	"nhooyr.io/websocket"
	"verif/fw"
	"verif/refws/handshake"
)

// C12: cross-origin requests are refused (403, no upgrade) unless the origin is
// the request host or matched by a configured pattern. Origins are generated
// from parts, so the host each one names is known without parsing; the oracle
// (refws/handshake.OriginCase.Decide) never uses net/url.

type c12Named struct{ Kind, Val string }

// the request is always for the site "example.com"
var c12ReqHosts = []struct{ Name, Port string }{{"example.com", ""}, {"example.com", "8080"}, {"EXAMPLE.COM", ""}, {"[::1]", "8080"}, {"wiki.example.com", ""}}

var c12Schemes = []string{"https", "http", "HTTP"}

var c12Userinfos = []c12Named{
	{"none", ""},
	{"plain", "user"},
	{"is-request-host", "example.com"},           // https://example.com@evil.org names evil.org
	{"is-request-host-port", "example.com:8080"}, // password looks like a port
	{"is-other-host", "evil.org"},                // https://evil.org@example.com names example.com
	// long userinfo: the value is filled in so that byte offset N of the header value lies right
	// behind the first 11 characters of the host ("example.com" for the host that merely
	// starts with the request's name): a header cut or bounded at a round length
	{"pad-to-256", ""},
	{"pad-to-512", ""},
	{"pad-to-1024", ""},
	{"pad-to-4096", ""},
}

var c12Hosts = []c12Named{
	{"equal", "example.com"},
	{"mixed-case", "EXAMPLE.com"},
	{"different", "evil.org"},
	{"different-t", "tevil.org"}, // differs from "evil.org" by a leading letter of "https://"
	{"different-g", "gevil.org"},
	{"ipv6-literal", "[::1]"}, // equal to the request host [::1]:8080 (with port 8080), a different host otherwise
	{"ipv6-inner-digit", "1"}, // a character of the literal's bracket expression // "evil.or"+"gevil.org" reads like "evil.org"+"evil.org"
	{"prefix", "example.co"},
	{"suffix-lookalike", "notexample.com"},
	{"host-as-prefix", "example.com.evil.org"},
	{"sub-domain", "sub.example.com"},
	{"super-domain", "com"},
	{"trailing-dot", "example.com."},
	// equal to the request host wiki.example.com only under a lower-casing that maps
	// U+0130 (capital I with dot above) to "i"; case-insensitive comparison of host
	// names is ASCII folding (another DNS name)
	{"dotted-capital-i", "w\u0130k\u0130.example.com"},
	{"equal-wiki", "WIKI.example.com"},
	// one byte away from a request host, same length: first, middle and last position
	// (a comparison that skips a position, or stops one short, takes them for the same host)
	{"first-byte-differs", "fxample.com"},
	{"middle-byte-differs", "exbmple.com"},
	{"last-byte-differs", "example.con"},
	{"first-byte-differs-wiki", "viki.example.com"},
	{"ipv6-last-digit-differs", "[::2]"},
}

var c12Ports = []string{"", "80", "8080"}

var c12Tails = []c12Named{
	{"none", ""},
	{"path-host", "/example.com"},
	{"query-host", "?example.com"},
	{"fragment-host", "#example.com"},
	{"path-at-host", "/@example.com"},
	{"fragment-at-host", "#@example.com"},
}

var c12Patterns = []struct {
	Kind string
	Set  []string
}{
	{"none", nil},
	{"exact-other", []string{"evil.org"}},
	{"star-dot-host", []string{"*.example.com"}},
	{"star-host", []string{"*example.com"}},
	{"question", []string{"?vil.org"}},
	{"upper-case", []string{"EVIL.ORG"}},
	{"star", []string{"*"}},
	{"second-of-two", []string{"nomatch.invalid", "evil.org"}},
	{"exact-t-prefixed", []string{"tevil.org"}}, // first letter is one of h,t,p,s
	{"exact-scheme-chars", []string{"sph.tevil.org"}},
	{"with-scheme", []string{"https://evil.org"}},    // a pattern is a host pattern, not a URL
	{"prefix-pair", []string{"evil.or", "evil.org"}}, // one pattern is a prefix of the other
	{"malformed", []string{"["}},
}

// Origin values that name no host in scheme://host form (or are absent).
var c12Special = []struct {
	Kind   string
	Absent bool
	Value  string
	Second string // a second Origin line (Value is then a well-formed origin naming evil.org)
}{
	{"two-lines-foreign-then-same-host", false, "https://evil.org", "https://example.com"},
	{"two-lines-foreign-then-empty", false, "https://evil.org", " "},
	{"absent", true, "", ""},
	{"null", false, "null", ""},
	{"schemeless-host", false, "example.com", ""},
	{"schemeless-other", false, "evil.org", ""},
	{"schemeless-host-port", false, "example.com:8080", ""},
	{"empty", false, "", ""},
	{"scheme-only", false, "https://", ""},
	{"empty-authority-path-host", false, "https:///example.com", ""},
	// values that name the foreign host evil.org but are not well-formed URLs
	{"malformed-port", false, "https://evil.org:80a", "malformed"},
	{"malformed-escape", false, "https://evil.org/%zz", "malformed"},
	{"malformed-space-userinfo", false, "https://example.com @evil.org", "malformed"},
}

type c12Case struct {
	Idx        int              `json:"idx"`
	ReqName    string           `json:"req_name"`
	ReqPort    string           `json:"req_port"`
	NoOrigin   bool             `json:"no_origin"`
	Hostless   bool             `json:"hostless"`
	Raw        string           `json:"raw"` // the Origin header value sent (hostless values; else derived from Origin)
	Origin     handshake.Origin `json:"origin"`
	Patterns   []string         `json:"patterns"`
	SkipVerify bool             `json:"skip_verify"`
	// Malformed: Raw names Origin.Host but is not a well-formed URL; an endpoint may refuse it
	// even where a pattern would authorise the host, and a refusal is a 403 like any other
	Malformed bool `json:"malformed,omitempty"`
	// AbsURL: the request line carried an absolute-form target (GET http://host/ HTTP/1.1),
	// so the request's URL has a scheme and a host of its own
	AbsURL bool `json:"absolute_form_target,omitempty"`
	// SecondOrigin: a further Origin header line after the one described above
	// (the request is judged by the first line, as the first value of a header is
	// what names "the" origin; a request whose first line is authorised and whose
	// second is not is left out as unconstrained)
	SecondOrigin string `json:"second_origin,omitempty"`
	// History: "asc"/"desc" when the case was run as part of a pass over all cases
	// of its pattern set in that order (a replay re-runs the pass up to the case)
	History string `json:"history,omitempty"`
	// abstract labels, used only for class strings
	HostKind, UserKind, TailKind, PatternKind string
}

// generated part: dims least significant first
var c12Dims = []int{2, len(c12Patterns), len(c12ReqHosts), len(c12Ports), len(c12Tails), len(c12Schemes), len(c12Userinfos), len(c12Hosts), 2}

func c12Generated() int {
	n := 1
	for _, d := range c12Dims {
		n *= d
	}
	return n
}

func c12SpecialN() int { return len(c12Special) * len(c12ReqHosts) * len(c12Patterns) * 2 * 2 }

func c12Total() int { return c12SpecialN() + c12Generated() }

var c12Pads = map[int]string{}

// c12Pad: n times "u" (one string per length: every shard decodes every index)
func c12Pad(n int) string {
	p, ok := c12Pads[n]
	if !ok {
		p = strings.Repeat("u", n)
		c12Pads[n] = p
	}
	return p
}

func c12Decode(idx int) c12Case {
	cs := c12Case{Idx: idx}
	if idx < c12SpecialN() {
		x := idx
		skip := x % 2
		x /= 2
		p := c12Patterns[x%len(c12Patterns)]
		x /= len(c12Patterns)
		rh := c12ReqHosts[x%len(c12ReqHosts)]
		x /= len(c12ReqHosts)
		sp := c12Special[x%len(c12Special)]
		cs.AbsURL = x/len(c12Special) == 1
		cs.ReqName, cs.ReqPort = rh.Name, rh.Port
		cs.NoOrigin, cs.Hostless, cs.Raw = sp.Absent, !sp.Absent, sp.Value
		cs.Patterns, cs.PatternKind, cs.SkipVerify = p.Set, p.Kind, skip == 1
		cs.HostKind, cs.UserKind, cs.TailKind = "special:"+sp.Kind, "none", "none"
		if sp.Second == "malformed" {
			cs.Hostless = false
			cs.Origin = handshake.Origin{Scheme: "https", Host: "evil.org"}
			cs.Malformed = true
		} else if sp.Second != "" {
			cs.Hostless = false
			cs.Origin = handshake.Origin{Scheme: "https", Host: "evil.org"}
			cs.SecondOrigin = sp.Second
		}
		return cs
	}
	x := idx - c12SpecialN()
	d := make([]int, len(c12Dims))
	for i, n := range c12Dims {
		d[i] = x % n
		x /= n
	}
	cs.SkipVerify = d[0] == 1
	cs.Patterns, cs.PatternKind = c12Patterns[d[1]].Set, c12Patterns[d[1]].Kind
	cs.ReqName, cs.ReqPort = c12ReqHosts[d[2]].Name, c12ReqHosts[d[2]].Port
	cs.Origin = handshake.Origin{Scheme: c12Schemes[d[5]], Userinfo: c12Userinfos[d[6]].Val, Host: c12Hosts[d[7]].Val, Port: c12Ports[d[3]], Tail: c12Tails[d[4]].Val}
	cs.HostKind, cs.UserKind, cs.TailKind = c12Hosts[d[7]].Kind, c12Userinfos[d[6]].Kind, c12Tails[d[4]].Kind
	cs.AbsURL = d[8] == 1
	if strings.HasPrefix(cs.UserKind, "pad-to-") {
		n, _ := strconv.Atoi(strings.TrimPrefix(cs.UserKind, "pad-to-"))
		cs.Origin.Userinfo = c12Pad(n - len(cs.Origin.Scheme) - len("://") - len("@") - len("example.com"))
		return cs // (Raw is derived from the parts when the case runs)
	}
	cs.Raw = cs.Origin.String()
	return cs
}

// redundant: combinations of the two newest dimensions with the older ones that are left out
// (an absolute-form target and a long userinfo are each combined with every host, pattern
// set, request host and scheme, but not with every tail, port and userinfo form).
func (cs c12Case) redundant() bool {
	if cs.NoOrigin || cs.Hostless || cs.Malformed || cs.SecondOrigin != "" {
		return false
	}
	pad := strings.HasPrefix(cs.UserKind, "pad-to-")
	if cs.AbsURL && (cs.UserKind != "none" || cs.TailKind != "none" || cs.Origin.Port != "") {
		return true
	}
	if pad && (cs.TailKind != "none" || cs.Origin.Port == "80") {
		return true
	}
	return false
}

func (cs c12Case) model() handshake.OriginCase {
	return handshake.OriginCase{ReqName: cs.ReqName, ReqPort: cs.ReqPort, NoOrigin: cs.NoOrigin, Hostless: cs.Hostless,
		Origin: cs.Origin, Patterns: cs.Patterns, SkipVerify: cs.SkipVerify}
}

func (cs c12Case) reqHost() string {
	if cs.ReqPort != "" {
		return cs.ReqName + ":" + cs.ReqPort
	}
	return cs.ReqName
}

func c12ModelState(cs c12Case) string {
	v, why := cs.model().Decide()
	return fmt.Sprintf("%s/%s/%s/%s/%s/%s", v, why, cs.HostKind, cs.UserKind, cs.TailKind, cs.PatternKind)
}

func c12PatternIndex(kind string) int {
	for i, p := range c12Patterns {
		if p.Kind == kind {
			return i
		}
	}
	return 0
}

// c12One replays one case and reports whether the request was upgraded.
func c12One(c *fw.Ctx, cs c12Case) (upgraded bool) {
	c.Eval()
	c.AddTraces(1)
	c.AddTransitions(1)
	verdict, why := cs.model().Decide()

	hdr := http.Header{}
	hdr["Connection"] = []string{"Upgrade"}
	hdr["Upgrade"] = []string{"websocket"}
	hdr["Sec-Websocket-Version"] = []string{"13"}
	hdr["Sec-Websocket-Key"] = []string{c11ValidKey}
	raw := cs.Raw
	if !cs.NoOrigin && !cs.Hostless && !cs.Malformed {
		raw = cs.Origin.String() // replay files are authoritative on the parts, not on Raw
	}
	if !cs.NoOrigin && !cs.Hostless && cs.UserKind == "plain" {
		// forwarding headers name the origin's host: they are not part of the decision
		hdr["X-Forwarded-Host"] = []string{cs.Origin.HostPort()}
		hdr["Forwarded"] = []string{"host=" + cs.Origin.HostPort()}
		hdr["X-Forwarded-Server"] = []string{cs.Origin.HostPort()}
	}
	if !cs.NoOrigin {
		hdr["Origin"] = []string{raw}
		if cs.SecondOrigin != "" {
			// a second Origin header line that is authorised on its own
			hdr["Origin"] = []string{raw, cs.SecondOrigin}
		}
	}
	r := c11Request("GET", "HTTP/1.1", 1, 1, cs.reqHost(), hdr)
	if cs.AbsURL {
		r.URL = &url.URL{Scheme: "http", Host: cs.reqHost(), Path: "/"}
		r.RequestURI = r.URL.String()
	}
	w := c11NewWriter()
	opts := &websocket.AcceptOptions{InsecureSkipVerify: cs.SkipVerify}
	if cs.Patterns != nil {
		opts.OriginPatterns = append([]string(nil), cs.Patterns...)
	}
	if !cs.SkipVerify && cs.Patterns == nil && cs.Idx%2 == 0 {
		// default options are also what a nil pointer means (every other such case)
		opts = nil
	}

	var conn *websocket.Conn
	var err error
	if p := fw.Recover(func() { conn, err = websocket.Accept(w, r, opts) }); p != "" {
		c.Violate("C12/panic", fmt.Sprintf("%s: Accept panicked: %s", c12Describe(cs, raw), p), cs)
		c11Finish(w, conn)
		return
	}
	defer c11Finish(w, conn)

	accepted := conn != nil
	upgraded = accepted
	desc := c12Describe(cs, raw)
	if !accepted && w.hijacks != 0 {
		c.Violate("C12/hijacked-on-refusal", fmt.Sprintf("%s: Accept returned no connection (err=%v) but called Hijack %d time(s)", desc, err, w.hijacks), cs)
		return
	}
	if !accepted && err == nil {
		c.Violate("C12/refusal-without-error", fmt.Sprintf("%s: Accept returned neither a connection nor an error (status %d)", desc, w.status), cs)
		return
	}

	if verdict == handshake.Unconstrained && why == "hostless" && cs.Raw != "" {
		// an Origin header that is present but names no host (the opaque origin "null", a
		// value without scheme, ...) is not "no Origin header" and is not a same-host or
		// pattern-authorised origin either, unless a pattern matches the empty host
		matchesEmpty := false
		for _, p := range cs.Patterns {
			matchesEmpty = matchesEmpty || handshake.GlobMatch(p, "")
		}
		if !matchesEmpty {
			verdict, why = handshake.MustRefuse, "hostless-origin"
		}
	}
	if cs.Malformed && verdict == handshake.MustAccept && !cs.SkipVerify {
		verdict, why = handshake.Unconstrained, "malformed-but-pattern-authorised"
		if !accepted && w.status != http.StatusForbidden {
			c.Violate("C12/refusal-status-not-403", fmt.Sprintf("%s: request refused (err=%v) with status %d, want 403", desc, err, w.status), cs)
			return
		}
	}
	switch verdict {
	case handshake.MustAccept:
		if !accepted {
			c.Violate("C12/authorised-origin-refused/"+why, fmt.Sprintf("%s: the model says this request must be accepted (%s) but Accept refused it: status %d, err=%v", desc, why, w.status, err), cs)
			return
		}
	case handshake.MustRefuse:
		if accepted {
			kind := cs.HostKind
			if why == "port-only-difference" {
				kind = "port-only-difference"
			}
			c.Violate("C12/cross-origin-accepted/"+kind+"/"+cs.PatternKind, fmt.Sprintf("%s: the origin names host %q (by construction; userinfo kind %s, tail kind %s), which is neither the request host nor matched by a pattern, yet Accept upgraded the request (status written %d, %d Hijack call(s), err=%v)", desc, cs.Origin.HostPort(), cs.UserKind, cs.TailKind, w.status, w.hijacks, err), cs)
			return
		}
		if w.status != http.StatusForbidden {
			c.Violate("C12/refusal-status-not-403", fmt.Sprintf("%s: cross-origin request refused (err=%v) with status %d, want 403", desc, err, w.status), cs)
			return
		}
	}
	if accepted && (err != nil || w.hijacks != 1 || w.status != http.StatusSwitchingProtocols) {
		c.Violate("C12/inconsistent-accept", fmt.Sprintf("%s: Accept returned a connection with err=%v, %d Hijack call(s), status %d", desc, err, w.hijacks, w.status), cs)
		return
	}
	obs := "refused"
	if accepted {
		obs = "accepted"
	}
	c.OutcomeStr(fmt.Sprintf("%s/%s %s %d %s/%s/%s/%s", verdict, why, obs, w.status, cs.HostKind, cs.UserKind, cs.TailKind, cs.PatternKind))
	return
}

func c12Describe(cs c12Case, raw string) string {
	o := fmt.Sprintf("Origin %q", raw)
	if cs.NoOrigin {
		o = "no Origin header"
	}
	return fmt.Sprintf("case %d: Host %q, %s, OriginPatterns %q, InsecureSkipVerify %v", cs.Idx, cs.reqHost(), o, cs.Patterns, cs.SkipVerify)
}

func c12SelfTest(c *fw.Ctx) bool {
	type g struct {
		p, s string
		want bool
	}
	for _, t := range []g{
		{"*", "evil.org", true}, {"*", "", true}, {"*.example.com", "sub.example.com", true}, {"*.example.com", "example.com", false},
		{"*example.com", "notexample.com", true}, {"*example.com", "example.com.evil.org", false}, {"?vil.org", "evil.org", true},
		{"?vil.org", "vil.org", false}, {"EVIL.ORG", "evil.org", true}, {"evil.org", "evil.org:80", false}, {"[", "evil.org", false}, {"*", "a/b", false},
	} {
		if handshake.GlobMatch(t.p, t.s) != t.want {
			c.EngineError(fmt.Sprintf("reference glob matcher: GlobMatch(%q,%q) != %v", t.p, t.s, t.want))
			return false
		}
	}
	o := handshake.Origin{Scheme: "https", Userinfo: "example.com", Host: "evil.org", Port: "80", Tail: "/x"}
	if o.String() != "https://example.com@evil.org:80/x" || o.HostPort() != "evil.org:80" {
		c.EngineError("reference origin builder broken")
		return false
	}
	return true
}

func c12Run(c *fw.Ctx, shard, nshards int) {
	log.SetOutput(io.Discard) // the library logs malformed patterns
	if !c12SelfTest(c) {
		return
	}
	total := c12Total()
	states := map[string]struct{}{}
	verdicts := map[string]int{}
	// Cases that share a pattern set run in the same process, once in ascending
	// and once in descending order: whatever the library remembers from earlier
	// handshakes (the decision for a request must not depend on history) shows up
	// as a verdict that differs between the two passes or from the model.
	var mineIdx []int
	for i := 0; i < total; i++ {
		cs := c12Decode(i)
		if cs.redundant() {
			continue
		}
		if shard == 0 {
			states[c12ModelState(cs)] = struct{}{}
			v, _ := cs.model().Decide()
			verdicts[v.String()]++
		}
		if c12PatternIndex(cs.PatternKind)%nshards == shard {
			mineIdx = append(mineIdx, i)
		}
	}
	accepted := map[int]bool{}
	for pass := 0; pass < 2; pass++ {
		for n := range mineIdx {
			i := mineIdx[n]
			if pass == 1 {
				i = mineIdx[len(mineIdx)-1-n]
			}
			if n&255 == 0 && c.OutOfTime() {
				c.NotExhaustive(fmt.Sprintf("time budget reached at case %d of %d (pass %d)", n, len(mineIdx), pass))
				break
			}
			cs := c12Decode(i)
			cs.History = [2]string{"asc", "desc"}[pass]
			acc := c12One(c, cs)
			if pass == 0 {
				accepted[i] = acc
				if c.WantSample() && n%2003 == 1500 {
					c.Sample(cs)
				}
			} else if prev, ok := accepted[i]; ok && prev != acc {
				c.Violate("C12/decision-depends-on-history/"+cs.HostKind+"/"+cs.PatternKind, fmt.Sprintf("%s: upgraded=%v when the cases were run in ascending order, upgraded=%v in descending order: the decision depends on earlier handshakes in the same process", c12Describe(cs, cs.Raw), prev, acc), cs)
			}
		}
	}
	c.AddStates(int64(len(states)))
	if shard == 0 {
		c.Bound("model_verdicts", verdicts)
	}
	c.Bound("cases", total)
	c.Bound("generated_origins", c12Generated())
	c.Bound("special_origin_cases", c12SpecialN())
	c.Bound("host_lookalikes", len(c12Hosts))
	c.Bound("pattern_sets", len(c12Patterns))
	c.Bound("request_hosts", len(c12ReqHosts))
}

func init() {
	fw.Register(fw.Part{
		Prop: "C12", Name: "origins",
		Units: func(tier string) []fw.Unit { return fw.Shards("product", 16, c12Run) },
		Replay: func(c *fw.Ctx, data json.RawMessage) {
			log.SetOutput(io.Discard)
			var cs c12Case
			if json.Unmarshal(data, &cs) != nil {
				c.EngineError("bad replay data")
				return
			}
			if cs.History != "" {
				// re-run the earlier cases of the pass quietly: they are the history
				var idx []int
				for i := 0; i < c12Total(); i++ {
					if d := c12Decode(i); d.PatternKind == cs.PatternKind && !d.redundant() {
						idx = append(idx, i)
					}
				}
				quiet := fw.NewDebugCtx("C12")
				for n := range idx {
					i := idx[n]
					if cs.History == "desc" {
						i = idx[len(idx)-1-n]
					}
					if i == cs.Idx {
						break
					}
					c12One(quiet, c12Decode(i))
				}
			}
			c12One(c, cs)
		},
	})
}
