package seq

import (
	"encoding/json"
	"fmt"
	"io"
	"log"
	"net/http"

	"nhooyr.io/websocket"
	"verif/fw"
	"verif/refws/handshake"
)

// C12, part shared-options: one *AcceptOptions value serves several handshakes
// (the usual way to configure a server) and the application changes
// OriginPatterns between them: by assigning a new list, by editing an element in
// place, by shortening or extending the list. Every handshake is decided by the
// patterns configured at the time it is made.

type c12SharedCase struct {
	Lists   [][]string `json:"pattern_lists"` // the list in force at step i
	InPlace bool       `json:"edit_in_place"` // same backing array where the lengths allow it
	Origins []string   `json:"origin_hosts"`  // origin host tried at every step
}

func c12SharedOne(c *fw.Ctx, cs c12SharedCase) {
	c.Eval()
	c.AddTraces(1)
	log.SetOutput(io.Discard)
	opts := &websocket.AcceptOptions{}
	for step, list := range cs.Lists {
		if cs.InPlace && step > 0 && len(list) == len(opts.OriginPatterns) {
			copy(opts.OriginPatterns, list)
		} else {
			opts.OriginPatterns = append([]string(nil), list...)
		}
		for _, host := range cs.Origins {
			hdr := http.Header{}
			hdr["Connection"] = []string{"Upgrade"}
			hdr["Upgrade"] = []string{"websocket"}
			hdr["Sec-Websocket-Version"] = []string{"13"}
			hdr["Sec-Websocket-Key"] = []string{c11ValidKey}
			hdr["Origin"] = []string{"https://" + host}
			r := c11Request("GET", "HTTP/1.1", 1, 1, "example.com", hdr)
			w := c11NewWriter()
			var conn *websocket.Conn
			var err error
			if p := fw.Recover(func() { conn, err = websocket.Accept(w, r, opts) }); p != "" {
				c.Violate("C12/panic", fmt.Sprintf("%+v: step %d origin %s: Accept panicked: %s", cs, step, host, p), cs)
				c11Finish(w, conn)
				return
			}
			accepted := conn != nil
			c11Finish(w, conn)
			c.AddTransitions(1)
			model := handshake.OriginCase{ReqName: "example.com", Origin: handshake.Origin{Scheme: "https", Host: host}, Patterns: list}
			v, why := model.Decide()
			desc := fmt.Sprintf("%+v: step %d (patterns now %q), Origin https://%s", cs, step, list, host)
			switch {
			case v == handshake.MustAccept && !accepted:
				c.Violate("C12/authorised-origin-refused/shared-options", fmt.Sprintf("%s: authorised by the patterns in force (%s) but refused: status %d err=%v (the decision was made with an earlier configuration of the same options value)", desc, why, w.status, err), cs)
				return
			case v == handshake.MustRefuse && accepted:
				c.Violate("C12/cross-origin-accepted/shared-options", fmt.Sprintf("%s: neither the request host nor matched by a pattern in force, yet upgraded (the decision was made with an earlier configuration of the same options value)", desc), cs)
				return
			case v == handshake.MustRefuse && w.status != http.StatusForbidden:
				c.Violate("C12/refusal-status-not-403", fmt.Sprintf("%s: refused with status %d", desc, w.status), cs)
				return
			}
		}
	}
	c.OutcomeStr(fmt.Sprintf("shared %v %v", cs.Lists, cs.InPlace))
}

func c12SharedCases() []c12SharedCase {
	lists := [][]string{nil, {"evil.org"}, {"good.org"}, {"*.evil.org"}, {"EVIL.org", "good.org"}, {"good.org", "other.org"}}
	origins := []string{"evil.org", "good.org", "sub.evil.org", "example.com"}
	var out []c12SharedCase
	for _, a := range lists {
		for _, b := range lists {
			for _, inPlace := range []bool{false, true} {
				out = append(out, c12SharedCase{Lists: [][]string{a, b}, InPlace: inPlace, Origins: origins})
				out = append(out, c12SharedCase{Lists: [][]string{a, b, a}, InPlace: inPlace, Origins: origins})
			}
		}
	}
	return out
}

func init() {
	fw.Register(fw.Part{
		Prop: "C12", Name: "shared-options",
		Units: func(tier string) []fw.Unit {
			return []fw.Unit{{ID: "pattern-changes", Run: func(c *fw.Ctx) {
				cases := c12SharedCases()
				for _, cs := range cases {
					c12SharedOne(c, cs)
				}
				c.AddStates(int64(len(cases)))
				c.Bound("shared_options_cases", len(cases))
				c.Sample(cases[9])
			}}}
		},
		Replay: func(c *fw.Ctx, data json.RawMessage) {
			var cs c12SharedCase
			if json.Unmarshal(data, &cs) != nil {
				c.EngineError("bad replay data")
				return
			}
			c12SharedOne(c, cs)
		},
	})
}
