package seq

import (
	"bytes"
	"context"
	crand "crypto/rand"
	"encoding/base64"
	"encoding/json"
	"errors"
	"fmt"
	"io"
	"net"
	"net/http"
	"sort"
	"strings"
	"sync"
	"time"

	"nhooyr.io/websocket"
	"verif/fw"
	"verif/refws/hsclient"
)

// C13: Dial sends a well-formed upgrade request and returns a connection only
// for a valid server response.
//
// Three parts:
//   grid    - cross product of server responses x client options; oracle is the
//             independent response-validity predicate refws/hsclient.Judge.
//   request - inspection of the request Dial sends, over all DialOptions combinations.
//   key     - freshness of Sec-WebSocket-Key (scripted and real randomness sources).
//
// The HTTP round trip is faked the way the repository's own dial_test.go does
// it: a RoundTripper returning a response whose Body is an io.ReadWriteCloser.

// ---------------------------------------------------------------- in-memory transport (shared with C14)

// memConn is an in-memory duplex: the library's writes are appended to an
// unbounded buffer (never block); reads return the bytes pushed by the harness
// and io.EOF when none are left (never block).
type memConn struct {
	mu      sync.Mutex
	in      bytes.Buffer
	out     bytes.Buffer
	closed  int
	starved bool
}

func (m *memConn) Read(p []byte) (int, error) {
	m.mu.Lock()
	defer m.mu.Unlock()
	if m.in.Len() == 0 {
		m.starved = true
		return 0, io.EOF
	}
	return m.in.Read(p)
}

func (m *memConn) Write(p []byte) (int, error) {
	m.mu.Lock()
	defer m.mu.Unlock()
	if m.closed > 0 {
		return 0, io.ErrClosedPipe
	}
	return m.out.Write(p)
}

func (m *memConn) Close() error {
	m.mu.Lock()
	defer m.mu.Unlock()
	m.closed++
	return nil
}

func (m *memConn) push(b []byte) {
	m.mu.Lock()
	defer m.mu.Unlock()
	m.in.Write(b)
}

func (m *memConn) takeOut() []byte {
	m.mu.Lock()
	defer m.mu.Unlock()
	b := append([]byte(nil), m.out.Bytes()...)
	m.out.Reset()
	return b
}

type memAddr struct{}

func (memAddr) Network() string { return "mem" }
func (memAddr) String() string  { return "mem" }

func (m *memConn) LocalAddr() net.Addr                { return memAddr{} }
func (m *memConn) RemoteAddr() net.Addr               { return memAddr{} }
func (m *memConn) SetDeadline(t time.Time) error      { return nil }
func (m *memConn) SetReadDeadline(t time.Time) error  { return nil }
func (m *memConn) SetWriteDeadline(t time.Time) error { return nil }

// ---------------------------------------------------------------- scripted server response (shared with C14)

const hsAbsent = "<absent>"

// respScript describes the response the fake server gives.
type respScript struct {
	Status     int    `json:"status"`
	Connection string `json:"connection"` // hsAbsent: header not sent
	Upgrade    string `json:"upgrade"`    // hsAbsent: header not sent
	Accept     string `json:"accept"`     // "correct" | "other-key" | "absent" | near misses of the correct value
	Proto      string `json:"resp_protocol"`
	Ext        string `json:"resp_extensions"`
}

func validScript(ext string) respScript {
	return respScript{Status: 101, Connection: "Upgrade", Upgrade: "websocket", Accept: "correct", Ext: ext}
}

const otherKey = "AAAAAAAAAAAAAAAAAAAAAA=="

func (s respScript) header(key string) http.Header {
	h := http.Header{}
	if s.Connection != hsAbsent {
		h["Connection"] = []string{s.Connection}
	}
	if s.Upgrade != hsAbsent {
		h["Upgrade"] = []string{s.Upgrade}
	}
	switch s.Accept {
	case "correct":
		h["Sec-Websocket-Accept"] = []string{hsclient.AcceptFor(key)}
	case "other-key":
		h["Sec-Websocket-Accept"] = []string{hsclient.AcceptFor(otherKey)}
	case "case-flipped":
		// base64 is case sensitive: another digest
		h["Sec-Websocket-Accept"] = []string{swapCase(hsclient.AcceptFor(key))}
	case "cut-short":
		a := hsclient.AcceptFor(key)
		h["Sec-Websocket-Accept"] = []string{a[:len(a)-1]}
	case "padding-bits":
		// the digest's last base64 digit with its two unused low bits set: another
		// string, which a lenient decoder maps to the same 20 bytes
		a := []byte(hsclient.AcceptFor(key))
		const alpha = "ABCDEFGHIJKLMNOPQRSTUVWXYZabcdefghijklmnopqrstuvwxyz0123456789+/"
		i := len(a) - 2 // the digit before the single '='
		a[i] = alpha[(strings.IndexByte(alpha, a[i])|3)^func() int {
			if strings.IndexByte(alpha, a[i])&3 == 3 {
				return 1
			}
			return 0
		}()]
		h["Sec-Websocket-Accept"] = []string{string(a)}
	case "extended":
		h["Sec-Websocket-Accept"] = []string{hsclient.AcceptFor(key) + "="}
	}
	if s.Proto != "" {
		h["Sec-Websocket-Protocol"] = strings.Split(s.Proto, "\n") // "\n" separates header lines
	}
	if s.Ext != "" {
		h["Sec-Websocket-Extensions"] = strings.Split(s.Ext, "\n") // "\n" separates header lines
	}
	return h
}

func swapCase(s string) string {
	b := []byte(s)
	for i, c := range b {
		switch {
		case c >= 'a' && c <= 'z':
			b[i] = c - 32
		case c >= 'A' && c <= 'Z':
			b[i] = c + 32
		}
	}
	return string(b)
}

// fakeRT is the RoundTripper: it records the request and answers from the script.
type fakeRT struct {
	script respScript
	calls  int
	req    *http.Request
	reqHdr http.Header // deep copy at the time of the round trip
	body   *memConn
	hdr    http.Header
}

func (rt *fakeRT) RoundTrip(r *http.Request) (*http.Response, error) {
	rt.calls++
	rt.req = r
	rt.reqHdr = r.Header.Clone()
	rt.body = &memConn{}
	rt.hdr = rt.script.header(r.Header.Get("Sec-WebSocket-Key"))
	return &http.Response{
		Status:     fmt.Sprintf("%d %s", rt.script.Status, http.StatusText(rt.script.Status)),
		StatusCode: rt.script.Status,
		Proto:      "HTTP/1.1",
		ProtoMajor: 1,
		ProtoMinor: 1,
		Header:     rt.hdr.Clone(),
		Body:       rt.body,
		Request:    r,
	}, nil
}

var hsModes = []string{"disabled", "context-takeover", "no-context-takeover"}

func hsMode(s string) websocket.CompressionMode {
	switch s {
	case "context-takeover":
		return websocket.CompressionContextTakeover
	case "no-context-takeover":
		return websocket.CompressionNoContextTakeover
	}
	return websocket.CompressionDisabled
}

// modeOffer is the extension offer a client in the given mode makes, from the
// documentation of CompressionMode (not from the implementation).
func modeOffer(mode string) []hsclient.Ext {
	switch mode {
	case "context-takeover":
		return []hsclient.Ext{{Name: hsclient.PMD}}
	case "no-context-takeover":
		return []hsclient.Ext{{Name: hsclient.PMD, Params: []hsclient.Param{{Name: "client_no_context_takeover"}, {Name: "server_no_context_takeover"}}}}
	}
	return nil
}

func modeFlags(mode string) (clientNoCtx, serverNoCtx bool) {
	return mode == "no-context-takeover", mode == "no-context-takeover"
}

type dialOut struct {
	conn *websocket.Conn
	resp *http.Response
	err  error
	rt   *fakeRT
	pan  string
}

// hsDial runs Dial (or VerifDial when rnd != nil) against the fake server.
func hsDial(ctx context.Context, url string, opts websocket.DialOptions, script respScript, rnd io.Reader) dialOut {
	rt := &fakeRT{script: script}
	opts.HTTPClient = &http.Client{Transport: rt}
	o := dialOut{rt: rt}
	o.pan = fw.Recover(func() {
		if rnd != nil {
			o.conn, o.resp, o.err = websocket.VerifDial(ctx, url, &opts, rnd)
		} else {
			o.conn, o.resp, o.err = websocket.Dial(ctx, url, &opts)
		}
	})
	return o
}

func hangGuard(c *fw.Ctx, ctx context.Context, err error) bool {
	if err != nil && ctx.Err() != nil && errors.Is(err, context.DeadlineExceeded) {
		c.EngineError("hang guard fired (5 s): " + err.Error())
		return true
	}
	return false
}

// respExtVariants is the shared alphabet of Sec-WebSocket-Extensions response
// values (C13 grid and C14 client side).
var respExtVariants = []string{
	"",
	"permessage-deflate",
	"permessage-deflate; client_no_context_takeover",
	"permessage-deflate; server_no_context_takeover",
	"permessage-deflate; client_no_context_takeover; server_no_context_takeover",
	"permessage-deflate; server_max_window_bits=15",
	"permessage-deflate; server_max_window_bits=15; client_no_context_takeover", // the flag behind a valued parameter
	"permessage-deflate; client_no_context_takeover; server_max_window_bits=15",
	"permessage-deflate; server_max_window_bits=15; server_no_context_takeover; client_no_context_takeover",
	"permessage-deflate; server_max_window_bits=10",
	"permessage-deflate; client_max_window_bits=15", // never offered by this client
	"permessage-deflate; foo",
	"x-webkit-deflate-frame",
	"permessage-deflate, permessage-deflate",
	// malformed values of known parameters: the property text is silent, they are
	// reported under their own classes if accepted
	"permessage-deflate; server_max_window_bits=99",
	"permessage-deflate; server_max_window_bits=abc",
	"\nmeow", // two header lines, the first one empty
	"\npermessage-deflate; client_max_window_bits=7",
	"permessage-deflate\nmeow",                      // a second extension on a second line
	"permessage-deflate; server_max_window_bits=\"", // a lone quote as value
	"permessage-deflate; server_max_window_bits=\"\"",
	"permessage-deflate; server_max_window_bits=10; server_max_window_bits=12", // duplicate, both with values
	"permessage-deflate; server_max_window_bits=012",                           // numerically in range, not the decimal without leading zeros the RFC asks for
	"permessage-deflate; server_max_window_bits=+12",
	"permessage-deflate; server_max_window_bits",
	"permessage-deflate; client_no_context_takeover; client_no_context_takeover",
	"permessage-deflate; server_no_context_takeover=1",
}

// ---------------------------------------------------------------- grid

type c13Case struct {
	Resp      respScript `json:"response"`
	Requested []string   `json:"requested_subprotocols"`
	Mode      string     `json:"client_mode"`
}

var (
	c13Statuses  = []int{101, 200, 400}
	c13ConnVals  = []string{"Upgrade", "upgrade", "keep-alive, Upgrade", "keep-alive", "", hsAbsent, "close upgrade"} // the last one: one element, the keyword glued by white space
	c13UpgVals   = []string{"websocket", "WebSocket", "websockets", "h2c, websocket", "", hsAbsent, "h2c\twebsocket"} // ditto, with a tab
	c13Accepts   = []string{"correct", "other-key", "absent", "case-flipped", "cut-short", "extended", "padding-bits"}
	c13RespProto = []string{"", "chat", "CHAT", "other", "cha", "chatx", "other, chat", "chat, other", "other\nchat", "chat\nother"} // none, requested, other letter case, unrequested, proper prefix / extension of a requested one
	c13ReqLists  = [][]string{nil, {"chat"}, {"chat", "echo"}}
)

func c13GridSize() int {
	return len(c13Statuses) * len(c13ConnVals) * len(c13UpgVals) * len(c13Accepts) * len(c13RespProto) * len(c13ReqLists) * len(respExtVariants) * len(hsModes)
}

func c13GridCase(i int) c13Case {
	pick := func(n int) int { k := i % n; i /= n; return k }
	var cs c13Case
	cs.Mode = hsModes[pick(len(hsModes))]
	cs.Resp.Ext = respExtVariants[pick(len(respExtVariants))]
	cs.Requested = c13ReqLists[pick(len(c13ReqLists))]
	cs.Resp.Proto = c13RespProto[pick(len(c13RespProto))]
	cs.Resp.Accept = c13Accepts[pick(len(c13Accepts))]
	cs.Resp.Upgrade = c13UpgVals[pick(len(c13UpgVals))]
	cs.Resp.Connection = c13ConnVals[pick(len(c13ConnVals))]
	cs.Resp.Status = c13Statuses[pick(len(c13Statuses))]
	return cs
}

func c13Judge(cs c13Case, key string) hsclient.Judgement {
	return hsclient.Judge(
		hsclient.Sent{Key: key, Subprotocols: cs.Requested, Offers: modeOffer(cs.Mode)},
		hsclient.Resp{Status: cs.Resp.Status, Header: cs.Resp.header(key)})
}

// invalidClauses names the clauses of the predicate that demand rejection.
func invalidClauses(j hsclient.Judgement, cs c13Case) []string {
	var out []string
	if j.Status == hsclient.Invalid {
		out = append(out, "status")
	}
	if j.Connection == hsclient.Invalid {
		out = append(out, "connection-header")
	}
	if j.Upgrade == hsclient.Invalid {
		out = append(out, "upgrade-header")
	}
	if j.Accept == hsclient.Invalid {
		out = append(out, "accept-key-"+cs.Resp.Accept)
	}
	if j.Subprotocol == hsclient.Invalid {
		out = append(out, "subprotocol-not-requested")
	}
	if j.Extensions == hsclient.Invalid {
		out = append(out, "extensions-"+j.ExtReason)
	}
	return out
}

func c13One(c *fw.Ctx, cs c13Case) {
	c.Eval()
	c.AddTraces(1)
	ctx, cancel := context.WithTimeout(context.Background(), 5*time.Second)
	defer cancel()
	givenSubs := append([]string(nil), cs.Requested...) // the library gets a copy: the case data stays what the oracle reads
	o := hsDial(ctx, "ws://example.com/p?q=1", websocket.DialOptions{Subprotocols: givenSubs, CompressionMode: hsMode(cs.Mode)}, cs.Resp, nil)
	if strings.Join(givenSubs, "\x00") != strings.Join(cs.Requested, "\x00") {
		c.Violate("C13/caller-options-modified", fmt.Sprintf("%+v: DialOptions.Subprotocols was %q before Dial and is %q afterwards", cs, cs.Requested, givenSubs), cs)
		return
	}
	if o.conn != nil {
		defer o.conn.CloseNow()
	}
	if o.pan != "" {
		c.Violate("C13/panic/dial", fmt.Sprintf("%+v: panic %s", cs, o.pan), cs)
		return
	}
	if hangGuard(c, ctx, o.err) {
		return
	}
	if o.rt.calls != 1 || o.rt.req == nil {
		if o.conn != nil {
			c.Violate("C13/connection-without-request", fmt.Sprintf("%+v: Dial returned a connection after %d round trips", cs, o.rt.calls), cs)
		} else {
			c.EngineError(fmt.Sprintf("fake server saw %d requests (err=%v)", o.rt.calls, o.err))
		}
		return
	}
	key := o.rt.reqHdr.Get("Sec-WebSocket-Key")
	j := c13Judge(cs, key)
	c.AddTransitions(1)
	accepted := o.conn != nil
	if accepted && o.err != nil {
		c.Violate("C13/connection-and-error-both-returned", fmt.Sprintf("%+v: conn != nil and err = %v", cs, o.err), cs)
		return
	}
	if !accepted && o.err == nil {
		c.Violate("C13/neither-connection-nor-error", fmt.Sprintf("%+v: conn == nil and err == nil", cs), cs)
		return
	}
	if !accepted && o.rt.body != nil {
		// "an error and no connection": the transport of a refused response is
		// released, in particular the upgraded connection of a refused 101
		o.rt.body.mu.Lock()
		closed := o.rt.body.closed
		o.rt.body.mu.Unlock()
		if closed == 0 {
			st := "other-status"
			if cs.Resp.Status == 101 {
				st = "status-101"
			}
			c.Violate("C13/refused-response-left-open/"+st, fmt.Sprintf("%+v: Dial returned an error (%v) but never closed the response body, which for a 101 response is the connection itself", cs, o.err), cs)
			return
		}
	}
	outcome := j.Vector() + "|acc=" + fmt.Sprint(accepted)
	switch j.Overall() {
	case hsclient.Invalid:
		if accepted {
			inv := invalidClauses(j, cs)
			locus := "multiple-clauses"
			if len(inv) == 1 {
				locus = inv[0]
			}
			c.Violate("C13/accepted-invalid-response/"+locus,
				fmt.Sprintf("%+v (key sent %q): response is invalid in %v, the property demands an error and no connection; Dial returned a connection", cs, key, inv), cs)
			return
		}
	case hsclient.Valid:
		if !accepted {
			ext := "no-extension"
			if j.Agreed != nil {
				ext = "compression-agreed"
			}
			proto := "no-subprotocol"
			if cs.Resp.Proto != "" {
				proto = "requested-subprotocol"
			}
			c.Violate("C13/rejected-valid-response/"+ext+"/"+proto,
				fmt.Sprintf("%+v (key sent %q): every clause of the validity predicate holds (clauses %s); Dial returned err = %v", cs, key, j.Vector(), o.err), cs)
			return
		}
	case hsclient.Unconstrained:
		if accepted && j.ExtMalformed && j.Status == hsclient.Valid && j.Connection == hsclient.Valid && j.Upgrade == hsclient.Valid && j.Accept == hsclient.Valid && j.Subprotocol != hsclient.Invalid {
			c.Violate("C13/accepted-malformed-extension-param/"+j.ExtReason,
				fmt.Sprintf("%+v: response extension %q carries a malformed permessage-deflate parameter (%s), which no client can honour (RFC 7692 7.1: MUST fail); Dial returned a connection", cs, cs.Resp.Ext, j.ExtReason), cs)
			// keep going: the connection parameters are still compared below
		}
	}
	if accepted {
		client, comp, _ := websocket.VerifConnInfo(o.conn)
		if !client {
			c.Violate("C13/connection-role-not-client", fmt.Sprintf("%+v: Dial returned a server-role connection", cs), cs)
		}
		if j.Agreed == nil {
			if comp != nil && cs.Resp.Ext == "" {
				c.Violate("C13/connection-parameters-differ-from-response/compression-without-extension",
					fmt.Sprintf("%+v: response has no Sec-WebSocket-Extensions but the connection compresses (%+v)", cs, *comp), cs)
			}
			outcome += "|comp=nil"
		} else {
			mc, ms := modeFlags(cs.Mode)
			wc, ws := mc || j.Agreed.ClientNoCtx, ms || j.Agreed.ServerNoCtx
			if comp == nil {
				c.Violate("C13/connection-parameters-differ-from-response/compression-dropped",
					fmt.Sprintf("%+v: response agreed on %q but the connection does not compress", cs, cs.Resp.Ext), cs)
			} else {
				// only harmful disagreements are demanded: the client must not keep its
				// deflate context when the response forbids it, and must not drop its
				// inflate history unless the response promises server_no_context_takeover
				_, _ = wc, ws
				if j.Agreed.ClientNoCtx && !comp.ClientNoContextTakeover {
					c.Violate("C13/connection-parameters-differ-from-response/client_no_context_takeover",
						fmt.Sprintf("%+v: client_no_context_takeover on the connection = %v, want %v (mode %s, response %q)", cs, comp.ClientNoContextTakeover, wc, cs.Mode, cs.Resp.Ext), cs)
				}
				if comp.ServerNoContextTakeover && !j.Agreed.ServerNoCtx {
					c.Violate("C13/connection-parameters-differ-from-response/server_no_context_takeover",
						fmt.Sprintf("%+v: server_no_context_takeover on the connection = %v, want %v (mode %s, response %q)", cs, comp.ServerNoContextTakeover, ws, cs.Mode, cs.Resp.Ext), cs)
				}
				outcome += fmt.Sprintf("|comp=%v,%v", comp.ClientNoContextTakeover, comp.ServerNoContextTakeover)
			}
		}
		outcome += "|sub=" + o.conn.Subprotocol()
	}
	c.OutcomeStr(outcome)
}

func c13GridRun(c *fw.Ctx, shard, nshards int) {
	n := c13GridSize()
	if shard == 0 {
		// model pass: the clause vectors (states) of the predicate over the whole space
		states := map[string]struct{}{}
		for i := 0; i < n; i++ {
			states[c13Judge(c13GridCase(i), "dGhlIHNhbXBsZSBub25jZQ==").Vector()] = struct{}{}
		}
		c.AddStates(int64(len(states)))
	}
	for i := shard; i < n; i += nshards {
		if c.OutOfTime() {
			c.NotExhaustive("budget exhausted before the grid was complete")
			break
		}
		cs := c13GridCase(i)
		c13One(c, cs)
		if c.WantSample() && i%977 == shard {
			c.Sample(cs)
		}
	}
	c.Bound("grid_cases", n)
	c.Bound("statuses", c13Statuses)
	c.Bound("connection_values", c13ConnVals)
	c.Bound("upgrade_values", c13UpgVals)
	c.Bound("accept_variants", c13Accepts)
	c.Bound("response_subprotocols", c13RespProto)
	c.Bound("requested_lists", c13ReqLists)
	c.Bound("response_extension_variants", respExtVariants)
	c.Bound("client_modes", hsModes)
}

// ---------------------------------------------------------------- request inspection

type c13ReqCase struct {
	Scheme       string   `json:"scheme"`
	Subprotocols []string `json:"subprotocols"`
	Headers      []string `json:"headers"` // "Name: value"
	Host         string   `json:"host_override"`
	Mode         string   `json:"client_mode"`
}

var (
	c13Schemes  = []string{"ws", "wss", "http", "https"}
	c13SubLists = [][]string{nil, {"a"}, {"a", "b"}}
	// "Cookie" twice: one header with two values; "raw:" = the caller wrote the map key by hand, not in canonical form
	c13ExtraHdrs  = []string{"Connection: close", "Sec-WebSocket-Key: x", "X-Custom: 1", "Origin: http://o", "Cookie: a=1", "Cookie: b=2", "raw:x-tenant: t1"}
	c13Hosts      = []string{"", "override.example"}
	c13Handshakey = map[string]bool{"Connection": true, "Upgrade": true, "Sec-Websocket-Key": true, "Sec-Websocket-Version": true, "Sec-Websocket-Protocol": true, "Sec-Websocket-Extensions": true}
)

func c13ReqCases() []c13ReqCase {
	var out []c13ReqCase
	for _, sch := range c13Schemes {
		for _, sub := range c13SubLists {
			for mask := 0; mask < 1<<len(c13ExtraHdrs); mask++ {
				var hs []string
				for k, h := range c13ExtraHdrs {
					if mask&(1<<k) != 0 {
						hs = append(hs, h)
					}
				}
				for _, host := range c13Hosts {
					for _, m := range hsModes {
						out = append(out, c13ReqCase{sch, sub, hs, host, m})
					}
				}
			}
		}
	}
	return out
}

func sortedCopy(s []string) []string {
	o := append([]string(nil), s...)
	sort.Strings(o)
	return o
}

func extSet(e hsclient.Ext) string {
	var ps []string
	for _, p := range e.Params {
		s := p.Name
		if p.HasValue {
			s += "=" + p.Value
		}
		ps = append(ps, s)
	}
	sort.Strings(ps)
	return e.Name + "{" + strings.Join(ps, ";") + "}"
}

func c13ReqOne(c *fw.Ctx, cs c13ReqCase) {
	c.Eval()
	c.AddTraces(1)
	c.AddTransitions(1)
	ctx, cancel := context.WithTimeout(context.Background(), 5*time.Second)
	defer cancel()
	hdr := http.Header{}
	if cs.Mode != "disabled" && len(cs.Headers)%2 == 1 {
		// an earlier handshake of the same process, answered with an extension agreement: the
		// request of this one does not depend on it
		if prior := hsDial(ctx, "ws://example.com/earlier", websocket.DialOptions{CompressionMode: hsMode(cs.Mode)}, validScript("permessage-deflate; client_no_context_takeover"), nil); prior.conn != nil {
			prior.conn.CloseNow()
		}
	}
	want := map[string][]string{} // what the caller's (non-handshake) headers amount to, by the key the caller used
	for _, h := range cs.Headers {
		raw := strings.HasPrefix(h, "raw:")
		kv := strings.SplitN(strings.TrimPrefix(h, "raw:"), ": ", 2)
		if raw {
			hdr[kv[0]] = append(hdr[kv[0]], kv[1])
			want[kv[0]] = append(want[kv[0]], kv[1])
			continue
		}
		hdr.Add(kv[0], kv[1])
		want[http.CanonicalHeaderKey(kv[0])] = append(want[http.CanonicalHeaderKey(kv[0])], kv[1])
	}
	o := hsDial(ctx, cs.Scheme+"://example.com/p?q=1",
		websocket.DialOptions{Subprotocols: append([]string(nil), cs.Subprotocols...), HTTPHeader: hdr, Host: cs.Host, CompressionMode: hsMode(cs.Mode)},
		validScript(""), nil)
	if o.conn != nil {
		defer o.conn.CloseNow()
	}
	if o.pan != "" {
		c.Violate("C13/panic/dial", fmt.Sprintf("%+v: panic %s", cs, o.pan), cs)
		return
	}
	if hangGuard(c, ctx, o.err) {
		return
	}
	bad := func(locus, format string, a ...interface{}) {
		c.Violate("C13/request/"+locus, fmt.Sprintf("%+v: ", cs)+fmt.Sprintf(format, a...), cs)
	}
	if o.rt.calls != 1 {
		bad("not-sent-once", "the transport saw %d requests (err = %v)", o.rt.calls, o.err)
		return
	}
	r, h := o.rt.req, o.rt.reqHdr
	if r.Method != "GET" {
		bad("method", "method %q, want GET", r.Method)
	}
	wantScheme := map[string]string{"ws": "http", "wss": "https", "http": "http", "https": "https"}[cs.Scheme]
	if r.URL == nil || r.URL.Scheme != wantScheme {
		bad("url-scheme", "request URL %v, want scheme %s", r.URL, wantScheme)
	} else if r.URL.Host != "example.com" || r.URL.Path != "/p" || r.URL.RawQuery != "q=1" {
		bad("url-target", "request URL %v, want host example.com, path /p, query q=1", r.URL)
	}
	if !hsclient.HasToken(h["Connection"], "upgrade") {
		bad("connection-header", "Connection = %q, want a token Upgrade", h["Connection"])
	}
	if !hsclient.HasToken(h["Upgrade"], "websocket") {
		bad("upgrade-header", "Upgrade = %q, want a token websocket", h["Upgrade"])
	}
	if v := h["Sec-Websocket-Version"]; len(v) != 1 || strings.TrimSpace(v[0]) != "13" {
		bad("version", "Sec-WebSocket-Version = %q, want exactly 13", v)
	}
	if v := h["Sec-Websocket-Key"]; len(v) != 1 {
		bad("key", "Sec-WebSocket-Key = %q, want exactly one value", v)
	} else if _, ok := hsclient.KeyBytes(v[0]); !ok {
		bad("key", "Sec-WebSocket-Key = %q is not base64 of 16 bytes", v[0])
	}
	gotSub := sortedCopy(hsclient.Tokens(h["Sec-Websocket-Protocol"]))
	if strings.Join(gotSub, "\x00") != strings.Join(sortedCopy(cs.Subprotocols), "\x00") {
		bad("subprotocols", "Sec-WebSocket-Protocol = %q, want the requested %q", h["Sec-Websocket-Protocol"], cs.Subprotocols)
	}
	var gotOffer, wantOffer []string
	for _, e := range hsclient.ParseExtensions(h["Sec-Websocket-Extensions"]) {
		gotOffer = append(gotOffer, extSet(e))
	}
	for _, e := range modeOffer(cs.Mode) {
		wantOffer = append(wantOffer, extSet(e))
	}
	if strings.Join(gotOffer, ",") != strings.Join(wantOffer, ",") {
		bad("extension-offer", "Sec-WebSocket-Extensions = %q, mode %s implies %v", h["Sec-Websocket-Extensions"], cs.Mode, wantOffer)
	}
	for k, vals := range want {
		if c13Handshakey[http.CanonicalHeaderKey(k)] {
			continue // collides with a handshake header: well-formedness wins, checked above
		}
		// all values, in order, under the key the caller used (net/http sends map keys as they are)
		// or under its canonical form
		got := h[k]
		if len(got) == 0 {
			got = h[http.CanonicalHeaderKey(k)]
		}
		if strings.Join(got, "\x00") != strings.Join(vals, "\x00") {
			bad("caller-header-lost", "caller header %q with values %q arrived as %q", k, vals, got)
		}
	}
	if cs.Host != "" && r.Host != cs.Host {
		bad("host-override", "req.Host = %q, want the override %q", r.Host, cs.Host)
	}
	c.OutcomeStr(fmt.Sprintf("%s|%v|%v|%s|%s|%v|%v", r.URL.Scheme, gotSub, gotOffer, r.Host, r.Method, len(h), o.err == nil))
}

func c13ReqRun(c *fw.Ctx, shard, nshards int) {
	cases := c13ReqCases()
	if shard == 0 {
		c.AddStates(int64(len(c13Schemes) + len(c13SubLists) + (1 << len(c13ExtraHdrs)) + len(c13Hosts) + len(hsModes)))
	}
	for i := shard; i < len(cases); i += nshards {
		c13ReqOne(c, cases[i])
		if c.WantSample() && i%97 == shard {
			c.Sample(cases[i])
		}
	}
	c.Bound("request_cases", len(cases))
	c.Bound("caller_headers", c13ExtraHdrs)
	c.Bound("schemes", c13Schemes)
}

// ---------------------------------------------------------------- key freshness

// scriptedRand is a deterministic randomness source that records how much of
// it has been consumed.
type scriptedRand struct {
	stream []byte
	pos    int
}

func newScriptedRand(seed uint64, n int) *scriptedRand {
	s := &scriptedRand{stream: make([]byte, n)}
	x := seed*0x9E3779B97F4A7C15 + 1
	for i := range s.stream {
		x ^= x << 13
		x ^= x >> 7
		x ^= x << 17
		s.stream[i] = byte(x >> 24)
	}
	return s
}

func (s *scriptedRand) Read(p []byte) (int, error) {
	if s.pos >= len(s.stream) {
		return 0, io.EOF
	}
	n := copy(p, s.stream[s.pos:])
	s.pos += n
	return n, nil
}

type c13KeyCase struct {
	Via   string     `json:"via"` // "hook" (VerifDial with a supplied source) | "crypto/rand" (Dial with crypto/rand.Reader swapped) | "real" (Dial, real crypto/rand)
	Resp  respScript `json:"response"`
	Mode  string     `json:"client_mode"`
	Dials int        `json:"dials"`
	Seed  uint64     `json:"seed"`
}

func c13KeyOne(c *fw.Ctx, cs c13KeyCase) {
	c.Eval()
	c.AddTraces(1)
	c.AddTransitions(int64(cs.Dials))
	src := newScriptedRand(cs.Seed, 4096)
	if cs.Via == "crypto/rand" {
		saved := crand.Reader
		crand.Reader = src
		defer func() { crand.Reader = saved }()
	}
	seen := map[string]int{}
	for d := 0; d < cs.Dials; d++ {
		ctx, cancel := context.WithTimeout(context.Background(), 5*time.Second)
		var rnd io.Reader
		if cs.Via == "hook" {
			rnd = src
		}
		start := src.pos
		o := hsDial(ctx, "ws://example.com/", websocket.DialOptions{CompressionMode: hsMode(cs.Mode)}, cs.Resp, rnd)
		end := src.pos
		if o.conn != nil {
			o.conn.CloseNow()
		}
		cancel()
		if o.pan != "" {
			c.Violate("C13/panic/dial", fmt.Sprintf("%+v: panic %s", cs, o.pan), cs)
			return
		}
		if o.rt.calls != 1 {
			c.Violate("C13/request/not-sent-once", fmt.Sprintf("%+v: dial %d: the transport saw %d requests (err = %v)", cs, d, o.rt.calls, o.err), cs)
			return
		}
		keys := o.rt.reqHdr["Sec-Websocket-Key"]
		if len(keys) != 1 {
			c.Violate("C13/request/key", fmt.Sprintf("%+v: dial %d: Sec-WebSocket-Key = %q", cs, d, keys), cs)
			return
		}
		kb, ok := hsclient.KeyBytes(keys[0])
		if !ok {
			c.Violate("C13/request/key", fmt.Sprintf("%+v: dial %d: Sec-WebSocket-Key %q is not base64 of 16 bytes", cs, d, keys[0]), cs)
			return
		}
		if prev, dup := seen[keys[0]]; dup {
			c.Violate("C13/key-reused-across-attempts", fmt.Sprintf("%+v: dial %d sent the same key %q as dial %d", cs, d, keys[0], prev), cs)
			return
		}
		seen[keys[0]] = d
		if cs.Via != "real" {
			// fresh and random: the 16 bytes are drawn from the randomness source during this attempt
			if !bytes.Contains(src.stream[start:end], kb) {
				c.Violate("C13/key-not-from-random-source/"+cs.Via,
					fmt.Sprintf("%+v: dial %d: key %q (bytes %x) is not among the %d bytes consumed from the randomness source during this attempt (offset %d..%d: %x)",
						cs, d, keys[0], kb, end-start, start, end, src.stream[start:end]), cs)
				return
			}
			c.OutcomeStr(fmt.Sprintf("%s|%d|%s", cs.Via, end-start, base64.StdEncoding.EncodeToString(kb)))
		}
	}
}

func c13KeyCases() []c13KeyCase {
	var out []c13KeyCase
	scripts := []respScript{validScript(""), {Status: 400, Connection: hsAbsent, Upgrade: hsAbsent, Accept: "absent"}, {Status: 101, Connection: "Upgrade", Upgrade: "websocket", Accept: "other-key"}}
	seed := uint64(1)
	for _, via := range []string{"hook", "crypto/rand", "real"} {
		for _, sc := range scripts {
			for _, m := range hsModes {
				out = append(out, c13KeyCase{via, sc, m, 8, seed})
				seed++
			}
		}
	}
	return out
}

func c13KeyRun(c *fw.Ctx) {
	cases := c13KeyCases()
	c.AddStates(int64(len(cases)))
	for i, cs := range cases {
		c13KeyOne(c, cs)
		if i%9 == 0 {
			c.Sample(cs)
		}
	}
	c.Bound("key_cases", len(cases))
	c.Bound("dials_per_key_case", 8)
}

func init() {
	fw.Register(fw.Part{
		Prop: "C13", Name: "grid",
		Units: func(tier string) []fw.Unit { return fw.Shards("responses", 16, c13GridRun) },
		Replay: func(c *fw.Ctx, data json.RawMessage) {
			var cs c13Case
			if json.Unmarshal(data, &cs) != nil {
				c.EngineError("bad replay data")
				return
			}
			c13One(c, cs)
		},
	})
	fw.Register(fw.Part{
		Prop: "C13", Name: "request",
		Units: func(tier string) []fw.Unit { return fw.Shards("options", 2, c13ReqRun) },
		Replay: func(c *fw.Ctx, data json.RawMessage) {
			var cs c13ReqCase
			if json.Unmarshal(data, &cs) != nil {
				c.EngineError("bad replay data")
				return
			}
			c13ReqOne(c, cs)
		},
	})
	fw.Register(fw.Part{
		Prop: "C13", Name: "key",
		Units: func(tier string) []fw.Unit {
			return []fw.Unit{{ID: "freshness", Run: c13KeyRun}}
		},
		Replay: func(c *fw.Ctx, data json.RawMessage) {
			var cs c13KeyCase
			if json.Unmarshal(data, &cs) != nil {
				c.EngineError("bad replay data")
				return
			}
			c13KeyOne(c, cs)
		},
	})
}
