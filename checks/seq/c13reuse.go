package seq

import (
	"context"
	"encoding/json"
	"fmt"
	"net/http"
	"reflect"
	"strings"
	"time"

	"nhooyr.io/websocket"
	"verif/fw"
)

// C13, part reuse: two consecutive Dials that share one caller-owned
// DialOptions.HTTPHeader map. Every request must carry exactly the options of
// its own Dial (no subprotocol / extension offer / key left over from the other
// attempt) and the caller's header map must be left as it was.

type c13ReuseCase struct {
	First  c13ReuseDial `json:"first"`
	Second c13ReuseDial `json:"second"`
	Extra  bool         `json:"extra_header"` // the shared map carries a caller header
}

type c13ReuseDial struct {
	Subprotocols []string `json:"subprotocols"`
	Mode         string   `json:"mode"`
}

func c13ReuseCases() []c13ReuseCase {
	var dials []c13ReuseDial
	for _, sp := range [][]string{nil, {"chat"}, {"chat", "echo"}} {
		for _, m := range hsModes {
			dials = append(dials, c13ReuseDial{sp, m})
		}
	}
	var cs []c13ReuseCase
	for _, a := range dials {
		for _, b := range dials {
			for _, extra := range []bool{false, true} {
				cs = append(cs, c13ReuseCase{a, b, extra})
			}
		}
	}
	return cs
}

func c13ReuseOne(c *fw.Ctx, cs c13ReuseCase) {
	c.Eval()
	c.AddTraces(1)
	shared := http.Header{}
	if cs.Extra {
		shared.Set("X-Caller", "1")
	}
	before := shared.Clone()
	var keys []string
	for i, d := range []c13ReuseDial{cs.First, cs.Second} {
		opts := websocket.DialOptions{HTTPHeader: shared, Subprotocols: d.Subprotocols, CompressionMode: hsMode(d.Mode)}
		ctx, cancel := context.WithTimeout(context.Background(), 30*time.Second)
		o := hsDial(ctx, "ws://example.com/x", opts, validScript(""), nil)
		cancel()
		if o.pan != "" {
			c.Violate("C13/panic", fmt.Sprintf("%+v: %s", cs, o.pan), cs)
			return
		}
		if o.conn != nil {
			o.conn.CloseNow()
		}
		if o.rt.reqHdr == nil {
			c.Violate("C13/request/not-sent", fmt.Sprintf("%+v: dial %d sent no request: %v", cs, i+1, o.err), cs)
			return
		}
		h := o.rt.reqHdr
		wantProto := strings.Join(d.Subprotocols, ",")
		gotProto := strings.ReplaceAll(strings.Join(h.Values("Sec-WebSocket-Protocol"), ","), " ", "")
		if gotProto != wantProto {
			c.Violate("C13/request/subprotocols-of-another-dial", fmt.Sprintf("%+v: dial %d requested %q but its request carries Sec-WebSocket-Protocol %q", cs, i+1, wantProto, gotProto), cs)
			return
		}
		ext := strings.Join(h.Values("Sec-WebSocket-Extensions"), ",")
		if (d.Mode == "disabled") != (ext == "") {
			c.Violate("C13/request/extension-offer-of-another-dial", fmt.Sprintf("%+v: dial %d has compression mode %s but its request carries Sec-WebSocket-Extensions %q", cs, i+1, d.Mode, ext), cs)
			return
		}
		if d.Mode == "no-context-takeover" != strings.Contains(ext, "no_context_takeover") {
			c.Violate("C13/request/extension-offer-of-another-dial", fmt.Sprintf("%+v: dial %d has compression mode %s but offers %q", cs, i+1, d.Mode, ext), cs)
			return
		}
		if cs.Extra && h.Get("X-Caller") != "1" {
			c.Violate("C13/request/caller-header-lost", fmt.Sprintf("%+v: dial %d lost the caller's header", cs, i+1), cs)
			return
		}
		keys = append(keys, h.Get("Sec-WebSocket-Key"))
		if !reflect.DeepEqual(shared, before) {
			c.Violate("C13/request/caller-header-map-modified", fmt.Sprintf("%+v: after dial %d the caller's HTTPHeader map is %v, it was %v", cs, i+1, shared, before), cs)
			return
		}
	}
	if keys[0] == keys[1] {
		c.Violate("C13/key-reused-across-attempts", fmt.Sprintf("%+v: both dials sent the key %q", cs, keys[0]), cs)
		return
	}
	c.OutcomeStr(fmt.Sprintf("reuse|%v|%v|%v", cs.First, cs.Second, cs.Extra))
}

func init() {
	fw.Register(fw.Part{
		Prop: "C13", Name: "reuse",
		Units: func(tier string) []fw.Unit {
			return []fw.Unit{{ID: "shared-header-map", Run: func(c *fw.Ctx) {
				cases := c13ReuseCases()
				for _, cs := range cases {
					c13ReuseOne(c, cs)
				}
				c.AddStates(int64(len(cases)))
				c.AddTransitions(int64(2 * len(cases)))
				c.Bound("reuse_cases", len(cases))
				c.Sample(cases[len(cases)/2])
			}}}
		},
		Replay: func(c *fw.Ctx, data json.RawMessage) {
			var cs c13ReuseCase
			if json.Unmarshal(data, &cs) != nil {
				c.EngineError("bad replay data")
				return
			}
			c13ReuseOne(c, cs)
		},
	})
	// C14: "compression is used only when both sides enabled it": the second Dial's offer is that
	// of its own compression mode although an earlier Dial used the same caller-owned header map
	fw.Register(fw.Part{
		Prop: "C14", Name: "reuse",
		Units: func(tier string) []fw.Unit {
			return []fw.Unit{{ID: "shared-header-map", Run: func(c *fw.Ctx) {
				c.Reprefix = true
				cases := c13ReuseCases()
				for _, cs := range cases {
					c13ReuseOne(c, cs)
				}
				c.AddStates(int64(len(cases)))
				c.AddTransitions(int64(2 * len(cases)))
				c.Bound("reuse_cases", len(cases))
			}}}
		},
		Replay: func(c *fw.Ctx, data json.RawMessage) {
			c.Reprefix = true
			var cs c13ReuseCase
			if json.Unmarshal(data, &cs) != nil {
				c.EngineError("bad replay data")
				return
			}
			c13ReuseOne(c, cs)
		},
	})
}
