package seq

import (
	"context"
	"encoding/json"
	"fmt"
	"io"
	"net/http"
	"sync"
	"time"

	"nhooyr.io/websocket"
	"verif/fw"
)

// C13, part silent: the response is refused (wrong status, wrong accept value,
// missing Upgrade) and the server then says nothing more while keeping the
// connection open: the response body's Read blocks until the body is closed.
// "Otherwise it returns an error and no connection": Dial, called with a context
// that has no deadline, returns its error within the harness's patience (30 s
// of real time; the unchanged library gives up on the body after 3 s) and has
// closed the body by then.

type c13SilentBody struct {
	mu     sync.Mutex
	closed chan struct{}
	once   sync.Once
}

func (b *c13SilentBody) Read(p []byte) (int, error) {
	<-b.closed
	return 0, io.ErrClosedPipe
}
func (b *c13SilentBody) Write(p []byte) (int, error) { return len(p), nil }
func (b *c13SilentBody) Close() error {
	b.once.Do(func() { close(b.closed) })
	return nil
}

type c13SilentRT struct {
	script respScript
	body   *c13SilentBody
}

func (rt *c13SilentRT) RoundTrip(r *http.Request) (*http.Response, error) {
	rt.body = &c13SilentBody{closed: make(chan struct{})}
	return &http.Response{
		Status: fmt.Sprintf("%d %s", rt.script.Status, http.StatusText(rt.script.Status)), StatusCode: rt.script.Status,
		Proto: "HTTP/1.1", ProtoMajor: 1, ProtoMinor: 1,
		Header: rt.script.header(r.Header.Get("Sec-WebSocket-Key")), Body: rt.body, Request: r,
	}, nil
}

type c13SilentCase struct {
	Resp respScript `json:"response"`
}

const c13SilentPatience = 30 * time.Second

func c13SilentOne(c *fw.Ctx, cs c13SilentCase) {
	c.Eval()
	c.AddTraces(1)
	rt := &c13SilentRT{script: cs.Resp}
	type res struct {
		conn *websocket.Conn
		err  error
		pan  string
	}
	done := make(chan res, 1)
	t0 := time.Now()
	go func() {
		var r res
		r.pan = fw.Recover(func() {
			r.conn, _, r.err = websocket.Dial(context.Background(), "ws://example.com/", &websocket.DialOptions{HTTPClient: &http.Client{Transport: rt}})
		})
		done <- r
	}()
	desc := fmt.Sprintf("%+v", cs)
	select {
	case r := <-done:
		c.OutcomeStr(fmt.Sprintf("silent %d/%s/%s returned", cs.Resp.Status, cs.Resp.Accept, cs.Resp.Upgrade))
		if r.pan != "" {
			c.Violate("C13/panic/dial", desc+": "+r.pan, cs)
			return
		}
		if r.conn != nil {
			r.conn.CloseNow()
			c.Violate("C13/accepted-invalid-response/silent-server", desc+": Dial returned a connection", cs)
			return
		}
		if r.err == nil {
			c.Violate("C13/refusal-without-error", desc+": Dial returned neither a connection nor an error", cs)
			return
		}
		select {
		case <-rt.body.closed:
		default:
			c.Violate("C13/refused-response-left-open", desc+": Dial returned its error but left the response body open", cs)
		}
	case <-time.After(c13SilentPatience):
		c.Violate("C13/dial-never-returns/refused-response-silent-server", fmt.Sprintf("%s: the response is refused and the server stays silent with the connection open; Dial (context without deadline) had not returned %v later", desc, time.Since(t0).Round(time.Second)), cs)
		rt.body.Close() // let the goroutine go
	}
}

func c13SilentCases() []c13SilentCase {
	return []c13SilentCase{
		{respScript{Status: 200, Connection: "Upgrade", Upgrade: "websocket", Accept: "correct"}},
		{respScript{Status: 101, Connection: "Upgrade", Upgrade: "websocket", Accept: "other-key"}},
		{respScript{Status: 101, Connection: "Upgrade", Upgrade: hsAbsent, Accept: "correct"}},
		{respScript{Status: 101, Connection: "Upgrade", Upgrade: "websocket", Accept: "correct", Proto: "unrequested"}},
	}
}

func init() {
	fw.Register(fw.Part{
		Prop: "C13", Name: "silent",
		Units: func(tier string) []fw.Unit {
			var us []fw.Unit
			for i, cs := range c13SilentCases() {
				cs := cs
				us = append(us, fw.Unit{ID: fmt.Sprintf("silent-%d", i), Run: func(c *fw.Ctx) {
					c13SilentOne(c, cs)
					c.AddStates(1)
					c.AddTransitions(1)
					c.Bound("silent_server_patience_s", int(c13SilentPatience/time.Second))
					c.Sample(cs)
				}})
			}
			return us
		},
		Replay: func(c *fw.Ctx, data json.RawMessage) {
			var cs c13SilentCase
			if json.Unmarshal(data, &cs) != nil {
				c.EngineError("bad replay data")
				return
			}
			c13SilentOne(c, cs)
		},
	})
}
