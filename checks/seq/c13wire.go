package seq

import (
	"context"
	"encoding/json"
	"fmt"
	"net/http"
	"time"

	"nhooyr.io/websocket"
	"verif/fw"
	"verif/refws/hsclient"
)

// C13, part wirejudged: "a subprotocol it asked for" is judged by the request that went out,
// not by the options. DialOptions.Subprotocols and a Sec-WebSocket-Protocol entry in the caller's
// HTTPHeader are combined in every way; the fake server answers with each candidate protocol.
// A connection is returned only if the selected protocol is one of the tokens of the request's
// Sec-WebSocket-Protocol header (or none), Subprotocol() reports it, and a protocol that was on
// the wire is not refused.

type c13WireCase struct {
	Subprotocols []string `json:"subprotocols"`
	HeaderProto  string   `json:"caller_header_protocol"` // "" = no such entry in HTTPHeader
	RespProto    string   `json:"resp_protocol"`
	Mode         string   `json:"client_mode"`
}

func c13WireOne(c *fw.Ctx, cs c13WireCase) {
	c.Eval()
	c.AddTraces(1)
	c.AddTransitions(1)
	ctx, cancel := context.WithTimeout(context.Background(), 5*time.Second)
	defer cancel()
	hdr := http.Header{"X-Custom": {"1"}}
	if cs.HeaderProto != "" {
		hdr["Sec-Websocket-Protocol"] = []string{cs.HeaderProto}
	}
	script := validScript("")
	script.Proto = cs.RespProto
	o := hsDial(ctx, "ws://example.com/", websocket.DialOptions{Subprotocols: append([]string(nil), cs.Subprotocols...), HTTPHeader: hdr, CompressionMode: hsMode(cs.Mode)}, script, nil)
	if o.conn != nil {
		defer o.conn.CloseNow()
	}
	if o.pan != "" {
		c.Violate("C13/panic/dial", fmt.Sprintf("%+v: panic %s", cs, o.pan), cs)
		return
	}
	if hangGuard(c, ctx, o.err) {
		return
	}
	if o.rt.calls != 1 || o.rt.req == nil {
		c.EngineError(fmt.Sprintf("fake server saw %d requests (err=%v)", o.rt.calls, o.err))
		return
	}
	onWire := hsclient.Tokens(o.rt.reqHdr.Values("Sec-WebSocket-Protocol"))
	asked := false
	for _, t := range onWire {
		if t == cs.RespProto {
			asked = true
		}
	}
	accepted := o.conn != nil
	c.OutcomeStr(fmt.Sprintf("wire=%q resp=%q acc=%v", onWire, cs.RespProto, accepted))
	switch {
	case accepted && cs.RespProto != "" && !asked:
		c.Violate("C13/accepted-invalid-response/subprotocol-not-on-the-wire", fmt.Sprintf("%+v: the request carried Sec-WebSocket-Protocol %q; the response selects %q, which the request never offered; Dial returned a connection (Subprotocol() = %q)", cs, onWire, cs.RespProto, o.conn.Subprotocol()), cs)
	case accepted && o.conn.Subprotocol() != cs.RespProto:
		c.Violate("C13/subprotocol-misreported", fmt.Sprintf("%+v: the response selects %q, Subprotocol() reports %q", cs, cs.RespProto, o.conn.Subprotocol()), cs)
	case !accepted && (cs.RespProto == "" || asked && exactToken(cs.Subprotocols, cs.RespProto)):
		// refusing is only judged where the option list itself names the protocol (what a
		// caller-supplied header line means next to the option is the library's choice)
		c.Violate("C13/rejected-valid-response/wirejudged", fmt.Sprintf("%+v: the response is valid and selects %q (request offered %q); Dial returned err = %v", cs, cs.RespProto, onWire, o.err), cs)
	}
}

func exactToken(list []string, t string) bool {
	for _, s := range list {
		if s == t {
			return true
		}
	}
	return false
}

func c13WireCases() []c13WireCase {
	var out []c13WireCase
	for _, subs := range [][]string{nil, {"chat"}, {"chat", "echo"}} {
		for _, hp := range []string{"", "admin", "chat", "admin, chat", "echo"} {
			for _, rp := range []string{"", "chat", "admin", "echo", "other"} {
				for _, m := range hsModes {
					out = append(out, c13WireCase{subs, hp, rp, m})
				}
			}
		}
	}
	return out
}

func init() {
	fw.Register(fw.Part{
		Prop: "C13", Name: "wirejudged",
		Units: func(tier string) []fw.Unit {
			return []fw.Unit{{ID: "options-x-header", Run: func(c *fw.Ctx) {
				cases := c13WireCases()
				for _, cs := range cases {
					c13WireOne(c, cs)
				}
				c.AddStates(int64(len(cases)))
				c.Bound("wirejudged_cases", len(cases))
				c.Sample(cases[len(cases)/2])
			}}}
		},
		Replay: func(c *fw.Ctx, data json.RawMessage) {
			var cs c13WireCase
			if json.Unmarshal(data, &cs) != nil {
				c.EngineError("bad replay data")
				return
			}
			c13WireOne(c, cs)
		},
	})
}
