package seq

import (
	"bufio"
	"bytes"
	"context"
	"encoding/json"
	"fmt"
	"io"
	"net"
	"net/http"
	"net/http/httptest"
	"runtime"
	"strings"
	"time"

	"nhooyr.io/websocket"
	"verif/fw"
	"verif/refws/hsclient"
	"verif/refws/pmd"
)

// C14: permessage-deflate is negotiated soundly and both ends agree on its
// parameters.
//
// Two parts:
//   server - every list of up to 2 (quick) / 3 (thorough) offers x 3 server
//            modes through websocket.Accept with a recording, hijackable
//            ResponseWriter; oracle = RFC 7692 admissibility (refws/hsclient).
//   client - every response variant x 3 client modes through websocket.Dial.
// After every successful handshake three compressible messages travel in each
// direction between the library connection and the reference peer refws/pmd,
// which applies exactly the parameters of the response header and uses its
// rights to the maximum.

// ---------------------------------------------------------------- offers

// c14Shapes is the offer alphabet: one production per line of the RFC 7692
// parameter grammar that the property names, plus foreign extensions.
var c14Shapes = []string{
	"permessage-deflate",
	"permessage-deflate; client_no_context_takeover",
	"permessage-deflate; server_no_context_takeover",
	"permessage-deflate; client_no_context_takeover; server_no_context_takeover",
	"permessage-deflate; client_max_window_bits",
	"permessage-deflate; client_max_window_bits=15",
	"permessage-deflate; client_max_window_bits=10",
	"permessage-deflate; client_max_window_bits=8",
	"permessage-deflate; client_max_window_bits=7",                             // malformed: out of range
	"permessage-deflate; client_max_window_bits=16",                            // malformed: out of range
	"permessage-deflate; client_max_window_bits=abc",                           // malformed: not a number
	"permessage-deflate; client_max_window_bits=010",                           // malformed: leading zero (numerically in range)
	"permessage-deflate; client_max_window_bits=+10",                           // malformed: sign
	"permessage-deflate; client_max_window_bits=10; client_max_window_bits=12", // malformed: duplicate with values
	"permessage-deflate; client_max_window_bits=10; client_max_window_bits",    // malformed: duplicate, first with a value
	"permessage-deflate; server_max_window_bits=15",
	"permessage-deflate; server_max_window_bits=10",                              // well-formed, this server cannot honour it
	"permessage-deflate; server_max_window_bits",                                 // malformed: needs a value
	"permessage-deflate; foo",                                                    // unknown parameter
	"permessage-deflate; client_no_context_takeover; client_no_context_takeover", // malformed: duplicate
	"permessage-deflate; client_no_context_takeover=1",                           // malformed: value not allowed
	"x-webkit-deflate-frame",
	"foo",
	"permessage-deflate; server_no_context_takeover; server_max_window_bits=10", // unhonourable, asks for server_no_context_takeover
	"permessage-deflate; server_no_context_takeover; client_max_window_bits",
	"permessage-deflate; server_max_window_bits=abc", // malformed: not a number
	// quoted-string values (RFC 7692 5.2: a value may be a token or a quoted string)
	"permessage-deflate; client_max_window_bits=\"10\"", // well-formed
	"permessage-deflate; client_max_window_bits=\"",     // malformed: a lone quote
	"permessage-deflate; client_max_window_bits=\"\"",   // malformed: empty
	"permessage-deflate; server_max_window_bits=\"15",   // malformed: unterminated
}

type c14SrvCase struct {
	Offers []string `json:"offers"`
	Mode   string   `json:"server_mode"`
	Split  bool     `json:"split_header_lines"` // one Sec-WebSocket-Extensions line per offer
	// ColdPools: the garbage collector runs twice before every message of the exchange, which
	// empties the library's sync.Pools: every message starts from the pools' cold paths
	ColdPools bool `json:"cold_pools,omitempty"`
}

func c14SrvCases(maxLen int) []c14SrvCase {
	var lists [][]string
	lists = append(lists, nil)
	var rec func(prefix []string)
	rec = func(prefix []string) {
		if len(prefix) == maxLen {
			return
		}
		for _, s := range c14Shapes {
			l := append(append([]string(nil), prefix...), s)
			lists = append(lists, l)
			rec(l)
		}
	}
	rec(nil)
	var out []c14SrvCase
	for _, l := range lists {
		for _, m := range hsModes {
			out = append(out, c14SrvCase{Offers: l, Mode: m})
			if len(l) >= 2 {
				out = append(out, c14SrvCase{Offers: l, Mode: m, Split: true})
			}
		}
	}
	return out
}

// libServerCaps: the property says the server declines server_max_window_bits below 15.
var libServerCaps = hsclient.ServerCaps{MinServerBits: 15}

// ---------------------------------------------------------------- recording, hijackable ResponseWriter

type hijackRW struct {
	hdr      http.Header
	sent     http.Header // snapshot at WriteHeader
	code     int
	body     bytes.Buffer
	conn     *memConn
	hijacked bool
}

func (w *hijackRW) Header() http.Header { return w.hdr }
func (w *hijackRW) WriteHeader(code int) {
	if w.code == 0 {
		w.code = code
		w.sent = w.hdr.Clone()
	}
}
func (w *hijackRW) Write(p []byte) (int, error) {
	if w.code == 0 {
		w.WriteHeader(200)
	}
	return w.body.Write(p)
}
func (w *hijackRW) Hijack() (net.Conn, *bufio.ReadWriter, error) {
	w.hijacked = true
	return w.conn, bufio.NewReadWriter(bufio.NewReader(w.conn), bufio.NewWriter(w.conn)), nil
}

type acceptOut struct {
	conn *websocket.Conn
	err  error
	rw   *hijackRW
	pan  string
	req  http.Header
}

func c14Accept(offers []string, mode string, split bool) acceptOut {
	r := httptest.NewRequest("GET", "http://example.com/ws", nil)
	r.Header.Set("Connection", "Upgrade")
	r.Header.Set("Upgrade", "websocket")
	r.Header.Set("Sec-WebSocket-Version", "13")
	r.Header.Set("Sec-WebSocket-Key", "dGhlIHNhbXBsZSBub25jZQ==")
	if len(offers) > 0 {
		if split {
			r.Header["Sec-Websocket-Extensions"] = append([]string(nil), offers...)
		} else {
			r.Header["Sec-Websocket-Extensions"] = []string{strings.Join(offers, ", ")}
		}
	}
	o := acceptOut{rw: &hijackRW{hdr: http.Header{}, conn: &memConn{}}, req: r.Header.Clone()}
	o.pan = fw.Recover(func() {
		o.conn, o.err = websocket.Accept(o.rw, r, &websocket.AcceptOptions{CompressionMode: hsMode(mode)})
	})
	return o
}

// ---------------------------------------------------------------- message exchange with the reference peer

var c14Msgs = func() [][]byte {
	words := []string{"alpha", "bravo", "charlie", "delta", "echo", "foxtrot", "golf", "hotel", "india", "juliet", "kilo", "lima",
		"mike", "november", "oscar", "papa", "quebec", "romeo", "sierra", "tango", "uniform", "victor", "whiskey", "xray", "yankee", "zulu",
		"{\"id\":", "\"name\":", "\"value\":", "true", "false", "null"}
	x := uint32(12345)
	var b bytes.Buffer
	for b.Len() < 2000 {
		x = x*1664525 + 1013904223
		b.WriteString(words[(x>>16)%uint32(len(words))])
		b.WriteByte(' ')
	}
	m1 := b.Bytes()[:2000]
	m2 := append([]byte(nil), m1...)
	copy(m2[1000:], "CHANGED")
	m3 := append(append([]byte(nil), m1[1000:]...), m1[:1000]...)
	return [][]byte{append([]byte(nil), m1...), m2, m3}
}()

// pmdSelfCheck makes sure the exchange is able to expose a takeover
// disagreement: the second message of a context-keeping sender must not be
// decodable without history.
func pmdSelfCheck() string {
	s := &pmd.Sender{}
	keep := &pmd.Receiver{}
	for i, m := range c14Msgs {
		p, err := s.Compress(m)
		if err != nil {
			return err.Error()
		}
		out, err := keep.Decompress(p)
		if err != nil || !bytes.Equal(out, m) {
			return fmt.Sprintf("reference receiver cannot decode reference sender's message %d: %v", i+1, err)
		}
		if i > 0 {
			out, err := (&pmd.Receiver{NoContextTakeover: true}).Decompress(p)
			if err == nil && bytes.Equal(out, m) {
				return fmt.Sprintf("message %d of a context-keeping sender decodes without history: the exchange could not expose a disagreement", i+1)
			}
		}
	}
	return ""
}

type exchFail struct {
	class  string
	detail string
}

// c14Cold is set by the case being run (see ColdPools).
var c14Cold bool

func c14MaybeCold() {
	if c14Cold {
		runtime.GC()
		runtime.GC()
	}
}

// exchange runs 3 messages library->peer and 3 messages peer->library.
// agreed is the parameter set of the response header (nil: no compression).
// role is the library's role ("client"/"server"); locus is appended to the
// class of a peer->library decoding failure (may be "").
func exchange(c *fw.Ctx, ctx context.Context, conn *websocket.Conn, mc *memConn, role string, agreed *hsclient.Deflate, locus string) []exchFail {
	var fails []exchFail
	libIsClient := role == "client"
	libNoCtx, peerNoCtx := false, false
	if agreed != nil {
		if libIsClient {
			libNoCtx, peerNoCtx = agreed.ClientNoCtx, agreed.ServerNoCtx
		} else {
			libNoCtx, peerNoCtx = agreed.ServerNoCtx, agreed.ClientNoCtx
		}
	}

	// library -> peer. The peer drops its history whenever the library side
	// promised not to use context takeover.
	recv := &pmd.Receiver{NoContextTakeover: libNoCtx}
	mc.takeOut()
	// a fourth message is streamed with a first chunk below every threshold and later
	// chunks above it (whether a message is compressed is decided by its first chunk)
	l2p := append(append([][]byte(nil), c14Msgs...), c14Msgs[1])
	for i, msg := range l2p {
		c14MaybeCold()
		var werr error
		if p := fw.Recover(func() {
			if i == 1 || i == 3 {
				// the second message is streamed in chunks of 700 bytes (each above the default thresholds)
				sizes := []int{700}
				if i == 3 {
					sizes = []int{50, 700, 50, 900}
				}
				var wr io.WriteCloser
				wr, werr = conn.Writer(ctx, websocket.MessageText)
				for off, k := 0, 0; werr == nil && off < len(msg); k++ {
					end := off + sizes[k%len(sizes)]
					if end > len(msg) {
						end = len(msg)
					}
					_, werr = wr.Write(msg[off:end])
					off = end
				}
				if werr == nil {
					werr = wr.Close()
				}
				return
			}
			werr = conn.Write(ctx, websocket.MessageText, msg)
		}); p != "" {
			fails = append(fails, exchFail{"C14/panic/write", "panic in Write: " + p})
			break
		}
		if werr != nil {
			if hangGuard(c, ctx, werr) {
				return fails
			}
			fails = append(fails, exchFail{"C14/exchange/library-write-failed/" + role, fmt.Sprintf("Write of message %d failed: %v", i+1, werr)})
			break
		}
		wire := mc.takeOut()
		m, rest, err := pmd.ReadMessage(wire)
		if err != nil || len(rest) != 0 {
			fails = append(fails, exchFail{"C14/exchange/library-to-peer-undecodable/" + role, fmt.Sprintf("message %d: wire bytes do not parse as one message: err=%v, %d bytes left over", i+1, err, len(rest))})
			break
		}
		got := m.Payload
		if m.Compressed {
			if agreed == nil {
				fails = append(fails, exchFail{"C14/compressed-without-agreement/" + role, fmt.Sprintf("message %d was sent with RSV1 although the handshake did not agree on permessage-deflate", i+1)})
				break
			}
			got, err = recv.Decompress(m.Payload)
			if err != nil {
				fails = append(fails, exchFail{"C14/exchange/library-to-peer-undecodable/" + role,
					fmt.Sprintf("message %d (%d frames, %d compressed bytes): the peer, holding the parameters of the response header (library side no_context_takeover=%v), cannot inflate it: %v", i+1, m.Frames, len(m.Payload), libNoCtx, err)})
				break
			}
		}
		if !bytes.Equal(got, msg) {
			fails = append(fails, exchFail{"C14/exchange/library-to-peer-undecodable/" + role,
				fmt.Sprintf("message %d: peer decoded %d bytes that differ from the %d bytes written (compressed=%v)", i+1, len(got), len(msg), m.Compressed)})
			break
		}
		c.OutcomeStr(fmt.Sprintf("l2p|%s|%v|%v|%d|%v", role, agreed != nil, libNoCtx, i, m.Compressed))
	}

	// peer -> library. The peer keeps its deflate context across messages
	// unless the response forbids it.
	snd := &pmd.Sender{NoContextTakeover: peerNoCtx}
	if agreed != nil {
		// first, on the still empty window: a message larger than the 32 KiB window, read through Reader with a 64 KiB
		// buffer (the inflater hands over a whole window's worth at once), then a
		// short message that repeats part of it
		conn.SetReadLimit(-1)
		big := c14Big()
		for i, msg := range [][]byte{big, append([]byte("again: "), big[80000:80300]...)} {
			c14MaybeCold()
			p, err := snd.Compress(msg)
			if err != nil {
				c.EngineError("reference sender: " + err.Error())
				return fails
			}
			mc.push(pmd.AppendFrame(nil, pmd.Frame{Fin: true, Opcode: pmd.OpBinary, Rsv1: true, Payload: p, Masked: !libIsClient, MaskKey: [4]byte{0x21, 0x43, 0x65, 0x87}}))
			var got []byte
			var rerr error
			if p := fw.Recover(func() {
				var r io.Reader
				_, r, rerr = conn.Reader(ctx)
				if rerr != nil {
					return
				}
				buf := make([]byte, 65536)
				for {
					n, err := r.Read(buf)
					got = append(got, buf[:n]...)
					if err == io.EOF {
						return
					}
					if err != nil {
						rerr = err
						return
					}
				}
			}); p != "" {
				fails = append(fails, exchFail{"C14/panic/read", "panic in Reader/Read: " + p})
				break
			}
			if rerr != nil && hangGuard(c, ctx, rerr) {
				return fails
			}
			cl := "C14/exchange/peer-to-library-undecodable/" + role + "/large-message"
			if rerr != nil || !bytes.Equal(got, msg) {
				fails = append(fails, exchFail{cl, fmt.Sprintf("large message %d (%d bytes, peer keeps context=%v), read through Reader with a 64 KiB buffer: got %d bytes, err=%v", i+1, len(msg), !peerNoCtx, len(got), rerr)})
				break
			}
			c.OutcomeStr(fmt.Sprintf("p2l-big|%s|%v|%d", role, peerNoCtx, i))
		}
	}
	if len(fails) > 0 {
		return fails
	}
	// between the first and the second message the peer sends a tiny message that it does
	// not compress (RSV1 clear): it is not part of either side's compression history
	p2l := [][]byte{c14Msgs[0], []byte("ok"), c14Msgs[1], c14Msgs[2]}
	for i, msg := range p2l {
		c14MaybeCold()
		f := pmd.Frame{Fin: true, Opcode: pmd.OpText, Payload: msg, Masked: !libIsClient, MaskKey: [4]byte{0x12, 0x34 + byte(i), 0x56, 0x78}}
		if agreed != nil && i != 1 {
			// the first message ends with a final deflate block (RFC 7692 7.2.3.4); the
			// later ones repeat its content, i.e. refer back to it if the context is kept
			compress := snd.Compress
			if i == 0 {
				compress = snd.CompressFinal
			}
			p, err := compress(msg)
			if err != nil {
				c.EngineError("reference sender: " + err.Error())
				return fails
			}
			f.Rsv1, f.Payload = true, p
		}
		mc.push(pmd.AppendFrame(nil, f))
		var typ websocket.MessageType
		var got []byte
		var rerr error
		if p := fw.Recover(func() { typ, got, rerr = conn.Read(ctx) }); p != "" {
			fails = append(fails, exchFail{"C14/panic/read", "panic in Read: " + p})
			break
		}
		if rerr != nil && hangGuard(c, ctx, rerr) {
			return fails
		}
		cl := "C14/exchange/peer-to-library-undecodable/" + role
		if locus != "" {
			cl += "/" + locus
		}
		if rerr != nil {
			fails = append(fails, exchFail{cl, fmt.Sprintf("message %d (compressed=%v, peer keeps context=%v as the response allows): Read failed: %v", i+1, agreed != nil, !peerNoCtx, rerr)})
			break
		}
		if typ != websocket.MessageText || !bytes.Equal(got, msg) {
			fails = append(fails, exchFail{cl, fmt.Sprintf("message %d (compressed=%v, peer keeps context=%v): Read returned type %v and %d bytes that differ from the %d sent", i+1, agreed != nil, !peerNoCtx, typ, len(got), len(msg))})
			break
		}
		c.OutcomeStr(fmt.Sprintf("p2l|%s|%v|%v|%d", role, agreed != nil, peerNoCtx, i))
	}
	return fails
}

var c14BigMsg []byte

// c14Big: 100000 bytes (the inflater's 32 KiB buffer wraps three times, so at least one chunk is a whole window) of text that compresses but does not repeat at short range.
func c14Big() []byte {
	if c14BigMsg == nil {
		x := uint32(987654321)
		var b bytes.Buffer
		for b.Len() < 100000 {
			x = x*1664525 + 1013904223
			fmt.Fprintf(&b, "%x-%s ", x>>8, []string{"north", "south", "east", "west"}[x>>30])
		}
		c14BigMsg = b.Bytes()[:100000]
	}
	return c14BigMsg
}

// ---------------------------------------------------------------- server side

// responseDeflate parses the Sec-WebSocket-Extensions of a response.
// problem != "" when it is not a single well-formed permessage-deflate element.
func responseDeflate(values []string) (agreed *hsclient.Deflate, problem string) {
	exts := hsclient.ParseExtensions(values)
	if len(exts) == 0 {
		return nil, ""
	}
	if len(exts) > 1 {
		return nil, "several-extensions"
	}
	if exts[0].Name != hsclient.PMD {
		return nil, "foreign-extension"
	}
	d, first, _ := hsclient.Analyze(exts[0], true)
	return &d, first
}

func offerKind(st hsclient.OfferStatus) string {
	switch {
	case !st.IsPMD:
		return "other-extension"
	case st.Defect != "":
		return "malformed:" + st.Defect
	case st.Unhonoured != "":
		return "unhonourable:" + st.Unhonoured
	}
	return fmt.Sprintf("ok{c=%v,s=%v,cb=%d,sb=%d}", st.Deflate.ClientNoCtx, st.Deflate.ServerNoCtx, st.Deflate.ClientBits, st.Deflate.ServerBits)
}

// attributeBadAcceptance finds which inadmissible offer of the list the server
// accepts, with the observed response, when it is the only offer; the class
// then names the root cause precisely. "" when no such offer exists.
func attributeBadAcceptance(cs c14SrvCase, sts []hsclient.OfferStatus, respVals []string) string {
	for i, st := range sts {
		if !st.IsPMD || st.Honourable {
			continue
		}
		o := c14Accept([]string{cs.Offers[i]}, cs.Mode, false)
		if o.conn != nil {
			o.conn.CloseNow()
		}
		if o.rw.sent != nil && len(respVals) > 0 && strings.Join(o.rw.sent["Sec-Websocket-Extensions"], ",") == strings.Join(respVals, ",") {
			if st.Defect != "" {
				return "C14/accepted-malformed-offer/" + st.Defect
			}
			return "C14/accepted-unhonourable-offer/" + st.Unhonoured
		}
	}
	return ""
}

func c14SrvOne(c *fw.Ctx, cs c14SrvCase) {
	c14Cold = cs.ColdPools
	defer func() { c14Cold = false }()
	// (the worker collects garbage only between cases and where a case says so: cmd/seqw)
	runtime.GC() // every case starts from empty pools, whatever ran before it in the process
	runtime.GC()
	c.Eval()
	c.AddTraces(1)
	o := c14Accept(cs.Offers, cs.Mode, cs.Split)
	if o.conn != nil {
		defer o.conn.CloseNow()
	}
	if o.pan != "" {
		c.Violate("C14/panic/accept", fmt.Sprintf("%+v: panic %s", cs, o.pan), cs)
		return
	}
	sts := hsclient.ClassifyOffers(hsclient.ParseExtensions(o.req["Sec-Websocket-Extensions"]), libServerCaps)
	c.AddTransitions(1)
	var kinds []string
	firstHon := -1
	for i, st := range sts {
		kinds = append(kinds, offerKind(st))
		if st.Honourable && firstHon < 0 {
			firstHon = i
		}
	}
	desc := fmt.Sprintf("offers %q (%v), server mode %s, split=%v", cs.Offers, kinds, cs.Mode, cs.Split)
	if len(sts) != len(cs.Offers) {
		c.EngineError("reference parser split the offer list differently: " + desc)
		return
	}
	if o.err != nil || o.conn == nil {
		c.Violate("C14/handshake-failed-instead-of-declining-compression",
			fmt.Sprintf("%s: Accept failed (err = %v, status %d); the property asks to fall back to a later offer or to no compression", desc, o.err, o.rw.code), cs)
		return
	}
	if o.rw.code != 101 || o.rw.sent == nil {
		c.EngineError(fmt.Sprintf("%s: Accept succeeded with status %d", desc, o.rw.code))
		return
	}
	respVals := o.rw.sent["Sec-Websocket-Extensions"]
	agreed, problem := responseDeflate(respVals)
	isAgreed := len(hsclient.ParseExtensions(respVals)) > 0
	_, comp, _ := websocket.VerifConnInfo(o.conn)
	outcome := fmt.Sprintf("srv|%s|%v|%q", cs.Mode, kinds, respVals)
	violated := false
	viol := func(class, format string, a ...interface{}) {
		violated = true
		c.Violate(class, desc+": response Sec-WebSocket-Extensions "+fmt.Sprintf("%q", respVals)+": "+fmt.Sprintf(format, a...), cs)
	}

	switch {
	case cs.Mode == "disabled":
		// (1) compression only when both sides enabled it
		if isAgreed {
			viol("C14/compression-agreed-while-disabled/server", "the server has compression disabled but answered with an extension")
		}
	case isAgreed:
		// (2)/(4) the response must be receivable as the acceptance of an honourable offer
		if agreed == nil || problem != "" {
			viol("C14/response-not-receivable/"+problem, "not a single well-formed permessage-deflate element")
			break
		}
		if firstHon < 0 {
			class := attributeBadAcceptance(cs, sts, respVals)
			if class == "" {
				class = "C14/compression-agreed-without-offer"
				for _, st := range sts {
					if st.IsPMD {
						class = "C14/accepted-inadmissible-offer/unattributed"
					}
				}
			}
			viol(class, "compression agreed although no offer in the list is well-formed and honourable by this server")
			break
		}
		fits := false
		why := ""
		for _, st := range sts {
			if !st.Honourable {
				continue
			}
			ok, w := hsclient.ResponseFitsOffer(*agreed, st.Deflate)
			if ok {
				fits = true
				break
			}
			if why == "" {
				why = w
			}
		}
		if !fits {
			// root cause first: an inadmissible offer of the list that the server accepts with exactly this response
			if class := attributeBadAcceptance(cs, sts, respVals); class != "" {
				viol(class, "no honourable offer of the list can be answered this way (%s); the response is the one the server gives to an inadmissible offer of the list", why)
			} else {
				viol("C14/response-not-receivable/"+why, "no honourable offer of the list can be answered this way (RFC 7692 7.1: %s)", why)
			}
		}
	default:
		// (3) fall back to a later acceptable offer
		if firstHon >= 0 {
			pos := "first-offer"
			if firstHon > 0 {
				pos = "later-offer"
			}
			viol("C14/acceptable-offer-declined/"+pos, "offer %d (%q) is well-formed and honourable, yet no compression was agreed", firstHon+1, cs.Offers[firstHon])
		}
	}

	// (5) the server endpoint holds exactly the parameters of the response
	switch {
	case !isAgreed && comp != nil:
		viol("C14/endpoint-parameters-differ-from-response/server/compression-without-agreement", "the connection compresses (%+v) although the response carries no extension", *comp)
	case isAgreed && comp == nil:
		viol("C14/endpoint-parameters-differ-from-response/server/compression-dropped", "the connection does not compress")
	case isAgreed && agreed != nil:
		if comp.ClientNoContextTakeover != agreed.ClientNoCtx {
			viol("C14/endpoint-parameters-differ-from-response/server/client_no_context_takeover", "connection has client_no_context_takeover=%v", comp.ClientNoContextTakeover)
		}
		if comp.ServerNoContextTakeover != agreed.ServerNoCtx {
			viol("C14/endpoint-parameters-differ-from-response/server/server_no_context_takeover", "connection has server_no_context_takeover=%v", comp.ServerNoContextTakeover)
		}
	}

	// cross-check the negotiation hook against what Accept really did (machinery check)
	if !violated {
		hc, hs, hok := websocket.VerifSelectDeflate(o.req, hsMode(cs.Mode))
		same := hok == isAgreed
		if same && hok {
			same = len(respVals) == 1 && respVals[0] == hs && comp != nil && *hc == *comp
		}
		if !same {
			c.EngineError(fmt.Sprintf("%s: VerifSelectDeflate (%v, %q, %+v) disagrees with Accept (%q, %+v)", desc, hok, hs, hc, respVals, comp))
			return
		}
	}

	// behaviour: exchange with the reference peer, which applies the response header
	if problem != "" {
		c.OutcomeStr(outcome + "|noexchange")
		return
	}
	if !isAgreed {
		agreed = nil
	}
	ctx, cancel := context.WithTimeout(context.Background(), 5*time.Second)
	defer cancel()
	for _, f := range exchange(c, ctx, o.conn, o.rw.conn, "server", agreed, "") {
		c.Violate(f.class, desc+": response Sec-WebSocket-Extensions "+fmt.Sprintf("%q", respVals)+": "+f.detail, cs)
	}
	c.OutcomeStr(outcome)
}

func c14SrvRun(c *fw.Ctx, shard, nshards int) {
	if msg := pmdSelfCheck(); msg != "" {
		c.EngineError(msg)
		return
	}
	maxLen := 2
	if c.Thorough() {
		maxLen = 3
	}
	cases := c14SrvCases(maxLen)
	if shard == 0 {
		// model states: grammar productions + distinct classification vectors of the lists
		vec := map[string]struct{}{}
		for _, cs := range cases {
			var ks []string
			for _, st := range hsclient.ClassifyOffers(hsclient.ParseExtensions([]string{strings.Join(cs.Offers, ", ")}), libServerCaps) {
				ks = append(ks, offerKind(st))
			}
			vec[cs.Mode+"|"+strings.Join(ks, ",")] = struct{}{}
		}
		c.AddStates(int64(len(c14Shapes) + len(vec)))
	}
	for i := shard; i < len(cases); i += nshards {
		if c.OutOfTime() {
			c.NotExhaustive("budget exhausted before every offer list was tried")
			break
		}
		c14SrvOne(c, cases[i])
		if len(cases[i].Offers) <= 1 {
			cold := cases[i]
			cold.ColdPools = true
			c14SrvOne(c, cold)
		}
		if c.WantSample() && i%389 == shard {
			c.Sample(cases[i])
		}
	}
	c.Bound("offer_shapes", c14Shapes)
	c.Bound("max_offers_per_list", maxLen)
	c.Bound("server_cases", len(cases))
	c.Bound("server_modes", hsModes)
	c.Bound("messages_per_direction", len(c14Msgs))
	c.Bound("message_bytes", len(c14Msgs[0]))
}

// ---------------------------------------------------------------- client side

type c14CliCase struct {
	RespExt   string `json:"resp_extensions"`
	Mode      string `json:"client_mode"`
	ColdPools bool   `json:"cold_pools,omitempty"`
}

func c14CliOne(c *fw.Ctx, cs c14CliCase) {
	c14Cold = cs.ColdPools
	defer func() { c14Cold = false }()
	// (the worker collects garbage only between cases and where a case says so: cmd/seqw)
	runtime.GC() // every case starts from empty pools, whatever ran before it in the process
	runtime.GC()
	c.Eval()
	c.AddTraces(1)
	c.AddTransitions(1)
	ctx, cancel := context.WithTimeout(context.Background(), 5*time.Second)
	defer cancel()
	o := hsDial(ctx, "ws://example.com/", websocket.DialOptions{CompressionMode: hsMode(cs.Mode)}, validScript(cs.RespExt), nil)
	if o.conn != nil {
		defer o.conn.CloseNow()
	}
	if o.pan != "" {
		c.Violate("C14/panic/dial", fmt.Sprintf("%+v: panic %s", cs, o.pan), cs)
		return
	}
	if hangGuard(c, ctx, o.err) {
		return
	}
	if o.rt.calls != 1 {
		c.EngineError(fmt.Sprintf("%+v: fake server saw %d requests", cs, o.rt.calls))
		return
	}
	var vals []string
	if cs.RespExt != "" {
		vals = []string{cs.RespExt}
	}
	verdict, reason, agreed := hsclient.JudgeExtensions(modeOffer(cs.Mode), vals)
	desc := fmt.Sprintf("client mode %s, response Sec-WebSocket-Extensions %q", cs.Mode, cs.RespExt)
	accepted := o.conn != nil
	c.OutcomeStr(fmt.Sprintf("cli|%s|%s|%s|%v", cs.Mode, verdict, reason, accepted))
	if !accepted {
		return // rejecting is never forbidden by this property (C13 judges valid responses)
	}
	if verdict == hsclient.Invalid {
		c.Violate("C14/client-accepted-unhonourable-response/"+reason,
			desc+": the client did not offer this / cannot honour it ("+reason+"), yet Dial returned a connection", cs)
		return
	}
	_, comp, _ := websocket.VerifConnInfo(o.conn)
	if agreed == nil {
		if comp != nil {
			c.Violate("C14/endpoint-parameters-differ-from-response/client/compression-without-agreement",
				fmt.Sprintf("%s: the connection compresses (%+v) although the response carries no extension", desc, *comp), cs)
		}
	} else {
		mcl, msv := modeFlags(cs.Mode)
		wc, ws := mcl || agreed.ClientNoCtx, msv || agreed.ServerNoCtx
		switch {
		case comp == nil:
			c.Violate("C14/endpoint-parameters-differ-from-response/client/compression-dropped", desc+": the connection does not compress", cs)
		default:
			_, _ = wc, ws
			// only harmful disagreements are demanded (see C13)
			if agreed.ClientNoCtx && !comp.ClientNoContextTakeover {
				c.Violate("C14/endpoint-parameters-differ-from-response/client/client_no_context_takeover",
					fmt.Sprintf("%s: connection has client_no_context_takeover=%v, want %v", desc, comp.ClientNoContextTakeover, wc), cs)
			}
			if comp.ServerNoContextTakeover && !agreed.ServerNoCtx {
				c.Violate("C14/endpoint-parameters-differ-from-response/client/server_no_context_takeover",
					fmt.Sprintf("%s: connection has server_no_context_takeover=%v, want %v", desc, comp.ServerNoContextTakeover, ws), cs)
			}
		}
	}
	locus := ""
	if agreed != nil && !agreed.ServerNoCtx && cs.Mode == "no-context-takeover" {
		// the client asked for server_no_context_takeover and the response does not grant it
		locus = "response-omits-offered-server_no_context_takeover"
	}
	for _, f := range exchange(c, ctx, o.conn, o.rt.body, "client", agreed, locus) {
		c.Violate(f.class, desc+": "+f.detail, cs)
	}
}

func c14CliRun(c *fw.Ctx) {
	if msg := pmdSelfCheck(); msg != "" {
		c.EngineError(msg)
		return
	}
	n := 0
	for _, ext := range respExtVariants {
		for _, m := range hsModes {
			cs := c14CliCase{RespExt: ext, Mode: m}
			c14CliOne(c, cs)
			cs.ColdPools = true
			c14CliOne(c, cs)
			cs.ColdPools = false
			if n%7 == 3 {
				c.Sample(cs)
			}
			n++
		}
	}
	c.AddStates(int64(len(respExtVariants)))
	c.Bound("client_cases", n)
	c.Bound("response_extension_variants", respExtVariants)
	c.Bound("client_modes", hsModes)
}

func init() {
	fw.Register(fw.Part{
		Prop: "C14", Name: "server",
		Units: func(tier string) []fw.Unit { return fw.Shards("offers", 16, c14SrvRun) },
		Replay: func(c *fw.Ctx, data json.RawMessage) {
			var cs c14SrvCase
			if json.Unmarshal(data, &cs) != nil {
				c.EngineError("bad replay data")
				return
			}
			c14SrvOne(c, cs)
		},
	})
	fw.Register(fw.Part{
		Prop: "C14", Name: "client",
		Units: func(tier string) []fw.Unit {
			return []fw.Unit{{ID: "responses", Run: c14CliRun}}
		},
		Replay: func(c *fw.Ctx, data json.RawMessage) {
			var cs c14CliCase
			if json.Unmarshal(data, &cs) != nil {
				c.EngineError("bad replay data")
				return
			}
			c14CliOne(c, cs)
		},
	})
}
