package seq

import (
	"context"
	"encoding/json"
	"fmt"
	"runtime"
	"strings"
	"time"

	"nhooyr.io/websocket"
	"verif/fw"
	"verif/refws/hsclient"
)

// C14, part isolation: the parameters agreed on one connection are not
// changed by a later handshake of another connection. Connection A is
// accepted with offer o1, then connection B with offer o2 (same server mode);
// only then the compressed exchange runs on A (with the parameters of A's own
// response), then on B.

type c14IsoCase struct {
	Mode   string `json:"mode"`
	First  string `json:"first_offer"`
	Second string `json:"second_offer"`
}

var c14IsoOffers = []string{
	"permessage-deflate",
	"permessage-deflate; client_no_context_takeover",
	"permessage-deflate; server_no_context_takeover",
	"permessage-deflate; client_no_context_takeover; server_no_context_takeover",
	"permessage-deflate; client_max_window_bits",
	"permessage-deflate; server_max_window_bits=10", // declined
	"permessage-deflate; foo",                       // declined
	"x-webkit-deflate-frame",                        // not ours
}

func c14IsoOne(c *fw.Ctx, cs c14IsoCase) { c14IsoOneP(c, cs, "C14") }

// c14IsoOneP reports under prop (C07 reads the same history as "compression state
// shared with another live connection").
func c14IsoOneP(c *fw.Ctx, cs c14IsoCase, prop string) {
	pc := func(class string) string { return prop + strings.TrimPrefix(class, "C14") }
	runtime.GC() // every case starts from empty pools, whatever ran before it in the process
	runtime.GC() // see c14SrvOne
	c.Eval()
	c.AddTraces(1)
	desc := fmt.Sprintf("server mode %s: connection A accepted with offer %q, then connection B with offer %q", cs.Mode, cs.First, cs.Second)
	a := c14Accept([]string{cs.First}, cs.Mode, false)
	if a.pan != "" {
		c.Violate(pc("C14/panic"), desc+": "+a.pan, cs)
		return
	}
	if a.conn == nil {
		c.EngineError("isolation: valid request refused: " + fmt.Sprint(a.err))
		return
	}
	defer a.conn.CloseNow()
	respA := a.rw.hdr.Values("Sec-WebSocket-Extensions")
	agreedA, _ := responseDeflate(respA)
	_, compA0, _ := websocket.VerifConnInfo(a.conn)
	var before string
	if compA0 != nil {
		before = fmt.Sprintf("%+v", *compA0)
	}
	b := c14Accept([]string{cs.Second}, cs.Mode, false)
	if b.pan != "" {
		c.Violate(pc("C14/panic"), desc+": "+b.pan, cs)
		return
	}
	if b.conn != nil {
		defer b.conn.CloseNow()
	}
	_, compA1, _ := websocket.VerifConnInfo(a.conn)
	var after string
	if compA1 != nil {
		after = fmt.Sprintf("%+v", *compA1)
	}
	if before != after {
		c.Violate(pc("C14/parameters-changed-by-another-handshake/server"), fmt.Sprintf("%s: A's parameters were %s after its own handshake and are %s after B's handshake (A's response: %q)", desc, before, after, respA), cs)
		return
	}
	ctx, cancel := context.WithTimeout(context.Background(), 5*time.Second)
	defer cancel()
	for _, f := range exchange(c, ctx, a.conn, a.rw.conn, "server", agreedA, "") {
		c.Violate(pc(f.class+"/after-another-handshake"), desc+": exchange on A with the parameters of A's response "+fmt.Sprintf("%q", respA)+": "+f.detail, cs)
		return
	}
	if b.conn != nil {
		respB := b.rw.hdr.Values("Sec-WebSocket-Extensions")
		agreedB, _ := responseDeflate(respB)
		for _, f := range exchange(c, ctx, b.conn, b.rw.conn, "server", agreedB, "") {
			c.Violate(pc(f.class+"/second-connection"), desc+": exchange on B: "+f.detail, cs)
			return
		}
	}
	c.OutcomeStr(fmt.Sprintf("iso|%s|%s|%s|%v", cs.Mode, cs.First, cs.Second, agreedA != nil))
}

func c14IsoCases() []c14IsoCase {
	var cs []c14IsoCase
	for _, m := range hsModes {
		for _, a := range c14IsoOffers {
			for _, b := range c14IsoOffers {
				cs = append(cs, c14IsoCase{m, a, b})
			}
		}
	}
	return cs
}

func init() {
	for _, prop := range []string{"C14", "C07"} {
		c14IsoRegister(prop)
	}
}

func c14IsoRegister(prop string) {
	fw.Register(fw.Part{
		Prop: prop, Name: "isolation",
		Units: func(tier string) []fw.Unit {
			return fw.Shards("pairs", 4, func(c *fw.Ctx, shard, n int) {
				if msg := pmdSelfCheck(); msg != "" {
					c.EngineError(msg)
					return
				}
				cases := c14IsoCases()
				for i, cs := range cases {
					if i%n == shard {
						c14IsoOneP(c, cs, prop)
					}
				}
				c.AddStates(int64(len(c14IsoOffers) * len(hsModes)))
				c.AddTransitions(int64(len(cases) / n * 2))
				c.Bound("isolation_pairs", len(cases))
				if shard == 0 {
					c.Sample(cases[9])
				}
			})
		},
		Replay: func(c *fw.Ctx, data json.RawMessage) {
			var cs c14IsoCase
			if json.Unmarshal(data, &cs) != nil {
				c.EngineError("bad replay data")
				return
			}
			c14IsoOneP(c, cs, prop)
		},
	})
}

// ---------------------------------------------------------------- client side

// The same question for Dial: connection A is dialled (server answers with
// extension response r1), then connection B with the same DialOptions value
// (server answers r2); A's parameters and A's compressed exchange are those of
// A's own response.

type c14IsoCliCase struct {
	Mode   string `json:"mode"`
	First  string `json:"first_response"`
	Second string `json:"second_response"`
}

var c14IsoResponses = []string{
	"",
	"permessage-deflate",
	"permessage-deflate; client_no_context_takeover",
	"permessage-deflate; server_no_context_takeover",
	"permessage-deflate; client_no_context_takeover; server_no_context_takeover",
}

func c14IsoCliOneP(c *fw.Ctx, cs c14IsoCliCase, prop string) {
	pc := func(class string) string { return prop + strings.TrimPrefix(class, "C14") }
	runtime.GC() // every case starts from empty pools, whatever ran before it in the process
	runtime.GC() // see c14SrvOne
	c.Eval()
	c.AddTraces(1)
	desc := fmt.Sprintf("client mode %s: connection A dialled (response %q), then connection B with the same options (response %q)", cs.Mode, cs.First, cs.Second)
	ctx, cancel := context.WithTimeout(context.Background(), 5*time.Second)
	defer cancel()
	opts := websocket.DialOptions{CompressionMode: hsMode(cs.Mode)}
	a := hsDial(ctx, "ws://example.com/", opts, validScript(cs.First), nil)
	if a.pan != "" {
		c.Violate(pc("C14/panic/dial"), desc+": "+a.pan, cs)
		return
	}
	if a.conn == nil {
		// the response is not one this mode can accept (e.g. an extension nobody offered)
		c.OutcomeStr(fmt.Sprintf("isocli|%s|%s|refused", cs.Mode, cs.First))
		return
	}
	defer a.conn.CloseNow()
	var valsA []string
	if cs.First != "" {
		valsA = []string{cs.First}
	}
	_, _, agreedA := hsclient.JudgeExtensions(modeOffer(cs.Mode), valsA)
	snap := func() string {
		_, comp, _ := websocket.VerifConnInfo(a.conn)
		if comp == nil {
			return "<none>"
		}
		return fmt.Sprintf("%+v", *comp)
	}
	before := snap()
	b := hsDial(ctx, "ws://example.com/", opts, validScript(cs.Second), nil)
	if b.pan != "" {
		c.Violate(pc("C14/panic/dial"), desc+": "+b.pan, cs)
		return
	}
	if b.conn != nil {
		defer b.conn.CloseNow()
	}
	if after := snap(); before != after {
		c.Violate(pc("C14/parameters-changed-by-another-handshake/client"), fmt.Sprintf("%s: A's parameters were %s after its own handshake and are %s after B's", desc, before, after), cs)
		return
	}
	for _, f := range exchange(c, ctx, a.conn, a.rt.body, "client", agreedA, "") {
		c.Violate(pc(f.class+"/after-another-handshake"), desc+": exchange on A: "+f.detail, cs)
		return
	}
	if b.conn != nil {
		var valsB []string
		if cs.Second != "" {
			valsB = []string{cs.Second}
		}
		_, _, agreedB := hsclient.JudgeExtensions(modeOffer(cs.Mode), valsB)
		for _, f := range exchange(c, ctx, b.conn, b.rt.body, "client", agreedB, "") {
			c.Violate(pc(f.class+"/second-connection"), desc+": exchange on B: "+f.detail, cs)
			return
		}
	}
	c.OutcomeStr(fmt.Sprintf("isocli|%s|%s|%s|%v", cs.Mode, cs.First, cs.Second, agreedA != nil))
}

func c14IsoCliCases() []c14IsoCliCase {
	var cs []c14IsoCliCase
	for _, m := range hsModes {
		for _, a := range c14IsoResponses {
			for _, b := range c14IsoResponses {
				cs = append(cs, c14IsoCliCase{m, a, b})
			}
		}
	}
	return cs
}

func c14IsoCliRegister(prop string) {
	fw.Register(fw.Part{
		Prop: prop, Name: "isolation-client",
		Units: func(tier string) []fw.Unit {
			return []fw.Unit{{ID: "response-pairs", Run: func(c *fw.Ctx) {
				if msg := pmdSelfCheck(); msg != "" {
					c.EngineError(msg)
					return
				}
				cases := c14IsoCliCases()
				for _, cs := range cases {
					c14IsoCliOneP(c, cs, prop)
				}
				c.AddStates(int64(len(c14IsoResponses) * len(hsModes)))
				c.AddTransitions(int64(len(cases) * 2))
				c.Bound("isolation_response_pairs", len(cases))
				c.Sample(cases[7])
			}}}
		},
		Replay: func(c *fw.Ctx, data json.RawMessage) {
			var cs c14IsoCliCase
			if json.Unmarshal(data, &cs) != nil {
				c.EngineError("bad replay data")
				return
			}
			c14IsoCliOneP(c, cs, prop)
		},
	})
}

func init() {
	for _, prop := range []string{"C14", "C07"} {
		c14IsoCliRegister(prop)
	}
}
