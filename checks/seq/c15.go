package seq

import (
	"bytes"
	"encoding/json"
	"fmt"
	"sort"

	"nhooyr.io/websocket"
	"verif/fw"
	"verif/refws/deflate"
	"verif/refws/frame"
)

// C15 (sequential part, inbound direction): every Ping frame received while the
// connection is read is answered by a Pong with the identical payload, in the
// order received; unsolicited Pongs are ignored; data is unaffected.
//
// The peer's stream is  [s0] A [s1] B1 [s2] B2 [s3] B3 [s4] C [s5] EOF  where A
// and C are single-frame messages, B is one message in three fragments and
// every slot s0..s5 may hold control frames. The harness reads messages until
// the transport ends.

type c15Ctl struct {
	Slot int  `json:"slot"`
	Pong bool `json:"pong"` // unsolicited Pong instead of a Ping
	Len  int  `json:"len"`
	Salt int  `json:"salt"`
}

type c15Case struct {
	Client bool     `json:"client"`
	Comp   bool     `json:"comp"`
	Ctls   []c15Ctl `json:"ctls"` // in stream order (sorted by slot, stable)
}

const c15Slots = 6

func c15SlotClass(s int) string {
	switch s {
	case 0:
		return "before-first-message"
	case 1, 4:
		return "between-messages"
	case 2, 3:
		return "inside-fragmented-message"
	}
	return "after-last-message"
}

func c15Payload(n, salt int) []byte {
	b := make([]byte, n)
	for i := range b {
		b[i] = byte(n*31 + i*7 + salt*101 + 1)
	}
	return b
}

var (
	c15A = []byte("alpha: a single-frame text message")
	c15C = []byte{0xde, 0xad, 0xbe, 0xef, 0, 1, 2, 3}
)

func c15B() []byte { return bytes.Repeat([]byte("fragmented body 0123456789 "), 12) }

type c15Expect struct {
	typ     websocket.MessageType
	payload []byte
}

func c15Build(cs c15Case) (in []byte, msgs []c15Expect, pings [][]byte, pingSlots []int) {
	masked := !cs.Client
	def := &deflate.Deflater{}
	wireA, wireB := c15A, c15B()
	if cs.Comp {
		wireA = def.Message(c15A)
		wireB = def.Message(c15B())
	}
	a := mxSplit(frame.OpText, masked, cs.Comp, wireA, nil)
	third := len(wireB) / 3
	b := mxSplit(frame.OpBinary, masked, cs.Comp, wireB, []int{third, 2 * third})
	cc := mxSplit(frame.OpBinary, masked, false, c15C, nil) // never compressed (allowed on a compressed connection)
	data := []frame.Frame{a[0], b[0], b[1], b[2], cc[0]}
	var fs []frame.Frame
	for slot := 0; slot < c15Slots; slot++ {
		for _, ct := range cs.Ctls {
			if ct.Slot != slot {
				continue
			}
			p := c15Payload(ct.Len, ct.Salt)
			op := byte(frame.OpPing)
			if ct.Pong {
				op = frame.OpPong
			} else {
				pings = append(pings, p)
				pingSlots = append(pingSlots, slot)
			}
			f := frame.Ctl(op, masked, p)
			f.Key = [4]byte{byte(0x11 + ct.Len), 0x22, byte(0x33 + slot), 0x44}
			fs = append(fs, f)
		}
		if slot < len(data) {
			fs = append(fs, data[slot])
		}
	}
	msgs = []c15Expect{{websocket.MessageText, c15A}, {websocket.MessageBinary, c15B()}, {websocket.MessageBinary, c15C}}
	return mxEncode(fs...), msgs, pings, pingSlots
}

func c15One(c *fw.Ctx, cs c15Case) {
	c.Eval()
	c.AddTraces(1)
	desc := fmt.Sprintf("%+v", cs)
	in, msgs, pings, pingSlots := c15Build(cs)
	ctx, cancel := mxGuard(mxGuardTime)
	defer cancel()
	comp := ""
	if cs.Comp {
		comp = "takeover"
	}
	t := mxNewTransport(in)
	conn := mxConn(t, cs.Client, comp)
	defer conn.CloseNow()
	role := mxRole(cs.Client)
	hasPong := false
	for _, ct := range cs.Ctls {
		hasPong = hasPong || ct.Pong
	}
	// a deviation in a stream that contains unsolicited Pongs is attributed to them
	// only if the class would otherwise be the generic one
	affected := "C15/data-affected-by-control-frame"
	if hasPong && len(pings) == 0 {
		affected = "C15/unsolicited-pong-not-ignored"
	}

	delivered := 0
	var lastErr error
	for {
		var typ websocket.MessageType
		var got []byte
		var err error
		if p := fw.Recover(func() { typ, got, err = conn.Read(ctx) }); p != "" {
			c.Violate("C15/panic", desc+": Read panicked: "+p, cs)
			return
		}
		if err != nil {
			if mxHung(err) {
				c.EngineError(desc + ": hang guard fired: " + err.Error())
				return
			}
			lastErr = err
			break
		}
		c.AddTransitions(1)
		if delivered >= len(msgs) {
			c.Violate(affected, fmt.Sprintf("%s: a fourth message (%v, %d bytes) was delivered; the peer sent three", desc, typ, len(got)), cs)
			return
		}
		if typ != msgs[delivered].typ || !bytes.Equal(got, msgs[delivered].payload) {
			c.Violate(affected, fmt.Sprintf("%s: message %d was read as (%v, %d bytes), want (%v, %d bytes) byte-identical", desc, delivered, typ, len(got), msgs[delivered].typ, len(msgs[delivered].payload)), cs)
			return
		}
		delivered++
	}
	if delivered != len(msgs) {
		c.Violate(affected, fmt.Sprintf("%s: reading stopped with %v after %d of %d messages although the stream is valid up to its end", desc, lastErr, delivered, len(msgs)), cs)
		return
	}

	// the transport ended after the last slot, so every Ping was met by a read
	out := t.Log()
	fs, rest := frame.ParseAll(out)
	var pongs [][]byte
	for _, f := range fs {
		if f.Opcode == frame.OpPong {
			pongs = append(pongs, f.Payload)
			continue
		}
		cl := "C15/unexpected-output-frame"
		if hasPong {
			cl = "C15/unsolicited-pong-not-ignored"
		}
		c.Violate(cl, fmt.Sprintf("%s: the endpoint wrote a frame that is not a Pong: %v", desc, f), cs)
		return
	}
	if len(rest) != 0 {
		c.Violate("C15/unexpected-output-frame", fmt.Sprintf("%s: output ends with %d bytes that are not a complete frame", desc, len(rest)), cs)
		return
	}
	c.AddTransitions(int64(len(cs.Ctls)))
	if len(pongs) != len(pings) {
		pos := "none"
		// first Ping whose Pong is missing, or the position of the surplus
		for i := range pings {
			if i >= len(pongs) || !bytes.Equal(pongs[i], pings[i]) {
				pos = c15SlotClass(pingSlots[i])
				break
			}
		}
		if pos == "none" {
			if len(pings) > 0 {
				pos = c15SlotClass(pingSlots[len(pings)-1])
			} else if hasPong {
				c.Violate("C15/unsolicited-pong-not-ignored", fmt.Sprintf("%s: no Ping was sent but %d Pong frame(s) were written", desc, len(pongs)), cs)
				return
			}
		}
		c.Violate("C15/pong-missing-or-extra/"+pos, fmt.Sprintf("%s: %d Ping frame(s) were received while reading but %d Pong frame(s) were written", desc, len(pings), len(pongs)), cs)
		return
	}
	same := true
	for i := range pings {
		same = same && bytes.Equal(pings[i], pongs[i])
	}
	if !same {
		if c15SameMultiset(pings, pongs) {
			c.Violate("C15/pong-order", fmt.Sprintf("%s: the Pongs carry the Pings' payloads but not in the order received (lengths sent %v, answered %v)", desc, c15Lens(pings), c15Lens(pongs)), cs)
			return
		}
		for i := range pings {
			if !bytes.Equal(pings[i], pongs[i]) {
				c.Violate("C15/pong-payload-differs/"+role, fmt.Sprintf("%s: Ping %d (slot %s) carried %d bytes %x; the Pong at that position carries %d bytes %x", desc, i, c15SlotClass(pingSlots[i]), len(pings[i]), pings[i], len(pongs[i]), pongs[i]), cs)
				return
			}
		}
	}
	var sig []string
	for _, ct := range cs.Ctls {
		sig = append(sig, fmt.Sprintf("%d:%v:%d", ct.Slot, ct.Pong, ct.Len))
	}
	c.OutcomeStr(fmt.Sprintf("%s comp=%v %v", role, cs.Comp, sig))
}

func c15Lens(ps [][]byte) []int {
	var l []int
	for _, p := range ps {
		l = append(l, len(p))
	}
	return l
}

func c15SameMultiset(a, b [][]byte) bool {
	if len(a) != len(b) {
		return false
	}
	as, bs := make([]string, len(a)), make([]string, len(b))
	for i := range a {
		as[i], bs[i] = string(a[i]), string(b[i])
	}
	sort.Strings(as)
	sort.Strings(bs)
	for i := range as {
		if as[i] != bs[i] {
			return false
		}
	}
	return true
}

// ------------------------------------------------------------ enumeration ---

// c15Layouts: control-frame layouts without roles/compression. Every payload
// length 0..125 occurs at every slot (single Ping), with an unsolicited Pong
// before or after it; pairs and triples of Pings cover every multiset of slots.
func c15Layouts(thorough bool) [][]c15Ctl {
	var out [][]c15Ctl
	add := func(ctls ...c15Ctl) {
		sort.SliceStable(ctls, func(i, j int) bool { return ctls[i].Slot < ctls[j].Slot })
		out = append(out, ctls)
	}
	// only unsolicited Pongs
	for slot := 0; slot < c15Slots; slot++ {
		for _, n := range []int{0, 1, 125} {
			add(c15Ctl{Slot: slot, Pong: true, Len: n, Salt: 9})
		}
	}
	for n := 0; n <= 125; n++ {
		for slot := 0; slot < c15Slots; slot++ {
			add(c15Ctl{Slot: slot, Len: n, Salt: 1})
			// unsolicited Pong (same payload / other payload / the library's own ping payload style) around it
			add(c15Ctl{Slot: slot, Pong: true, Len: n, Salt: 1}, c15Ctl{Slot: slot, Len: n, Salt: 1})
			add(c15Ctl{Slot: slot, Len: n, Salt: 1}, c15Ctl{Slot: slot, Pong: true, Len: (n + 1) % 126, Salt: 2})
			add(c15Ctl{Slot: slot, Len: n, Salt: 1}, c15Ctl{Slot: (slot + 1) % c15Slots, Pong: true, Len: n, Salt: 1})
		}
	}
	// two Pings: every multiset of slots
	stride2 := 1
	for n := 0; n <= 125; n += stride2 {
		for s1 := 0; s1 < c15Slots; s1++ {
			for s2 := s1; s2 < c15Slots; s2++ {
				add(c15Ctl{Slot: s1, Len: n, Salt: 1}, c15Ctl{Slot: s2, Len: (n*7 + 3) % 126, Salt: 2})
			}
		}
	}
	// three Pings (and one with a Pong mixed in)
	stride3 := 5
	if thorough {
		stride3 = 1
	}
	for n := 0; n <= 125; n += stride3 {
		for s1 := 0; s1 < c15Slots; s1++ {
			for s2 := s1; s2 < c15Slots; s2++ {
				for s3 := s2; s3 < c15Slots; s3++ {
					add(c15Ctl{Slot: s1, Len: n, Salt: 1}, c15Ctl{Slot: s2, Len: 125 - n, Salt: 2}, c15Ctl{Slot: s3, Len: (n + 1) % 126, Salt: 3})
					add(c15Ctl{Slot: s1, Len: n, Salt: 1}, c15Ctl{Slot: s2, Pong: true, Len: n, Salt: 1}, c15Ctl{Slot: s2, Len: 125 - n, Salt: 2}, c15Ctl{Slot: s3, Len: n, Salt: 1})
				}
			}
		}
	}
	return out
}

func c15Run(c *fw.Ctx, shard, nshards int) {
	layouts := c15Layouts(c.Thorough())
	total := len(layouts) * 4
	states := map[string]struct{}{}
	for i := 0; i < total; i++ {
		cs := c15Case{Client: i%2 == 1, Comp: i/2%2 == 1, Ctls: layouts[i/4]}
		if shard == 0 {
			// model states: receiver state x kind of control frame met there
			for _, ct := range cs.Ctls {
				states[fmt.Sprintf("%s/pong=%v/comp=%v", c15SlotClass(ct.Slot), ct.Pong, cs.Comp)] = struct{}{}
			}
		}
		if i%nshards != shard {
			continue
		}
		if (i/nshards)&255 == 0 && c.OutOfTime() {
			c.NotExhaustive(fmt.Sprintf("time budget reached at case %d of %d", i, total))
			break
		}
		c15One(c, cs)
		if c.WantSample() && (i/nshards)%1999 == 3 {
			c.Sample(cs)
		}
	}
	c.AddStates(int64(len(states)))
	c.Bound("cases", total)
	c.Bound("ping_payload_lengths", "0..125 at each of 6 slots")
	c.Bound("slots", "before A | A..B | B1..B2 | B2..B3 | B..C | after C")
	c.Bound("pings_per_stream", "1..3 (all slot multisets)")
	c.Bound("roles_x_compression", 4)
}

func init() {
	fw.Register(fw.Part{
		Prop: "C15", Name: "inbound",
		Units: func(tier string) []fw.Unit { return fw.Shards("layouts", 16, c15Run) },
		Replay: func(c *fw.Ctx, data json.RawMessage) {
			var cs c15Case
			if json.Unmarshal(data, &cs) != nil {
				c.EngineError("bad replay data")
				return
			}
			c15One(c, cs)
		},
	})
}
