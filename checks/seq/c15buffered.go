package seq

import (
	"bytes"
	"encoding/json"
	"fmt"

	"nhooyr.io/websocket"
	"verif/fw"
	"verif/refws/frame"
)

// C15, part buffered: the application has a streamed message open and has written n bytes
// of it, which sit unflushed in the write buffer (non-final frames are not flushed); the
// peer's Ping arrives and the reading goroutine answers it: the Pong, wherever it falls
// relative to the end of the 4096-byte write buffer, carries the identical payload, the
// stream stays well-formed for the role, and the message completes around it.

type c15BufferedCase struct {
	Client   bool `json:"client"`
	Buffered int  `json:"bytes_written_to_the_open_writer"`
	PingLen  int  `json:"ping_payload"`
}

func c15BufferedOne(c *fw.Ctx, cs c15BufferedCase) {
	c.Eval()
	c.AddTraces(1)
	masked := !cs.Client
	ping := mxPattern(cs.PingLen, 3)
	in := frame.Ctl(frame.OpPing, masked, ping).Encode(nil)
	in = append(in, frame.Data(frame.OpText, true, masked, []byte("after")).Encode(nil)...)
	t := mxNewTransport(in)
	conn := mxConn(t, cs.Client, "")
	defer conn.CloseNow()
	ctx, cancel := mxGuard(mxGuardTime)
	defer cancel()
	desc := fmt.Sprintf("%+v", cs)
	body := mxPattern(cs.Buffered, 9)
	var got []byte
	var rerr, werr error
	pan := fw.Recover(func() {
		wr, err := conn.Writer(ctx, websocket.MessageBinary)
		if err != nil {
			werr = err
			return
		}
		if _, werr = wr.Write(body); werr != nil {
			return
		}
		_, got, rerr = conn.Read(ctx) // answers the Ping on its way to the message
		if _, werr = wr.Write([]byte("tail")); werr != nil {
			return
		}
		werr = wr.Close()
	})
	if pan != "" {
		c.Violate("C15/panic/buffered", desc+": "+pan, cs)
		return
	}
	if mxHung(rerr) || mxHung(werr) {
		c.EngineError(desc + ": hang guard fired")
		return
	}
	c.OutcomeStr(fmt.Sprintf("buffered %v/%d/%d r=%v w=%v", cs.Client, cs.Buffered%64, cs.PingLen, rerr == nil, werr == nil))
	if rerr != nil || string(got) != "after" {
		c.Violate("C15/read-fails-around-ping/buffered", fmt.Sprintf("%s: the peer sent a Ping and a message; Read returned %q, %v", desc, got, rerr), cs)
		return
	}
	if werr != nil {
		c.Violate("C15/write-fails-around-pong/buffered", fmt.Sprintf("%s: the streamed message around the Pong failed: %v", desc, werr), cs)
		return
	}
	res := frame.Validate(t.Log(), frame.StreamRules{SenderIsClient: cs.Client})
	if len(res.Violations) > 0 {
		c.Violate("C15/wire/"+res.Violations[0].Rule+"/buffered", fmt.Sprintf("%s: %v", desc, res.Violations[0]), cs)
		return
	}
	var pongs [][]byte
	for _, f := range res.Controls {
		if f.Opcode == frame.OpPong {
			pongs = append(pongs, f.Payload)
		}
	}
	if len(pongs) != 1 || !bytes.Equal(pongs[0], ping) {
		c.Violate("C15/pong-missing-or-differs/buffered", fmt.Sprintf("%s: the Ping carried %d bytes; Pongs on the wire: %d (payload equal: %v)", desc, len(ping), len(pongs), len(pongs) == 1 && bytes.Equal(pongs[0], ping)), cs)
		return
	}
	if len(res.Messages) != 1 || !bytes.Equal(res.Messages[0].Payload, append(append([]byte{}, body...), []byte("tail")...)) {
		c.Violate("C15/message-around-pong-differs/buffered", fmt.Sprintf("%s: the streamed message (%d+4 bytes) does not arrive intact around the Pong (%d messages)", desc, len(body), len(res.Messages)), cs)
	}
}

func c15BufferedCases() []c15BufferedCase {
	var out []c15BufferedCase
	for _, client := range []bool{false, true} {
		for _, n := range []int{0, 1, 100, 3900, 3960, 3965, 3970, 3990, 4000, 4050, 4080, 4084, 4085, 4086, 4088, 4090, 4095, 4096, 4100, 8000} {
			for _, pl := range []int{0, 1, 5, 83, 100, 124, 125} {
				out = append(out, c15BufferedCase{Client: client, Buffered: n, PingLen: pl})
			}
		}
	}
	return out
}

func init() {
	fw.Register(fw.Part{
		Prop: "C15", Name: "buffered",
		Units: func(tier string) []fw.Unit {
			return []fw.Unit{{ID: "pong-behind-unflushed-fragment", Run: func(c *fw.Ctx) {
				cases := c15BufferedCases()
				for _, cs := range cases {
					c15BufferedOne(c, cs)
				}
				c.AddStates(int64(len(cases)))
				c.AddTransitions(int64(len(cases)))
				c.Bound("buffered_cases", len(cases))
			}}}
		},
		Replay: func(c *fw.Ctx, data json.RawMessage) {
			var cs c15BufferedCase
			if json.Unmarshal(data, &cs) != nil {
				c.EngineError("bad replay data")
				return
			}
			c15BufferedOne(c, cs)
		},
	})
}
