package seq

import (
	"bytes"
	"encoding/json"
	"fmt"

	"nhooyr.io/websocket"
	"verif/fw"
	"verif/refws/frame"
)

// C15, part limit: the read limit is about messages; control frames are not
// messages. With SetReadLimit(L) for small L, Pings of every length 0..125 are
// answered, unsolicited Pongs of every length are ignored, and a data message of
// at most L bytes that follows is still delivered.

type c15LimitCase struct {
	Client bool  `json:"client"`
	Limit  int64 `json:"limit"`
	Len    int   `json:"control_payload_len"`
	Pong   bool  `json:"unsolicited_pong_instead_of_ping"`
}

func c15LimitOne(c *fw.Ctx, cs c15LimitCase) {
	c.Eval()
	c.AddTraces(1)
	masked := !cs.Client
	pl := c15Payload(cs.Len, 3)
	op := byte(frame.OpPing)
	if cs.Pong {
		op = frame.OpPong
	}
	n := int(cs.Limit)
	if n > 50 {
		n = 50
	}
	msg := bytes.Repeat([]byte{'m'}, n)
	var in []byte
	in = append(in, frame.Ctl(op, masked, pl).Encode(nil)...)
	in = append(in, frame.Data(frame.OpBinary, true, masked, msg).Encode(nil)...)
	in = append(in, frame.Ctl(op, masked, pl).Encode(nil)...)
	t := mxNewTransport(in)
	conn := mxConn(t, cs.Client, "")
	defer conn.CloseNow()
	conn.SetReadLimit(cs.Limit)
	ctx, cancel := mxGuard(mxGuardTime)
	defer cancel()
	desc := fmt.Sprintf("%+v", cs)
	var got []byte
	var err, err2 error
	if p := fw.Recover(func() {
		_, got, err = conn.Read(ctx)
		if err == nil {
			_, _, err2 = conn.Read(ctx) // runs into the second control frame and then the end of the stream
		}
	}); p != "" {
		c.Violate("C15/panic/limit", desc+": "+p, cs)
		return
	}
	if mxHung(err) || mxHung(err2) {
		c.EngineError(desc + ": hang guard fired")
		return
	}
	c.OutcomeStr(fmt.Sprintf("limit %v L=%d len=%d pong=%v", cs.Client, cs.Limit, cs.Len%8, cs.Pong))
	if err != nil || !bytes.Equal(got, msg) {
		c.Violate("C15/data-affected-by-control-frame/read-limit", fmt.Sprintf("%s: a %d-byte control frame in front of a %d-byte message (read limit %d): Read returned %d bytes, err=%v", desc, cs.Len, len(msg), cs.Limit, len(got), err), cs)
		return
	}
	fs, _ := frame.ParseAll(t.Log())
	var pongs [][]byte
	closes := 0
	for _, f := range fs {
		if f.Opcode == frame.OpPong {
			pongs = append(pongs, f.Payload)
		}
		if f.Opcode == frame.OpClose {
			closes++
		}
	}
	want := 2
	if cs.Pong {
		want = 0
	}
	if len(pongs) != want || closes != 0 {
		c.Violate("C15/pong-missing-or-extra/read-limit", fmt.Sprintf("%s: %d Pong(s) and %d Close frame(s) written, want %d and 0 (control frames are not subject to the read limit)", desc, len(pongs), closes, want), cs)
		return
	}
	for _, p := range pongs {
		if !bytes.Equal(p, pl) {
			c.Violate("C15/pong-payload-differs/read-limit", fmt.Sprintf("%s: Pong payload %x, want %x", desc, p, pl), cs)
			return
		}
	}
}

func init() {
	fw.Register(fw.Part{
		Prop: "C15", Name: "limit",
		Units: func(tier string) []fw.Unit {
			return []fw.Unit{{ID: "small-read-limits", Run: func(c *fw.Ctx) {
				n := 0
				for _, client := range []bool{false, true} {
					for _, L := range []int64{0, 1, 2, 10, 124, 125} {
						for l := 0; l <= 125; l++ {
							for _, pong := range []bool{false, true} {
								c15LimitOne(c, c15LimitCase{client, L, l, pong})
								n++
							}
						}
					}
				}
				c.AddStates(int64(n))
				c.AddTransitions(int64(2 * n))
				c.Bound("limit_cases", n)
				c.Sample(c15LimitCase{false, 1, 100, false})
			}}}
		},
		Replay: func(c *fw.Ctx, data json.RawMessage) {
			var cs c15LimitCase
			if json.Unmarshal(data, &cs) != nil {
				c.EngineError("bad replay data")
				return
			}
			c15LimitOne(c, cs)
		},
	})
}

var _ = websocket.MessageBinary
