package seq

import (
	"bufio"
	"context"
	"encoding/json"
	"fmt"
	"io"
	"net"
	"time"

	"nhooyr.io/websocket"
	"verif/fw"
)

// C15, part wrap: one long history rather than many short ones. A Ping stays
// outstanding (its Pong is withheld) while 65 600 further Pings are issued and
// answered on the same connection; then the withheld Pong arrives. Every one of
// the later Pings returns nil and so does the first: whatever identifies a ping
// must not repeat while an earlier ping with the same identification is waiting.
// The history is deterministic (one pinger at a time, a peer that answers at
// once); real goroutines and an in-memory pipe carry it.

type c15WrapCase struct {
	Pings int `json:"later_pings"`
}

func c15WrapOne(c *fw.Ctx, cs c15WrapCase) {
	c.Eval()
	c.AddTraces(1)
	a, b := net.Pipe()
	defer b.Close()
	conn := websocket.VerifNewConn(a, false, nil, 0)
	defer conn.CloseNow()
	ctx, cancel := context.WithTimeout(context.Background(), 5*time.Minute)
	defer cancel()
	conn.CloseRead(ctx)
	firstSeen := make(chan []byte, 1)
	release := make(chan struct{})
	peerErr := make(chan error, 1)
	go func() {
		br := bufio.NewReader(b)
		n := 0
		pong := func(pl []byte) error {
			f := append([]byte{0x8A, 0x80 | byte(len(pl)), 0, 0, 0, 0}, pl...) // masked with key 0
			_, err := b.Write(f)
			return err
		}
		var withheld []byte
		for {
			var h [2]byte
			if _, err := io.ReadFull(br, h[:]); err != nil {
				peerErr <- err
				return
			}
			pl := make([]byte, int(h[1]&0x7f))
			if _, err := io.ReadFull(br, pl); err != nil {
				peerErr <- err
				return
			}
			if h[0]&0x0f != 9 {
				continue
			}
			n++
			if n == 1 {
				withheld = pl
				firstSeen <- pl
				go func() {
					<-release
					pong(withheld)
				}()
				continue
			}
			if err := pong(pl); err != nil {
				peerErr <- err
				return
			}
		}
	}()
	firstDone := make(chan error, 1)
	go func() { firstDone <- conn.Ping(ctx) }()
	var firstPayload []byte
	select {
	case firstPayload = <-firstSeen:
	case <-time.After(30 * time.Second):
		c.EngineError("wrap: the first Ping never reached the peer")
		return
	}
	for i := 0; i < cs.Pings; i++ {
		if err := conn.Ping(ctx); err != nil {
			c.Violate("C15/answered-ping-failed/wrap", fmt.Sprintf("Ping #%d (answered at once, the first Ping with payload %q still waiting) failed: %v", i+2, firstPayload, err), cs)
			return
		}
		select {
		case err := <-firstDone:
			c.Violate("C15/ping-nil-without-own-pong/wrap", fmt.Sprintf("the first Ping (payload %q, its Pong withheld) returned %v after %d later pings", firstPayload, err, i+1), cs)
			return
		default:
		}
	}
	close(release)
	select {
	case err := <-firstDone:
		if err != nil {
			c.Violate("C15/answered-ping-failed/wrap", fmt.Sprintf("the first Ping (payload %q) was answered after %d later Pings had been issued and answered; it returned %v instead of nil", firstPayload, cs.Pings, err), cs)
			return
		}
	case <-time.After(10 * time.Second):
		c.Violate("C15/answered-ping-failed/wrap", fmt.Sprintf("the first Ping (payload %q) was answered after %d later Pings; ten seconds later it has not returned", firstPayload, cs.Pings), cs)
		return
	}
	c.AddStates(1)
	c.AddTransitions(int64(cs.Pings + 1))
	c.OutcomeStr("wrap ok")
}

func init() {
	fw.Register(fw.Part{
		Prop: "C15", Name: "wrap",
		Units: func(tier string) []fw.Unit {
			return []fw.Unit{{ID: "65600-pings", Run: func(c *fw.Ctx) {
				cs := c15WrapCase{Pings: 65600}
				c15WrapOne(c, cs)
				c.Bound("later_pings", cs.Pings)
				c.Sample(cs)
			}}}
		},
		Replay: func(c *fw.Ctx, data json.RawMessage) {
			var cs c15WrapCase
			if json.Unmarshal(data, &cs) != nil {
				c.EngineError("bad replay data")
				return
			}
			c15WrapOne(c, cs)
		},
	})
}
