package seq

import (
	"context"
	"encoding/json"
	"fmt"
	"sync"
	"time"

	"nhooyr.io/websocket"
	"verif/fw"
	"verif/refws/frame"
)

// C16, part fault: the k-th transport Write reports a transient error after it
// has taken none, half or ALL of its bytes (a transport that delivers and then
// reports a failure), the transport stays open and the application goes on
// calling. The Close frame is the one sent because of a protocol error, a read
// limit, the CloseRead policy, the peer's Close, or by Close itself. Whatever the
// calls answer: once a complete Close frame is on the wire, no data frame and no
// second Close frame follows it.

type c16FaultWire struct {
	mu     sync.Mutex
	in     []byte
	log    []byte
	writes int
	failAt int
	mode   string // none | half | all
	closed chan struct{}
	once   sync.Once
}

func (w *c16FaultWire) Read(p []byte) (int, error) {
	w.mu.Lock()
	if len(w.in) > 0 {
		n := copy(p, w.in)
		w.in = w.in[n:]
		w.mu.Unlock()
		return n, nil
	}
	w.mu.Unlock()
	<-w.closed
	return 0, errXportClosed
}

func (w *c16FaultWire) Write(p []byte) (int, error) {
	w.mu.Lock()
	defer w.mu.Unlock()
	select {
	case <-w.closed:
		return 0, errXportClosed
	default:
	}
	w.writes++
	if w.writes == w.failAt {
		n := 0
		switch w.mode {
		case "half":
			n = len(p) / 2
		case "all":
			n = len(p)
		}
		w.log = append(w.log, p[:n]...)
		return n, errC02Transient
	}
	w.log = append(w.log, p...)
	return len(p), nil
}

func (w *c16FaultWire) Close() error {
	w.once.Do(func() { close(w.closed) })
	return nil
}

type c16FaultCase struct {
	Client bool   `json:"client"`
	Cause  string `json:"close_cause"` // protocol-error | read-limit | closeread-policy | peer-close | local-close
	Before int    `json:"writes_before"`
	FailAt int    `json:"fail_at_transport_write"`
	Mode   string `json:"bytes_taken_by_failing_write"`
}

func c16FaultOne(c *fw.Ctx, cs c16FaultCase) {
	c.Eval()
	c.AddTraces(1)
	masked := !cs.Client
	var in []byte
	switch cs.Cause {
	case "protocol-error":
		in = frame.Frame{Fin: true, Rsv2: true, Opcode: frame.OpText, Masked: masked, Key: [4]byte{1, 2, 3, 4}, Payload: []byte("x")}.Encode(nil)
	case "read-limit":
		in = frame.Data(frame.OpText, true, masked, make([]byte, 40)).Encode(nil)
	case "closeread-policy":
		in = frame.Data(frame.OpText, true, masked, []byte("unexpected")).Encode(nil)
	case "peer-close":
		in = frame.Ctl(frame.OpClose, masked, frame.ClosePayload(1000, "bye")).Encode(nil)
	}
	w := &c16FaultWire{in: in, failAt: cs.FailAt, mode: cs.Mode, closed: make(chan struct{})}
	conn := websocket.VerifNewConn(w, cs.Client, nil, 0)
	defer w.Close()
	desc := fmt.Sprintf("%+v", cs)
	var steps []string
	pan := fw.Recover(func() {
		call := func(name string, f func(ctx context.Context) error) {
			ctx, cancel := context.WithTimeout(context.Background(), 100*time.Millisecond)
			defer cancel()
			err := f(ctx)
			steps = append(steps, fmt.Sprintf("%s=%v", name, err != nil))
		}
		for i := 0; i < cs.Before; i++ {
			call("write", func(ctx context.Context) error { return conn.Write(ctx, websocket.MessageText, []byte("before")) })
		}
		switch cs.Cause {
		case "protocol-error", "peer-close":
			call("read", func(ctx context.Context) error { _, _, err := conn.Read(ctx); return err })
		case "read-limit":
			conn.SetReadLimit(10)
			call("read", func(ctx context.Context) error { _, _, err := conn.Read(ctx); return err })
		case "closeread-policy":
			cctx := conn.CloseRead(context.Background())
			select {
			case <-cctx.Done():
			case <-time.After(2 * time.Second):
				steps = append(steps, "closeread-context-not-cancelled")
			}
		case "local-close":
			// (in its own goroutine: the peer never answers; the calls below follow while it waits)
			go conn.Close(websocket.StatusNormalClosure, "done")
			deadline := time.Now().Add(2 * time.Second)
			for time.Now().Before(deadline) {
				w.mu.Lock()
				n := w.writes
				w.mu.Unlock()
				if n > cs.Before {
					break
				}
				time.Sleep(time.Millisecond)
			}
		}
		// the application goes on calling
		call("write", func(ctx context.Context) error { return conn.Write(ctx, websocket.MessageText, []byte("after-1")) })
		call("writer", func(ctx context.Context) error {
			wr, err := conn.Writer(ctx, websocket.MessageBinary)
			if err != nil {
				return err
			}
			if _, err = wr.Write([]byte("after-2")); err != nil {
				return err
			}
			return wr.Close()
		})
		call("ping", func(ctx context.Context) error { return conn.Ping(ctx) })
		call("close", func(ctx context.Context) error { return conn.Close(websocket.StatusGoingAway, "again") })
		call("write", func(ctx context.Context) error { return conn.Write(ctx, websocket.MessageText, []byte("after-3")) })
	})
	if pan != "" {
		c.Violate("C16/panic/fault", desc+": "+pan, cs)
		return
	}
	w.mu.Lock()
	log := append([]byte(nil), w.log...)
	w.mu.Unlock()
	fs, _ := frame.ParseAll(log) // complete frames; a torn frame at the end is not a frame
	c.OutcomeStr(fmt.Sprintf("fault %s/%s/%v frames=%d", cs.Cause, cs.Mode, cs.Client, len(fs)))
	seenClose := -1
	for i, f := range fs {
		if seenClose >= 0 && (f.Opcode == frame.OpClose || f.Opcode == frame.OpText || f.Opcode == frame.OpBinary || f.Opcode == frame.OpCont) {
			kind := "data-frame-after-close"
			if f.Opcode == frame.OpClose {
				kind = "second-close-frame"
			}
			c.Violate("C16/"+kind+"/fault/"+cs.Cause, fmt.Sprintf("%s: frame %d on the wire is a complete Close frame; frame %d (opcode %d, %d bytes) follows it. Calls (true = error): %v", desc, seenClose, i, f.Opcode, len(f.Payload), steps), cs)
			return
		}
		if f.Opcode == frame.OpClose && seenClose < 0 {
			seenClose = i
		}
	}
}

func c16FaultCases() []c16FaultCase {
	var out []c16FaultCase
	for _, client := range []bool{false, true} {
		for _, cause := range []string{"protocol-error", "read-limit", "closeread-policy", "peer-close", "local-close"} {
			for _, before := range []int{0, 1} {
				for failAt := 1; failAt <= before+3; failAt++ {
					for _, mode := range []string{"none", "half", "all"} {
						out = append(out, c16FaultCase{Client: client, Cause: cause, Before: before, FailAt: failAt, Mode: mode})
					}
				}
			}
		}
	}
	return out
}

func init() {
	fw.Register(fw.Part{
		Prop: "C16", Name: "fault",
		Units: func(tier string) []fw.Unit {
			cases := c16FaultCases()
			var us []fw.Unit
			const shards = 16
			for s := 0; s < shards; s++ {
				s := s
				us = append(us, fw.Unit{ID: fmt.Sprintf("transport-write-faults#%d", s), Run: func(c *fw.Ctx) {
					n := 0
					for i, cs := range cases {
						if i%shards != s {
							continue
						}
						c16FaultOne(c, cs)
						n++
					}
					c.AddStates(int64(n))
					c.AddTransitions(int64(n))
					c.Bound("fault_cases", len(cases))
				}})
			}
			return us
		},
		Replay: func(c *fw.Ctx, data json.RawMessage) {
			var cs c16FaultCase
			if json.Unmarshal(data, &cs) != nil {
				c.EngineError("bad replay data")
				return
			}
			c16FaultOne(c, cs)
		},
	})
}
