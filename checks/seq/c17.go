package seq

import (
	"encoding/json"
	"fmt"
	"math/bits"
	"math/rand"
	"unsafe"

	"nhooyr.io/websocket"
	"verif/fw"
)

// C17: masking is an exact, chunk-composable XOR for every length, alignment and key.

type maskImpl struct {
	name string
	f    func([]byte, uint32) uint32
}

func maskImpls() []maskImpl {
	ims := []maskImpl{{"maskGo", websocket.VerifMaskGo}, {"mask", websocket.VerifMask}}
	if websocket.VerifHasMaskAsm {
		ims = append(ims, maskImpl{"maskAsm", websocket.VerifMaskAsm})
	}
	return ims
}

var c17Keys = []uint32{0x04030201, 0xA1B2C3D4, 0x80FF017E, 0, 0xFFFFFFFF}

// refMask is the definition: byte i is XORed with byte (i mod 4) of the key
// (key bytes in wire order = little endian of the uint32); the returned key is
// rotated so that the next byte continues the sequence.
func refMask(b []byte, key uint32) uint32 {
	for i := range b {
		b[i] ^= byte(key >> (8 * uint(i%4)))
	}
	return bits.RotateLeft32(key, -8*(len(b)%4))
}

const c17Guard = 64

type c17Case struct {
	Impl  string `json:"impl"`
	Len   int    `json:"len"`
	Align int    `json:"align"`
	Key   uint32 `json:"key"`
	S1    int    `json:"s1"` // split points (-1: none)
	S2    int    `json:"s2"`
}

// alignedSlab returns a slice of length n+2*guard whose payload (after the
// leading guard) starts at an address congruent to align modulo 64.
func alignedSlab(backing []byte, n, align int) []byte {
	base := uintptr(unsafe.Pointer(&backing[0]))
	off := int((64 - base%64) % 64)
	// payload start = off + k*64 + align with at least guard bytes before it
	start := off + 128 + align
	return backing[start-c17Guard : start+n+c17Guard]
}

func c17One(c *fw.Ctx, im maskImpl, cs c17Case, backing, want, orig []byte, rnd *rand.Rand) {
	c.Eval()
	slab := alignedSlab(backing, cs.Len, cs.Align)
	if uintptr(unsafe.Pointer(&slab[c17Guard]))%64 != uintptr(cs.Align) {
		c.EngineError("alignment computation wrong")
		return
	}
	for i := range slab {
		slab[i] = byte(rnd.Intn(256))
	}
	copy(orig, slab)
	buf := slab[c17Guard : c17Guard+cs.Len : c17Guard+cs.Len]
	w := want[:cs.Len]
	copy(w, buf)
	wantKey := refMask(w, cs.Key)
	var gotKey uint32
	p := fw.Recover(func() {
		switch {
		case cs.S1 < 0:
			gotKey = im.f(buf, cs.Key)
		case cs.S2 < 0:
			k := im.f(buf[:cs.S1], cs.Key)
			gotKey = im.f(buf[cs.S1:], k)
		default:
			k := im.f(buf[:cs.S1], cs.Key)
			k = im.f(buf[cs.S1:cs.S2], k)
			gotKey = im.f(buf[cs.S2:], k)
		}
	})
	kind := "whole"
	if cs.S1 >= 0 {
		kind = "split"
	}
	if p != "" {
		c.Violate("C17/panic/"+im.name, fmt.Sprintf("%+v: panic %s", cs, p), cs)
		return
	}
	for i := 0; i < cs.Len; i++ {
		if buf[i] != w[i] {
			c.Violate("C17/wrong-bytes/"+im.name+"/"+kind, fmt.Sprintf("%+v: byte %d = %#x, want %#x", cs, i, buf[i], w[i]), cs)
			return
		}
	}
	if gotKey != wantKey {
		c.Violate("C17/wrong-returned-key/"+im.name+"/"+kind, fmt.Sprintf("%+v: returned key %#x, want %#x", cs, gotKey, wantKey), cs)
		return
	}
	for i := 0; i < c17Guard; i++ {
		if slab[i] != orig[i] || slab[c17Guard+cs.Len+i] != orig[c17Guard+cs.Len+i] {
			c.Violate("C17/out-of-bounds-write/"+im.name, fmt.Sprintf("%+v: guard byte %d modified", cs, i), cs)
			return
		}
	}
	if cs.Len > 0 {
		c.Outcome(fw.HashBytes(buf) ^ uint64(gotKey)<<1 ^ uint64(cs.Len)<<40 ^ uint64(cs.Align)<<33 ^ fw.HashStr(im.name))
	}
}

func c17Run(c *fw.Ctx, shard, nshards int) {
	maxLen := 4200
	if c.Thorough() {
		maxLen = 16500 // dense beyond four write buffers
	}
	backing := make([]byte, maxLen+512)
	want := make([]byte, maxLen)
	orig := make([]byte, maxLen+2*c17Guard)
	rnd := rand.New(rand.NewSource(c.Seed*1000 + int64(shard)))
	ims := maskImpls()
	for n := shard; n <= maxLen; n += nshards {
		for _, im := range ims {
			for align := 0; align < 64; align++ {
				for _, key := range c17Keys {
					cs := c17Case{im.name, n, align, key, -1, -1}
					c17One(c, im, cs, backing, want, orig, rnd)
				}
			}
			// splits: every 2-split for len <= 512, every 3-split for len <= 96 (alignment 0 and 1, first key)
			if n <= 512 {
				for s1 := 0; s1 <= n; s1++ {
					for _, align := range []int{0, 3} {
						c17One(c, im, c17Case{im.name, n, align, c17Keys[0], s1, -1}, backing, want, orig, rnd)
					}
				}
			}
			if n <= 96 {
				for s1 := 0; s1 <= n; s1++ {
					for s2 := s1; s2 <= n; s2++ {
						c17One(c, im, c17Case{im.name, n, 1, c17Keys[1], s1, s2}, backing, want, orig, rnd)
					}
				}
			}
		}
		if c.WantSample() {
			c.Sample(c17Case{ims[0].name, n, 63, c17Keys[2], -1, -1})
		}
	}
	c.Bound("max_len", maxLen)
	c.Bound("alignments", 64)
	c.Bound("keys", len(c17Keys))
	var names []string
	for _, im := range ims {
		names = append(names, im.name)
	}
	c.Bound("implementations", names)
}

// c17LargeLens: lengths beyond the dense sweep, around the sizes at which buffers
// and loop thresholds usually change (the library's 4096-byte write buffer, the
// 32 KiB window, 16-bit lengths).
func c17LargeLens() []int {
	var ls []int
	add := func(lo, hi int) {
		for n := lo; n <= hi; n++ {
			ls = append(ls, n)
		}
	}
	add(8180, 8200)
	add(16376, 16392)
	add(32752, 32800)
	add(65528, 65544)
	ls = append(ls, 40001, 70003, 131075)
	return ls
}

// c17BlockLens: every power of two from 2^17 to 2^24 and the small multiples of 2^20 (sizes at which
// an implementation that works block-wise - for preemptibility, for a vector unit - changes its
// path), each with its neighbours.
func c17BlockLens() []int {
	var ls []int
	seen := map[int]bool{}
	add := func(c int) {
		for n := c - 2; n <= c+2; n++ {
			if !seen[n] {
				seen[n] = true
				ls = append(ls, n)
			}
		}
	}
	for k := 17; k <= 24; k++ {
		add(1 << k)
	}
	for m := 3; m <= 7; m++ {
		add(m << 20)
	}
	add(3 << 16)
	add(5 << 18)
	return ls
}

func c17LargeRun(c *fw.Ctx, shard, nshards int) {
	lens := c17LargeLens()
	blocks := c17BlockLens()
	maxLen := 131075
	for i := shard; i < len(blocks); i += nshards {
		if blocks[i] > maxLen {
			maxLen = blocks[i]
		}
	}
	backing := make([]byte, maxLen+512)
	want := make([]byte, maxLen)
	orig := make([]byte, maxLen+2*c17Guard)
	rnd := rand.New(rand.NewSource(c.Seed*1000 + 77 + int64(shard)))
	ims := maskImpls()
	for i := shard; i < len(lens); i += nshards {
		n := lens[i]
		for _, im := range ims {
			for align := 0; align < 64; align++ {
				c17One(c, im, c17Case{im.name, n, align, c17Keys[align%len(c17Keys)], -1, -1}, backing, want, orig, rnd)
			}
			c17One(c, im, c17Case{im.name, n, 5, c17Keys[0], n / 3, -1}, backing, want, orig, rnd)
		}
	}
	for i := shard; i < len(blocks); i += nshards {
		n := blocks[i]
		for _, im := range ims {
			for j, align := range []int{0, 1, 31, 48} {
				c17One(c, im, c17Case{im.name, n, align, c17Keys[(i+j)%len(c17Keys)], -1, -1}, backing, want, orig, rnd)
			}
			c17One(c, im, c17Case{im.name, n, 5, c17Keys[0], 1 << 16, -1}, backing, want, orig, rnd)
		}
	}
	c.Bound("large_lengths", len(lens))
	c.Bound("block_lengths", len(blocks))
	c.Bound("block_length_max", 1<<24+2)
}

func init() {
	fw.Register(fw.Part{
		Prop: "C17", Name: "large",
		Units: func(tier string) []fw.Unit { return fw.Shards("lens", 16, c17LargeRun) },
		Replay: func(c *fw.Ctx, data json.RawMessage) {
			var cs c17Case
			if json.Unmarshal(data, &cs) != nil {
				c.EngineError("bad replay data")
				return
			}
			for _, im := range maskImpls() {
				if im.name == cs.Impl {
					n := cs.Len
					c17One(c, im, cs, make([]byte, n+512), make([]byte, n), make([]byte, n+2*c17Guard), rand.New(rand.NewSource(c.Seed)))
				}
			}
		},
	})
	fw.Register(fw.Part{
		Prop: "C17", Name: "mask",
		Units: func(tier string) []fw.Unit { return fw.Shards("grid", 16, c17Run) },
		Replay: func(c *fw.Ctx, data json.RawMessage) {
			var cs c17Case
			if json.Unmarshal(data, &cs) != nil {
				c.EngineError("bad replay data")
				return
			}
			for _, im := range maskImpls() {
				if im.name == cs.Impl {
					backing := make([]byte, 4200+512)
					c17One(c, im, cs, backing, make([]byte, 4200), make([]byte, 4200+2*c17Guard), rand.New(rand.NewSource(c.Seed)))
				}
			}
		},
	})
}
