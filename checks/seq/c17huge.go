package seq

import (
	"bufio"
	"encoding/json"
	"fmt"
	"math/bits"
	"os"
	"strings"
	"syscall"
	"unsafe"

	"verif/fw"
)

// C17, part huge: "for every buffer length" includes lengths that do not fit in
// 32 bits. One buffer of 4 GiB + 203 bytes (anonymous mapping, zero-filled by the
// kernel) is masked in a single call by each implementation; every byte and the
// returned key are compared with the definition. Skipped (and reported as not
// exhaustive) when less than 12 GiB of memory are available.

type c17HugeCase struct {
	Impl string `json:"impl"`
	Len  int64  `json:"len"`
	Key  uint32 `json:"key"`
}

func c17MemAvailableKiB() int64 {
	f, err := os.Open("/proc/meminfo")
	if err != nil {
		return 0
	}
	defer f.Close()
	sc := bufio.NewScanner(f)
	for sc.Scan() {
		if strings.HasPrefix(sc.Text(), "MemAvailable:") {
			var n int64
			fmt.Sscanf(strings.TrimPrefix(sc.Text(), "MemAvailable:"), "%d", &n)
			return n
		}
	}
	return 0
}

func c17HugeOne(c *fw.Ctx, im maskImpl, cs c17HugeCase) {
	c.Eval()
	if c17MemAvailableKiB() < 12<<20 {
		c.NotExhaustive("less than 12 GiB of memory available: the 4 GiB buffer case was skipped")
		return
	}
	n := int(cs.Len)
	mem, err := syscall.Mmap(-1, 0, n+4096, syscall.PROT_READ|syscall.PROT_WRITE, syscall.MAP_ANON|syscall.MAP_PRIVATE|syscall.MAP_NORESERVE)
	if err != nil {
		c.NotExhaustive("mmap of 4 GiB failed: " + err.Error())
		return
	}
	defer syscall.Munmap(mem)
	buf := mem[:n:n]
	got := im.f(buf, cs.Key)
	want := bits.RotateLeft32(cs.Key, -8*(n%4))
	if got != want {
		c.Violate("C17/wrong-key/"+cs.Impl+"/huge", fmt.Sprintf("%s on %d zero bytes with key %#x returned key %#x, want %#x", cs.Impl, n, cs.Key, got, want), cs)
		return
	}
	// the buffer was all zero: byte i must now be key byte i mod 4
	word := uint64(cs.Key) | uint64(cs.Key)<<32
	words := unsafe.Slice((*uint64)(unsafe.Pointer(&buf[0])), n/8)
	for i, w := range words {
		if w != word {
			off := int64(i) * 8
			c.Violate("C17/wrong-bytes/"+cs.Impl+"/huge", fmt.Sprintf("%s on a %d-byte buffer: the 8 bytes at offset %d (= 2^32 + %d) are %#x, want %#x: bytes beyond a 32-bit length are not masked as defined", cs.Impl, n, off, off-(1<<32), w, word), cs)
			return
		}
	}
	for i := n / 8 * 8; i < n; i++ {
		if buf[i] != byte(cs.Key>>(8*uint(i%4))) {
			c.Violate("C17/wrong-bytes/"+cs.Impl+"/huge", fmt.Sprintf("%s on a %d-byte buffer: byte %d is %#x", cs.Impl, n, i, buf[i]), cs)
			return
		}
	}
	if mem[n] != 0 {
		c.Violate("C17/guard-bytes-modified/"+cs.Impl+"/huge", fmt.Sprintf("%s on a %d-byte buffer wrote behind the buffer", cs.Impl, n), cs)
		return
	}
	c.AddStates(1)
	c.AddTransitions(1)
	c.OutcomeStr("huge " + cs.Impl)
}

func init() {
	fw.Register(fw.Part{
		Prop: "C17", Name: "huge",
		Units: func(tier string) []fw.Unit {
			return []fw.Unit{{ID: "4GiB+203", Run: func(c *fw.Ctx) {
				for _, im := range maskImpls() {
					c17HugeOne(c, im, c17HugeCase{im.name, 1<<32 + 203, 0xA1B2C3D4})
				}
				c.Bound("huge_length", int64(1<<32+203))
				c.Sample(c17HugeCase{"maskAsm", 1<<32 + 203, 0xA1B2C3D4})
			}}}
		},
		Replay: func(c *fw.Ctx, data json.RawMessage) {
			var cs c17HugeCase
			if json.Unmarshal(data, &cs) != nil {
				c.EngineError("bad replay data")
				return
			}
			for _, im := range maskImpls() {
				if im.name == cs.Impl {
					c17HugeOne(c, im, cs)
				}
			}
		},
	})
}
