package seq

import (
	"bytes"
	"encoding/json"
	"fmt"
	"runtime/debug"
	"syscall"

	"verif/fw"
)

// C17, part pages: "never touch memory outside the buffer" for reads as well.
// Guard bytes only show stray writes; here the buffer is placed so that it ends
// at the last byte of (or starts at the first byte of) a mapped region whose
// neighbouring pages are inaccessible, so a load or store of even one byte
// outside the buffer faults. The fault is turned into a panic
// (debug.SetPanicOnFault) and reported.

type c17PageCase struct {
	Impl  string `json:"impl"`
	Len   int    `json:"len"`
	AtEnd bool   `json:"buffer_ends_at_page_end"` // false: buffer starts at the page start
	Key   uint32 `json:"key"`
}

type c17Arena struct {
	all []byte // [inaccessible page][2 accessible pages][inaccessible page]
	mid []byte
}

func c17NewArena() (*c17Arena, error) {
	ps := syscall.Getpagesize()
	all, err := syscall.Mmap(-1, 0, 4*ps, syscall.PROT_READ|syscall.PROT_WRITE, syscall.MAP_ANON|syscall.MAP_PRIVATE)
	if err != nil {
		return nil, err
	}
	if err := syscall.Mprotect(all[:ps], syscall.PROT_NONE); err != nil {
		return nil, err
	}
	if err := syscall.Mprotect(all[3*ps:], syscall.PROT_NONE); err != nil {
		return nil, err
	}
	return &c17Arena{all: all, mid: all[ps : 3*ps : 3*ps]}, nil
}

func (a *c17Arena) free() { syscall.Munmap(a.all) }

func c17PageOne(c *fw.Ctx, a *c17Arena, im maskImpl, cs c17PageCase) {
	c.Eval()
	var buf []byte
	if cs.AtEnd {
		buf = a.mid[len(a.mid)-cs.Len : len(a.mid) : len(a.mid)]
	} else {
		buf = a.mid[0:cs.Len:cs.Len]
	}
	want := make([]byte, cs.Len)
	for i := range want {
		want[i] = byte(i*7 + 3)
	}
	copy(buf, want)
	wantKey := refMask(want, cs.Key)
	var got uint32
	fault := ""
	func() {
		old := debug.SetPanicOnFault(true)
		defer debug.SetPanicOnFault(old)
		defer func() {
			if r := recover(); r != nil {
				fault = fmt.Sprint(r)
			}
		}()
		got = im.f(buf, cs.Key)
	}()
	where := "starts at the first byte of an accessible region"
	if cs.AtEnd {
		where = "ends at the last byte of an accessible region"
	}
	if fault != "" {
		c.Violate("C17/touches-memory-outside-buffer/"+cs.Impl, fmt.Sprintf("%s on a %d-byte buffer that %s: %s", cs.Impl, cs.Len, where, fault), cs)
		return
	}
	if got != wantKey || !bytes.Equal(buf, want) {
		c.Violate("C17/wrong-bytes/"+cs.Impl+"/page-edge", fmt.Sprintf("%s on a %d-byte buffer that %s: result differs from the definition (key %#x, want %#x)", cs.Impl, cs.Len, where, got, wantKey), cs)
		return
	}
	c.OutcomeStr(fmt.Sprintf("page %s %d%%64 %v", cs.Impl, cs.Len%64, cs.AtEnd))
}

func c17PageLens(thorough bool) []int {
	var ls []int
	for n := 0; n <= 300; n++ {
		ls = append(ls, n)
	}
	for _, n := range []int{511, 512, 513, 1023, 1025, 4094, 4095, 4096, 4097, 4099, 8189, 8190, 8191, 8192} {
		ls = append(ls, n)
	}
	if thorough {
		for n := 301; n <= 4200; n++ {
			ls = append(ls, n)
		}
	}
	return ls
}

func init() {
	fw.Register(fw.Part{
		Prop: "C17", Name: "pages",
		Units: func(tier string) []fw.Unit {
			return []fw.Unit{{ID: "page-edges", Run: func(c *fw.Ctx) {
				a, err := c17NewArena()
				if err != nil {
					c.EngineError("mmap: " + err.Error())
					return
				}
				defer a.free()
				lens := c17PageLens(c.Thorough())
				n := 0
				for _, im := range maskImpls() {
					for _, l := range lens {
						if l > len(a.mid) {
							continue
						}
						for _, atEnd := range []bool{true, false} {
							for _, key := range []uint32{c17Keys[0], c17Keys[2]} {
								c17PageOne(c, a, im, c17PageCase{im.name, l, atEnd, key})
								n++
							}
						}
					}
				}
				c.AddStates(int64(n))
				c.AddTransitions(int64(n))
				c.Bound("page_edge_cases", n)
				c.Bound("page_edge_lengths", fmt.Sprintf("0..300, 511..513, 1023, 1025, 4094..4099, 8189..8192 (thorough: 0..4200); page size %d", syscall.Getpagesize()))
				c.Sample(c17PageCase{"mask", 2, true, c17Keys[0]})
			}}}
		},
		Replay: func(c *fw.Ctx, data json.RawMessage) {
			var cs c17PageCase
			if json.Unmarshal(data, &cs) != nil {
				c.EngineError("bad replay data")
				return
			}
			a, err := c17NewArena()
			if err != nil {
				c.EngineError("mmap: " + err.Error())
				return
			}
			defer a.free()
			for _, im := range maskImpls() {
				if im.name == cs.Impl {
					c17PageOne(c, a, im, cs)
				}
			}
		},
	})
}
