package seq

import (
	"bytes"
	"encoding/json"
	"errors"
	"fmt"
	"io"
	"time"

	"nhooyr.io/websocket"
	"verif/fw"
	"verif/refws/frame"
)

// C18 (sequential part, no deadlines): the net.Conn adapter as a byte stream.
// Part "stream": endpoint A writes a sequence of chunks through NetConn over a
// log transport; the log is the scripted input of endpoint B (opposite role),
// which reads through NetConn with a cycling sequence of buffer sizes. Part
// "close": scripted peer Close frames and wrong-type messages. Model of the
// adapter's read side: {Idle, InMessage, EOF, Failed}.

// A single Read or Write that burns c18SpinCPU of CPU time without returning is
// spinning; one that does not return for c18BlockWall is blocked (the scripted
// transport never blocks).
const (
	c18SpinCPU   = 2 * time.Second
	c18BlockWall = 60 * time.Second
)

func c18TypeName(t int) string {
	if t == int(websocket.MessageText) {
		return "text"
	}
	return "binary"
}

// ----------------------------------------------------------------- stream ---

type c18Case struct {
	AClient bool  `json:"a_client"` // role of the writing endpoint; the reader has the opposite role
	Type    int   `json:"type"`     // 1 text, 2 binary
	Writes  []int `json:"writes"`
	Reads   []int `json:"reads"` // buffer sizes, cycled
	// Comp: negotiated compression of both endpoints ("" off | takeover | no-takeover |
	// client-nct | server-nct: the asymmetric agreements a foreign peer can cause)
	Comp string `json:"comp,omitempty"`
}

var c18WriteSizes = []int{0, 1, 5, 4096, 65537}
var c18WriteSizesThorough = []int{0, 1, 5, 126, 4096, 65536, 65537}
var c18ReadSizes = []int{1, 5, 4096, 70000}

// c18Seqs: all sequences of length 1..maxLen over alphabet, shortest first.
func c18Seqs(alphabet []int, maxLen int) [][]int {
	var out [][]int
	var cur [][]int
	cur = append(cur, nil)
	for l := 1; l <= maxLen; l++ {
		var next [][]int
		for _, s := range cur {
			for _, a := range alphabet {
				n := append(append([]int(nil), s...), a)
				next = append(next, n)
			}
		}
		out = append(out, next...)
		cur = next
	}
	return out
}

// c18ReadSeqs drops sequences that are a repetition of a shorter one (cycling
// [a,a] or [a,a,a] is the same schedule as cycling [a]).
func c18ReadSeqs() [][]int {
	var out [][]int
	for _, s := range c18Seqs(c18ReadSizes, 3) {
		rep := len(s) > 1
		for _, v := range s {
			rep = rep && v == s[0]
		}
		if !rep {
			out = append(out, s)
		}
	}
	return out
}

var c18Content = mxPattern(3*65537+16, 29)
var c18ReadBuf = make([]byte, 70000)

func c18Direction(aClient bool) string {
	if aClient {
		return "client-to-server"
	}
	return "server-to-client"
}

// c18StreamOne returns false if the unit should stop (a guard fired).
func c18StreamOne(c *fw.Ctx, cs c18Case) bool {
	c.Eval()
	c.AddTraces(1)
	desc := fmt.Sprintf("%+v", cs)
	cls := c18Direction(cs.AClient) + "/" + c18TypeName(cs.Type)
	if cs.Comp != "" {
		cls += "/" + cs.Comp
	}
	w := mxNewWatch(c18SpinCPU, c18BlockWall)
	defer w.Stop()
	ctx := w.Ctx

	tA := mxNewTransport()
	connA := mxConn(tA, cs.AClient, cs.Comp)
	defer connA.CloseNow()
	var written []byte
	var wfail string
	if p := fw.Recover(func() {
		ncA := websocket.NetConn(ctx, connA, websocket.MessageType(cs.Type))
		off := 0
		for i, n := range cs.Writes {
			chunk := c18Content[off : off+n]
			off += n
			wn, err := ncA.Write(chunk)
			w.Tick()
			if wn != n || err != nil {
				wfail = fmt.Sprintf("Write #%d of %d bytes returned (%d, %v), want (%d, nil)", i, n, wn, err, n)
				return
			}
			written = append(written, chunk...)
		}
	}); p != "" {
		c.Violate("C18/panic", desc+": Write panicked: "+p, cs)
		return true
	}
	if wfail != "" {
		c.Violate("C18/write-count", desc+": "+wfail, cs)
		return true
	}
	c.AddTransitions(int64(len(cs.Writes)))
	wire := tA.Log()
	connA.CloseNow()

	tB := mxNewTransport(wire)
	connB := mxConn(tB, !cs.AClient, cs.Comp)
	defer connB.CloseNow()
	var got []byte
	var fail, failClass string
	guard := false
	if p := fw.Recover(func() {
		ncB := websocket.NetConn(ctx, connB, websocket.MessageType(cs.Type))
		got = make([]byte, 0, len(written))
		for i := 0; len(got) < len(written); i++ {
			buf := c18ReadBuf[:cs.Reads[i%len(cs.Reads)]]
			n, err := ncB.Read(buf)
			w.Tick()
			c.AddTransitions(1)
			if err != nil {
				if w.Fired() {
					guard = true
				}
				failClass = "C18/stream-differs/" + cls
				fail = fmt.Sprintf("Read #%d (buffer %d) returned (%d, %v) after %d of %d bytes", i, len(buf), n, err, len(got)+n, len(written))
				return
			}
			if n == 0 {
				failClass = "C18/zero-length-read"
				fail = fmt.Sprintf("Read #%d with a %d-byte buffer returned (0, nil) after %d of %d bytes (empty messages must be skipped)", i, len(buf), len(got), len(written))
				return
			}
			got = append(got, buf[:n]...)
		}
		// everything is consumed: the stream holds nothing more
		n, err := ncB.Read(c18ReadBuf[:cs.Reads[0]])
		if n > 0 || err == nil {
			if n == 0 {
				failClass = "C18/zero-length-read"
				fail = "Read after the last byte returned (0, nil)"
				return
			}
			failClass = "C18/stream-differs/" + cls
			fail = fmt.Sprintf("Read after all %d written bytes were consumed returned %d more byte(s), err=%v", len(written), n, err)
		} else if w.Fired() {
			guard = true
			failClass = "C18/stream-differs/" + cls
			fail = fmt.Sprintf("Read after the last byte only returned when the watchdog cancelled the context: %v", err)
		}
	}); p != "" {
		c.Violate("C18/panic", desc+": Read panicked: "+p, cs)
		return true
	}
	if fail == "" && !bytes.Equal(got, written) {
		failClass = "C18/stream-differs/" + cls
		fail = fmt.Sprintf("%d bytes read, %d written, first difference at offset %d", len(got), len(written), c08CommonPrefix(got, written))
	}
	if fail != "" {
		if guard {
			fail += fmt.Sprintf(" [the call did not return on its own: no call returned while the process used %v of CPU time (or %v passed), so the watchdog cancelled NetConn's context; the scripted transport never blocks]", c18SpinCPU, c18BlockWall)
		}
		c.Violate(failClass, desc+": "+fail, cs)
		return !guard
	}
	c.OutcomeStr(fmt.Sprintf("stream %s w=%v r=%v", cls, cs.Writes, cs.Reads))
	return true
}

func c18StreamCases(thorough bool) []c18Case {
	var out []c18Case
	sizes := c18WriteSizes
	if thorough {
		sizes = c18WriteSizesThorough
	}
	ws := append([][]int{{}}, c18Seqs(sizes, 3)...)
	rs := c18ReadSeqs()
	for _, w := range ws {
		for _, r := range rs {
			for _, typ := range []int{2, 1} {
				for _, ac := range []bool{true, false} {
					out = append(out, c18Case{AClient: ac, Type: typ, Writes: w, Reads: r})
				}
			}
		}
	}
	// every negotiated compression agreement, symmetric or not (later writes repeat
	// what earlier ones sent, so the two contexts have to agree)
	for _, comp := range []string{"takeover", "no-takeover", "client-nct", "server-nct"} {
		for _, w := range ws {
			for _, r := range [][]int{{4096}, {1, 70000}} {
				for _, ac := range []bool{true, false} {
					out = append(out, c18Case{AClient: ac, Type: 2, Writes: w, Reads: r, Comp: comp})
				}
			}
		}
	}
	return out
}

func c18StreamRun(c *fw.Ctx, shard, nshards int) {
	cases := c18StreamCases(c.Thorough())
	for i := 0; i < len(cases); i++ {
		if mxShardOf(i, nshards) != shard {
			continue
		}
		if c.OutOfTime() {
			c.NotExhaustive(fmt.Sprintf("time budget reached at case %d of %d", i, len(cases)))
			break
		}
		if !c18StreamOne(c, cases[i]) {
			c.NotExhaustive("a read only returned through the guard context; unit stopped after reporting it")
			break
		}
		if c.WantSample() && i%499 == 7 {
			c.Sample(cases[i])
		}
	}
	if shard == 0 {
		c.AddStates(4) // Idle, InMessage (entered by every non-empty message), EOF (transport end), Failed
	}
	c.Bound("stream_cases", len(cases))
	if c.Thorough() {
		c.Bound("write_sizes", c18WriteSizesThorough)
	} else {
		c.Bound("write_sizes", c18WriteSizes)
	}
	c.Bound("write_sequences", "length 0..3")
	c.Bound("read_buffer_sizes", c18ReadSizes)
	c.Bound("read_sequences", "length 1..3, cycled; pure repetitions of a shorter sequence dropped")
}

// ------------------------------------------------------------------ close ---

type c18CloseCase struct {
	Kind    string `json:"kind"`    // close | wrong-type
	BClient bool   `json:"client"`  // role of the reading endpoint
	Type    int    `json:"type"`    // type of the NetConn
	Code    int    `json:"code"`    // status of the peer's Close frame (kind close); 1005 = empty payload
	Reason  int    `json:"reason"`  // reason length
	Prelude string `json:"prelude"` // none | message | message-small-buffer | empty-message
	// EchoFails: the transport refuses every write, so the Close frame received
	// cannot be echoed; how the close reads through NetConn does not depend on that
	EchoFails bool `json:"echo_fails,omitempty"`
}

var c18Preludes = []string{"none", "message", "message-small-buffer", "empty-message"}
var c18EOFCodes = []int{1000, 1001}
var c18OtherCodes = []int{1002, 1003, 1008, 1011, 3000, 4000}

func c18CloseCases() []c18CloseCase {
	var out []c18CloseCase
	for _, bc := range []bool{false, true} {
		for _, typ := range []int{2, 1} {
			for _, pre := range c18Preludes {
				for _, code := range append(append([]int(nil), c18EOFCodes...), c18OtherCodes...) {
					for _, rl := range []int{0, 20, 122, 123} {
						out = append(out, c18CloseCase{Kind: "close", BClient: bc, Type: typ, Code: code, Reason: rl, Prelude: pre})
					}
					out = append(out, c18CloseCase{Kind: "close", BClient: bc, Type: typ, Code: code, Reason: 3, Prelude: pre, EchoFails: true})
				}
				out = append(out, c18CloseCase{Kind: "wrong-type", BClient: bc, Type: typ, Prelude: pre})
			}
		}
	}
	return out
}

func c18CloseOne(c *fw.Ctx, cs c18CloseCase) bool {
	c.Eval()
	c.AddTraces(1)
	desc := fmt.Sprintf("%+v", cs)
	masked := !cs.BClient
	op := byte(frame.OpBinary)
	wrongOp := byte(frame.OpText)
	if cs.Type == int(websocket.MessageText) {
		op, wrongOp = frame.OpText, frame.OpBinary
	}
	body := []byte("ten bytes!")
	var fs []frame.Frame
	var expect []byte
	switch cs.Prelude {
	case "message", "message-small-buffer":
		fs = append(fs, frame.Data(op, true, masked, body))
		expect = body
	case "empty-message":
		fs = append(fs, frame.Data(op, true, masked, nil))
	}
	if cs.Kind == "close" {
		fs = append(fs, frame.Ctl(frame.OpClose, masked, frame.ClosePayload(cs.Code, mxASCII(cs.Reason, 3))))
	} else {
		fs = append(fs, frame.Data(wrongOp, true, masked, []byte("wrong type")))
	}
	w := mxNewWatch(c18SpinCPU, c18BlockWall)
	defer w.Stop()
	ctx := w.Ctx
	t := mxNewTransport(mxEncode(fs...))
	if cs.EchoFails {
		t.WriteErr = errors.New("peer is gone")
	}
	conn := mxConn(t, cs.BClient, "")
	defer conn.CloseNow()

	bufSize := 4096
	if cs.Prelude == "message-small-buffer" {
		bufSize = 3
	}
	var got []byte
	var n1, n2 int
	var err1, err2 error
	var preFail string
	if p := fw.Recover(func() {
		nc := websocket.NetConn(ctx, conn, websocket.MessageType(cs.Type))
		for len(got) < len(expect) {
			n, err := nc.Read(c18ReadBuf[:bufSize])
			w.Tick()
			c.AddTransitions(1)
			if err != nil || n == 0 {
				preFail = fmt.Sprintf("Read returned (%d, %v) after %d of the %d bytes sent before the Close frame / wrong-type message", n, err, len(got), len(expect))
				return
			}
			got = append(got, c18ReadBuf[:n]...)
		}
		n1, err1 = nc.Read(c18ReadBuf[:bufSize])
		w.Tick()
		n2, err2 = nc.Read(c18ReadBuf[:bufSize])
		w.Tick()
		c.AddTransitions(2)
	}); p != "" {
		c.Violate("C18/panic", desc+": Read panicked: "+p, cs)
		return true
	}
	if w.Fired() {
		c.Violate("C18/read-ended-by-guard", fmt.Sprintf("%s: a Read did not return while the process used %v of CPU time (or %v passed) and only ended when the watchdog cancelled NetConn's context; the scripted transport never blocks", desc, c18SpinCPU, c18BlockWall), cs)
		return false
	}
	dir := c18Direction(!cs.BClient)
	if preFail != "" || !bytes.Equal(got, expect) {
		c.Violate("C18/stream-differs/"+dir+"/"+c18TypeName(cs.Type), fmt.Sprintf("%s: %s; read %q, want %q", desc, preFail, got, expect), cs)
		return true
	}
	if cs.Kind == "wrong-type" {
		if err1 == nil {
			c.Violate("C18/wrong-type-not-1003", fmt.Sprintf("%s: a message of the other type was read as %d bytes without error", desc, n1), cs)
			return true
		}
		if !mxHasCloseStatus(t.Log(), 1003) {
			c.Violate("C18/wrong-type-not-1003", fmt.Sprintf("%s: the read failed (%v) but no Close frame with status 1003 was written; Close frames written: %s", desc, err1, c08Closes(t.Log())), cs)
			return true
		}
		c.OutcomeStr("wrong-type " + mxRole(cs.BClient) + " " + c18TypeName(cs.Type) + " " + cs.Prelude)
		return true
	}
	isEOF := cs.Code == 1000 || cs.Code == 1001
	if isEOF {
		if err1 != io.EOF || n1 != 0 {
			c.Violate("C18/close-1000-not-EOF", fmt.Sprintf("%s: the peer closed with status %d; Read returned (%d, %v), want (0, io.EOF)", desc, cs.Code, n1, err1), cs)
			return true
		}
		if err2 != io.EOF || n2 != 0 {
			c.Violate("C18/eof-not-sticky", fmt.Sprintf("%s: the peer closed with status %d; the first Read returned io.EOF, the next one (%d, %v)", desc, cs.Code, n2, err2), cs)
			return true
		}
	} else {
		if err1 == nil || err1 == io.EOF {
			c.Violate(fmt.Sprintf("C18/abnormal-close-reads-EOF/%d", cs.Code), fmt.Sprintf("%s: the peer closed with status %d; Read returned (%d, %v), want an error other than io.EOF", desc, cs.Code, n1, err1), cs)
			return true
		}
	}
	c.OutcomeStr(fmt.Sprintf("close %s %s %s %d eof=%v", mxRole(cs.BClient), c18TypeName(cs.Type), cs.Prelude, cs.Code, isEOF))
	return true
}

func c18CloseRun(c *fw.Ctx, shard, nshards int) {
	cases := c18CloseCases()
	for i := shard; i < len(cases); i += nshards {
		if !c18CloseOne(c, cases[i]) {
			c.NotExhaustive("a read only returned through the guard context; unit stopped after reporting it")
			break
		}
		if c.WantSample() && i%41 == 3 {
			c.Sample(cases[i])
		}
	}
	if shard == 0 {
		c.AddStates(4)
	}
	c.Bound("close_cases", len(cases))
	c.Bound("close_codes_eof", c18EOFCodes)
	c.Bound("close_codes_error", c18OtherCodes)
	c.Bound("preludes", c18Preludes)
}

func init() {
	fw.Register(fw.Part{
		Prop: "C18", Name: "stream",
		Units: func(tier string) []fw.Unit { return fw.Shards("seqs", 16, c18StreamRun) },
		Replay: func(c *fw.Ctx, data json.RawMessage) {
			var cs c18Case
			if json.Unmarshal(data, &cs) != nil || len(cs.Reads) == 0 {
				c.EngineError("bad replay data")
				return
			}
			c18StreamOne(c, cs)
		},
	})
	fw.Register(fw.Part{
		Prop: "C18", Name: "close",
		Units: func(tier string) []fw.Unit { return fw.Shards("cases", 2, c18CloseRun) },
		Replay: func(c *fw.Ctx, data json.RawMessage) {
			var cs c18CloseCase
			if json.Unmarshal(data, &cs) != nil {
				c.EngineError("bad replay data")
				return
			}
			c18CloseOne(c, cs)
		},
	})
}
