package seq

import (
	"bytes"
	"encoding/json"
	"fmt"
	"io"

	"nhooyr.io/websocket"
	"verif/fw"
	"verif/refws/deflate"
	"verif/refws/frame"
)

// C18, part foreign: the peer is not this library. Its messages are compressed
// (sync-flush or BFINAL-terminated deflate streams, RFC 7692 7.2.3.4),
// fragmented, separated by empty messages and control frames, and end with a
// normal close. Read through NetConn with every buffer size the concatenation
// of all payloads arrives, followed by io.EOF.

type c18ForeignCase struct {
	BClient bool   `json:"b_client"`
	Comp    string `json:"comp"`   // "" | takeover | no-takeover
	BFinal  bool   `json:"bfinal"` // compressed messages end with a final block
	Frag    bool   `json:"frag"`   // every message is split into three fragments with a Ping in between
	Buf     int    `json:"buf"`
}

func c18ForeignOne(c *fw.Ctx, cs c18ForeignCase) { c18ForeignOneP(c, cs, "C18") }

// c18ForeignOneP: the same case reported under another property (C03: what reads
// return equals what the peer sent, through every read API).
func c18ForeignOneP(c *fw.Ctx, cs c18ForeignCase, prop string) {
	c.Eval()
	c.AddTraces(1)
	desc := fmt.Sprintf("%+v", cs)
	masked := !cs.BClient
	def := &deflate.Deflater{NoContextTakeover: cs.Comp == "no-takeover"}
	msgs := [][]byte{
		[]byte("first message first message first message"),
		nil, // empty messages are skipped by the adapter
		bytes.Repeat([]byte("second message, longer than one read buffer. "), 120),
		[]byte("first message first message, again (refers back under context takeover)"),
	}
	var in []byte
	var want []byte
	for _, m := range msgs {
		want = append(want, m...)
		wire, rsv1 := m, false
		if cs.Comp != "" {
			rsv1 = true
			if cs.BFinal {
				wire = def.MessageBFinal(m)
			} else {
				wire = def.Message(m)
			}
		}
		if cs.Frag && len(wire) >= 3 {
			a, b := len(wire)/3, 2*len(wire)/3
			in = append(in, frame.Frame{Fin: false, Rsv1: rsv1, Opcode: frame.OpBinary, Masked: masked, Key: [4]byte{9, 8, 7, 6}, Payload: wire[:a]}.Encode(nil)...)
			in = append(in, frame.Ctl(frame.OpPing, masked, []byte("p")).Encode(nil)...)
			in = append(in, frame.Frame{Fin: false, Opcode: frame.OpCont, Masked: masked, Key: [4]byte{9, 8, 7, 5}, Payload: wire[a:b]}.Encode(nil)...)
			in = append(in, frame.Frame{Fin: true, Opcode: frame.OpCont, Masked: masked, Key: [4]byte{9, 8, 7, 4}, Payload: wire[b:]}.Encode(nil)...)
		} else {
			in = append(in, frame.Frame{Fin: true, Rsv1: rsv1, Opcode: frame.OpBinary, Masked: masked, Key: [4]byte{9, 8, 7, 6}, Payload: wire}.Encode(nil)...)
		}
	}
	in = append(in, frame.Ctl(frame.OpClose, masked, frame.ClosePayload(1000, "")).Encode(nil)...)
	w := mxNewWatch(c18SpinCPU, c18BlockWall)
	defer w.Stop()
	t := mxNewTransport(in)
	conn := mxConn(t, cs.BClient, cs.Comp)
	defer conn.CloseNow()
	var got []byte
	var rerr error
	if p := fw.Recover(func() {
		nc := websocket.NetConn(w.Ctx, conn, websocket.MessageBinary)
		buf := make([]byte, cs.Buf)
		for i := 0; i < 1<<20; i++ {
			n, err := nc.Read(buf)
			w.Tick()
			c.AddTransitions(1)
			got = append(got, buf[:n]...)
			if err != nil {
				rerr = err
				return
			}
		}
	}); p != "" {
		c.Violate(prop+"/panic", desc+": "+p, cs)
		return
	}
	c.OutcomeStr(fmt.Sprintf("foreign|%v|%s|%v|%v|%d|%d|%v", cs.BClient, cs.Comp, cs.BFinal, cs.Frag, cs.Buf, len(got), rerr == io.EOF))
	if !bytes.Equal(got, want) {
		k := 0
		for k < len(got) && k < len(want) && got[k] == want[k] {
			k++
		}
		c.Violate(prop+"/stream-differs/foreign-sender", fmt.Sprintf("%s: NetConn delivered %d bytes, the peer sent %d; first difference at offset %d; err=%v", desc, len(got), len(want), k, rerr), cs)
		return
	}
	if rerr != io.EOF {
		c.Violate(prop+"/normal-close-not-eof/foreign-sender", fmt.Sprintf("%s: after all bytes and a Close frame with status 1000 the read returned %v, want io.EOF", desc, rerr), cs)
	}
}

func c18ForeignCases() []c18ForeignCase {
	var out []c18ForeignCase
	for _, client := range []bool{false, true} {
		for _, comp := range []string{"", "takeover", "no-takeover"} {
			for _, bf := range []bool{false, true} {
				if bf && comp == "" {
					continue
				}
				for _, frag := range []bool{false, true} {
					for _, buf := range []int{1, 7, 512, 4096, 70000} {
						out = append(out, c18ForeignCase{BClient: client, Comp: comp, BFinal: bf, Frag: frag, Buf: buf})
					}
				}
			}
		}
	}
	return out
}

func init() {
	fw.Register(fw.Part{
		Prop: "C03", Name: "netconn",
		Units: func(tier string) []fw.Unit {
			return []fw.Unit{{ID: "cases", Run: func(c *fw.Ctx) {
				cases := c18ForeignCases()
				for _, cs := range cases {
					c18ForeignOneP(c, cs, "C03")
				}
				c.AddStates(int64(len(cases)))
				c.Bound("netconn_foreign_sender_cases", len(cases))
			}}}
		},
		Replay: func(c *fw.Ctx, data json.RawMessage) {
			var cs c18ForeignCase
			if json.Unmarshal(data, &cs) != nil {
				c.EngineError("bad replay data")
				return
			}
			c18ForeignOneP(c, cs, "C03")
		},
	})
	fw.Register(fw.Part{
		Prop: "C18", Name: "foreign",
		Units: func(tier string) []fw.Unit {
			return []fw.Unit{{ID: "cases", Run: func(c *fw.Ctx) {
				cases := c18ForeignCases()
				for _, cs := range cases {
					c18ForeignOne(c, cs)
				}
				c.AddStates(int64(len(cases)))
				c.Sample(cases[11])
				c.Bound("foreign_sender_cases", len(cases))
			}}}
		},
		Replay: func(c *fw.Ctx, data json.RawMessage) {
			var cs c18ForeignCase
			if json.Unmarshal(data, &cs) != nil {
				c.EngineError("bad replay data")
				return
			}
			c18ForeignOne(c, cs)
		},
	})
}
