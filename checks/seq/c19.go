package seq

import (
	"bytes"
	"encoding/json"
	"errors"
	"fmt"
	"io"
	"math"
	"net"
	"reflect"
	"runtime"
	"strings"
	"time"

	"nhooyr.io/websocket"
	"nhooyr.io/websocket/wsjson"
	"verif/fw"
	"verif/refws/deflate"
	"verif/refws/frame"
)

// C19: wsjson. Part "values": every value of a recursive generator (depth 3,
// width 2) is written with wsjson.Write on endpoint A over a log transport;
// the log must hold exactly one text message per Write whose payload is the
// value's JSON; the log is then the scripted input of endpoint B (opposite
// role) where wsjson.Read decodes it into several targets; results must equal
// what encoding/json (trusted base) decodes from the same document and must
// stay unchanged while later reads reuse the pooled buffers. Part "malformed":
// documents that are not valid JSON for the target.

// ----------------------------------------------------------------- values ---

var c19Big = strings.Repeat("QUJDREVGR0hJSktMTU5PUFFSU1RVVldYWVowMTIzNDU2Nzg5", 40960/48+1)[:40960] // 40 KiB, valid base64

func c19Leaves() []interface{} {
	return []interface{}{nil, true, 0, -1.5e3, int64(1<<53 + 1), "", "é\u0000", c19Big}
}

// c19Level returns the values of depth exactly <= d built from pool (values of
// smaller depth): pool itself plus slices and maps of width 0..2 over pool.
func c19Containers(pool []interface{}) []interface{} {
	var out []interface{}
	out = append(out, []interface{}{}, map[string]interface{}{})
	for _, a := range pool {
		out = append(out, []interface{}{a}, map[string]interface{}{"a": a})
	}
	for _, a := range pool {
		for _, b := range pool {
			out = append(out, []interface{}{a, b}, map[string]interface{}{"a": a, "b": b})
		}
	}
	return out
}

// c19Values: depth 1 = leaves, depth 2 = containers of leaves, depth 3 =
// containers over all depth <= 2 values. In tier quick the depth-3 containers
// of width 2 take their second element from a stride over the pool so that the
// check stays within its time budget; thorough takes all.
func c19Values(thorough bool) []interface{} {
	d1 := c19Leaves()
	d2 := c19Containers(d1)
	pool := append(append([]interface{}{}, d1...), d2...)
	out := append([]interface{}{}, pool...)
	// documents larger than anything a size-capped buffer pool would keep (the
	// reader has its limit raised); they come first, so that every later read in
	// the process draws from pools these have been through
	huge := strings.Repeat("0123456789abcdef", 300<<6) // 300 KiB
	out = append([]interface{}{huge, []interface{}{huge[:270000], 1}}, out...)
	out = append(out, []interface{}{}, map[string]interface{}{})
	for _, a := range pool {
		out = append(out, []interface{}{a}, map[string]interface{}{"a": a})
	}
	stride := 7
	if thorough {
		stride = 1
	}
	for i, a := range pool {
		for j := i % stride; j < len(pool); j += stride {
			b := pool[j]
			out = append(out, []interface{}{a, b}, map[string]interface{}{"a": a, "b": b})
		}
	}
	return out
}

// c19Canon: canonical bytes of a JSON document (numbers kept literally, object
// keys sorted): two documents are JSON-equivalent iff their canonical bytes are equal.
func c19Canon(doc []byte) ([]byte, error) {
	dec := json.NewDecoder(bytes.NewReader(doc))
	dec.UseNumber()
	var v interface{}
	if err := dec.Decode(&v); err != nil {
		return nil, err
	}
	// nothing but white space may follow
	var extra interface{}
	if err := dec.Decode(&extra); err != io.EOF {
		return nil, fmt.Errorf("the document holds more than one JSON value (second decode: %v)", err)
	}
	return json.Marshal(v)
}

type c19Obj struct {
	A interface{} `json:"a"`
	B interface{} `json:"b"`
}

type c19Raw struct {
	A json.RawMessage `json:"a"`
	B json.RawMessage `json:"b"`
}

type c19Bytes struct {
	Data []byte          `json:"data"`
	Raw  json.RawMessage `json:"raw"`
}

// c19Targets lists the targets applicable to a value.
func c19Targets(v interface{}) []string {
	ts := []string{"interface", "raw"}
	switch x := v.(type) {
	case map[string]interface{}:
		ts = append(ts, "struct", "struct-raw")
	case string:
		ts = append(ts, "string")
		if x == "" || x == c19Big {
			ts = append(ts, "bytes")
		}
	}
	return ts
}

func c19NewTarget(name string) interface{} {
	switch name {
	case "interface":
		return new(interface{})
	case "raw":
		return new(json.RawMessage)
	case "struct":
		return new(c19Obj)
	case "struct-raw":
		return new(c19Raw)
	case "string":
		return new(string)
	case "bytes":
		return new([]byte)
	case "bytes-struct":
		return new(c19Bytes)
	}
	panic("c19: unknown target " + name)
}

type c19Case struct {
	Idx     int  `json:"idx"` // index into c19Values(tier)
	AClient bool `json:"a_client"`
	Comp    bool `json:"comp"`
	Thor    bool `json:"thorough"`
}

func c19CompMode(on bool) string {
	if on {
		return "takeover"
	}
	return ""
}

func c19Abbrev(b []byte) string {
	if len(b) > 120 {
		return fmt.Sprintf("%s…(%d bytes)", b[:120], len(b))
	}
	return string(b)
}

// c19Message validates one Write's output delta: exactly one text message.
func c19Message(delta []byte, senderClient, comp bool, inf *deflate.Inflater) (payload []byte, problem string) {
	res := frame.Validate(delta, frame.StreamRules{SenderIsClient: senderClient, Deflate: comp})
	switch {
	case len(res.Violations) > 0:
		return nil, fmt.Sprintf("the frames of the message break a framing rule: %v", res.Violations[0])
	case len(res.Rest) > 0 || res.InMessage:
		return nil, "the output ends inside a frame or inside a fragmented message"
	case len(res.Controls) > 0:
		return nil, fmt.Sprintf("%d control frame(s) were written", len(res.Controls))
	case len(res.Messages) != 1:
		return nil, fmt.Sprintf("%d data messages were written, want exactly 1", len(res.Messages))
	case res.Messages[0].Opcode != frame.OpText:
		return nil, fmt.Sprintf("the message has opcode %d, want text", res.Messages[0].Opcode)
	}
	m := res.Messages[0]
	if !m.Compressed {
		return m.Payload, ""
	}
	p, err := inf.Message(m.Payload)
	if err != nil {
		return nil, "the compressed message does not inflate: " + err.Error()
	}
	return p, ""
}

func c19ValueOne(c *fw.Ctx, cs c19Case, vals []interface{}) {
	c.Eval()
	if cs.Idx < 0 || cs.Idx >= len(vals) {
		c.EngineError(fmt.Sprintf("bad value index %d", cs.Idx))
		return
	}
	v := vals[cs.Idx]
	want, err := json.Marshal(v)
	if err != nil {
		c.EngineError("generator produced a value encoding/json cannot marshal: " + err.Error())
		return
	}
	wantCanon, err := c19Canon(want)
	if err != nil {
		c.EngineError("canonicalisation of the expected document failed: " + err.Error())
		return
	}
	desc := fmt.Sprintf("%+v value=%s", cs, c19Abbrev(want))
	targets := c19Targets(v)
	ctx, cancel := mxGuard(mxGuardTime)
	defer cancel()

	// --- writer side: one Write per target (B consumes one message per read)
	tA := mxNewTransport()
	connA := mxConn(tA, cs.AClient, c19CompMode(cs.Comp))
	defer connA.CloseNow()
	inf := &deflate.Inflater{}
	for i := range targets {
		before := tA.LogLen()
		var werr error
		if p := fw.Recover(func() { werr = wsjson.Write(ctx, connA, v) }); p != "" {
			c.Violate("C19/panic", desc+": wsjson.Write panicked: "+p, cs)
			return
		}
		if werr != nil {
			c.Violate("C19/write-failed", fmt.Sprintf("%s: wsjson.Write #%d returned %v", desc, i, werr), cs)
			return
		}
		payload, problem := c19Message(tA.Log()[before:], cs.AClient, cs.Comp, inf)
		if problem != "" {
			c.Violate("C19/not-one-text-message", fmt.Sprintf("%s: wsjson.Write #%d: %s", desc, i, problem), cs)
			return
		}
		gotCanon, err := c19Canon(payload)
		if err != nil || !bytes.Equal(gotCanon, wantCanon) {
			c.Violate("C19/wire-json-differs", fmt.Sprintf("%s: wsjson.Write #%d put %s on the wire (parse: %v), which is not JSON-equivalent to the value", desc, i, c19Abbrev(payload), err), cs)
			return
		}
	}
	wire := tA.Log()
	connA.CloseNow()

	// --- reader side
	tB := mxNewTransport(wire)
	connB := mxConn(tB, !cs.AClient, c19CompMode(cs.Comp))
	defer connB.CloseNow()
	connB.SetReadLimit(-1)
	type kept struct {
		name   string
		target interface{}
		copy   []byte // private deep copy (JSON of the decoded target) taken right after the read
	}
	var keep []kept
	for _, name := range targets {
		got := c19NewTarget(name)
		var rerr error
		if p := fw.Recover(func() { rerr = wsjson.Read(ctx, connB, got) }); p != "" {
			c.Violate("C19/panic", desc+": wsjson.Read panicked: "+p, cs)
			return
		}
		exp := c19NewTarget(name)
		experr := json.Unmarshal(want, exp)
		if experr != nil {
			c.EngineError(fmt.Sprintf("%s: encoding/json cannot decode the document into target %s: %v", desc, name, experr))
			return
		}
		if rerr != nil {
			c.Violate("C19/decoded-differs/"+name, fmt.Sprintf("%s: wsjson.Read into target %s returned %v; encoding/json decodes the document without error", desc, name, rerr), cs)
			return
		}
		gj, _ := json.Marshal(got)
		ej, _ := json.Marshal(exp)
		if !reflect.DeepEqual(got, exp) || !bytes.Equal(gj, ej) {
			c.Violate("C19/decoded-differs/"+name, fmt.Sprintf("%s: wsjson.Read into target %s decoded %s, want %s", desc, name, c19Abbrev(gj), c19Abbrev(ej)), cs)
			return
		}
		keep = append(keep, kept{name, got, append([]byte(nil), gj...)})
		// every earlier result must have survived this read (same pooled buffer)
		for _, k := range keep[:len(keep)-1] {
			now, _ := json.Marshal(k.target)
			if !bytes.Equal(now, k.copy) {
				c.Violate("C19/decoded-result-aliased-by-pool/"+k.name, fmt.Sprintf("%s: the value decoded earlier into target %s changed from %s to %s while a later wsjson.Read ran on the same connection", desc, k.name, c19Abbrev(k.copy), c19Abbrev(now)), cs)
				return
			}
		}
	}
	if len(mxCloseFrames(tB.Log())) != 0 {
		c.Violate("C19/decoded-differs/interface", fmt.Sprintf("%s: the reader wrote a Close frame although every document was valid: %s", desc, c08Closes(tB.Log())), cs)
		return
	}
	c.OutcomeStr(fmt.Sprintf("value %d a=%v comp=%v", cs.Idx, cs.AClient, cs.Comp))
}

func c19ValueRun(c *fw.Ctx, shard, nshards int) {
	vals := c19Values(c.Thorough())
	total := len(vals) * 4
	for i := 0; i < total; i++ {
		if mxShardOf(i/4, nshards) != shard {
			continue
		}
		if i&63 == 0 && c.OutOfTime() {
			c.NotExhaustive(fmt.Sprintf("time budget reached at case %d of %d", i, total))
			break
		}
		cs := c19Case{Idx: i / 4, AClient: i%2 == 1, Comp: i/2%2 == 1, Thor: c.Thorough()}
		c19ValueOne(c, cs, vals)
		if c.WantSample() && i%211 == 9 {
			c.Sample(cs)
		}
	}
	c.Bound("values", len(vals))
	c.Bound("value_cases", total)
	c.Bound("leaves", "null true 0 -1500 2^53+1 \"\" \"é\\u0000\" 40KiB-string")
	c.Bound("generator", "depth 3, containers (slice, object) of width 0..2; tier quick: second element of depth-3 width-2 containers strides 7 over the pool")
	c.Bound("targets", "interface{} RawMessage struct{interface{}} struct{RawMessage} string []byte")
}

// --------------------------------------------------------------- aliasing ---

// c19AliasCase: value 1 is read into RawMessage-/[]byte-bearing targets, then a
// different, larger message is read on the same connection and on a second
// one; the first results must be unchanged.
type c19AliasCase struct {
	Target string `json:"target"` // raw | bytes | bytes-struct | struct-raw | interface | string
	Client bool   `json:"client"` // role of the reading endpoint
	Comp   bool   `json:"comp"`
	Second string `json:"second"` // same-conn | other-conn | both | nested-other-conn
	Size   int    `json:"size"`   // size class of the first document
}

func c19AliasDocs(target string, size int) (first, second []byte) {
	pad := strings.Repeat("QUJD", size/4)
	padJSON, _ := json.Marshal(pad)
	switch target {
	case "bytes", "string":
		first = padJSON
		second, _ = json.Marshal(strings.Repeat("WFla", size/4+4096))
	case "bytes-struct":
		first = []byte(`{"data":` + string(padJSON) + `,"raw":[1,2,` + string(padJSON) + `]}`)
		second = []byte(`{"data":"` + strings.Repeat("WFla", size/4+4096) + `","raw":{"zzzz":"` + strings.Repeat("z", size+9000) + `"}}`)
	case "struct-raw":
		first = []byte(`{"a":[` + string(padJSON) + `],"b":{"k":` + string(padJSON) + `}}`)
		second = []byte(`{"a":"` + strings.Repeat("y", size+9000) + `","b":"` + strings.Repeat("w", size+9000) + `"}`)
	default:
		first = []byte(`{"k":[1,2,3,` + string(padJSON) + `]}`)
		second = []byte(`["` + strings.Repeat("x", size+9000) + `"]`)
	}
	return first, second
}

func c19AliasOne(c *fw.Ctx, cs c19AliasCase) {
	c.Eval()
	desc := fmt.Sprintf("%+v", cs)
	first, second := c19AliasDocs(cs.Target, cs.Size)
	masked := !cs.Client
	def := &deflate.Deflater{}
	enc := func(doc []byte) []byte {
		if cs.Comp {
			return mxEncode(mxSplit(frame.OpText, masked, true, def.Message(doc), nil)...)
		}
		return mxEncode(mxSplit(frame.OpText, masked, false, doc, nil)...)
	}
	firstWire := enc(first)
	in := append(append([]byte(nil), firstWire...), enc(second)...)
	in = append(in, enc(second)...)
	ctx, cancel := mxGuard(mxGuardTime)
	defer cancel()
	t := mxNewTransport(in)
	nestedRan, nestedFail := false, ""
	if cs.Second == "nested-other-conn" {
		// One P for the duration of the case: sync.Pool hands a buffer back to
		// the P that put it, so with a single P "the buffer is in the pool" and
		// "the next Get returns it" coincide and the case is deterministic.
		defer runtime.GOMAXPROCS(runtime.GOMAXPROCS(1))
		// The first document arrives in two pieces; while the library waits for
		// the second piece (inside wsjson.Read of this connection) a complete
		// wsjson.Read of a larger document runs on another connection, the way a
		// second goroutine could at that moment.
		cut := len(firstWire) - len(firstWire)/3
		t = mxNewTransport(append([]byte(nil), in[:cut]...), append([]byte(nil), in[cut:]...))
		def2 := &deflate.Deflater{}
		wire2 := second
		if cs.Comp {
			wire2 = def2.Message(second)
		}
		t2 := mxNewTransport(mxEncode(mxSplit(frame.OpText, masked, cs.Comp, wire2, nil)...))
		conn2 := mxConn(t2, cs.Client, c19CompMode(cs.Comp))
		defer conn2.CloseNow()
		conn2.SetReadLimit(-1)
		t.Hook = func(call int) {
			if call != 2 || nestedRan {
				return
			}
			nestedRan = true
			var sink interface{}
			var e error
			if p := fw.Recover(func() { e = wsjson.Read(ctx, conn2, &sink) }); p != "" {
				nestedFail = "nested wsjson.Read panicked: " + p
			} else if e != nil {
				nestedFail = "nested wsjson.Read on the other connection failed: " + e.Error()
			}
		}
	}
	conn := mxConn(t, cs.Client, c19CompMode(cs.Comp))
	defer conn.CloseNow()
	conn.SetReadLimit(-1)

	got := c19NewTarget(cs.Target)
	var err error
	if p := fw.Recover(func() { err = wsjson.Read(ctx, conn, got) }); p != "" {
		c.Violate("C19/panic", desc+": wsjson.Read panicked: "+p, cs)
		return
	}
	exp := c19NewTarget(cs.Target)
	if e := json.Unmarshal(first, exp); e != nil {
		c.EngineError(desc + ": bad alias document: " + e.Error())
		return
	}
	if cs.Second == "nested-other-conn" {
		if !nestedRan {
			c.EngineError(desc + ": the transport was not read a second time during the first wsjson.Read; the nested read did not run")
			return
		}
		if nestedFail != "" {
			c.Violate("C19/decoded-differs/interface", desc+": "+nestedFail, cs)
			return
		}
		if err != nil || !reflect.DeepEqual(got, exp) {
			gj, _ := json.Marshal(got)
			c.Violate("C19/decoded-result-aliased-by-pool/"+cs.Target, fmt.Sprintf("%s: while this wsjson.Read waited for the rest of its message another connection completed a wsjson.Read; afterwards this read returned %v and decoded %s instead of the document sent (pooled buffer shared between two reads in progress)", desc, err, c19Abbrev(gj)), cs)
			return
		}
	}
	if err != nil || !reflect.DeepEqual(got, exp) {
		c.Violate("C19/decoded-differs/"+cs.Target, fmt.Sprintf("%s: first read returned %v and a value that differs from encoding/json's decoding", desc, err), cs)
		return
	}
	private, _ := json.Marshal(got)
	private = append([]byte(nil), private...)

	readMore := func(cn *websocket.Conn, n int) bool {
		for i := 0; i < n; i++ {
			var sink interface{}
			var e error
			if p := fw.Recover(func() { e = wsjson.Read(ctx, cn, &sink) }); p != "" {
				c.Violate("C19/panic", desc+": wsjson.Read panicked: "+p, cs)
				return false
			}
			if e != nil {
				c.Violate("C19/decoded-differs/interface", fmt.Sprintf("%s: reading the larger follow-up document failed: %v", desc, e), cs)
				return false
			}
		}
		return true
	}
	if cs.Second == "same-conn" || cs.Second == "both" {
		if !readMore(conn, 2) {
			return
		}
	}
	if cs.Second == "other-conn" || cs.Second == "both" {
		def = &deflate.Deflater{}
		t2 := mxNewTransport(append(enc(second), enc(second)...))
		conn2 := mxConn(t2, cs.Client, c19CompMode(cs.Comp))
		conn2.SetReadLimit(-1)
		ok := readMore(conn2, 2)
		conn2.CloseNow()
		if !ok {
			return
		}
	}
	now, _ := json.Marshal(got)
	if !bytes.Equal(now, private) || !reflect.DeepEqual(got, exp) {
		c.Violate("C19/decoded-result-aliased-by-pool/"+cs.Target, fmt.Sprintf("%s: the value decoded by the first wsjson.Read changed after later reads reused the pooled buffer: was %s, now %s", desc, c19Abbrev(private), c19Abbrev(now)), cs)
		return
	}
	c.OutcomeStr("alias " + desc)
}

func c19AliasCases() []c19AliasCase {
	var out []c19AliasCase
	for _, tg := range []string{"raw", "bytes", "bytes-struct", "struct-raw", "interface", "string"} {
		for _, client := range []bool{false, true} {
			for _, comp := range []bool{false, true} {
				for _, sec := range []string{"same-conn", "other-conn", "both", "nested-other-conn"} {
					for _, size := range []int{8, 64, 600, 5000, 40000} {
						out = append(out, c19AliasCase{Target: tg, Client: client, Comp: comp, Second: sec, Size: size})
					}
				}
			}
		}
	}
	return out
}

// -------------------------------------------------------------- malformed ---

type c19BadCase struct {
	Kind    string `json:"kind"`
	Target  string `json:"target"`
	Client  bool   `json:"client"` // role of the reading endpoint
	Comp    bool   `json:"comp"`
	Binary  bool   `json:"binary"`  // sent as a binary message
	Frag    bool   `json:"frag"`    // split into two frames
	Prelude bool   `json:"prelude"` // a valid document is read first
}

type c19Typed struct {
	N int `json:"n"`
}

// c19Rich has fields whose decoders refuse some well-formed JSON strings.
type c19Rich struct {
	B  []byte    `json:"b"`
	T  time.Time `json:"t"`
	IP net.IP    `json:"ip"`
	U  c19Upper  `json:"u"`
}

// c19Upper is a TextUnmarshaler that accepts upper-case ASCII letters only.
type c19Upper string

func (u *c19Upper) UnmarshalText(b []byte) error {
	for _, ch := range b {
		if ch < 'A' || ch > 'Z' {
			return fmt.Errorf("c19Upper: %q is not upper case", b)
		}
	}
	*u = c19Upper(b)
	return nil
}

var c19BadDocs = []struct {
	Kind string
	Doc  []byte
}{
	{"truncated", []byte(`{"a":[1,2,{"b":"c"`)},
	{"open-brace", []byte(`{`)},
	{"trailing-comma", []byte(`[1,]`)},
	{"empty-message", nil},
	{"binary-garbage", []byte{0xff, 0xfe, 0x00, 0x01, 0x80, 0x7f, 0x00}},
	{"trailing-garbage", []byte(`{"n":1} x`)},
	{"two-documents", []byte(`{"n":1} {"n":2}`)},
	{"bare-word", []byte(`nul`)},
	{"wrong-type-for-target", []byte(`{"n":"a string"}`)}, // valid JSON, but not for struct{N int}
	// documents whose decoding error text is long (the text must not leak into a Close reason over 123 bytes)
	{"wrong-type-long-literal", []byte(`{"n":` + strings.Repeat("9", 140) + `}`)},
	{"wrong-type-long-string", []byte(`{"n":"` + strings.Repeat("long string value ", 12) + `"}`)},
	{"truncated-long", []byte(`{"` + strings.Repeat("k", 200) + `":[1,2,`)},
	// well-formed JSON of the right kind whose content the target's decoder refuses
	{"target-refuses-base64", []byte(`{"b":"!!! not base64 !!!"}`)},
	{"target-refuses-unpadded-base64", []byte(`{"b":"QUJDRA"}`)},
	{"target-refuses-time", []byte(`{"t":"yesterday"}`)},
	{"target-refuses-ip", []byte(`{"ip":"999.1.1.1"}`)},
	{"target-refuses-text", []byte(`{"u":"lower"}`)},
	// a valid document behind bytes that are not JSON white space (RFC 8259: space, tab, LF, CR only)
	{"prefixed-utf8-bom", []byte("\xef\xbb\xbf{\"a\":1}")},
	{"prefixed-nul", []byte("\x00{\"a\":1}")},
	{"prefixed-nbsp", []byte("\xc2\xa0{\"a\":1}")},
	{"prefixed-vertical-tab", []byte("\v{\"a\":1}")},
	{"suffixed-utf8-bom", []byte("{\"a\":1}\xef\xbb\xbf")},
	{"suffixed-nul", []byte("{\"a\":1}\x00")},
	// the transport ends cleanly after a non-final fragment whose bytes are a valid document on their own
	{"cut-after-fragment-number", []byte(`12345`)},
	{"cut-after-fragment-array", []byte(`[1]  ,2]`)},
}

// c19CutAt: for the cut-* kinds, the number of bytes in the only fragment that arrives.
func c19CutAt(kind string) int {
	switch kind {
	case "cut-after-fragment-number":
		return 2 // "12"
	case "cut-after-fragment-array":
		return 3 // "[1]"
	}
	return -1
}

func c19BadCases() []c19BadCase {
	var out []c19BadCase
	for _, d := range c19BadDocs {
		targets := []string{"interface", "raw", "struct", "typed"}
		if strings.HasPrefix(d.Kind, "wrong-type") {
			targets = []string{"typed"}
		}
		if strings.HasPrefix(d.Kind, "target-refuses") {
			targets = []string{"rich"}
		}
		if strings.HasPrefix(d.Kind, "cut-") {
			targets = []string{"interface", "raw"}
		}
		for _, tg := range targets {
			for i := 0; i < 32; i++ {
				out = append(out, c19BadCase{Kind: d.Kind, Target: tg, Client: i&1 != 0, Comp: i&2 != 0, Binary: i&4 != 0, Frag: i&8 != 0, Prelude: i&16 != 0})
			}
		}
	}
	return out
}

func c19BadOne(c *fw.Ctx, cs c19BadCase) {
	c.Eval()
	desc := fmt.Sprintf("%+v", cs)
	var doc []byte
	found := false
	for _, d := range c19BadDocs {
		if d.Kind == cs.Kind {
			doc, found = d.Doc, true
		}
	}
	if !found {
		c.EngineError("unknown malformed kind " + cs.Kind)
		return
	}
	newTarget := func() interface{} {
		switch cs.Target {
		case "typed":
			return new(c19Typed)
		case "rich":
			return new(c19Rich)
		}
		return c19NewTarget(cs.Target)
	}
	cutAt := c19CutAt(cs.Kind)
	// the trusted base must agree that the document is not valid for the target
	if cutAt < 0 && json.Unmarshal(doc, newTarget()) == nil {
		c.EngineError(fmt.Sprintf("%s: encoding/json accepts the document %q for this target", desc, doc))
		return
	}
	masked := !cs.Client
	def := &deflate.Deflater{}
	enc := func(op byte, doc []byte) []byte {
		wire := doc
		if cs.Comp {
			wire = def.Message(doc)
		}
		var cuts []int
		if cs.Frag {
			cuts = []int{len(wire) / 2}
		}
		return mxEncode(mxSplit(op, masked, cs.Comp, wire, cuts)...)
	}
	var in []byte
	if cs.Prelude {
		prelude := `{"n":7,"a":[true,null],"b":"ok"}`
		if cs.Target == "rich" {
			prelude = `{"b":"QUJD","t":"2020-01-02T03:04:05Z","ip":"10.0.0.1","u":"UP"}`
		}
		in = append(in, enc(frame.OpText, []byte(prelude))...)
	}
	op := byte(frame.OpText)
	if cs.Binary {
		op = frame.OpBinary
	}
	if cutAt >= 0 {
		// only a first, non-final fragment arrives; then the transport ends (uncompressed)
		in = append(in, frame.Frame{Fin: false, Opcode: op, Masked: masked, Key: [4]byte{3, 1, 4, 1}, Payload: doc[:cutAt]}.Encode(nil)...)
	} else {
		in = append(in, enc(op, doc)...)
	}
	ctx, cancel := mxGuard(mxGuardTime)
	defer cancel()
	t := mxNewTransport(in)
	conn := mxConn(t, cs.Client, c19CompMode(cs.Comp))
	defer conn.CloseNow()
	if cs.Prelude {
		var err error
		if p := fw.Recover(func() { err = wsjson.Read(ctx, conn, newTarget()) }); p != "" {
			c.Violate("C19/panic", desc+": wsjson.Read panicked: "+p, cs)
			return
		}
		if err != nil {
			c.Violate("C19/decoded-differs/"+cs.Target, fmt.Sprintf("%s: the valid document before the malformed one was refused: %v", desc, err), cs)
			return
		}
	}
	var err error
	target := newTarget()
	if p := fw.Recover(func() { err = wsjson.Read(ctx, conn, target) }); p != "" {
		c.Violate("C19/panic", desc+": wsjson.Read panicked: "+p, cs)
		return
	}
	if mxHung(err) {
		c.EngineError(desc + ": hang guard fired: " + err.Error())
		return
	}
	if err == nil {
		tj, _ := json.Marshal(target)
		c.Violate("C19/invalid-json-accepted/"+cs.Kind, fmt.Sprintf("%s: wsjson.Read returned nil for the document %q (target now %s)", desc, doc, c19Abbrev(tj)), cs)
		return
	}
	if cutAt >= 0 {
		c.OutcomeStr("cut " + desc)
		return // the message never arrived completely: an error is all that is required
	}
	if !mxHasCloseStatus(t.Log(), 1007) {
		c.Violate("C19/invalid-json-no-1007/"+cs.Kind, fmt.Sprintf("%s: wsjson.Read failed (%v) but no Close frame with status 1007 was written; Close frames written: %s", desc, err, c08Closes(t.Log())), cs)
		return
	}
	c.OutcomeStr("bad " + desc)
}

// ---------------------------------------------------------- unencodable ---

// c19UnencCase: a value encoding/json cannot marshal is written (the call must
// fail), framed by ordinary writes on the same connection: every ordinary
// write still produces exactly one text message.
type c19UnencCase struct {
	Kind   string `json:"kind"`
	Client bool   `json:"client"`
	Comp   bool   `json:"comp"`
	Before bool   `json:"before"` // an ordinary write precedes the failing one
}

type c19FailingMarshaler struct{}

func (c19FailingMarshaler) MarshalJSON() ([]byte, error) { return nil, errors.New("cannot marshal") }

var c19UnencKinds = []string{"nan", "inf", "nested-nan", "chan", "func", "failing-marshaler", "invalid-raw-message", "big-then-nan"}

func c19Unencodable(kind string) interface{} {
	switch kind {
	case "nan":
		return math.NaN()
	case "inf":
		return math.Inf(1)
	case "nested-nan":
		return map[string]interface{}{"a": []interface{}{1, "x", math.NaN()}}
	case "chan":
		return make(chan int)
	case "func":
		return struct{ F func() }{}
	case "failing-marshaler":
		return []interface{}{1, c19FailingMarshaler{}}
	case "invalid-raw-message":
		return json.RawMessage(`{"a":`)
	case "big-then-nan":
		return []interface{}{strings.Repeat("x", 70000), math.NaN()}
	}
	panic("c19: unknown unencodable kind " + kind)
}

// c19UnencOne reports whether a library call only ended through the hang guard
// (the caller then stops: every further case would wait for the guard again).
func c19UnencOne(c *fw.Ctx, cs c19UnencCase) (hung bool) {
	c.Eval()
	desc := fmt.Sprintf("%+v", cs)
	v := c19Unencodable(cs.Kind)
	if _, err := json.Marshal(v); err == nil {
		c.EngineError(desc + ": encoding/json marshals this value")
		return
	}
	ctx, cancel := mxGuard(20 * time.Second) // a blocked ordinary write is the violation looked for here
	defer cancel()
	t := mxNewTransport()
	conn := mxConn(t, cs.Client, c19CompMode(cs.Comp))
	defer conn.CloseNow()
	inf := &deflate.Inflater{}
	ordinary := func(n int, when string) bool {
		val := map[string]interface{}{"seq": n, "pad": strings.Repeat("p", 600)}
		before := t.LogLen()
		var werr error
		if p := fw.Recover(func() { werr = wsjson.Write(ctx, conn, val) }); p != "" {
			c.Violate("C19/panic", desc+": wsjson.Write panicked: "+p, cs)
			return false
		}
		if werr != nil {
			hung = mxHung(werr)
			c.Violate("C19/write-failed/"+when+"-unencodable-value", fmt.Sprintf("%s: an ordinary wsjson.Write %s the failed one returned %v", desc, when, werr), cs)
			return false
		}
		payload, problem := c19Message(t.Log()[before:], cs.Client, cs.Comp, inf)
		if problem != "" {
			c.Violate("C19/not-one-text-message", fmt.Sprintf("%s: ordinary write %s the failed one: %s", desc, when, problem), cs)
			return false
		}
		want, _ := json.Marshal(val)
		wc, _ := c19Canon(want)
		gc, err := c19Canon(payload)
		if err != nil || !bytes.Equal(wc, gc) {
			c.Violate("C19/wire-json-differs", fmt.Sprintf("%s: ordinary write %s the failed one put %s on the wire", desc, when, c19Abbrev(payload)), cs)
			return false
		}
		return true
	}
	if cs.Before && !ordinary(1, "before") {
		return
	}
	before := t.LogLen()
	var werr error
	if p := fw.Recover(func() { werr = wsjson.Write(ctx, conn, v) }); p != "" {
		c.Violate("C19/panic", desc+": wsjson.Write panicked: "+p, cs)
		return
	}
	if werr == nil {
		c.Violate("C19/unencodable-value-written", fmt.Sprintf("%s: wsjson.Write returned nil for a value encoding/json cannot marshal; wire: %x", desc, xportHead(t.Log()[before:])), cs)
		return
	}
	if n := t.LogLen() - before; n != 0 {
		c.Violate("C19/not-one-text-message", fmt.Sprintf("%s: the failed wsjson.Write (%v) put %d bytes on the wire", desc, werr, n), cs)
		return
	}
	if !ordinary(2, "after") {
		return
	}
	c.OutcomeStr("unenc " + desc)
	return
}

func c19UnencCases() []c19UnencCase {
	var out []c19UnencCase
	for _, k := range c19UnencKinds {
		for i := 0; i < 8; i++ {
			out = append(out, c19UnencCase{Kind: k, Client: i&1 != 0, Comp: i&2 != 0, Before: i&4 != 0})
		}
	}
	return out
}

func c19MiscRun(c *fw.Ctx, shard, nshards int) {
	un := c19UnencCases()
	for i := shard; i < len(un); i += nshards {
		if c19UnencOne(c, un[i]) {
			break
		}
	}
	c.Bound("unencodable_cases", len(un))
	al := c19AliasCases()
	bad := c19BadCases()
	for i := shard; i < len(al); i += nshards {
		c19AliasOne(c, al[i])
		if c.WantSample() && i%97 == 1 {
			c.Sample(al[i])
		}
	}
	for i := shard; i < len(bad); i += nshards {
		c19BadOne(c, bad[i])
		if c.WantSample() && i%97 == 2 {
			c.Sample(bad[i])
		}
	}
	c.Bound("alias_cases", len(al))
	c.Bound("malformed_cases", len(bad))
	var kinds []string
	for _, d := range c19BadDocs {
		kinds = append(kinds, d.Kind)
	}
	c.Bound("malformed_kinds", kinds)
}

func init() {
	fw.Register(fw.Part{
		Prop: "C19", Name: "values",
		Units: func(tier string) []fw.Unit { return fw.Shards("gen", 16, c19ValueRun) },
		Replay: func(c *fw.Ctx, data json.RawMessage) {
			var cs c19Case
			if json.Unmarshal(data, &cs) != nil {
				c.EngineError("bad replay data")
				return
			}
			c19ValueOne(c, cs, c19Values(cs.Thor))
		},
	})
	fw.Register(fw.Part{
		Prop: "C19", Name: "misc",
		Units: func(tier string) []fw.Unit { return fw.Shards("alias+malformed", 4, c19MiscRun) },
		Replay: func(c *fw.Ctx, data json.RawMessage) {
			// alias and malformed cases are told apart by their fields
			var probe map[string]interface{}
			if json.Unmarshal(data, &probe) != nil {
				c.EngineError("bad replay data")
				return
			}
			if _, isUnenc := probe["before"]; isUnenc {
				var cs c19UnencCase
				json.Unmarshal(data, &cs)
				c19UnencOne(c, cs)
				return
			}
			if _, isBad := probe["kind"]; isBad {
				var cs c19BadCase
				json.Unmarshal(data, &cs)
				c19BadOne(c, cs)
				return
			}
			var cs c19AliasCase
			json.Unmarshal(data, &cs)
			c19AliasOne(c, cs)
		},
	})
}
