package seq

import (
	"encoding/json"
	"fmt"
	"io"
	"runtime"

	"nhooyr.io/websocket/wsjson"
	"verif/fw"
	"verif/refws/frame"
)

// C19, part afterfail: a wsjson.Read that fails in the middle of its message (the
// transport ends between fragments or inside a payload, a transport error, the read
// limit) is followed, in the same process and from warm pools, by a wsjson.Read on
// another connection whose message is a valid document: it decodes exactly that
// document. "Decodes exactly one message into its target" holds whatever earlier reads
// left behind in pooled buffers.

type c19AfterFailCase struct {
	Client  bool   `json:"client"`
	Failure string `json:"first_read_fails_by"` // eof-between-fragments | eof-in-payload | error-in-payload | read-limit | invalid-json | none
	First   string `json:"first_document_prefix"`
	Second  string `json:"second_document"`
	Target  string `json:"target"` // interface | raw
	GC      bool   `json:"collect_between"`
}

func c19AfterFailOne(c *fw.Ctx, cs c19AfterFailCase) {
	c.Eval()
	c.AddTraces(1)
	desc := fmt.Sprintf("%+v", cs)
	masked := !cs.Client
	runtime.GC() // every case starts from the same pool state
	runtime.GC()
	ctx, cancel := mxGuard(mxGuardTime)
	defer cancel()
	var in []byte
	var endErr error
	switch cs.Failure {
	case "eof-between-fragments":
		in = frame.Data(frame.OpText, false, masked, []byte(cs.First)).Encode(nil)
	case "eof-in-payload", "error-in-payload":
		f := frame.Data(frame.OpText, true, masked, []byte(cs.First+"          ")).Encode(nil)
		in = f[:len(f)-10]
		if cs.Failure == "error-in-payload" {
			endErr = io.ErrClosedPipe
		}
	case "read-limit":
		in = frame.Data(frame.OpText, true, masked, []byte(`"`+cs.First+string(make([]byte, 0))+`aaaaaaaaaaaaaaaaaaaaaaaaaaaaaaaaaaaaaaaaaaaaaaaaaaaaaaaaaaaaaaaa"`)).Encode(nil)
	case "invalid-json":
		in = frame.Data(frame.OpText, true, masked, []byte(cs.First+"]")).Encode(nil)
	case "none":
		in = frame.Data(frame.OpText, true, masked, []byte(cs.First)).Encode(nil)
	}
	tA := mxNewTransport(in)
	tA.EndErr = endErr
	connA := mxConn(tA, cs.Client, "")
	if cs.Failure == "read-limit" {
		connA.SetReadLimit(16)
	}
	var v1 interface{}
	var err1 error
	if p := fw.Recover(func() { err1 = wsjson.Read(ctx, connA, &v1) }); p != "" {
		c.Violate("C19/panic", desc+": first wsjson.Read panicked: "+p, cs)
		return
	}
	connA.CloseNow()
	if cs.Failure != "none" && err1 == nil {
		// (what a truncated message has to answer is C04's and C08's subject; here it only has to have failed)
		c.OutcomeStr("afterfail first-read-did-not-fail " + cs.Failure)
		return
	}
	if cs.GC {
		runtime.GC()
		runtime.GC()
	}
	tB := mxNewTransport(frame.Data(frame.OpText, true, masked, []byte(cs.Second)).Encode(nil))
	connB := mxConn(tB, cs.Client, "")
	defer connB.CloseNow()
	var got []byte
	var err2 error
	if p := fw.Recover(func() {
		if cs.Target == "raw" {
			var raw json.RawMessage
			if err2 = wsjson.Read(ctx, connB, &raw); err2 == nil {
				got = append([]byte(nil), raw...)
			}
			return
		}
		var v interface{}
		if err2 = wsjson.Read(ctx, connB, &v); err2 == nil {
			got, _ = json.Marshal(v)
		}
	}); p != "" {
		c.Violate("C19/panic", desc+": second wsjson.Read panicked: "+p, cs)
		return
	}
	if mxHung(err2) {
		c.EngineError(desc + ": hang guard fired")
		return
	}
	var want interface{}
	json.Unmarshal([]byte(cs.Second), &want)
	wantJ, _ := json.Marshal(want)
	var gotV interface{}
	json.Unmarshal(got, &gotV)
	gotJ, _ := json.Marshal(gotV)
	c.OutcomeStr(fmt.Sprintf("afterfail %s/%s/%v ok=%v", cs.Failure, cs.Target, cs.GC, err2 == nil))
	if err2 != nil || string(gotJ) != string(wantJ) {
		c.Violate("C19/decoded-differs/after-failed-read/"+cs.Failure, fmt.Sprintf("%s: a wsjson.Read on another connection had ended with %v; the next connection's peer sent the document %s, wsjson.Read returned %s, err=%v", desc, err1, cs.Second, got, err2), cs)
	}
}

func c19AfterFailCases() []c19AfterFailCase {
	var out []c19AfterFailCase
	for _, client := range []bool{false, true} {
		for _, f := range []string{"eof-between-fragments", "eof-in-payload", "error-in-payload", "read-limit", "invalid-json", "none"} {
			for _, docs := range [][2]string{{"12", "345"}, {`{"a":`, `{"b":2}`}, {`[1,`, `"hello"`}, {`"abc`, `"de"`}} {
				for _, tgt := range []string{"interface", "raw"} {
					for _, gc := range []bool{false, true} {
						out = append(out, c19AfterFailCase{Client: client, Failure: f, First: docs[0], Second: docs[1], Target: tgt, GC: gc})
					}
				}
			}
		}
	}
	return out
}

func init() {
	fw.Register(fw.Part{
		Prop: "C19", Name: "afterfail",
		Units: func(tier string) []fw.Unit {
			return []fw.Unit{{ID: "read-after-failed-read", Run: func(c *fw.Ctx) {
				cases := c19AfterFailCases()
				for _, cs := range cases {
					c19AfterFailOne(c, cs)
				}
				c.AddStates(int64(len(cases)))
				c.AddTransitions(int64(2 * len(cases)))
				c.Bound("afterfail_cases", len(cases))
			}}}
		},
		Replay: func(c *fw.Ctx, data json.RawMessage) {
			var cs c19AfterFailCase
			if json.Unmarshal(data, &cs) != nil {
				c.EngineError("bad replay data")
				return
			}
			c19AfterFailOne(c, cs)
		},
	})
}
