package seq

import (
	"bytes"
	"context"
	"encoding/json"
	"fmt"
	"net/http"
	"strings"
	"time"

	"nhooyr.io/websocket"
	"nhooyr.io/websocket/wsjson"
	"verif/fw"
)

// C19, part pairs: two library endpoints after a real Dial/Accept handshake, every pair of
// compression modes (3 x 3, also the asymmetric agreements) x two thresholds x both directions.
// Four JSON documents that share most of their content (what JSON traffic looks like: the later
// ones compress into references to the earlier ones wherever a compression context is kept) are
// written with wsjson.Write and read with wsjson.Read: every value arrives as its JSON equivalent.

type c19PairCase struct {
	ClientMode string `json:"client_mode"`
	ServerMode string `json:"server_mode"`
	Threshold  int    `json:"threshold"`
	Dir        string `json:"direction"`
}

func c19PairDocs() []interface{} {
	items := []interface{}{}
	for i := 0; i < 40; i++ {
		items = append(items, map[string]interface{}{"id": float64(i), "name": fmt.Sprintf("item-%d", i%7), "tags": []interface{}{"alpha", "beta", "gamma"}, "ok": i%2 == 0})
	}
	d1 := map[string]interface{}{"kind": "snapshot", "items": items}
	d2 := map[string]interface{}{"kind": "snapshot", "items": items, "seq": float64(2)}
	d3 := map[string]interface{}{"kind": "delta", "items": items[:20], "note": strings.Repeat("same words again ", 20)}
	return []interface{}{d1, d2, "tiny", d3, d1}
}

func c19PairOne(c *fw.Ctx, cs c19PairCase) {
	c.Eval()
	c.AddTraces(1)
	ctx, cancel := context.WithTimeout(context.Background(), 10*time.Second)
	defer cancel()
	link := &c01Link{}
	rt := &c01RT{link: link, srvOpts: websocket.AcceptOptions{CompressionMode: c01Mode(cs.ServerMode), CompressionThreshold: cs.Threshold}}
	var cli *websocket.Conn
	var err error
	if p := fw.Recover(func() {
		cli, _, err = websocket.Dial(ctx, "ws://example.com/c19", &websocket.DialOptions{HTTPClient: &http.Client{Transport: rt}, CompressionMode: c01Mode(cs.ClientMode), CompressionThreshold: cs.Threshold})
	}); p != "" {
		c.Violate("C19/panic/handshake", fmt.Sprintf("%+v: %s", cs, p), cs)
		return
	}
	srv := rt.srv
	defer func() {
		for _, cn := range []*websocket.Conn{cli, srv} {
			if cn != nil {
				cn.CloseNow()
			}
		}
	}()
	if err != nil || cli == nil || srv == nil {
		c.EngineError(fmt.Sprintf("%+v: handshake between two library endpoints failed: %v / %v", cs, err, rt.srvErr))
		return
	}
	w, r := cli, srv
	if cs.Dir == "server-to-client" {
		w, r = srv, cli
	}
	r.SetReadLimit(-1)
	for i, doc := range c19PairDocs() {
		want, _ := json.Marshal(doc)
		var werr, rerr error
		var got interface{}
		if p := fw.Recover(func() {
			werr = wsjson.Write(ctx, w, doc)
			if werr == nil {
				rerr = wsjson.Read(ctx, r, &got)
			}
		}); p != "" {
			c.Violate("C19/panic/pairs", fmt.Sprintf("%+v: document %d: %s", cs, i+1, p), cs)
			return
		}
		if ctx.Err() != nil {
			c.EngineError(fmt.Sprintf("%+v: hang guard fired at document %d (write err=%v, read err=%v)", cs, i+1, werr, rerr))
			return
		}
		c.AddTransitions(1)
		if werr != nil || rerr != nil {
			c.Violate("C19/value-lost/pairs/"+cs.Dir, fmt.Sprintf("%+v: document %d of %d (%d bytes of JSON): wsjson.Write returned %v, wsjson.Read on the other endpoint returned %v", cs, i+1, len(c19PairDocs()), len(want), werr, rerr), cs)
			return
		}
		gotJSON, _ := json.Marshal(got)
		if !bytes.Equal(gotJSON, want) {
			c.Violate("C19/value-altered/pairs/"+cs.Dir, fmt.Sprintf("%+v: document %d arrived as %s, written was %s", cs, i+1, c19Abbrev(gotJSON), c19Abbrev(want)), cs)
			return
		}
	}
	c.OutcomeStr(fmt.Sprintf("pairs %+v ok", cs))
}

func c19PairCases() []c19PairCase {
	var out []c19PairCase
	for _, cm := range c01Modes {
		for _, sm := range c01Modes {
			for _, t := range []int{0, 1} {
				for _, d := range c01Dirs {
					out = append(out, c19PairCase{cm, sm, t, d})
				}
			}
		}
	}
	return out
}

func init() {
	fw.Register(fw.Part{
		Prop: "C19", Name: "pairs",
		Units: func(tier string) []fw.Unit {
			return []fw.Unit{{ID: "mode-pairs", Run: func(c *fw.Ctx) {
				cases := c19PairCases()
				for _, cs := range cases {
					c19PairOne(c, cs)
				}
				c.AddStates(int64(len(cases)))
				c.Bound("pair_cases", len(cases))
				c.Bound("documents_per_case", len(c19PairDocs()))
				c.Sample(cases[len(cases)/2])
			}}}
		},
		Replay: func(c *fw.Ctx, data json.RawMessage) {
			var cs c19PairCase
			if json.Unmarshal(data, &cs) != nil {
				c.EngineError("bad replay data")
				return
			}
			c19PairOne(c, cs)
		},
	})
}
