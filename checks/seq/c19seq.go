package seq

import (
	"bytes"
	"encoding/json"
	"fmt"
	"reflect"
	"strings"

	"nhooyr.io/websocket/wsjson"
	"verif/fw"
	"verif/refws/deflate"
)

// C19, part sequences: every sequence of up to three documents over a small
// alphabet (large compressible objects that share text, tiny documents that stay
// under every compression threshold, a document of exactly the default read
// limit) written with wsjson.Write on one library endpoint and read with
// wsjson.Read on the other, on connections whose read limit was never touched,
// compression off / with / without context takeover and the two asymmetric agreements, both directions. Each
// document arrives as its JSON-equivalent.

type c19SeqCase struct {
	Docs    []int  `json:"docs"`
	AClient bool   `json:"a_client"`
	Comp    string `json:"comp"`
}

var c19SeqDocs = func() []interface{} {
	big := func(salt string) interface{} {
		m := map[string]interface{}{}
		for i := 0; i < 24; i++ {
			m[fmt.Sprintf("field-%02d", i)] = map[string]interface{}{"name": "the quick brown fox " + salt, "id": i, "tags": []string{"alpha", "bravo", salt}}
		}
		return m
	}
	// 32765 characters + 2 quotes + the newline json.Encoder appends = 32768 bytes: exactly the default limit
	exact := strings.Repeat("0123456789abcdefghijklmnopqrstuvwxyz-", 1000)[:32765]
	return []interface{}{big("one"), "ok", 7.0, big("two"), exact, exact[:32764]}
}()

func c19SeqOne(c *fw.Ctx, cs c19SeqCase) {
	c.Eval()
	c.AddTraces(1)
	desc := fmt.Sprintf("%+v", cs)
	ctx, cancel := mxGuard(mxGuardTime)
	defer cancel()
	tA := mxNewTransport()
	connA := mxConn(tA, cs.AClient, cs.Comp)
	defer connA.CloseNow()
	// the sender's side of the agreement decides whether its compressor keeps its context
	senderNCT := cs.Comp == "no-takeover" || (cs.AClient && cs.Comp == "client-nct") || (!cs.AClient && cs.Comp == "server-nct")
	inf := &deflate.Inflater{NoContextTakeover: senderNCT}
	for i, d := range cs.Docs {
		v := c19SeqDocs[d]
		before := tA.LogLen()
		var werr error
		if p := fw.Recover(func() { werr = wsjson.Write(ctx, connA, v) }); p != "" {
			c.Violate("C19/panic", desc+": wsjson.Write panicked: "+p, cs)
			return
		}
		if werr != nil {
			c.Violate("C19/write-failed", fmt.Sprintf("%s: wsjson.Write #%d returned %v", desc, i, werr), cs)
			return
		}
		if _, problem := c19Message(tA.Log()[before:], cs.AClient, cs.Comp != "", inf); problem != "" {
			c.Violate("C19/not-one-text-message", fmt.Sprintf("%s: wsjson.Write #%d: %s", desc, i, problem), cs)
			return
		}
	}
	wire := tA.Log()
	connA.CloseNow()
	tB := mxNewTransport(wire)
	connB := mxConn(tB, !cs.AClient, cs.Comp)
	defer connB.CloseNow()
	for i, d := range cs.Docs {
		want := c19SeqDocs[d]
		var got interface{}
		var rerr error
		if p := fw.Recover(func() { rerr = wsjson.Read(ctx, connB, &got) }); p != "" {
			c.Violate("C19/panic", desc+": wsjson.Read panicked: "+p, cs)
			return
		}
		wj, _ := json.Marshal(want)
		var exp interface{}
		json.Unmarshal(wj, &exp)
		if rerr != nil {
			c.Violate("C19/sequence/read-failed", fmt.Sprintf("%s: wsjson.Read #%d (a %d-byte document, within the default limit) returned %v", desc, i, len(wj)+1, rerr), cs)
			return
		}
		if !reflect.DeepEqual(got, exp) {
			gj, _ := json.Marshal(got)
			c.Violate("C19/sequence/decoded-differs", fmt.Sprintf("%s: wsjson.Read #%d decoded %s, want %s", desc, i, c19Abbrev(gj), c19Abbrev(wj)), cs)
			return
		}
		c.AddTransitions(1)
	}
	if n := len(mxCloseFrames(tB.Log())); n != 0 {
		c.Violate("C19/sequence/close-frame-written", fmt.Sprintf("%s: the reader wrote %d Close frame(s) although every document was valid: %s", desc, n, c08Closes(tB.Log())), cs)
		return
	}
	_ = bytes.Equal
	c.OutcomeStr(fmt.Sprintf("seq %v %s %v", cs.AClient, cs.Comp, cs.Docs))
}

func c19SeqCases() []c19SeqCase {
	var seqs [][]int
	var gen func(cur []int)
	gen = func(cur []int) {
		if len(cur) > 0 {
			seqs = append(seqs, append([]int(nil), cur...))
		}
		if len(cur) == 3 {
			return
		}
		for d := range c19SeqDocs {
			gen(append(cur, d))
		}
	}
	gen(nil)
	var out []c19SeqCase
	for _, comp := range []string{"", "takeover", "no-takeover", "client-nct", "server-nct"} {
		for _, ac := range []bool{true, false} {
			for _, s := range seqs {
				out = append(out, c19SeqCase{Docs: s, AClient: ac, Comp: comp})
			}
		}
	}
	return out
}

func init() {
	fw.Register(fw.Part{
		Prop: "C19", Name: "sequences",
		Units: func(tier string) []fw.Unit {
			return fw.Shards("seqs", 4, func(c *fw.Ctx, shard, n int) {
				cases := c19SeqCases()
				for i, cs := range cases {
					if i%n == shard {
						c19SeqOne(c, cs)
					}
				}
				c.AddStates(int64(len(c19SeqDocs)))
				c.Bound("sequence_cases", len(cases))
				c.Bound("sequence_documents", "2 large objects sharing text, \"ok\", 7, strings making documents of exactly 32768 and 32767 bytes")
				if shard == 0 {
					c.Sample(cases[40])
				}
			})
		},
		Replay: func(c *fw.Ctx, data json.RawMessage) {
			var cs c19SeqCase
			if json.Unmarshal(data, &cs) != nil {
				c.EngineError("bad replay data")
				return
			}
			c19SeqOne(c, cs)
		},
	})
}
