package seq

import (
	"context"
	"encoding/binary"
	"errors"
	"io"
	"sync"
	"sync/atomic"
	"syscall"
	"time"

	"nhooyr.io/websocket"
	"verif/refws/frame"
)

// Shared helpers of the checks C06, C08, C15, C18 and C19 (prefix mx): the
// scripted transport, construction of a Conn over it and small views on the
// output log. Nothing here judges anything.

// mxTransport is the scripted io.ReadWriteCloser: Read hands out the scripted
// chunks (a chunk larger than the caller's buffer stays for the next call) and
// then (0, io.EOF); it never blocks. Write appends to Out. After Close both
// fail. The mutex only protects against the library's own timeoutLoop
// goroutine closing the transport while the harness inspects it.
type mxTransport struct {
	mu     sync.Mutex
	EndErr error // what Read returns once the script is used up (nil: io.EOF)
	in     [][]byte
	Out    []byte
	closed bool
	Closes int
	Reads  int
	// Hook, if set, runs at the start of every Read with the 1-based call
	// number, on the calling goroutine and without the transport's lock held: a
	// point where the harness may act "concurrently" with the library call in
	// progress (e.g. use another connection) while staying deterministic.
	Hook func(call int)
	// WriteErr, if set, makes every Write fail with it (the peer is gone).
	WriteErr error
}

func mxNewTransport(chunks ...[]byte) *mxTransport {
	return &mxTransport{in: chunks}
}

func (t *mxTransport) Read(p []byte) (int, error) {
	t.mu.Lock()
	t.Reads++
	call, hook := t.Reads, t.Hook
	t.mu.Unlock()
	if hook != nil {
		hook(call)
	}
	t.mu.Lock()
	defer t.mu.Unlock()
	if t.closed {
		return 0, io.ErrClosedPipe
	}
	for len(t.in) > 0 && len(t.in[0]) == 0 {
		t.in = t.in[1:]
	}
	if len(t.in) == 0 {
		if t.EndErr != nil {
			return 0, t.EndErr
		}
		return 0, io.EOF
	}
	n := copy(p, t.in[0])
	t.in[0] = t.in[0][n:]
	return n, nil
}

func (t *mxTransport) Write(p []byte) (int, error) {
	t.mu.Lock()
	defer t.mu.Unlock()
	if t.closed {
		return 0, io.ErrClosedPipe
	}
	if t.WriteErr != nil {
		return 0, t.WriteErr
	}
	t.Out = append(t.Out, p...)
	return len(p), nil
}

func (t *mxTransport) Close() error {
	t.mu.Lock()
	defer t.mu.Unlock()
	t.Closes++
	t.closed = true
	return nil
}

// Log returns a copy of everything written so far.
func (t *mxTransport) Log() []byte {
	t.mu.Lock()
	defer t.mu.Unlock()
	return append([]byte(nil), t.Out...)
}

// LogLen is the number of bytes written so far.
func (t *mxTransport) LogLen() int {
	t.mu.Lock()
	defer t.mu.Unlock()
	return len(t.Out)
}

// mxComp names the three compression configurations used by these checks.
func mxComp(mode string) *websocket.VerifCompression {
	switch mode {
	case "takeover":
		return &websocket.VerifCompression{}
	case "no-takeover":
		return &websocket.VerifCompression{ClientNoContextTakeover: true, ServerNoContextTakeover: true}
	case "client-nct":
		return &websocket.VerifCompression{ClientNoContextTakeover: true}
	case "server-nct":
		return &websocket.VerifCompression{ServerNoContextTakeover: true}
	}
	return nil
}

func mxConn(t *mxTransport, client bool, comp string) *websocket.Conn {
	return websocket.VerifNewConn(t, client, mxComp(comp), 0)
}

func mxRole(client bool) string {
	if client {
		return "client"
	}
	return "server"
}

// mxGuard is the hang guard handed to library calls: the scripted transport
// never blocks, so no call can legitimately last that long.
func mxGuard(d time.Duration) (context.Context, context.CancelFunc) {
	return context.WithTimeout(context.Background(), d)
}

// mxCloseFrames returns the Close frames of an output log in order.
func mxCloseFrames(out []byte) []frame.Frame {
	fs, _ := frame.ParseAll(out)
	var cl []frame.Frame
	for _, f := range fs {
		if f.Opcode == frame.OpClose {
			cl = append(cl, f)
		}
	}
	return cl
}

// mxCloseCode decodes a Close payload: empty => (1005, "", true); one byte =>
// not ok.
func mxCloseCode(p []byte) (code int, reason string, ok bool) {
	switch {
	case len(p) == 0:
		return 1005, "", true
	case len(p) == 1:
		return 0, "", false
	}
	return int(binary.BigEndian.Uint16(p)), string(p[2:]), true
}

// mxHasCloseStatus reports whether the log holds a Close frame with that status.
func mxHasCloseStatus(out []byte, status int) bool {
	for _, f := range mxCloseFrames(out) {
		if code, _, ok := mxCloseCode(f.Payload); ok && len(f.Payload) >= 2 && code == status {
			return true
		}
	}
	return false
}

// mxPattern is a deterministic, position dependent byte pattern.
func mxPattern(n int, salt int) []byte {
	b := make([]byte, n)
	for i := range b {
		b[i] = byte((i+salt)*131 + (i+salt)>>8*7 + salt)
	}
	return b
}

// mxASCII is a printable reason/text of n bytes.
func mxASCII(n int, salt int) string {
	b := make([]byte, n)
	for i := range b {
		b[i] = byte('a' + (i*7+salt)%26)
	}
	return string(b)
}

// mxSplit cuts payload into data frames of one message (first opcode op, then
// continuations) at the given cut offsets (ascending, may repeat to produce
// empty fragments); rsv1 is set on the first frame if compressed.
func mxSplit(op byte, masked, compressed bool, payload []byte, cuts []int) []frame.Frame {
	var fs []frame.Frame
	prev := 0
	for i := 0; i <= len(cuts); i++ {
		end := len(payload)
		if i < len(cuts) {
			end = cuts[i]
		}
		if end > len(payload) {
			end = len(payload)
		}
		if end < prev {
			end = prev
		}
		o := op
		if i > 0 {
			o = frame.OpCont
		}
		f := frame.Data(o, i == len(cuts), masked, payload[prev:end])
		f.Key = [4]byte{byte(0xA5 + i), byte(0x5A ^ i), 0x3C, byte(0xC3 + 3*i)}
		if i == 0 && compressed {
			f.Rsv1 = true
		}
		fs = append(fs, f)
		prev = end
	}
	return fs
}

func mxEncode(fs ...frame.Frame) []byte {
	var b []byte
	for _, f := range fs {
		b = f.Encode(b)
	}
	return b
}

// mxHung reports whether a library call was ended by the harness's guard
// (deadline or watchdog cancellation) rather than by the library itself. The
// error's identity is used, not the state of the guard context: on a loaded
// machine a guard can expire between two calls that both returned at once.
func mxHung(err error) bool {
	return err != nil && (errors.Is(err, context.DeadlineExceeded) || errors.Is(err, context.Canceled))
}

// mxGuardTime is the deadline of hang-guard contexts. Nothing depends on it
// unless a library call really does not return.
const mxGuardTime = 60 * time.Second

// mxWatch is a progress watchdog for calls that can only be ended through
// their context: the harness calls Tick after every library call that
// returned. If the process burns cpuQuiet of CPU time without any call
// returning (a call is spinning: a single call over the scripted transport
// costs microseconds), or wallQuiet passes (a call is blocked), the context is
// cancelled and Fired reports it. CPU time, not wall time, decides about
// spinning, so a machine that starves the process cannot cause a verdict.
type mxWatch struct {
	Ctx    context.Context
	cancel context.CancelFunc
	ticks  int64
	fired  int32
	stop   chan struct{}
	done   chan struct{}
}

func mxCPU() time.Duration {
	var ru syscall.Rusage
	if syscall.Getrusage(syscall.RUSAGE_SELF, &ru) != nil {
		return 0
	}
	return time.Duration(ru.Utime.Nano() + ru.Stime.Nano())
}

func mxNewWatch(cpuQuiet, wallQuiet time.Duration) *mxWatch {
	w := &mxWatch{stop: make(chan struct{}), done: make(chan struct{})}
	w.Ctx, w.cancel = context.WithCancel(context.Background())
	go func() {
		defer close(w.done)
		last := int64(-1)
		var cpu0 time.Duration
		var wall0 time.Time
		t := time.NewTicker(250 * time.Millisecond)
		defer t.Stop()
		for {
			select {
			case <-w.stop:
				return
			case <-t.C:
				now := atomic.LoadInt64(&w.ticks)
				if now != last {
					last, cpu0, wall0 = now, mxCPU(), time.Now()
					continue
				}
				if mxCPU()-cpu0 >= cpuQuiet || time.Since(wall0) >= wallQuiet {
					atomic.StoreInt32(&w.fired, 1)
					w.cancel()
					return
				}
			}
		}
	}()
	return w
}

func (w *mxWatch) Tick()       { atomic.AddInt64(&w.ticks, 1) }
func (w *mxWatch) Fired() bool { return atomic.LoadInt32(&w.fired) == 1 }

// Stop ends the watchdog (call after the connections of the case are closed).
func (w *mxWatch) Stop() {
	close(w.stop)
	<-w.done
	w.cancel()
}

// mxShardOf spreads case indices over shards with a multiplicative hash, for
// enumerations whose expensive cases would otherwise pile up in a few residue
// classes of the index. Every index belongs to exactly one shard.
func mxShardOf(i, nshards int) int {
	return int((uint32(i)*2654435761)>>16) % nshards
}
