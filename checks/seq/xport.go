package seq

import (
	"context"
	"encoding/binary"
	"errors"
	"fmt"
	"io"
	"sort"
	"time"

	"nhooyr.io/websocket"
	"verif/fw"
	"verif/refws/frame"
)

// xportScript is the scripted transport of the sequential checks: Read returns
// exactly the next scripted chunk (or what fits the caller's buffer; the rest
// of the chunk stays for the next Read), after the script it returns EndErr
// (io.EOF if nil). Nothing ever blocks. Writes are logged and always succeed
// until Close.
type xportScript struct {
	Chunks      [][]byte
	EndErr      error // nil means io.EOF
	EndWithData bool  // deliver the last chunk together with EndErr in the same Read call (n>0, err)

	idx, off int
	Out      []byte
	Closed   bool
	Reads    int
}

var errXportClosed = errors.New("xport: use of closed transport")

func (s *xportScript) endErr() error {
	if s.EndErr != nil {
		return s.EndErr
	}
	return io.EOF
}

func (s *xportScript) skipEmpty() {
	for s.idx < len(s.Chunks) && s.off >= len(s.Chunks[s.idx]) {
		s.idx++
		s.off = 0
	}
}

func (s *xportScript) Read(p []byte) (int, error) {
	if s.Closed {
		return 0, errXportClosed
	}
	s.Reads++
	s.skipEmpty()
	if s.idx >= len(s.Chunks) {
		return 0, s.endErr()
	}
	if len(p) == 0 {
		return 0, nil
	}
	n := copy(p, s.Chunks[s.idx][s.off:])
	s.off += n
	if s.EndWithData {
		s.skipEmpty()
		if s.idx >= len(s.Chunks) {
			return n, s.endErr()
		}
	}
	return n, nil
}

func (s *xportScript) Write(p []byte) (int, error) {
	if s.Closed {
		return 0, errXportClosed
	}
	s.Out = append(s.Out, p...)
	return len(p), nil
}

func (s *xportScript) Close() error {
	s.Closed = true
	return nil
}

// xportChunks splits b at the given ascending offsets (offsets outside 1..len-1 are ignored).
func xportChunks(b []byte, cuts ...int) [][]byte {
	var out [][]byte
	prev := 0
	for _, c := range cuts {
		if c <= prev || c >= len(b) {
			continue
		}
		out = append(out, b[prev:c])
		prev = c
	}
	if prev < len(b) {
		out = append(out, b[prev:])
	}
	return out
}

// xportBytewise delivers b one byte per Read.
func xportBytewise(b []byte) [][]byte {
	out := make([][]byte, len(b))
	for i := range b {
		out[i] = b[i : i+1]
	}
	return out
}

// xportMsg is one message as the caller of the library saw it.
type xportMsg struct {
	Type int
	Data []byte
}

// xportObs is what a user who reads message after message until an error observes.
type xportObs struct {
	Complete   []xportMsg // reads that ended with a clean io.EOF
	Partial    *xportMsg  // Reader succeeded but a Read failed: bytes handed over before that error
	Err        error      // the error that ended the loop
	FromReader bool       // Err came from Conn.Reader (no message was open from the caller's view)
	Stuck      string     // the library did not make progress (guard, not a timeout)
	// AfterErr: the reader that had just failed was read once more and reported a
	// clean end of message or more data ("" = it failed again, as it must)
	AfterErr string
	// AfterEOF: a reader that had reported the clean end of its message was read once
	// more and delivered data ("" = nothing more, as it must)
	AfterEOF string
}

// xportReadAfterError reads once more from a message reader whose last Read
// failed: a failed message never ends cleanly later on and yields nothing more.
func xportReadAfterError(r io.Reader) string {
	var b [16]byte
	n, err := r.Read(b[:])
	switch {
	case n > 0:
		return fmt.Sprintf("delivered %d more bytes (%x), err=%v", n, b[:n], err)
	case err == io.EOF:
		return "reported a clean end of message (0, io.EOF)"
	}
	return ""
}

// xportLockStalls counts, per process, the 3 s waits described in xportReadAll.
var xportLockStalls int

const xportMaxMsgs = 4096
const xportMaxIdleReads = 4096

// xportReadAll drives Conn.Reader + Read with a caller buffer of bufSize bytes
// (0 = io.ReadAll) until an error.
func xportReadAll(ctx context.Context, conn *websocket.Conn, bufSize int) xportObs {
	var obs xportObs
	var buf []byte
	if bufSize > 0 {
		buf = make([]byte, bufSize)
	}
	reread := false
	for len(obs.Complete) < xportMaxMsgs {
		if xportLockStalls >= 6 {
			reread = false // (see below) enough evidence in this process: keep the remaining cases fast
		}
		rctx := ctx
		if reread {
			// the previous message's reader was read once more after its end; if that left
			// the read lock held, this call would wait for ever: give it 3 s
			var cancel context.CancelFunc
			rctx, cancel = context.WithTimeout(ctx, 3*time.Second)
			defer cancel()
		}
		typ, r, err := conn.Reader(rctx)
		if err != nil && reread && errors.Is(err, context.DeadlineExceeded) {
			xportLockStalls++
			obs.Stuck = "after one more Read on a message reader that had reported io.EOF, Conn.Reader could not get the read lock within 3 s: " + err.Error()
			return obs
		}
		if err != nil {
			obs.Err = err
			obs.FromReader = true
			return obs
		}
		var data []byte
		var rerr error
		if bufSize == 0 {
			data, rerr = io.ReadAll(r)
			if rerr == nil {
				rerr = io.EOF
			}
		} else {
			idle := 0
			for {
				n, e := r.Read(buf)
				data = append(data, buf[:n]...)
				if e != nil {
					rerr = e
					break
				}
				if n == 0 {
					idle++
					if idle > xportMaxIdleReads {
						obs.Stuck = "Read returned (0, nil) more than 4096 times in a row"
						obs.Partial = &xportMsg{int(typ), data}
						return obs
					}
				} else {
					idle = 0
				}
			}
		}
		if rerr == io.EOF {
			obs.Complete = append(obs.Complete, xportMsg{int(typ), data})
			// applications that loop "until io.EOF" with a helper often ask once more
			if len(obs.Complete)%2 == 1 && obs.AfterEOF == "" && xportLockStalls < 6 {
				var b [16]byte
				if n, e := r.Read(b[:]); n > 0 {
					obs.AfterEOF = fmt.Sprintf("message %d: one more Read after io.EOF delivered %d bytes (%x), err=%v", len(obs.Complete)-1, n, b[:n], e)
				}
				reread = true
			} else {
				reread = false
			}
			continue
		}
		obs.Partial = &xportMsg{int(typ), data}
		obs.Err = rerr
		obs.AfterErr = xportReadAfterError(r)
		return obs
	}
	obs.Stuck = "more than 4096 messages delivered from a finite script"
	return obs
}

// xportSent is what the endpoint wrote to the transport.
type xportSent struct {
	Pongs  [][]byte
	Closes []xportClose
	Others int    // frames that are neither Pong nor Close
	Rest   []byte // truncated tail of the output
}

type xportClose struct {
	Code    int // 1005 if the payload is empty, -1 if it is one byte
	Reason  string
	Payload []byte
}

func xportParseOut(out []byte) xportSent {
	var s xportSent
	frames, rest := frame.ParseAll(out)
	s.Rest = rest
	for _, f := range frames {
		switch f.Opcode {
		case frame.OpPong:
			s.Pongs = append(s.Pongs, f.Payload)
		case frame.OpClose:
			c := xportClose{Code: 1005, Payload: f.Payload}
			if len(f.Payload) == 1 {
				c.Code = -1
			} else if len(f.Payload) >= 2 {
				c.Code = int(binary.BigEndian.Uint16(f.Payload))
				c.Reason = string(f.Payload[2:])
			}
			s.Closes = append(s.Closes, c)
		default:
			s.Others++
		}
	}
	return s
}

// xportCloseErr extracts code and reason if err carries a websocket.CloseError.
func xportCloseErr(err error) (code int, reason string, ok bool) {
	var ce websocket.CloseError
	if errors.As(err, &ce) {
		return int(ce.Code), ce.Reason, true
	}
	return 0, "", false
}

// xportComp returns the negotiated parameters for a receiving endpoint under
// test. Only the flag of the PEER's side governs how the endpoint must inflate,
// so the endpoint's own flag is deliberately set to the opposite value: an
// implementation that consults the wrong side's flag then fails to decode.
func xportComp(mode string, client bool) *websocket.VerifCompression {
	var peerNoTakeover bool
	switch mode {
	case "takeover":
		peerNoTakeover = false
	case "no-takeover":
		peerNoTakeover = true
	default:
		return nil
	}
	if client { // the peer is the server
		return &websocket.VerifCompression{ServerNoContextTakeover: peerNoTakeover, ClientNoContextTakeover: !peerNoTakeover}
	}
	return &websocket.VerifCompression{ClientNoContextTakeover: peerNoTakeover, ServerNoContextTakeover: !peerNoTakeover}
}

func xportRole(client bool) string {
	if client {
		return "client"
	}
	return "server"
}

func xportIsPrefix(p, full []byte) bool {
	return len(p) <= len(full) && string(p) == string(full[:len(p)])
}

// xportSink collects violations of one unit, keeping per class the count and the
// smallest case, so that the reported counter-example is a minimal one.
type xportSink struct {
	found     map[string]*xportFound
	transient int64 // discrepancies that an immediate re-run did not confirm
}

type xportFound struct {
	n      int64
	size   int
	detail string
	replay interface{}
}

// want counts one more violation of class and says whether a case of this size
// would replace the kept one.
func (s *xportSink) want(class string, size int) bool {
	if s.found == nil {
		s.found = map[string]*xportFound{}
	}
	f := s.found[class]
	if f == nil {
		f = &xportFound{size: -1}
		s.found[class] = f
	}
	f.n++
	return f.size < 0 || size < f.size
}

func (s *xportSink) keep(class string, size int, detail string, replay interface{}) {
	f := s.found[class]
	f.size, f.detail, f.replay = size, detail, replay
}

func (s *xportSink) flush(c *fw.Ctx) {
	if s.transient > 0 {
		c.Bound("transient_discrepancies_not_confirmed_"+c.Unit, s.transient)
	}
	var classes []string
	for k := range s.found {
		classes = append(classes, k)
	}
	sort.Strings(classes)
	for _, k := range classes {
		f := s.found[k]
		for i := int64(0); i < f.n; i++ {
			c.Violate(k, f.detail, f.replay)
		}
	}
}

func xportHead(b []byte) []byte {
	if len(b) > 24 {
		return b[:24]
	}
	return b
}
