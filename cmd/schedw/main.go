// schedw is the worker for the schedx checks: it is built with -overlay over
// the rewritten websocket sources and runs harnesses under the vs scheduler.
package main

import (
	"time"

	_ "verif/checks/sched"
	"verif/engine/vs"
	"verif/fw"
)

func main() {
	vs.StartWatchdog(60 * time.Second)
	fw.Main()
}
