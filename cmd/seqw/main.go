// seqw is the worker for the sequential (seqx) checks: native build of the
// library (tag verif), one goroutine driving scripted transports.
package main

import (
	_ "verif/checks/seq"
	"verif/fw"
)

func main() { fw.Main() }
