// Command seqw is the worker of the sequential engine (native build, tag verif).
package main

import (
	"runtime"
	"runtime/debug"

	_ "verif/checks/seq"
	"verif/fw"
)

func main() {
	// The garbage collector empties sync.Pools, so when it runs decides which path of the
	// library's pools (cold or warm) a case takes: nondeterminism the enumeration does not
	// own. The worker therefore collects only at fixed points: between cases (every 1024th
	// evaluation) and where a case asks for it (cases with cold pools run the collector
	// themselves). The memory limit is a safety net, not a schedule.
	// sync.Pool is per P: a goroutine that moves to another P does not see what it Put a
	// moment ago. One P makes every pool a LIFO stack (units are separate processes, so this
	// costs no parallelism).
	runtime.GOMAXPROCS(1)
	debug.SetGCPercent(-1)
	debug.SetMemoryLimit(2 << 30)
	fw.EvalHook = func() { runtime.GC() }
	fw.Main()
}
