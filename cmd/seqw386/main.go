// Command seqw386 is the sequential worker for the checks that run as a 32-bit
// program (built with GOARCH=386, executed natively on x86-64).
package main

import (
	_ "verif/checks/arch386"
	"verif/fw"
)

func main() { fw.Main() }
