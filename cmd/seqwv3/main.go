// Command seqwv3 is the sequential worker for the checks that run in a build with
// GOAMD64=v3 (other assembly / build-tagged code paths than the default build).
package main

import (
	_ "verif/checks/amd64v3"
	"verif/fw"
)

func main() { fw.Main() }
