package main

import (
	"encoding/json"
	"os"
	"os/exec"
	"path/filepath"
	"strings"
)

// Map iteration order is nondeterminism the scheduler does not own: if the
// library ranges over a map, the same schedule can take different paths in two
// executions (replay divergence). For the instrumented build the Go runtime
// is therefore built (through the same -overlay) with a fixed iteration start,
// fixed per-map hash seeds and fixed process-wide hash keys, so that a map
// with the same insertion history iterates in the same order in every
// execution and every process. The explored order is one admissible order, not
// all of them (stated in the evidence assumptions).
//
// The edits are textual; if the runtime sources of the toolchain do not contain
// the expected lines the overlay is left alone and map iteration stays random.
var detMapEdits = map[string][][2]string{
	"map.go": {
		{"r := uintptr(rand())", "r := uintptr(0)"},
		{"h.hash0 = uint32(rand())", "h.hash0 = 0"},
	},
	"map_fast32.go":  {{"h.hash0 = uint32(rand())", "h.hash0 = 0"}},
	"map_fast64.go":  {{"h.hash0 = uint32(rand())", "h.hash0 = 0"}},
	"map_faststr.go": {{"h.hash0 = uint32(rand())", "h.hash0 = 0"}},
	"alg.go": {
		{"hashkey[i] = uintptr(bootstrapRand())", "hashkey[i] = uintptr(0x9e3779b97f4a7c15) + uintptr(i)"},
		{"key[i] = bootstrapRand()", "key[i] = 0x9e3779b97f4a7c15 + uint64(i)"},
	},
	"rand.go": {
		{"func rand32() uint32 {\n\treturn uint32(rand())\n}", "func rand32() uint32 {\n\treturn 0\n}"},
	},
}

var detMapsApplied bool

// addDetMaps extends the overlay file with patched copies of the runtime files.
func addDetMaps(overlayPath, dir string) error {
	if os.Getenv("VERIF_RANDOM_MAPS") != "" {
		return nil
	}
	cmd := exec.Command("go", "env", "GOROOT")
	cmd.Env = goEnv()
	out, err := cmd.Output()
	if err != nil {
		return nil
	}
	goroot := strings.TrimSpace(string(out))
	repl := map[string]string{}
	for name, edits := range detMapEdits {
		src := filepath.Join(goroot, "src", "runtime", name)
		data, err := os.ReadFile(src)
		if err != nil {
			return nil // another runtime layout: leave it alone
		}
		s := string(data)
		for _, e := range edits {
			if !strings.Contains(s, e[0]) {
				return nil
			}
			s = strings.ReplaceAll(s, e[0], e[1])
		}
		dst := filepath.Join(dir, "detrt_"+name)
		if err := os.WriteFile(dst, []byte(s), 0o644); err != nil {
			return err
		}
		repl[src] = dst
	}
	data, err := os.ReadFile(overlayPath)
	if err != nil {
		return err
	}
	var o struct{ Replace map[string]string }
	if err := json.Unmarshal(data, &o); err != nil {
		return err
	}
	for k, v := range repl {
		o.Replace[k] = v
	}
	outb, _ := json.MarshalIndent(map[string]interface{}{"Replace": o.Replace}, "", " ")
	detMapsApplied = true
	return os.WriteFile(overlayPath, outb, 0o644)
}
