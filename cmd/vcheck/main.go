// vcheck is the driver: it rebuilds the worker binaries against the current
// /repo working tree, runs the units of a property in parallel worker
// processes, merges their results, applies the known-findings list, writes the
// evidence file and prints the VIOLATION / KNOWN-FINDING lines.
//
// Exit codes: 0 property held on everything explored (known findings allowed),
// 1 unlisted violation, 2 engine error (never printed as a violation).
package main

import (
	"bufio"
	"bytes"
	"crypto/sha256"
	"encoding/hex"
	"encoding/json"
	"flag"
	"fmt"
	"os"
	"os/exec"
	"path/filepath"
	"regexp"
	"runtime"
	"sort"
	"strconv"
	"strings"
	"sync"
	"time"

	"verif/fw"
)

var root = "/verif"

func main() {
	if r := os.Getenv("VERIF_ROOT"); r != "" {
		root = r
	}
	if len(os.Args) < 2 {
		usage()
	}
	switch os.Args[1] {
	case "run":
		os.Exit(cmdRun(os.Args[2:]))
	case "replay":
		os.Exit(cmdReplay(os.Args[2:]))
	case "setup":
		os.Exit(cmdSetup())
	case "passthrough":
		os.Exit(cmdPassthrough())
	case "selftest":
		os.Exit(cmdSelftest(os.Args[2:]))
	default:
		usage()
	}
}

func usage() {
	fmt.Fprintln(os.Stderr, "usage: vcheck run <ID> [--tier quick|thorough] | replay <file> | setup | passthrough")
	os.Exit(2)
}

func goEnv() []string {
	env := os.Environ()
	env = append(env, "GOFLAGS=-mod=mod", "GOPROXY=off", "GOSUMDB=off", "GOTOOLCHAIN=local")
	return env
}

type built struct {
	dir   string
	seq32 string // worker built for GOARCH=386 (properties with Arch386)
	seqv3 string // worker built with GOAMD64=v3 (properties with AMD64v3)
	seqw  string
	sched string
	race  string
}

func (b *built) cleanup() {
	if b.dir != "" {
		os.RemoveAll(b.dir)
	}
}

func tmpDir() (string, error) {
	base := os.Getenv("VERIF_TMP")
	if base == "" {
		base = os.TempDir()
	}
	return os.MkdirTemp(base, "vcheck-")
}

// patchFile, when set (--patch), is a diff applied to a scratch copy of the
// repository's Go sources; the copy is substituted for /repo through go build
// -overlay, so /repo itself is never touched (used by selftest).
var patchFile string

// mutatedRepo returns the directory holding the patched copy ("" if no patch).
func mutatedRepo(b *built) (string, error) {
	if patchFile == "" {
		return "", nil
	}
	dst := filepath.Join(b.dir, "repo-mut")
	if _, err := os.Stat(dst); err == nil {
		return dst, nil
	}
	cp := exec.Command("bash", "-c", fmt.Sprintf("mkdir -p %q && cd %q && tar --exclude=.git -cf - . | tar -xf - -C %q && cd %q && patch -s -p1 < %q", dst, repoRoot, dst, dst, patchFile))
	if out, err := cp.CombinedOutput(); err != nil {
		return "", fmt.Errorf("applying %s to a copy of %s: %v\n%s", patchFile, repoRoot, err, out)
	}
	return dst, nil
}

// plainOverlay maps every Go file of the patched copy that differs from /repo
// onto its /repo path.
func plainOverlay(b *built, mut string) (string, error) {
	repl := map[string]string{}
	err := filepath.Walk(mut, func(p string, fi os.FileInfo, err error) error {
		if err != nil || fi.IsDir() || !(strings.HasSuffix(p, ".go") || strings.HasSuffix(p, ".s")) {
			return err
		}
		rel, _ := filepath.Rel(mut, p)
		orig := filepath.Join(repoRoot, rel)
		a, _ := os.ReadFile(p)
		o, err2 := os.ReadFile(orig)
		if err2 != nil || !bytes.Equal(a, o) {
			repl[orig] = p
		}
		return nil
	})
	if err != nil {
		return "", err
	}
	data, _ := json.Marshal(map[string]interface{}{"Replace": repl})
	path := filepath.Join(b.dir, "overlay-plain.json")
	return path, os.WriteFile(path, data, 0o644)
}

// buildSeq32 builds the worker for the checks that run as a 32-bit program.
func buildSeq32(b *built) error {
	b.seq32 = filepath.Join(b.dir, "seqw386")
	return buildSeqTo(b, b.seq32, "./cmd/seqw386", "GOARCH=386", "CGO_ENABLED=0")
}

// buildSeqV3 builds the worker for the checks that run in a GOAMD64=v3 build.
func buildSeqV3(b *built) error {
	b.seqv3 = filepath.Join(b.dir, "seqwv3")
	return buildSeqTo(b, b.seqv3, "./cmd/seqwv3", "GOAMD64=v3")
}

func buildSeq(b *built) error {
	b.seqw = filepath.Join(b.dir, "seqw")
	return buildSeqTo(b, b.seqw, "./cmd/seqw")
}

func buildSeqTo(b *built, outPath, pkg string, env ...string) error {
	args := []string{"build", "-tags", "verif"}
	mut, err := mutatedRepo(b)
	if err != nil {
		return err
	}
	if mut != "" {
		ov, err := plainOverlay(b, mut)
		if err != nil {
			return err
		}
		args = append(args, "-overlay", ov)
	}
	args = append(args, "-o", outPath, pkg)
	cmd := exec.Command("go", args...)
	cmd.Dir = root
	cmd.Env = append(goEnv(), env...)
	out, err := cmd.CombinedOutput()
	if err != nil {
		return fmt.Errorf("building %s: %v\n%s", pkg, err, out)
	}
	return nil
}

func engineError(format string, a ...interface{}) int {
	fmt.Printf("ENGINE-ERROR: "+format+"\n", a...)
	return 2
}

type unitJob struct {
	worker string
	id     string
}

func listUnits(worker, prop, tier string) ([]string, error) {
	cmd := exec.Command(worker, "list", "-prop", prop, "-tier", tier)
	out, err := cmd.Output()
	if err != nil {
		return nil, fmt.Errorf("%s list: %v", worker, err)
	}
	var ids []string
	if err := json.Unmarshal(out, &ids); err != nil {
		return nil, err
	}
	return ids, nil
}

type unitOutcome struct {
	job    unitJob
	res    *fw.Result
	crash  string // stderr/stdout tail if the worker died
	killed bool
}

func runUnit(b *built, job unitJob, prop, tier string, seed int64, budget time.Duration, idx int) unitOutcome {
	outFile := filepath.Join(b.dir, fmt.Sprintf("res-%d.json", idx))
	args := []string{"run", "-prop", prop, "-tier", tier, "-unit", job.id, "-seed", strconv.FormatInt(seed, 10), "-budget", budget.String(), "-out", outFile}
	cmd := exec.Command(job.worker, args...)
	raceLog := filepath.Join(b.dir, fmt.Sprintf("racelog-%d", idx))
	cmd.Env = append(os.Environ(), "GOMAXPROCS=2", "GORACE=halt_on_error=0 exitcode=0 log_path="+raceLog, "VERIF_RACELOG="+raceLog)
	var buf bytes.Buffer
	cmd.Stdout = &buf
	cmd.Stderr = &buf
	if err := cmd.Start(); err != nil {
		return unitOutcome{job: job, crash: err.Error()}
	}
	done := make(chan error, 1)
	go func() { done <- cmd.Wait() }()
	hard := budget*2 + 120*time.Second
	select {
	case err := <-done:
		if err != nil {
			s := buf.String()
			if len(s) > 20000 {
				s = s[:8000] + "\n...\n" + s[len(s)-8000:]
			}
			return unitOutcome{job: job, crash: fmt.Sprintf("%v\n%s", err, s)}
		}
	case <-time.After(hard):
		cmd.Process.Kill()
		<-done
		return unitOutcome{job: job, killed: true, crash: "hard timeout " + hard.String()}
	}
	data, err := os.ReadFile(outFile)
	if err != nil {
		return unitOutcome{job: job, crash: "no result file: " + err.Error()}
	}
	os.Remove(outFile)
	var res fw.Result
	if err := json.Unmarshal(data, &res); err != nil {
		return unitOutcome{job: job, crash: "bad result file: " + err.Error()}
	}
	return unitOutcome{job: job, res: &res}
}

type finding struct {
	Status   string `json:"status"` // known | fixed
	Property string `json:"property"`
	Class    string `json:"class"`
	Where    string `json:"where,omitempty"`
	Repro    string `json:"repro,omitempty"`
	Why      string `json:"why_not_fixed,omitempty"`
	Commit   string `json:"commit,omitempty"`
	What     string `json:"what,omitempty"`
	Line     string `json:"line,omitempty"`
}

func loadFindings() ([]finding, error) {
	f, err := os.Open(filepath.Join(root, "known_findings.jsonl"))
	if err != nil {
		if os.IsNotExist(err) {
			return nil, nil
		}
		return nil, err
	}
	defer f.Close()
	var fs []finding
	sc := bufio.NewScanner(f)
	sc.Buffer(make([]byte, 1<<20), 1<<20)
	for sc.Scan() {
		line := strings.TrimSpace(sc.Text())
		if line == "" || strings.HasPrefix(line, "#") {
			continue
		}
		var fd finding
		if err := json.Unmarshal([]byte(line), &fd); err != nil {
			return nil, fmt.Errorf("known_findings.jsonl: %v", err)
		}
		fs = append(fs, fd)
	}
	return fs, nil
}

func cmdRun(args []string) int {
	if len(args) < 1 {
		usage()
	}
	prop := args[0]
	fs := flag.NewFlagSet("run", flag.ExitOnError)
	tier := fs.String("tier", "", "quick|thorough")
	jobs := fs.Int("j", 0, "parallel workers")
	only := fs.String("only", "", "substring filter on unit ids (debugging; evidence goes to evidence/<ID>.partial.json)")
	patch := fs.String("patch", "", "apply this diff to a scratch copy of the repository (via -overlay) instead of testing /repo itself; no evidence is written")
	keep := fs.Bool("keep", false, "keep temp dir")
	fs.Parse(args[1:])
	if *tier == "" {
		*tier = os.Getenv("VERIF_TIER")
	}
	if *tier != "thorough" {
		*tier = "quick"
	}
	if *patch != "" {
		abs, err := filepath.Abs(*patch)
		if err != nil {
			return engineError("%v", err)
		}
		patchFile = abs
	}
	seed := int64(1)
	if s := os.Getenv("VERIF_SEED"); s != "" {
		if v, err := strconv.ParseInt(s, 10, 64); err == nil {
			seed = v
		}
	}
	spec, ok := props[prop]
	if !ok {
		return engineError("unknown property %s", prop)
	}
	if *jobs <= 0 {
		*jobs = runtime.NumCPU()
	}
	start := time.Now()

	dir, err := tmpDir()
	if err != nil {
		return engineError("%v", err)
	}
	b := &built{dir: dir}
	if !*keep {
		defer b.cleanup()
	} else {
		fmt.Println("temp dir:", dir)
	}

	var jobsList []unitJob
	if spec.Seq {
		if err := buildSeq(b); err != nil {
			return engineError("%v", err)
		}
		ids, err := listUnits(b.seqw, prop, *tier)
		if err != nil {
			return engineError("%v", err)
		}
		for _, id := range ids {
			jobsList = append(jobsList, unitJob{b.seqw, id})
		}
	}
	if spec.Arch386 {
		if err := buildSeq32(b); err != nil {
			return engineError("%v", err)
		}
		ids, err := listUnits(b.seq32, prop, *tier)
		if err != nil {
			return engineError("%v", err)
		}
		for _, id := range ids {
			jobsList = append(jobsList, unitJob{b.seq32, id})
		}
	}
	if spec.AMD64v3 && cpuHasAVX2() {
		if err := buildSeqV3(b); err != nil {
			return engineError("%v", err)
		}
		ids, err := listUnits(b.seqv3, prop, *tier)
		if err != nil {
			return engineError("%v", err)
		}
		for _, id := range ids {
			jobsList = append(jobsList, unitJob{b.seqv3, id})
		}
	}
	if spec.Sched {
		if err := buildSched(b, false); err != nil {
			return engineError("%v", err)
		}
		ids, err := listUnits(b.sched, prop, *tier)
		if err != nil {
			return engineError("%v", err)
		}
		for _, id := range ids {
			jobsList = append(jobsList, unitJob{b.sched, id})
		}
	}
	if spec.Race {
		if err := buildSched(b, true); err != nil {
			return engineError("%v", err)
		}
		ids, err := listUnits(b.race, prop+"R", *tier)
		if err != nil {
			return engineError("%v", err)
		}
		for _, id := range ids {
			jobsList = append(jobsList, unitJob{b.race, id})
		}
	}
	if *only != "" {
		var f []unitJob
		for _, j := range jobsList {
			if strings.Contains(j.id, *only) {
				f = append(f, j)
			}
		}
		jobsList = f
	}
	if len(jobsList) == 0 {
		return engineError("no units for %s", prop)
	}
	buildS := time.Since(start).Seconds()

	budget := spec.QuickBudget
	if *tier == "thorough" {
		budget = spec.ThoroughBudget
	}
	if budget == 0 {
		budget = 60 * time.Second
		if *tier == "thorough" {
			budget = 20 * time.Minute
		}
	}

	outcomes := make([]unitOutcome, len(jobsList))
	var wg sync.WaitGroup
	sem := make(chan struct{}, *jobs)
	for i, j := range jobsList {
		wg.Add(1)
		sem <- struct{}{}
		go func(i int, j unitJob) {
			defer wg.Done()
			defer func() { <-sem }()
			p := prop
			if j.worker == b.race {
				p = prop + "R"
			}
			outcomes[i] = runUnit(b, j, p, *tier, seed, budget, i)
		}(i, j)
	}
	wg.Wait()

	// merge
	var total fw.Result
	total.Exhaustive = true
	distinct := map[uint64]struct{}{}
	capped := false
	var violations []fw.Violation
	vcount := map[string]int64{}
	var notes []string
	noteSet := map[string]bool{}
	bounds := map[string]interface{}{}
	var unitSumm []map[string]interface{}
	var engineErrs []string
	for _, o := range outcomes {
		if o.res == nil {
			// worker died
			if !o.killed && crashInLibrary(o.crash) {
				v := fw.Violation{Property: prop, Class: prop + "/worker-crash-in-library", Detail: o.crash, Unit: o.job.id}
				violations = append(violations, v)
				vcount[v.Class]++
			} else {
				engineErrs = append(engineErrs, fmt.Sprintf("unit %s: %s", o.job.id, o.crash))
			}
			total.Exhaustive = false
			continue
		}
		r := o.res
		if r.EngineError != "" {
			engineErrs = append(engineErrs, fmt.Sprintf("unit %s: %s", o.job.id, r.EngineError))
		}
		total.Evaluations += r.Evaluations
		total.States += r.States
		total.Transitions += r.Transitions
		total.Traces += r.Traces
		for _, h := range r.Outcomes {
			distinct[h] = struct{}{}
		}
		capped = capped || r.OutcomesCapped
		if !r.Exhaustive {
			total.Exhaustive = false
		}
		violations = append(violations, r.Violations...)
		for k, n := range r.ViolationCount {
			vcount[k] += n
		}
		for _, n := range r.Notes {
			if !noteSet[n] {
				noteSet[n] = true
				notes = append(notes, n)
			}
		}
		for k, v := range r.Bounds {
			bounds[k] = v
		}
		if len(total.Samples) < 4 && len(r.Samples) > 0 {
			total.Samples = append(total.Samples, r.Samples[0])
		}
		unitSumm = append(unitSumm, map[string]interface{}{"unit": r.Unit, "evaluations": r.Evaluations, "states": r.States, "transitions": r.Transitions, "exhaustive": r.Exhaustive, "wall_s": round2(r.WallS)})
	}

	if len(engineErrs) > 0 {
		for _, e := range engineErrs {
			fmt.Println("ENGINE-ERROR:", e)
		}
		return 2
	}

	// classify violations
	findings, err := loadFindings()
	if err != nil {
		return engineError("%v", err)
	}
	known := map[string]finding{}
	for _, f := range findings {
		if f.Status == "known" && f.Property == prop {
			known[f.Class] = f
		}
	}
	sort.SliceStable(violations, func(i, j int) bool { return violations[i].Class < violations[j].Class })
	seenClass := map[string]bool{}
	var knownHit []string
	var fresh []fw.Violation
	for _, v := range violations {
		if seenClass[v.Class] {
			continue
		}
		seenClass[v.Class] = true
		if f, ok := known[v.Class]; ok {
			knownHit = append(knownHit, v.Class)
			fmt.Printf("KNOWN-FINDING: property=%s %s — %s (cases this run: %d)\n", prop, v.Class, f.Where, vcount[v.Class])
			continue
		}
		fresh = append(fresh, v)
	}

	// confirm determinism of fresh violations by replaying them
	exit := 0
	nViol := 0
	os.MkdirAll(filepath.Join(root, "replays"), 0o755)
	for _, v := range fresh {
		data, _ := json.MarshalIndent(v, "", " ")
		sum := sha256.Sum256([]byte(v.Class + "|" + v.Unit + "|" + string(v.Replay)))
		path := filepath.Join(root, "replays", fmt.Sprintf("%s-%s.json", prop, hex.EncodeToString(sum[:6])))
		os.WriteFile(path, data, 0o644)
		if len(v.Replay) > 0 && !strings.HasSuffix(v.Class, "/worker-crash-in-library") {
			w := workerFor(b, v.Unit, spec)
			okN := 0
			for i := 0; i < 5; i++ {
				c := exec.Command(w, "replay", "-file", path, "-tier", *tier, "-seed", strconv.FormatInt(seed, 10))
				rl := filepath.Join(b.dir, fmt.Sprintf("racelog-replay-%d", i))
				c.Env = append(os.Environ(), "GORACE=halt_on_error=0 exitcode=0 log_path="+rl, "VERIF_RACELOG="+rl)
				out, err := c.CombinedOutput()
				if ee, ok := err.(*exec.ExitError); ok && (ee.ExitCode() == 1 || ee.ExitCode() == 66) {
					okN++
				} else if err != nil && crashInLibrary(string(out)) {
					okN++
				}
			}
			if okN == 0 {
				fmt.Printf("ENGINE-ERROR: violation %s was not reproduced in 5 replays of %s; not reported as a violation\n", v.Class, path)
				exit = 2
				continue
			}
			if okN != 5 {
				// the native engine does not own Go's select choice: a violation that depends
				// on it reproduces only some of the time; it was observed at least twice
				fmt.Printf("note: %s depends on nondeterminism the native engine does not own (reproduced %d/5 on replay)\n", v.Class, okN)
			}
		}
		nViol++
		fmt.Printf("VIOLATION property=%s replay=%s\n", prop, path)
		fmt.Printf("  class: %s (cases this run: %d)\n  unit: %s\n  %s\n", v.Class, vcount[v.Class], v.Unit, indent(v.Detail))
		if exit == 0 {
			exit = 1
		}
	}
	if nViol > 0 {
		// a violation that was confirmed by its replays is reported as such even when another
		// candidate of the same run did not reproduce (that one stays an engine error line above)
		exit = 1
	}

	// evidence
	wall := time.Since(start).Seconds()
	cov := map[string]interface{}{
		"evaluations":                   total.Evaluations,
		"distinct_nontrivial":           len(distinct),
		"rule":                          spec.Rule,
		"samples":                       total.Samples,
		"exhaustive":                    total.Exhaustive,
		"units":                         len(jobsList),
		"bounds":                        bounds,
		"notes":                         notes,
		"build_s":                       round2(buildS),
		"known_findings_hit":            knownHit,
		"unit_summary":                  trimUnits(unitSumm),
		"distinct_outcomes_lower_bound": capped,
	}
	if total.States > 0 || spec.Level == "model_checking" {
		cov["states"] = total.States
		cov["transitions"] = total.Transitions
		cov["traces_validated_against_impl"] = total.Traces
	}
	if len(total.Samples) == 0 {
		cov["samples"] = []interface{}{"(no sample recorded)"}
	}
	ev := map[string]interface{}{
		"property_id": prop,
		"tier":        *tier,
		"seed":        seed,
		"level":       spec.Level,
		"coverage":    cov,
		"assumptions": spec.Assumptions,
		"wall_s":      round2(wall),
		"violations":  nViol,
	}
	if patchFile == "" {
		os.MkdirAll(filepath.Join(root, "evidence"), 0o755)
		data, _ := json.MarshalIndent(ev, "", " ")
		evName := prop + ".json"
		if *only != "" {
			evName = prop + ".partial.json" // a filtered (debugging) run never replaces the property's evidence
		}
		if err := os.WriteFile(filepath.Join(root, "evidence", evName), data, 0o644); err != nil {
			return engineError("%v", err)
		}
	}
	fmt.Printf("%s tier=%s units=%d evaluations=%d states=%d transitions=%d distinct=%d exhaustive=%v violations=%d known=%d wall=%.1fs\n",
		prop, *tier, len(jobsList), total.Evaluations, total.States, total.Transitions, len(distinct), total.Exhaustive, nViol, len(knownHit), wall)
	return exit
}

func trimUnits(u []map[string]interface{}) []map[string]interface{} {
	if len(u) > 40 {
		return append(u[:40:40], map[string]interface{}{"unit": fmt.Sprintf("… %d more", len(u)-40)})
	}
	return u
}

func workerFor(b *built, unit string, spec propSpec) string {
	segs := strings.SplitN(unit, "/", 3)
	if len(segs) >= 2 && segs[1] == "arch386" && b.seq32 != "" {
		return b.seq32
	}
	if len(segs) >= 2 && segs[1] == "amd64v3" && b.seqv3 != "" {
		return b.seqv3
	}
	if len(segs) >= 2 {
		if strings.HasSuffix(segs[0], "R") && b.race != "" {
			return b.race
		}
		if strings.HasPrefix(segs[1], "s.") && b.sched != "" {
			return b.sched
		}
	}
	if b.seqw != "" && !(len(segs) >= 2 && strings.HasPrefix(segs[1], "s.")) {
		return b.seqw
	}
	if b.sched != "" {
		return b.sched
	}
	return b.seqw
}

func indent(s string) string { return strings.ReplaceAll(s, "\n", "\n  ") }

func round2(f float64) float64 { return float64(int64(f*100)) / 100 }

// crashInLibrary: a worker crash counts as a violation only if the Go runtime
// reported a panic/fatal error whose traceback passes through the library.
func crashInLibrary(out string) bool {
	if !strings.Contains(out, "panic:") && !strings.Contains(out, "fatal error:") {
		return false
	}
	// the traceback of the goroutine that was running (not the word "goroutine" in a message
	// such as "goroutine stack exceeds ...")
	loc := regexp.MustCompile(`(?m)^goroutine \d+[^\n]*\[running[^\n]*\]:`).FindStringIndex(out)
	if loc == nil {
		return false
	}
	tb := out[loc[0]:]
	if j := strings.Index(tb, "\n\n"); j > 0 {
		tb = tb[:j]
	}
	return strings.Contains(tb, "nhooyr.io/websocket")
}

func cmdReplay(args []string) int {
	if len(args) < 1 {
		usage()
	}
	path := args[0]
	data, err := os.ReadFile(path)
	if err != nil {
		return engineError("%v", err)
	}
	var v fw.Violation
	if err := json.Unmarshal(data, &v); err != nil {
		return engineError("%v", err)
	}
	prop := strings.TrimSuffix(strings.SplitN(v.Unit, "/", 2)[0], "R")
	spec, ok := props[prop]
	if !ok {
		return engineError("unknown property in replay file: %s", v.Unit)
	}
	dir, err := tmpDir()
	if err != nil {
		return engineError("%v", err)
	}
	b := &built{dir: dir}
	defer b.cleanup()
	isSched := strings.HasPrefix(strings.SplitN(v.Unit, "/", 3)[1], "s.")
	isRace := strings.HasSuffix(strings.SplitN(v.Unit, "/", 2)[0], "R")
	var w string
	switch {
	case strings.SplitN(v.Unit, "/", 3)[1] == "arch386":
		if err := buildSeq32(b); err != nil {
			return engineError("%v", err)
		}
		w = b.seq32
	case strings.SplitN(v.Unit, "/", 3)[1] == "amd64v3":
		if err := buildSeqV3(b); err != nil {
			return engineError("%v", err)
		}
		w = b.seqv3
	case isRace:
		if err := buildSched(b, true); err != nil {
			return engineError("%v", err)
		}
		w = b.race
	case isSched:
		if err := buildSched(b, false); err != nil {
			return engineError("%v", err)
		}
		w = b.sched
	default:
		if err := buildSeq(b); err != nil {
			return engineError("%v", err)
		}
		w = b.seqw
	}
	_ = spec
	c := exec.Command(w, "replay", "-file", path)
	c.Stdout = os.Stdout
	c.Stderr = os.Stderr
	rl := filepath.Join(b.dir, "racelog-replay")
	c.Env = append(os.Environ(), "GORACE=halt_on_error=0 exitcode=0 log_path="+rl, "VERIF_RACELOG="+rl)
	if err := c.Run(); err != nil {
		if ee, ok := err.(*exec.ExitError); ok {
			return ee.ExitCode()
		}
		return 2
	}
	return 0
}

func cmdSetup() int {
	dir, err := tmpDir()
	if err != nil {
		return engineError("%v", err)
	}
	b := &built{dir: dir}
	defer b.cleanup()
	if err := buildSeq(b); err != nil {
		return engineError("%v", err)
	}
	if err := buildSeq32(b); err != nil {
		return engineError("%v", err)
	}
	if cpuHasAVX2() {
		if err := buildSeqV3(b); err != nil {
			return engineError("%v", err)
		}
	}
	if schedAvailable {
		if err := buildSched(b, false); err != nil {
			return engineError("%v", err)
		}
		if err := buildSched(b, true); err != nil {
			return engineError("%v", err)
		}
	}
	fmt.Println("setup ok")
	return 0
}

// cpuHasAVX2: a GOAMD64=v3 binary only runs on a CPU of that level; on an older machine
// the amd64v3 part is left out (and reported as a bound in the evidence).
func cpuHasAVX2() bool {
	data, err := os.ReadFile("/proc/cpuinfo")
	if err != nil {
		return false
	}
	for _, f := range []string{" avx2", " bmi2", " fma", " movbe"} {
		if !strings.Contains(string(data), f) {
			return false
		}
	}
	return runtime.GOARCH == "amd64"
}
