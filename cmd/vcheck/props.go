package main

import "time"

type propSpec struct {
	Seq, Sched, Race bool
	Level            string
	Rule             string
	Assumptions      []string
	QuickBudget      time.Duration
	ThoroughBudget   time.Duration
}

var commonSeq = []string{
	"trusted base of the oracle: Go's compress/flate, crypto/sha1, encoding/*, bufio; the reference model refws is written independently of the library",
	"data values outside the enumerated alphabets are not covered",
}

var commonSched = []string{
	"interleavings are explored at channel, select, mutex, pool, context, timer and transport operations; code between two such points is atomic (sound for data-race-free code; race mode checks that premise)",
	"trace-key pruning relies on 128-bit hashes of happens-before-stamped events",
	"instrumented sources are regenerated from /repo on every run; pass-through run of the repository's tests over the rewritten sources validates the rewriter (vcheck passthrough)",
}

var props = map[string]propSpec{
	"C05": {Sched: true, Race: true, Level: "model_checking",
		Rule:        "every schedule of each closed harness (writers / streaming writer / pinger+reader / closer on one Conn over vpipe, both roles, compression off/on) within the stated deviation bounds; an execution is one evaluation; states = distinct happens-before trace keys; an outcome is distinct by (harness, order of messages on the wire, per-call error pattern, control frames) and non-trivial when at least two tasks' operations interleaved",
		Assumptions: commonSched},
	"C11": {Seq: true, Level: "model_checking",
		Rule: "part grammar: every request of the cross product method{GET,POST,HEAD,get} x proto{1.0,1.1,2.0} x 9 Connection values x 9 Upgrade values (exact, other case, in a list, on a second header line, prefixed/suffixed look-alikes, other token, empty, absent) x version{13,8,absent,'13, 8'} x 8 key variants (2 valid, absent, two lines, 15/17 bytes, non-base64, empty) x 5 offered x 4 supported sub-protocol lists (622080 requests) is sent to Accept with a recording ResponseWriter+Hijacker and compared with the reference predicate of refws/handshake: upgraded <=> predicate; then 101, Sec-WebSocket-Accept = independent SHA-1 value, sub-protocol = first server-preferred offered one; else status 4xx/5xx, Hijack not called, nil connection and non-nil error. Part buffered: 3 client frame streams x every split k=0..min(len,64) bytes already buffered in the hijacked bufio.Reader x reader size{4096,128} x consumed request prefix{0,50} x rest delivered{at once, byte-wise}; every message must be read back intact. A case is distinct by its grammar index; states = distinct (failed-clause set | sub-protocol outcome) of the model, one transition and one trace per request replayed against the implementation; outcome = status + failed-clause set (refusals) or accept key + sub-protocol kind (upgrades)",
		Assumptions: append([]string{
			"requests are handed to Accept as *http.Request values (header lines as net/http would store them: canonical keys, values without surrounding white space); space-padded keys/versions, where the wire value and the stored value differ, are not in the direct-call product",
			"the property text does not say whether sub-protocol names compare case-sensitively: both readings (and both spellings under the case-insensitive one) are admitted, but response header and Conn.Subprotocol() must agree",
			"the hijacked connection is a scripted net.Conn that never blocks; a hang-guard timeout would be reported as an engine error",
		}, commonSeq...)},
	"C12": {Seq: true, Level: "model_checking",
		Rule: "every (Host, Origin, OriginPatterns, InsecureSkipVerify) combination of: Host{example.com, example.com:8080, EXAMPLE.COM} x origins generated as scheme{https,http,HTTP} :// userinfo{none,user,example.com,example.com:8080,evil.org}@ host{equal, mixed case, different, prefix, suffix look-alike, host-as-prefix, sub-domain, super-domain, trailing dot} port{none,80,8080} tail{none,/example.com,?example.com,#example.com,/@example.com,#@example.com} plus 8 special values (absent, null, schemeless, empty, scheme only, empty authority) x 9 pattern sets (none, exact, *.example.com, *example.com, ?vil.org, EVIL.ORG, *, second of two, malformed '[') x InsecureSkipVerify{false,true} (131652 requests, otherwise valid upgrade requests). Oracle refws/handshake.OriginCase.Decide with the origin's host known by construction (no net/url) and an independent glob matcher: skip-verify, no Origin, same host[:port] or pattern-matched => must be upgraded; host name differs from the request host name and no pattern matches host or host:port => 403, no Hijack, nil connection; hostless origins, port-only differences, trailing-dot spellings and patterns that match only with or only without the port => unconstrained (recorded, not judged). States = distinct (verdict, rule, host kind, userinfo kind, tail kind, pattern kind) of the model; one transition and one trace per request",
		Assumptions: append([]string{
			"the host an origin names is the one it was generated from; net/url is not part of the oracle",
			"pattern syntax is limited to literal characters, '*' and '?' (plus one malformed pattern that matches nothing)",
		}, commonSeq...)},
	"C13": {Seq: true, Level: "model_checking",
		Rule: "grid: every element of the cross product status {101,200,400} x Connection (6 values incl. absent) x Upgrade (6) x Sec-WebSocket-Accept {correct, for another key, absent} x response subprotocol (6: none, requested, other letter case, unrequested, prefix and extension of a requested one) x requested list (3) x response extension header (16 variants) x client compression mode (3) is replayed through websocket.Dial against a scripted RoundTripper; the model is the independent response-validity predicate refws/hsclient.Judge: a state is a distinct clause vector (status, Connection, Upgrade, accept, subprotocol, extensions[+reason]), a transition is one model evaluation input -> verdict, a trace is one case replayed against the implementation (conn != nil iff the predicate holds; clauses on which the property text is silent are not compared). request: every DialOptions combination (4 schemes x 3 subprotocol lists x 16 caller-header subsets x 2 Host overrides x 3 modes) with the recorded request inspected. key: 27 sequences of 8 dials with a scripted source through VerifDial, with crypto/rand.Reader swapped, and with the real crypto/rand. A case is distinct by its full parameter tuple; outcome hash = clause vector, accepted/rejected, connection parameters",
		Assumptions: append([]string{
			"the HTTP round trip is replaced by a scripted http.RoundTripper whose response Body is an in-memory io.ReadWriteCloser (the technique of the repository's own dial_test.go); net/http's client logic above the transport is the real one",
			"letter-case-only subprotocol matches and responses that merely omit a requested server_no_context_takeover are left unconstrained (the property text is silent); malformed values of known permessage-deflate parameters are reported under their own classes C13/accepted-malformed-extension-param/*",
			"key freshness is checked as: the 16 key bytes are among the bytes consumed from the randomness source during that attempt, and no key repeats within a sequence",
		}, commonSeq...)},
	"C14": {Seq: true, Level: "model_checking",
		Rule: "server: every list of up to 2 (quick) / 3 (thorough) offers over 22 productions of the RFC 7692 offer grammar (flags, window-bits with/without values in and out of 8..15, unknown, duplicated and valued-flag parameters, foreign extensions) x 3 server modes x {one header line, one line per offer} through websocket.Accept with a recording hijackable ResponseWriter; the model refws/hsclient classifies each offer (honourable / malformed kind / unhonourable / foreign) and decides which responses a client may receive; a state is a grammar production or a distinct classification vector of a list, a transition one model evaluation, a trace one case replayed against the implementation. client: 16 response variants x 3 client modes through websocket.Dial. After every successful handshake 3 messages of 2000 bytes (2 and 3 repeat content of 1) travel in each direction between the library connection and the reference peer refws/pmd, which applies exactly the parameters of the response header (keeps its context unless forbidden, drops its history whenever the library side promised no takeover). Outcome hash = mode, classification vector, response header, per-message result",
		Assumptions: append([]string{
			"the reference peer does not shrink its LZ77 window for *_max_window_bits (compress/flate has a fixed 32 KiB window); the library never agrees to a window below 15 bits for itself, and a receiver with a larger window decodes any smaller one",
			"transports are in-memory: library writes never block, reads return the scripted bytes; 5 s contexts are hang guards only",
			"parameter names are compared case-sensitively and quoted-string parameter values are outside the alphabet",
		}, commonSeq...)},
	"C06": {Sched: true, Level: "model_checking",
		Rule:        "schedule part: every schedule (within the stated preemption bound; all interleavings in the thorough tier) of Close(1000) against a reader that may be the one to receive the peer's echo (explicit Reader loop, CloseRead, none), a peer that echoes and optionally ends its transport, an optional pinger; and of {Close, CloseNow, Close, late CloseNow} call orders; both roles",
		Assumptions: commonSched},
	"C09": {Sched: true, Level: "model_checking",
		Rule:        "every schedule within (P preemptions, T early timer firings) of each combination adversary{silent, stall after k header bytes, stall after k payload bytes, one data message then silent, flood at 1 frame per virtual second, half-close, echo at +4.9s/+5.1s} x local state{idle, reader blocked, message half read, CloseRead active, CloseRead + data message, writer blocked on a zero window, Ping waiting} x {Close, CloseNow} x role, in virtual time; oracle: Close returns within 10.5 virtual seconds, CloseNow within 1, no deadlock, blocked calls return, CloseRead context done within 1 virtual second of the transport close",
		Assumptions: append([]string{"virtual time: timers fire when nothing else can run, or early as a counted deviation (T); durations measured are virtual"}, commonSched...)},
	"C16": {Sched: true, Level: "model_checking",
		Rule:        "every schedule (within the stated preemption bound) of writers / a streaming Writer / a pinger against a local Close (peer echo early, late, never), a peer-initiated Close, and error-triggered Close frames (protocol violation, read limit, CloseRead policy violation) on one Conn over vpipe, both roles; oracle on the outbound byte log: after the first Close frame no data frame, no second Close frame; an outcome is the opcode sequence on the wire",
		Assumptions: commonSched},
	"C20": {Sched: true, Level: "model_checking",
		Rule:        "all histories of length <= 2 (quick) / <= 3 (thorough) over {write, read, CloseRead, NetConn wrap + write, abandoned Writer, abandoned Reader} x ender {Close with echo, Close without echo, CloseNow, peer Close then Close, protocol error then Close, context expiry then CloseNow, transport failure then Close, NetConn.Close} x role, each explored over all schedules within the preemption bound; oracle: the scheduler's task table holds no unfinished library-spawned task at the instant the final Close/CloseNow returns",
		Assumptions: commonSched},
	"C17": {Seq: true, Level: "exploration",
		Rule:        "every (length 0..4200, alignment 0..63, key) triple, plus every 2-split (len<=512) and 3-split (len<=96); a case is distinct by (impl,len,align,key[,split]) and non-trivial when len>0; outcome hash = hash of masked bytes and returned key",
		Assumptions: []string{"arm64 assembly cannot be executed in this sandbox; only the Go and amd64 implementations are checked", "buffer contents are pseudo-random from VERIF_SEED; XOR is content independent"}},
}
