package main

import "time"

type propSpec struct {
	Seq, Sched, Race bool
	Level            string
	Rule             string
	Assumptions      []string
	QuickBudget      time.Duration
	ThoroughBudget   time.Duration
}

var commonSeq = []string{
	"trusted base of the oracle: Go's compress/flate, crypto/sha1, encoding/*, bufio; the reference model refws is written independently of the library",
	"data values outside the enumerated alphabets are not covered",
}

var commonSched = []string{
	"interleavings are explored at channel, select, mutex, pool, context, timer and transport operations; code between two such points is atomic (sound for data-race-free code; race mode checks that premise)",
	"trace-key pruning relies on 128-bit hashes of happens-before-stamped events",
	"instrumented sources are regenerated from /repo on every run; pass-through run of the repository's tests over the rewritten sources validates the rewriter (vcheck passthrough)",
}

var props = map[string]propSpec{
	"C17": {Seq: true, Level: "exploration",
		Rule:        "every (length 0..4200, alignment 0..63, key) triple, plus every 2-split (len<=512) and 3-split (len<=96); a case is distinct by (impl,len,align,key[,split]) and non-trivial when len>0; outcome hash = hash of masked bytes and returned key",
		Assumptions: []string{"arm64 assembly cannot be executed in this sandbox; only the Go and amd64 implementations are checked", "buffer contents are pseudo-random from VERIF_SEED; XOR is content independent"}},
}
