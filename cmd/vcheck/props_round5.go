package main

// Additions to the rule texts made while processing the fifth batch of seeded
// changes (kept apart from props.go so that the long literals there stay readable).
var ruleAddenda = map[string]string{
	"C01": "s.conc WA: a streamed message whose context ends before Close, then the next message from the same goroutine (the peer never receives a message that was not written).",
	"C02": "s.shared: Write(big), Close and Write(tail) on one writer handle from three goroutines over a stalled transport, then the next message. s.afterclose: a streamed message open across a local Close / peer Close / CloseRead policy close judged as a frame stream (no data frame behind the Close frame).",
	"C03": "schedx part s.conc: a 300- or 70000-byte inbound message whose header is cut inside its extended length (or mask key) while other goroutines write. Part netconn: the foreign senders read through NetConn (bytes arriving together with the end of a message are delivered).",
	"C04": "wsjson documents followed by white space (the value is complete before the message is: a transport end inside the trailing white space is still a cut message).",
	"C05": "WI: inbound message whose header arrives in two pieces while writers write; race units also over reader-vs-CloseNow with an inbound message in flight.",
	"C06": "schedx modes orders-closed-underneath (the connection is closed by the peer / a context, then CloseNow and Close) and simultaneous (both ends send their Close frame before reading the other's).",
	"C07": "seqx part isolation: ordered pairs of handshakes (8 x 8 offers x 3 server modes): A's negotiated parameters are not changed by B's handshake; part isolation-client: the same for two Dials with one DialOptions value (5 x 5 scripted responses x 3 modes).",
	"C14": "Offers with duplicate valued parameters; exchange: the second message streamed in 700-byte chunks (several Write calls per message in every takeover mode). Part isolation-client: two Dials with one DialOptions value (5 x 5 scripted responses x 3 modes).",
	"C08": "Part flood: up to 20000 control or empty frames before the message; the call depth at transport reads must not grow with the number of frames received. Framing many-empty-frags.",
	"C09": "Families neverReads (peer window closed; abandoned streaming writer whose chunk leaves the write buffer 0..7 bytes short of full; idle; reader) and slowThenData (peer reads nothing for 4 s, sends one message at 8 s to a blocked reader, then silence).",
	"C10": "cc family also with a transport window fitted to the first frame of a streamed message plus a Ping, and a redundant Close of the latest message's writer after its context was cancelled.",
	"C11": "Keys followed by non-alphabet bytes and keys whose base64 decoding stops early.",
	"C12": "Hosts one character away from the pattern (different-t, different-g), IPv6 literals, forwarding headers (X-Forwarded-Host, Forwarded) naming the origin's host.",
	"C13": "Extension parameters on several header lines, a lone quote as max_window_bits value, duplicate parameters whose first occurrence carries a value.",
	"C15": "During-close family: a Ping of the peer that arrives after the endpoint's own Close frame was written is still answered; variant pingback: the peer sends a Ping carrying the payload of the local Ping (never completes it).",
	"C18": "Op W0 (Write of an empty slice: same deadline / closed answers as a non-empty one); close reasons of 122 and 123 bytes map to io.EOF for 1000/1001.",
	"C19": "Streams cut after a complete non-final fragment (an error that wraps io.EOF is not the end of the message).",
	"C20": "cr variant transport-close-lingers: the transport's Close takes 2 s; nothing of the library runs when Close returns.",
}

// sixth batch
var ruleAddenda6 = map[string]string{
	"C01": "Payloads handed over by Read are re-checked after the later reads. s.fanout: one payload slice written on two connections at once (slice equals its private copy at every transport write; each peer receives it); race units over the same bodies.",
	"C02": "Part fault: the k-th transport Write (every k) fails once after a short write and the program goes on; the wire stays a well-formed stream (possibly ending inside a frame), complete messages are written messages in order, acknowledged messages are complete.",
	"C03": "Part runs: 1,2,50,98..101,128,300,1000 empty fragments / Pings / Pongs inside a message. Part accepted: frames buffered with the handshake request (every split, real Accept).",
	"C04": "schedx s.conc: inbound header in two pieces while writers write, transport ends 1 byte / half way before the end of the message: the read fails.",
	"C06": "s.closeframe: the first Close frame has its reserved bits clear and exactly the code/reason, also behind the first frame of a compressed stream. Received reasons: 3-byte runes, cut runes, bytes >= 0x80.",
	"C07": "Mixed streams with ops readExact and wsjsonBad.",
	"C08": "takeover-text sequences A,B,A,A at limits 1024/4096/10000.",
	"C09": "s.twoconn: two connections' first compressed reads coincide, then Close / CloseNow.",
	"C10": "Compressed programs: threshold 1, ops RC/W1/WM.",
	"C11": "HTTP/0.9 and 1.2; space-glued Connection/Upgrade values; buffered part with another connection in between and with Pings.",
	"C12": "nil options for every other default case; U+0130 in the origin host against request host wiki.example.com.",
	"C13": "space-/tab-glued Connection and Upgrade values.",
	"C14": "Part limited (context-takeover sequences at small read limits); fourth exchange message with chunks 50/700/50/900.",
	"C15": "Part accepted: Pings buffered with the handshake request are answered in order.",
	"C17": "Part pages: buffers at the edge of a mapped region with PROT_NONE neighbours (faults are reported).",
	"C18": "stream part over all five compression agreements; s.xconn through the adapter.",
	"C19": "Part sequences: sequences <= 3 over 6 documents with untouched read limit, compression off/takeover/no takeover.",
	"C20": "cr variants unfinished-message and ping-then-header.",
}

// seventh batch
var ruleAddenda7 = map[string]string{
	"C01": "W3: three writers on a compressed connection at two preemptions.",
	"C03": "The read loop asks every other finished reader once more after io.EOF, then reads the next message.",
	"C04": "Part closemid: Close frame between the fragments of a message through every reading API.",
	"C05": "W3r under the four asymmetric agreements (300-byte repeating messages); wsjson pool bodies among the race units.",
	"C06": "Receiver streams also in 7-byte pieces; part accepted (Close frame buffered with the request).",
	"C07": "s.sticky: transport Read that does not return on Close, late bytes, new client.",
	"C08": "API wsjson (long string; short value padded with white space).",
	"C09": "Adversary dupPongs; actions CloseBadArgs / CloseBadCode.",
	"C10": "Op WJ; family rl (read idle 6 s before a Ping; cancellations after 10 s); rule: live context + healthy peer => nil.",
	"C11": "Versions 013 and +13; part nohijack.",
	"C13": "Part silent (refused response, silent server, context without deadline; patience 30 s real time).",
	"C14": "Tiny uncompressed message inside the exchange; schedx s.conc (second Write during a >64 KiB compressed stream).",
	"C15": "Script letter L (30 s context, Pong after 6 s).",
	"C16": "both-w1 / both-stalled (both ends close at once).",
	"C17": "Part huge (4 GiB + 203 bytes).",
	"C18": "Ops RDx / WDx (same deadline set twice, idle in between).",
	"C19": "Sequences also under the asymmetric agreements.",
}

// eighth batch
var ruleAddenda8 = map[string]string{
	"C01": "Part bystander (unrelated handshake with the opposite parameters between messages; one process per case).",
	"C02": "Handshakes with a valued parameter in front of the no_context_takeover flag.",
	"C03": "Part after-failure (A fails mid compressed message and is closed; B and C read two interleaved compressed messages each, warm and cold pools).",
	"C04": "Part write-fails (write on a dead transport before the buffered messages are read).",
	"C05": "WSt (first chunk below the threshold); s.fanout.",
	"C06": "cf/both-stalled (one Close frame when both ends close); s.slow (slow handshake within the documented bounds returns nil).",
	"C07": "Op closeRead; part after-failure.",
	"C08": "Limits MaxInt64, MaxInt64-1; 4 MiB message then 10-byte messages under a 1 KiB limit.",
	"C09": "State stale-writer.",
	"C10": "Op RF (discarded remainder of a BFINAL-terminated frame stalls).",
	"C11": "s.conc: 2 and 3 overlapping handshakes (schedx, plus race units); punctuation look-alike sub-protocols.",
	"C12": "Part shared-options; malformed origins naming a foreign host (403).",
	"C13": "Accept value with padding bits set; multi-valued and raw-key caller headers.",
	"C14": "Exchanges also from cold pools; part after-failure.",
	"C15": "Parts limit (control frames under small read limits) and wrap (65600 pings while one is outstanding).",
	"C16": "wconc-cross.",
	"C17": "Part arch386 (GOARCH=386 worker).",
	"C18": "s.clear (deadline removed while the call is blocked); s.fanout.",
	"C19": "s.writers (overlapping wsjson.Write); s.probe (first message of back-references only).",
}

var ruleAddenda9 = map[string]string{
	"C01": "WP-flate (Ping and Pong between the frames of a compressed message); s.idiom: two real endpoints joined by relay tasks, every call with a context of its own that is cancelled as soon as the call has returned, message sequences mixed/stream over four configurations, a final round trip after everything settled; part accepted (client frames already buffered in the hijacked reader when Accept runs).",
	"C03": "Close codes at the boundaries of the registered ranges (1000..1015, 2999/3000, 4999/5000).",
	"C05": "RC150: the reader is in the middle of a final frame between two Read calls when Close (with and without the peer's echo), CloseNow or a cancellation arrives.",
	"C06": "Part closemid: a Close frame between the fragments of a message is reported by the failing read (CloseStatus = the peer's code) and echoed with that code; calls that must fail after a failed Close.",
	"C07": "conc-stalledEcho+CloseNow: the peer's Close frame sits between the fragments of a compressed message, the echo parks in the transport, CloseNow comes from another goroutine and a new connection is opened meanwhile; wconc/wconc-sep/wconc-cross also on compressed connections (pooled compressor).",
	"C08": "An over-limit message while the application holds an open Writer; a message that ends early in an 8 MiB frame (allocation).",
	"C09": "Race units: closers racing the first CloseRead.",
	"C11": "Keys of more than 16 bytes; the library gets copies of option slices and must not modify them.",
	"C12": "An Origin header that names no host (null, schemeless) is refused unless a pattern matches the empty host.",
	"C13": "The request is also inspected after an earlier handshake whose response carried an extension agreement.",
	"C14": "s.xconn on compressed connections (a connection closed while its compressed write is parked in the transport, another connection compresses meanwhile).",
	"C15": "The connection is closed by CloseNow while a Ping waits; further Pings on the closed connection must return.",
	"C16": "Part fault (seqx): the k-th transport write reports a transient error after taking none, half or all of its bytes while the transport stays open; Close frames caused by a protocol error, the read limit, the CloseRead policy, the peer's Close and a local Close; then Write, Writer, Ping, Close, Write.",
	"C18": "Part arch386: the deadline words on a 32-bit platform; a zero time that carries a location removes the deadline.",
	"C19": "s.idiom with wsjson.Write / wsjson.Read and per-call contexts; part accepted: JSON documents already buffered in the hijacked reader, read through wsjson.Read.",
}

var ruleAddenda10 = map[string]string{
	"C01": "s.idiom duplex-split3: both endpoints write and read at once and every transport write is delivered in two pieces (a frame header arrives in two transport reads while the endpoint's own writer runs).",
	"C02": "WC-cancel0-huge: a compressed Write of 140000 sparse-noise bytes (two deflate blocks, frames emitted before the call ends) whose context is cancelled between two of its frames, then a small message that goes out uncompressed.",
	"C03": "Part afterviolation: after a read failed on a protocol violation, the next reads must not deliver anything (the rejected frame's unread payload is laid out as valid frames). s.pools: the read-side three-party history (A closed in the middle of a compressed message, B opened meanwhile, B's message arriving in two halves) judged on the bystander: B's valid stream yields B's message.",
	"C05": "Part fault (seqx): the transport-write faults of C02 judged by C05's clauses (frames atomic, received messages are written messages).",
	"C06": "s.xconn: Close(4001, \"bye\") on a fresh connection while another connection is being closed; simultaneous close with another goroutine's data frame stuck in the transport: the Close frame carries exactly the local code and reason or exactly the peer's.",
	"C07": "prog-kept: slices returned by Conn.Read, also together with an error (transport cut mid-message), are looked at again after reads on other connections; conc-*-blate: the bystander's message arrives in two halves.",
	"C08": "Part afterviolation: after an over-limit failure the next reads must not deliver the rest of the oversized message as messages. Lying frame headers (2^28, 2^40 declared bytes) met by the close handshake (Close, CloseRead) instead of a reader; s.slowpeer: an over-limit message has been received, the peer accepts nothing until 1 s, the reader's context ends at 500 ms (or not): the 1009 Close frame still goes out.",
	"C09": "Adversaries pingNoRead (a Ping right after the connection's Close frame from a peer that stops reading) and latePing (header and half the payload of a Ping 4.9 s into the wait); rule: once the Close frame is on the wire Close returns within about 5 s.",
	"C10": "s.closer: Close called by another goroutine queues behind a Read/Write blocked on a silent peer; the blocked call's own context, cancelled at 1 s, still ends it promptly.",
	"C11": "A same-host Origin header on every other request of the grammar; the key under the RFC spelling of the field name in a hand-built header map (refusal tolerated, a 101 must hash that key).",
	"C12": "Absolute-form request targets (the request URL has a host of its own) with every origin form; long userinfo that puts byte offsets 256/512/1024/4096 of the header value right behind a look-alike prefix of the host.",
	"C14": "W3r: two writers with the same content on connections whose writing side promised to reset its compressor.",
	"C17": "Part amd64v3: the sweep in a worker built with GOAMD64=v3.",
	"C18": "s.idiom through the net.Conn adapter (also duplex with split deliveries); far-future deadlines (year 3000).",
	"C19": "Part afterfail: a wsjson.Read that failed mid-message (transport end, transport error, read limit, invalid JSON), then a wsjson.Read on another connection; wconc-json3: three concurrent wsjson.Write calls on compressed connections.",
	"C20": "cr/streaming-peer (the peer never sends its Close frame and keeps sending a frame every 4 s for 24 s) and cr/writer-closed-twice (a message writer closed twice earlier in the connection's life).",
}

var ruleAddenda11 = map[string]string{
	"C03": "Part bystander (C01's cases under C03's clause on the receiving connection); s.parked: a Ping or Write of another goroutine is parked in the transport while the peer's [Pong][Text] arrives: the message is delivered at once.",
	"C05": "Prefilled-pool read programs (readers that start from pools filled by an earlier connection); race units for closers racing the first CloseRead.",
	"C06": "midread shapes large / many-large: Close with more unread data in flight than the read limit, then the peer's echo.",
	"C07": "wconc-closeframe: A is closed by a handshake while its compressed writer waits behind a Ping parked in the transport; B is opened as soon as A's Close frame is out.",
	"C08": "API reader0 (a Read with an empty buffer first); part afterexact: a compressed message read by its exact length (no EOF asked), then a compressed message of 1000 .. 2^20 zero bytes.",
	"C09": "States closeframe-midmessage (the peer's Close frame between the fragments of a message that is being read) and reread-after-eof (a finished message's reader asked again), also on compressed connections.",
	"C10": "s.nettransport: the transport is a net.Conn with deadlines of its own (virtual time); calls under contexts with deadlines succeed, the deadlines pass, later calls with live contexts succeed.",
	"C15": "Part buffered: a Pong behind 0..8000 unflushed bytes of an open streamed message (around the end of the 4096-byte write buffer), ping payloads 0..125; s.giveup: the WG history judged for control frames.",
	"C20": "cr/stuck-closeframe: the CloseRead goroutine's policy-violation Close frame is stuck in the transport; the application calls Close.",
}

func init() {
	for id, add := range ruleAddenda11 {
		ruleAddenda10[id] += " " + add
	}
	for id, add := range ruleAddenda10 {
		ruleAddenda9[id] += " " + add
	}
	for id, add := range ruleAddenda9 {
		ruleAddenda8[id] += " " + add
	}
	for id, add := range ruleAddenda8 {
		ruleAddenda7[id] += " " + add
	}
	for id, add := range ruleAddenda7 {
		ruleAddenda6[id] += " " + add
	}
	for id, add := range ruleAddenda6 {
		ruleAddenda[id] += " " + add
	}
	for id, add := range ruleAddenda {
		p := props[id]
		p.Rule += " " + add
		props[id] = p
	}
}
