package main

// Additions to the rule texts made while processing the fifth batch of seeded
// changes (kept apart from props.go so that the long literals there stay readable).
var ruleAddenda = map[string]string{
	"C01": "s.conc WA: a streamed message whose context ends before Close, then the next message from the same goroutine (the peer never receives a message that was not written).",
	"C02": "s.shared: Write(big), Close and Write(tail) on one writer handle from three goroutines over a stalled transport, then the next message. s.afterclose: a streamed message open across a local Close / peer Close / CloseRead policy close judged as a frame stream (no data frame behind the Close frame).",
	"C03": "schedx part s.conc: a 300- or 70000-byte inbound message whose header is cut inside its extended length (or mask key) while other goroutines write. Part netconn: the foreign senders read through NetConn (bytes arriving together with the end of a message are delivered).",
	"C04": "wsjson documents followed by white space (the value is complete before the message is: a transport end inside the trailing white space is still a cut message).",
	"C05": "WI: inbound message whose header arrives in two pieces while writers write; race units also over reader-vs-CloseNow with an inbound message in flight.",
	"C06": "schedx modes orders-closed-underneath (the connection is closed by the peer / a context, then CloseNow and Close) and simultaneous (both ends send their Close frame before reading the other's).",
	"C07": "seqx part isolation: ordered pairs of handshakes (8 x 8 offers x 3 server modes): A's negotiated parameters are not changed by B's handshake; part isolation-client: the same for two Dials with one DialOptions value (5 x 5 scripted responses x 3 modes).",
	"C14": "Offers with duplicate valued parameters; exchange: the second message streamed in 700-byte chunks (several Write calls per message in every takeover mode). Part isolation-client: two Dials with one DialOptions value (5 x 5 scripted responses x 3 modes).",
	"C08": "Part flood: up to 20000 control or empty frames before the message; the call depth at transport reads must not grow with the number of frames received. Framing many-empty-frags.",
	"C09": "Families neverReads (peer window closed; abandoned streaming writer whose chunk leaves the write buffer 0..7 bytes short of full; idle; reader) and slowThenData (peer reads nothing for 4 s, sends one message at 8 s to a blocked reader, then silence).",
	"C10": "cc family also with a transport window fitted to the first frame of a streamed message plus a Ping, and a redundant Close of the latest message's writer after its context was cancelled.",
	"C11": "Keys followed by non-alphabet bytes and keys whose base64 decoding stops early.",
	"C12": "Hosts one character away from the pattern (different-t, different-g), IPv6 literals, forwarding headers (X-Forwarded-Host, Forwarded) naming the origin's host.",
	"C13": "Extension parameters on several header lines, a lone quote as max_window_bits value, duplicate parameters whose first occurrence carries a value.",
	"C15": "During-close family: a Ping of the peer that arrives after the endpoint's own Close frame was written is still answered; variant pingback: the peer sends a Ping carrying the payload of the local Ping (never completes it).",
	"C18": "Op W0 (Write of an empty slice: same deadline / closed answers as a non-empty one); close reasons of 122 and 123 bytes map to io.EOF for 1000/1001.",
	"C19": "Streams cut after a complete non-final fragment (an error that wraps io.EOF is not the end of the message).",
	"C20": "cr variant transport-close-lingers: the transport's Close takes 2 s; nothing of the library runs when Close returns.",
}

func init() {
	for id, add := range ruleAddenda {
		p := props[id]
		p.Rule += " " + add
		props[id] = p
	}
}
