package main

import "fmt"

var schedAvailable = false

func buildSched(b *built, race bool) error {
	return fmt.Errorf("sched engine not built yet")
}

func cmdPassthrough() int { return engineError("not implemented") }
