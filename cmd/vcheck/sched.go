package main

import (
	"encoding/json"
	"fmt"
	"os"
	"os/exec"
	"path/filepath"

	"verif/engine/rewrite"
)

var schedAvailable = true

var repoRoot = "/repo"

// shim packages are compiled without race instrumentation in race mode so
// that the scheduler's own hand-offs and bookkeeping add no happens-before edges
var uninstrumented = []string{
	"verif/engine/vs", "verif/engine/vsync", "verif/engine/vctx", "verif/engine/vtime",
	"verif/engine/vrand", "verif/engine/vmrand", "verif/engine/vpipe", "verif/engine/explore",
}

func genOverlay(b *built) (string, error) {
	ov := filepath.Join(b.dir, "ov")
	if _, err := os.Stat(filepath.Join(ov, "overlay.json")); err == nil {
		return filepath.Join(ov, "overlay.json"), nil
	}
	if err := os.MkdirAll(ov, 0o755); err != nil {
		return "", err
	}
	mut, err := mutatedRepo(b)
	if err != nil {
		return "", err
	}
	if mut == "" {
		return rewrite.Generate(repoRoot, ov, []string{"verif"})
	}
	// rewrite the patched copy, then map everything onto the /repo paths
	if _, err := rewrite.Generate(mut, ov, []string{"verif"}); err != nil {
		return "", err
	}
	data, err := os.ReadFile(filepath.Join(ov, "overlay.json"))
	if err != nil {
		return "", err
	}
	var o struct{ Replace map[string]string }
	if err := json.Unmarshal(data, &o); err != nil {
		return "", err
	}
	repl := map[string]string{}
	plain, err := plainOverlay(b, mut)
	if err != nil {
		return "", err
	}
	pd, _ := os.ReadFile(plain)
	var po struct{ Replace map[string]string }
	json.Unmarshal(pd, &po)
	for k, v := range po.Replace {
		repl[k] = v
	}
	for k, v := range o.Replace {
		rel, _ := filepath.Rel(mut, k)
		repl[filepath.Join(repoRoot, rel)] = v
	}
	out, _ := json.Marshal(map[string]interface{}{"Replace": repl})
	p := filepath.Join(ov, "overlay.json")
	return p, os.WriteFile(p, out, 0o644)
}

func buildSched(b *built, race bool) error {
	overlay, err := genOverlay(b)
	if err != nil {
		return fmt.Errorf("rewriter: %v", err)
	}
	if err := addDetMaps(overlay, filepath.Dir(overlay)); err != nil {
		return fmt.Errorf("runtime overlay: %v", err)
	}
	out := filepath.Join(b.dir, "schedw")
	args := []string{"build", "-tags", "verif", "-overlay", overlay}
	if race {
		out = filepath.Join(b.dir, "schedw-race")
		args = append(args, "-race")
		for _, p := range uninstrumented {
			args = append(args, "-gcflags="+p+"=-race=false")
		}
	}
	args = append(args, "-o", out, "./cmd/schedw")
	cmd := exec.Command("go", args...)
	cmd.Dir = root
	cmd.Env = goEnv()
	o, err := cmd.CombinedOutput()
	if err != nil {
		return fmt.Errorf("building schedw (race=%v): %v\n%s", race, err, o)
	}
	if race {
		b.race = out
	} else {
		b.sched = out
	}
	return nil
}

// cmdPassthrough runs the repository's own tests over the rewritten sources
// with no world attached: every shim operation performs the real Go operation.
// This validates the rewriter independently of the scheduler.
func cmdPassthrough() int {
	dir, err := tmpDir()
	if err != nil {
		return engineError("%v", err)
	}
	b := &built{dir: dir}
	defer b.cleanup()
	overlay, err := genOverlay(b)
	if err != nil {
		return engineError("rewriter: %v", err)
	}
	cmd := exec.Command("go", "test", "-tags", "verif", "-overlay", overlay, "-vet=off", "-count=1", "nhooyr.io/websocket/...")
	cmd.Dir = root
	cmd.Env = goEnv()
	cmd.Stdout = os.Stdout
	cmd.Stderr = os.Stderr
	if err := cmd.Run(); err != nil {
		fmt.Println("PASSTHROUGH FAILED:", err)
		return 2
	}
	fmt.Println("passthrough ok: repository tests pass over the rewritten sources")
	return 0
}
