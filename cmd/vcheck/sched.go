package main

import "fmt"

func buildSched(b *built, race bool) error {
	return fmt.Errorf("sched engine not built yet")
}

func cmdPassthrough() int { return engineError("not implemented") }
