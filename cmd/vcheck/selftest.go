package main

import (
	"encoding/json"
	"flag"
	"fmt"
	"os"
	"os/exec"
	"path/filepath"
	"sort"
	"strings"
	"time"
)

// selftest demonstrates detection: every property-breaking patch listed in
// mutants/index.json (reverts of the fix commits, hand-written mutants and the
// independently seeded changes under seeded/) is applied to a scratch copy of
// the repository through -overlay and the responsible check must report a
// VIOLATION (exit 1). /repo is never modified.
type mutantEntry struct {
	Patch    string `json:"patch"`
	Property string `json:"property"`
	Note     string `json:"note,omitempty"`
	Tier     string `json:"tier,omitempty"`
}

func cmdSelftest(args []string) int {
	fs := flag.NewFlagSet("selftest", flag.ExitOnError)
	only := fs.String("only", "", "substring filter on patch path or property")
	fs.Parse(args)
	data, err := os.ReadFile(filepath.Join(root, "mutants", "index.json"))
	if err != nil {
		return engineError("%v", err)
	}
	var list []mutantEntry
	if err := json.Unmarshal(data, &list); err != nil {
		return engineError("mutants/index.json: %v", err)
	}
	sort.SliceStable(list, func(i, j int) bool { return list[i].Property < list[j].Property })
	self, _ := os.Executable()
	missed := 0
	ran := 0
	for _, m := range list {
		if *only != "" && !strings.Contains(m.Patch, *only) && !strings.Contains(m.Property, *only) {
			continue
		}
		tier := m.Tier
		if tier == "" {
			tier = "quick"
		}
		start := time.Now()
		cmd := exec.Command(self, "run", m.Property, "--tier", tier, "--patch", filepath.Join(root, m.Patch))
		cmd.Env = os.Environ()
		out, err := cmd.CombinedOutput()
		code := 0
		if ee, ok := err.(*exec.ExitError); ok {
			code = ee.ExitCode()
		} else if err != nil {
			code = 2
		}
		ran++
		var classes []string
		for _, ln := range strings.Split(string(out), "\n") {
			if strings.HasPrefix(strings.TrimSpace(ln), "class: ") {
				c := strings.TrimPrefix(strings.TrimSpace(ln), "class: ")
				if i := strings.Index(c, " (cases"); i > 0 {
					c = c[:i]
				}
				classes = append(classes, c)
			}
		}
		verdict := "DETECTED"
		if code != 1 {
			verdict = fmt.Sprintf("MISSED(exit %d)", code)
			missed++
		}
		first := ""
		if len(classes) > 0 {
			first = classes[0]
		}
		fmt.Printf("%-16s %-4s %-40s %5.1fs  %s (+%d)\n", verdict, m.Property, m.Patch, time.Since(start).Seconds(), first, max0(len(classes)-1))
		if code != 1 && code != 0 {
			tail := string(out)
			if len(tail) > 600 {
				tail = tail[len(tail)-600:]
			}
			fmt.Println(indent(tail))
		}
	}
	fmt.Printf("selftest: %d patches, %d detected, %d missed\n", ran, ran-missed, missed)
	if missed > 0 {
		return 1
	}
	return 0
}

func max0(n int) int {
	if n < 0 {
		return 0
	}
	return n
}
