// Package explore is the stateless depth-first explorer over vs executions:
// re-execution from a recorded choice prefix, deviation-bounded branching
// (preemptions P, early timers T, environment deviations E) and pruning of
// points whose happens-before trace key was already visited with at least the
// same remaining budget.
package explore

import (
	"fmt"
	"math"
	"os"

	"verif/engine/vs"
	"verif/fw"
)

// Config bounds one exploration.
type Config struct {
	P, T, E        int // deviation bounds; negative = unbounded
	NoPrune        bool
	MaxExecs       int64 // 0 = no cap
	Shard, NShards int   // subtree sharding on the root's alternatives (NShards<=1: off)
	Horizon        int64 // virtual ns
}

// Stats summarises one exploration.
type Stats struct {
	Execs, Complete, Pruned int64
	States                  int64
	Transitions             int64
	MaxPoints               int
	Deadlocks               int64
	Exhaustive              bool
	Diverged                string
}

type cost struct{ p, t, e int }

type item struct {
	prefix []int32
	sigs   []uint32
	c      cost
	plog   []string // debug: trace of the run that generated this item
}

var debugDiverge = os.Getenv("VERIF_DEBUG_DIVERGE") == "1"

type key struct {
	a, b uint64
	cur  uint64
	now  int64
}

type rem struct{ p, t, e int }

func remaining(b, used int) int {
	if b < 0 {
		return math.MaxInt32
	}
	return b - used
}

// Setup builds the scenario in a fresh world (spawns tasks) and returns the
// function evaluated after the run. complete is false when the run was pruned.
type Setup func(w *vs.World) (after func(complete bool))

// ReplayData is what a schedule violation stores.
type ReplayData struct {
	Choices []int32     `json:"choices"`
	Sigs    []uint32    `json:"sigs"`
	Log     []string    `json:"log,omitempty"`
	Params  interface{} `json:"params,omitempty"`
}

// Replay of w's schedule (call before Abort).
func Schedule(w *vs.World, params interface{}) ReplayData {
	rd := ReplayData{Choices: w.Choices(), Params: params}
	for _, p := range w.Points {
		rd.Sigs = append(rd.Sigs, p.Sig)
	}
	rd.Log = w.Log
	return rd
}

// RunOne executes a single schedule (used for replay and determinism checks).
func RunOne(cfg Config, prefix []int32, sigs []uint32, trace bool, setup Setup) *vs.World {
	w := vs.NewWorld(prefix, sigs)
	w.TimerChoices = cfg.T != 0
	w.Horizon = cfg.Horizon
	w.Trace = trace
	after := setup(w)
	vs.MarkRunning(true)
	w.Run()
	vs.MarkRunning(false)
	after(!w.Stopped && w.Diverged == "")
	w.Abort()
	return w
}

// Explore enumerates every schedule of the scenario within cfg's bounds.
func Explore(c *fw.Ctx, cfg Config, setup Setup) Stats {
	st := Stats{Exhaustive: true}
	if os.Getenv("VERIF_NOPRUNE") == "1" {
		cfg.NoPrune = true
	}
	// determinism obligation: the default schedule executed twice must take the
	// same decisions at the same points (otherwise some nondeterminism is not owned)
	{
		var prev []uint32
		for try := 0; try < 2; try++ {
			w := vs.NewWorld(nil, nil)
			w.TimerChoices = cfg.T != 0
			w.Horizon = cfg.Horizon
			after := setup(w)
			vs.MarkRunning(true)
			w.Run()
			vs.MarkRunning(false)
			after(false)
			var sigs []uint32
			for _, p := range w.Points {
				sigs = append(sigs, p.Sig)
			}
			w.Abort()
			if try == 1 {
				same := len(sigs) == len(prev)
				for i := 0; same && i < len(sigs); i++ {
					same = sigs[i] == prev[i]
				}
				if !same {
					c.EngineError("schedx: the default schedule is not reproducible (unowned nondeterminism)")
					st.Exhaustive = false
					return st
				}
			}
			prev = sigs
		}
	}
	visited := map[key][]rem{}
	stack := []item{{}}
	first := true
	for len(stack) > 0 {
		if cfg.MaxExecs > 0 && st.Execs >= cfg.MaxExecs {
			st.Exhaustive = false
			c.NotExhaustive(fmt.Sprintf("execution cap %d reached", cfg.MaxExecs))
			break
		}
		if st.Execs&0x3ff == 0 && c.OutOfTime() {
			st.Exhaustive = false
			c.NotExhaustive("wall-clock budget reached before the bounded space was completed")
			break
		}
		it := stack[len(stack)-1]
		stack = stack[:len(stack)-1]
		w := vs.NewWorld(it.prefix, it.sigs)
		w.TimerChoices = cfg.T != 0
		w.Horizon = cfg.Horizon
		w.Trace = debugDiverge
		r := rem{remaining(cfg.P, it.c.p), remaining(cfg.T, it.c.t), remaining(cfg.E, it.c.e)}
		if !cfg.NoPrune {
			w.StopAt = func(w *vs.World) bool {
				k := key{w.HashA, w.HashB, w.CurPath(), w.Now}
				olds := visited[k]
				for _, o := range olds {
					if o.p >= r.p && o.t >= r.t && o.e >= r.e {
						return true
					}
				}
				// keep a small Pareto set
				keep := olds[:0]
				for _, o := range olds {
					if !(r.p >= o.p && r.t >= o.t && r.e >= o.e) {
						keep = append(keep, o)
					}
				}
				visited[k] = append(keep, r)
				return false
			}
		}
		after := setup(w)
		vs.MarkRunning(true)
		w.Run()
		vs.MarkRunning(false)
		st.Execs++
		c.Eval()
		st.Transitions += int64(w.Steps)
		if len(w.Points) > st.MaxPoints {
			st.MaxPoints = len(w.Points)
		}
		if w.Diverged != "" {
			st.Diverged = w.Diverged
			if debugDiverge {
				fmt.Println("DIVERGED:", w.Diverged, "prefix", it.prefix)
				for i := 0; i < len(it.plog) || i < len(w.Log); i++ {
					a, b := "<end>", "<end>"
					if i < len(it.plog) {
						a = it.plog[i]
					}
					if i < len(w.Log) {
						b = w.Log[i]
					}
					mark := "  "
					if a != b {
						mark = "!!"
					}
					fmt.Printf("%s %-60s | %s\n", mark, a, b)
				}
			}
			c.EngineError("schedx: " + w.Diverged)
			after(false)
			w.Abort()
			st.Exhaustive = false
			break
		}
		if w.StepLimit {
			after(true) // the scenario wrapper reports it
			w.Abort()
			st.Exhaustive = false
			c.NotExhaustive("an execution exceeded the step limit; the exploration of this scenario stopped there")
			break
		}
		complete := !w.Stopped
		if complete {
			st.Complete++
			if w.Deadlock {
				st.Deadlocks++
			}
		} else {
			st.Pruned++
		}
		after(complete)
		// branch on every alternative after the prefix
		var children []item
		for i := len(it.prefix); i < len(w.Points); i++ {
			pt := w.Points[i]
			for alt := 1; alt < len(pt.Enabled); alt++ {
				ch := pt.Enabled[alt]
				nc := it.c
				if ch.Timer {
					nc.t++
				} else if pt.CurIdx > 0 && alt >= pt.CurIdx {
					nc.p++
				}
				if ch.Cost == vs.CostEnv {
					nc.e++
				}
				if (cfg.P >= 0 && nc.p > cfg.P) || (cfg.T >= 0 && nc.t > cfg.T) || (cfg.E >= 0 && nc.e > cfg.E) {
					continue
				}
				np := make([]int32, i+1)
				ns := make([]uint32, i+1)
				for j := 0; j < i; j++ {
					np[j] = int32(w.Points[j].Chosen)
					ns[j] = w.Points[j].Sig
				}
				np[i] = int32(alt)
				ns[i] = 0 // signature of a new branch is not known yet
				ch2 := item{prefix: np, sigs: ns, c: nc}
				if debugDiverge {
					ch2.plog = w.Log
				}
				children = append(children, ch2)
			}
		}
		w.Abort()
		if first {
			first = false
			if cfg.NShards > 1 {
				var mine []item
				for j, ch := range children {
					if j%cfg.NShards == cfg.Shard {
						mine = append(mine, ch)
					}
				}
				children = mine
			}
		}
		// push in reverse so that the earliest, cheapest alternatives run first
		for j := len(children) - 1; j >= 0; j-- {
			stack = append(stack, children[j])
		}
	}
	st.States = int64(len(visited))
	c.AddStates(st.States)
	c.AddTransitions(st.Transitions)
	c.AddTraces(st.Complete)
	return st
}
