// Package rewrite instruments the websocket sources for the controlled
// scheduler. It is purely syntactic (go/ast, no type information) so it keeps
// working on an edited tree, and it fails loudly on syntax it cannot instrument.
//
//	go f(a)                 -> { _a := a; vs.Go(func() { f(_a) }) }
//	ch <- v / <-ch / close  -> vs.Send / vs.Recv / vs.Recv2 / vs.Close
//	select { ... }          -> { c0 := vs.RecvCase(..); switch vs.Select(hasDefault, c0, ..) { case 0: ... } }
//	import "sync" etc.      -> verif/engine/vsync etc. (same local name)
//	runtime.SetFinalizer    -> vs.SetFinalizer (no-op under the scheduler)
package rewrite

import (
	"bytes"
	"encoding/json"
	"fmt"
	"go/ast"
	"go/build"
	"go/format"
	"go/parser"
	"go/token"
	"os"
	"path/filepath"
	"strconv"
	"strings"
)

const ShimRoot = "verif/engine/"

var importMap = map[string]string{
	"sync":        ShimRoot + "vsync",
	"context":     ShimRoot + "vctx",
	"time":        ShimRoot + "vtime",
	"crypto/rand": ShimRoot + "vrand",
	"math/rand":   ShimRoot + "vmrand",
}

// Dirs are the package directories (relative to the repository root) that are
// instrumented.
var Dirs = []string{".", "internal/bpool", "internal/xsync", "wsjson", "internal/errd", "internal/util"}

type rewriter struct {
	counter int
	usedVS  bool
	err     error
	file    string
	fset    *token.FileSet
	// names known (syntactically) to denote channels: the enclosing function's
	// parameters/locals, and the package's struct fields and variables
	localChans map[string]bool
}

// pkgChans holds, for the package directory being rewritten, the names of struct
// fields and package-level variables of channel type (collected from all files
// of the directory before any of them is rewritten).
var pkgChans = map[string]bool{}

func isChanType(e ast.Expr) bool {
	switch t := e.(type) {
	case *ast.ChanType:
		return true
	case *ast.ParenExpr:
		return isChanType(t.X)
	}
	return false
}

func isMakeChan(e ast.Expr) bool {
	c, ok := e.(*ast.CallExpr)
	if !ok || len(c.Args) == 0 {
		return false
	}
	fn, ok := c.Fun.(*ast.Ident)
	return ok && fn.Name == "make" && isChanType(c.Args[0])
}

// collectPkgChans scans one parsed file for channel-typed struct fields and
// package-level variables.
func collectPkgChans(f *ast.File) {
	ast.Inspect(f, func(n ast.Node) bool {
		if st, ok := n.(*ast.StructType); ok && st.Fields != nil {
			for _, fl := range st.Fields.List {
				if isChanType(fl.Type) {
					for _, nm := range fl.Names {
						pkgChans[nm.Name] = true
					}
				}
			}
		}
		return true
	})
	for _, d := range f.Decls {
		gd, ok := d.(*ast.GenDecl)
		if !ok || gd.Tok != token.VAR {
			continue
		}
		for _, sp := range gd.Specs {
			vsp := sp.(*ast.ValueSpec)
			for i, nm := range vsp.Names {
				if (vsp.Type != nil && isChanType(vsp.Type)) || (i < len(vsp.Values) && isMakeChan(vsp.Values[i])) {
					pkgChans[nm.Name] = true
				}
			}
		}
	}
}

// funcChans collects the names a function declares with channel type.
func funcChans(fd *ast.FuncDecl) map[string]bool {
	m := map[string]bool{}
	fields := func(fl *ast.FieldList) {
		if fl == nil {
			return
		}
		for _, f := range fl.List {
			if isChanType(f.Type) {
				for _, nm := range f.Names {
					m[nm.Name] = true
				}
			}
		}
	}
	fields(fd.Type.Params)
	fields(fd.Type.Results)
	ast.Inspect(fd, func(n ast.Node) bool {
		switch x := n.(type) {
		case *ast.FuncLit:
			fields(x.Type.Params)
		case *ast.AssignStmt:
			if x.Tok == token.DEFINE && len(x.Lhs) == len(x.Rhs) {
				for i, l := range x.Lhs {
					if li, ok := l.(*ast.Ident); ok && isMakeChan(x.Rhs[i]) {
						m[li.Name] = true
					}
				}
			}
		case *ast.ValueSpec:
			for i, nm := range x.Names {
				if (x.Type != nil && isChanType(x.Type)) || (i < len(x.Values) && isMakeChan(x.Values[i])) {
					m[nm.Name] = true
				}
			}
		}
		return true
	})
	return m
}

// rangesOverChan decides, without type information, whether the operand of a
// range statement is a channel: a name declared with channel type in the
// function or package, a selector of a channel-typed field (or a timer's C), a
// call of a Done() method, or time.After/Tick.
func (r *rewriter) rangesOverChan(e ast.Expr) bool {
	switch x := e.(type) {
	case *ast.ParenExpr:
		return r.rangesOverChan(x.X)
	case *ast.Ident:
		return r.localChans[x.Name] || (x.Obj == nil && pkgChans[x.Name]) || (x.Obj != nil && x.Obj.Kind == ast.Var && pkgChans[x.Name] && !r.shadowed(x))
	case *ast.SelectorExpr:
		if p, ok := x.X.(*ast.Ident); ok && p.Name == "time" && (x.Sel.Name == "After" || x.Sel.Name == "Tick") {
			return false // the call expression is handled below
		}
		return pkgChans[x.Sel.Name] || x.Sel.Name == "C"
	case *ast.CallExpr:
		if s, ok := x.Fun.(*ast.SelectorExpr); ok {
			if s.Sel.Name == "Done" && len(x.Args) == 0 {
				return true
			}
			if p, ok := s.X.(*ast.Ident); ok && p.Name == "time" && (s.Sel.Name == "After" || s.Sel.Name == "Tick") {
				return true
			}
		}
	}
	return false
}

// shadowed: a package-level channel name that the function re-declares with
// another type is not treated as a channel.
func (r *rewriter) shadowed(x *ast.Ident) bool {
	if x.Obj == nil || x.Obj.Decl == nil {
		return false
	}
	switch d := x.Obj.Decl.(type) {
	case *ast.ValueSpec:
		return d.Type != nil && !isChanType(d.Type)
	case *ast.Field:
		return !isChanType(d.Type)
	case *ast.AssignStmt:
		return true
	}
	return false
}

// rangeChan rewrites `for v := range ch { body }` into a loop over vs.Recv2.
func (r *rewriter) rangeChan(x *ast.RangeStmt) ast.Stmt {
	r.usedVS = true
	r.counter++
	ch := fmt.Sprintf("_vsch%d", r.counter)
	okName := fmt.Sprintf("_vsok%d", r.counter)
	recv := call(sel("vs", "Recv2"), id(ch))
	var head []ast.Stmt
	brk := &ast.IfStmt{Cond: &ast.UnaryExpr{Op: token.NOT, X: id(okName)}, Body: &ast.BlockStmt{List: []ast.Stmt{&ast.BranchStmt{Tok: token.BREAK}}}}
	switch {
	case x.Key == nil:
		head = []ast.Stmt{&ast.AssignStmt{Lhs: []ast.Expr{id("_"), id(okName)}, Tok: token.DEFINE, Rhs: []ast.Expr{recv}}, brk}
	case x.Tok == token.DEFINE:
		head = []ast.Stmt{&ast.AssignStmt{Lhs: []ast.Expr{x.Key, id(okName)}, Tok: token.DEFINE, Rhs: []ast.Expr{recv}}, brk}
		if k, ok := x.Key.(*ast.Ident); ok && k.Name != "_" {
			head = append(head, &ast.AssignStmt{Lhs: []ast.Expr{id("_")}, Tok: token.ASSIGN, Rhs: []ast.Expr{id(k.Name)}})
		}
	default:
		v := fmt.Sprintf("_vsv%d", r.counter)
		head = []ast.Stmt{&ast.AssignStmt{Lhs: []ast.Expr{id(v), id(okName)}, Tok: token.DEFINE, Rhs: []ast.Expr{recv}}, brk,
			&ast.AssignStmt{Lhs: []ast.Expr{r.expr(x.Key)}, Tok: token.ASSIGN, Rhs: []ast.Expr{id(v)}}}
	}
	r.rw(x.Body)
	body := &ast.BlockStmt{List: append(head, x.Body.List...)}
	return &ast.ForStmt{
		Init: &ast.AssignStmt{Lhs: []ast.Expr{id(ch)}, Tok: token.DEFINE, Rhs: []ast.Expr{r.expr(x.X)}},
		Body: body,
	}
}

func id(s string) *ast.Ident   { return ast.NewIdent(s) }
func sel(x, s string) ast.Expr { return &ast.SelectorExpr{X: id(x), Sel: id(s)} }
func call(fn ast.Expr, args ...ast.Expr) *ast.CallExpr {
	return &ast.CallExpr{Fun: fn, Args: args}
}

// Generate rewrites the sources under repo into outDir and writes
// outDir/overlay.json. extra maps additional overlay entries (e.g. mutants).
func Generate(repo, outDir string, tags []string) (string, error) {
	overlay := map[string]string{}
	ctxt := build.Default
	ctxt.BuildTags = tags
	ctxt.CgoEnabled = false
	for _, d := range Dirs {
		dir := filepath.Join(repo, d)
		ents, err := os.ReadDir(dir)
		if err != nil {
			if os.IsNotExist(err) {
				continue
			}
			return "", err
		}
		pkgChans = map[string]bool{}
		for _, e := range ents {
			n := e.Name()
			if e.IsDir() || !strings.HasSuffix(n, ".go") || strings.HasSuffix(n, "_test.go") {
				continue
			}
			if ok, _ := ctxt.MatchFile(dir, n); !ok {
				continue
			}
			if pf, err := parser.ParseFile(token.NewFileSet(), filepath.Join(dir, n), nil, 0); err == nil {
				collectPkgChans(pf)
			}
		}
		for _, e := range ents {
			n := e.Name()
			if e.IsDir() || !strings.HasSuffix(n, ".go") || strings.HasSuffix(n, "_test.go") {
				continue
			}
			ok, err := ctxt.MatchFile(dir, n)
			if err != nil {
				return "", fmt.Errorf("%s/%s: %v", dir, n, err)
			}
			if !ok {
				continue
			}
			src := filepath.Join(dir, n)
			out, changed, err := File(src)
			if err != nil {
				return "", err
			}
			if !changed {
				continue
			}
			dst := filepath.Join(outDir, strings.ReplaceAll(strings.TrimPrefix(src, "/"), "/", "__"))
			if err := os.WriteFile(dst, out, 0o644); err != nil {
				return "", err
			}
			overlay[src] = dst
		}
	}
	b, _ := json.MarshalIndent(map[string]interface{}{"Replace": overlay}, "", " ")
	p := filepath.Join(outDir, "overlay.json")
	if err := os.WriteFile(p, b, 0o644); err != nil {
		return "", err
	}
	return p, nil
}

// File rewrites one source file.
func File(src string) ([]byte, bool, error) {
	fset := token.NewFileSet()
	f, err := parser.ParseFile(fset, src, nil, parser.ParseComments)
	if err != nil {
		return nil, false, err
	}
	r := &rewriter{file: src, fset: fset}
	changed := r.rewriteFile(f)
	if r.err != nil {
		return nil, false, r.err
	}
	if !changed {
		return nil, false, nil
	}
	var buf bytes.Buffer
	if err := format.Node(&buf, fset, f); err != nil {
		return nil, false, fmt.Errorf("%s: %v", src, err)
	}
	return buf.Bytes(), true, nil
}

func (r *rewriter) fail(n ast.Node, msg string) {
	if r.err == nil {
		r.err = fmt.Errorf("%s: rewriter cannot instrument: %s", r.fset.Position(n.Pos()), msg)
	}
}

func (r *rewriter) rewriteFile(f *ast.File) bool {
	changed := false
	for _, im := range f.Imports {
		p, _ := strconv.Unquote(im.Path.Value)
		if np, ok := importMap[p]; ok {
			name := filepath.Base(p)
			if im.Name != nil {
				name = im.Name.Name
			}
			im.Name = id(name)
			im.Path.Value = strconv.Quote(np)
			changed = true
		}
	}
	for _, d := range f.Decls {
		switch x := d.(type) {
		case *ast.FuncDecl:
			if x.Body != nil {
				r.localChans = funcChans(x)
				r.rw(x.Body)
				r.localChans = nil
			}
		case *ast.GenDecl:
			for _, sp := range x.Specs {
				if vsp, ok := sp.(*ast.ValueSpec); ok {
					for i := range vsp.Values {
						vsp.Values[i] = r.expr(vsp.Values[i])
					}
				}
			}
		}
	}
	if r.usedVS {
		changed = true
		f.Decls = append([]ast.Decl{&ast.GenDecl{Tok: token.IMPORT, Specs: []ast.Spec{
			&ast.ImportSpec{Name: id("vs"), Path: &ast.BasicLit{Kind: token.STRING, Value: strconv.Quote(ShimRoot + "vs")}},
		}}}, f.Decls...)
		// drop the runtime import if SetFinalizer was its only use
		if !usesPkg(f, "runtime") {
			dropImport(f, "runtime")
		}
	}
	return changed
}

func usesPkg(f *ast.File, name string) bool {
	used := false
	ast.Inspect(f, func(n ast.Node) bool {
		if s, ok := n.(*ast.SelectorExpr); ok {
			if x, ok := s.X.(*ast.Ident); ok && x.Name == name && x.Obj == nil {
				used = true
			}
		}
		return !used
	})
	return used
}

func dropImport(f *ast.File, path string) {
	for _, d := range f.Decls {
		gd, ok := d.(*ast.GenDecl)
		if !ok || gd.Tok != token.IMPORT {
			continue
		}
		var keep []ast.Spec
		for _, sp := range gd.Specs {
			is := sp.(*ast.ImportSpec)
			if p, _ := strconv.Unquote(is.Path.Value); p == path && is.Name == nil {
				continue
			}
			keep = append(keep, sp)
		}
		gd.Specs = keep
	}
	var imps []*ast.ImportSpec
	for _, is := range f.Imports {
		if p, _ := strconv.Unquote(is.Path.Value); p == path && is.Name == nil {
			continue
		}
		imps = append(imps, is)
	}
	f.Imports = imps
}

func (r *rewriter) stmts(list []ast.Stmt) {
	for i, s := range list {
		list[i] = r.rw(s).(ast.Stmt)
	}
}

func (r *rewriter) expr(e ast.Expr) ast.Expr {
	if e == nil {
		return nil
	}
	return r.rw(e).(ast.Expr)
}

func isRecv(e ast.Expr) (*ast.UnaryExpr, bool) {
	for {
		if p, ok := e.(*ast.ParenExpr); ok {
			e = p.X
			continue
		}
		break
	}
	u, ok := e.(*ast.UnaryExpr)
	return u, ok && u.Op == token.ARROW
}

func (r *rewriter) selectStmt(x *ast.SelectStmt, label *ast.Ident) ast.Stmt {
	r.usedVS = true
	r.counter++
	base := fmt.Sprintf("_vsc%d_", r.counter)
	var pre []ast.Stmt
	var args []ast.Expr
	sw := &ast.SwitchStmt{Body: &ast.BlockStmt{}}
	hasDefault := "false"
	idx := 0
	for _, c := range x.Body.List {
		cc := c.(*ast.CommClause)
		var body []ast.Stmt
		clause := &ast.CaseClause{}
		if cc.Comm == nil {
			hasDefault = "true"
			clause.List = []ast.Expr{&ast.UnaryExpr{Op: token.SUB, X: &ast.BasicLit{Kind: token.INT, Value: "1"}}}
		} else {
			name := base + strconv.Itoa(idx)
			var mk ast.Expr
			switch s := cc.Comm.(type) {
			case *ast.SendStmt:
				mk = call(sel("vs", "SendCase"), r.expr(s.Chan), r.expr(s.Value))
			case *ast.ExprStmt:
				u, ok := isRecv(s.X)
				if !ok {
					r.fail(s, "select case is not a receive")
					return x
				}
				mk = call(sel("vs", "RecvCase"), r.expr(u.X))
			case *ast.AssignStmt:
				if len(s.Rhs) != 1 {
					r.fail(s, "select receive with several right-hand sides")
					return x
				}
				u, ok := isRecv(s.Rhs[0])
				if !ok {
					r.fail(s, "select case is not a receive")
					return x
				}
				mk = call(sel("vs", "RecvCase"), r.expr(u.X))
				rhs := []ast.Expr{&ast.SelectorExpr{X: id(name), Sel: id("V")}}
				if len(s.Lhs) == 2 {
					rhs = append(rhs, &ast.SelectorExpr{X: id(name), Sel: id("OK")})
				}
				lhs := make([]ast.Expr, len(s.Lhs))
				for i := range s.Lhs {
					lhs[i] = r.expr(s.Lhs[i])
				}
				body = append(body, &ast.AssignStmt{Lhs: lhs, Tok: s.Tok, Rhs: rhs})
				if s.Tok == token.DEFINE {
					// keep "declared and not used" away when the body ignores the value
					for _, l := range lhs {
						if li, ok := l.(*ast.Ident); ok && li.Name != "_" {
							body = append(body, &ast.AssignStmt{Lhs: []ast.Expr{id("_")}, Tok: token.ASSIGN, Rhs: []ast.Expr{id(li.Name)}})
						}
					}
				}
			default:
				r.fail(cc, "unknown select communication clause")
				return x
			}
			pre = append(pre, &ast.AssignStmt{Lhs: []ast.Expr{id(name)}, Tok: token.DEFINE, Rhs: []ast.Expr{mk}})
			args = append(args, id(name))
			clause.List = []ast.Expr{&ast.BasicLit{Kind: token.INT, Value: strconv.Itoa(idx)}}
			idx++
		}
		r.stmts(cc.Body)
		clause.Body = append(body, cc.Body...)
		sw.Body.List = append(sw.Body.List, clause)
	}
	// keep Go's terminating-statement analysis intact
	sw.Body.List = append(sw.Body.List, &ast.CaseClause{Body: []ast.Stmt{
		&ast.ExprStmt{X: call(id("panic"), &ast.BasicLit{Kind: token.STRING, Value: strconv.Quote("vs: impossible select result")})},
	}})
	sw.Tag = call(sel("vs", "Select"), append([]ast.Expr{id(hasDefault)}, args...)...)
	var swStmt ast.Stmt = sw
	if label != nil {
		swStmt = &ast.LabeledStmt{Label: label, Stmt: sw}
	}
	return &ast.BlockStmt{List: append(pre, swStmt)}
}

func (r *rewriter) goStmt(x *ast.GoStmt) ast.Stmt {
	r.usedVS = true
	c := x.Call
	// go func() {...}()
	if fl, ok := c.Fun.(*ast.FuncLit); ok && len(c.Args) == 0 && (fl.Type.Params == nil || len(fl.Type.Params.List) == 0) {
		r.rw(fl.Body)
		return &ast.ExprStmt{X: call(sel("vs", "Go"), fl)}
	}
	var pre []ast.Stmt
	fun := c.Fun
	switch f := fun.(type) {
	case *ast.Ident:
	case *ast.SelectorExpr:
		// receiver / package: must be a plain identifier chain, captured by reference
		e := f.X
		for {
			if s, ok := e.(*ast.SelectorExpr); ok {
				e = s.X
				continue
			}
			break
		}
		if _, ok := e.(*ast.Ident); !ok {
			r.fail(x, "go statement with a computed receiver")
			return x
		}
	case *ast.FuncLit:
		r.rw(f.Body)
		r.counter++
		name := fmt.Sprintf("_vsf%d", r.counter)
		pre = append(pre, &ast.AssignStmt{Lhs: []ast.Expr{id(name)}, Tok: token.DEFINE, Rhs: []ast.Expr{f}})
		fun = id(name)
	default:
		r.fail(x, "go statement with a computed function value")
		return x
	}
	var args []ast.Expr
	for _, a := range c.Args {
		r.counter++
		name := fmt.Sprintf("_vsa%d", r.counter)
		pre = append(pre, &ast.AssignStmt{Lhs: []ast.Expr{id(name)}, Tok: token.DEFINE, Rhs: []ast.Expr{r.expr(a)}})
		args = append(args, id(name))
	}
	nc := &ast.CallExpr{Fun: fun, Args: args, Ellipsis: c.Ellipsis}
	lit := &ast.FuncLit{Type: &ast.FuncType{Params: &ast.FieldList{}}, Body: &ast.BlockStmt{List: []ast.Stmt{&ast.ExprStmt{X: nc}}}}
	return &ast.BlockStmt{List: append(pre, &ast.ExprStmt{X: call(sel("vs", "Go"), lit)})}
}

func (r *rewriter) rw(n ast.Node) ast.Node {
	switch x := n.(type) {
	case *ast.GoStmt:
		return r.goStmt(x)
	case *ast.SendStmt:
		r.usedVS = true
		return &ast.ExprStmt{X: call(sel("vs", "Send"), r.expr(x.Chan), r.expr(x.Value))}
	case *ast.UnaryExpr:
		if x.Op == token.ARROW {
			r.usedVS = true
			return call(sel("vs", "Recv"), r.expr(x.X))
		}
		x.X = r.expr(x.X)
		return x
	case *ast.CallExpr:
		if fn, ok := x.Fun.(*ast.Ident); ok && fn.Name == "close" && len(x.Args) == 1 {
			r.usedVS = true
			return call(sel("vs", "Close"), r.expr(x.Args[0]))
		}
		if s, ok := x.Fun.(*ast.SelectorExpr); ok {
			if p, ok := s.X.(*ast.Ident); ok && p.Name == "runtime" && s.Sel.Name == "SetFinalizer" {
				r.usedVS = true
				x.Fun = sel("vs", "SetFinalizer")
			}
		}
		x.Fun = r.expr(x.Fun)
		for i := range x.Args {
			x.Args[i] = r.expr(x.Args[i])
		}
		return x
	case *ast.SelectStmt:
		return r.selectStmt(x, nil)
	case *ast.BlockStmt:
		if x != nil {
			r.stmts(x.List)
		}
		return x
	case *ast.ExprStmt:
		x.X = r.expr(x.X)
		return x
	case *ast.AssignStmt:
		if len(x.Lhs) == 2 && len(x.Rhs) == 1 {
			if u, ok := isRecv(x.Rhs[0]); ok {
				r.usedVS = true
				x.Rhs[0] = call(sel("vs", "Recv2"), r.expr(u.X))
				for i := range x.Lhs {
					x.Lhs[i] = r.expr(x.Lhs[i])
				}
				return x
			}
		}
		for i := range x.Lhs {
			x.Lhs[i] = r.expr(x.Lhs[i])
		}
		for i := range x.Rhs {
			x.Rhs[i] = r.expr(x.Rhs[i])
		}
		return x
	case *ast.ReturnStmt:
		for i := range x.Results {
			x.Results[i] = r.expr(x.Results[i])
		}
		return x
	case *ast.IfStmt:
		if x.Init != nil {
			x.Init = r.rw(x.Init).(ast.Stmt)
		}
		x.Cond = r.expr(x.Cond)
		r.rw(x.Body)
		if x.Else != nil {
			x.Else = r.rw(x.Else).(ast.Stmt)
		}
		return x
	case *ast.ForStmt:
		if x.Init != nil {
			x.Init = r.rw(x.Init).(ast.Stmt)
		}
		if x.Cond != nil {
			x.Cond = r.expr(x.Cond)
		}
		if x.Post != nil {
			x.Post = r.rw(x.Post).(ast.Stmt)
		}
		r.rw(x.Body)
		return x
	case *ast.RangeStmt:
		// without type information a range over a channel is recognised
		// syntactically (rangesOverChan); one that is missed blocks natively and
		// is caught by the scheduler watchdog (engine error, never a verdict)
		if x.Value == nil && r.rangesOverChan(x.X) {
			return r.rangeChan(x)
		}
		x.X = r.expr(x.X)
		r.rw(x.Body)
		return x
	case *ast.SwitchStmt:
		if x.Init != nil {
			x.Init = r.rw(x.Init).(ast.Stmt)
		}
		if x.Tag != nil {
			x.Tag = r.expr(x.Tag)
		}
		r.rw(x.Body)
		return x
	case *ast.TypeSwitchStmt:
		if x.Init != nil {
			x.Init = r.rw(x.Init).(ast.Stmt)
		}
		x.Assign = r.rw(x.Assign).(ast.Stmt)
		r.rw(x.Body)
		return x
	case *ast.CaseClause:
		for i := range x.List {
			x.List[i] = r.expr(x.List[i])
		}
		r.stmts(x.Body)
		return x
	case *ast.DeferStmt:
		x.Call = r.expr(x.Call).(*ast.CallExpr)
		return x
	case *ast.LabeledStmt:
		if s, ok := x.Stmt.(*ast.SelectStmt); ok {
			return r.selectStmt(s, x.Label)
		}
		if s, ok := x.Stmt.(*ast.RangeStmt); ok && s.Value == nil && r.rangesOverChan(s.X) {
			x.Stmt = r.rangeChan(s)
			return x
		}
		x.Stmt = r.rw(x.Stmt).(ast.Stmt)
		return x
	case *ast.IncDecStmt:
		x.X = r.expr(x.X)
		return x
	case *ast.DeclStmt:
		if gd, ok := x.Decl.(*ast.GenDecl); ok {
			for _, sp := range gd.Specs {
				if vsp, ok := sp.(*ast.ValueSpec); ok {
					if len(vsp.Names) == 2 && len(vsp.Values) == 1 {
						if u, ok := isRecv(vsp.Values[0]); ok {
							r.usedVS = true
							vsp.Values[0] = call(sel("vs", "Recv2"), r.expr(u.X))
							continue
						}
					}
					for i := range vsp.Values {
						vsp.Values[i] = r.expr(vsp.Values[i])
					}
				}
			}
		}
		return x
	case *ast.FuncLit:
		r.rw(x.Body)
		return x
	case *ast.ParenExpr:
		x.X = r.expr(x.X)
		return x
	case *ast.BinaryExpr:
		x.X = r.expr(x.X)
		x.Y = r.expr(x.Y)
		return x
	case *ast.SelectorExpr:
		x.X = r.expr(x.X)
		return x
	case *ast.IndexExpr:
		x.X = r.expr(x.X)
		x.Index = r.expr(x.Index)
		return x
	case *ast.SliceExpr:
		x.X = r.expr(x.X)
		x.Low = r.expr(x.Low)
		x.High = r.expr(x.High)
		x.Max = r.expr(x.Max)
		return x
	case *ast.StarExpr:
		x.X = r.expr(x.X)
		return x
	case *ast.TypeAssertExpr:
		x.X = r.expr(x.X)
		return x
	case *ast.KeyValueExpr:
		x.Key = r.expr(x.Key)
		x.Value = r.expr(x.Value)
		return x
	case *ast.CompositeLit:
		for i := range x.Elts {
			x.Elts[i] = r.expr(x.Elts[i])
		}
		return x
	}
	return n
}
