// Package vctx replaces "context" in the instrumented build. Under the
// scheduler, contexts are real context.Context values whose Done channel and
// deadline timer the shim owns (virtual time); otherwise the real package is used.
package vctx

import (
	"context"
	"time"
	"unsafe"

	"verif/engine/vs"
)

type Context = context.Context
type CancelFunc = context.CancelFunc

var Canceled = context.Canceled
var DeadlineExceeded = context.DeadlineExceeded

func Background() Context { return context.Background() }
func TODO() Context       { return context.TODO() }

func WithValue(parent Context, key, val interface{}) Context {
	if vs.W == nil {
		return context.WithValue(parent, key, val)
	}
	return &valueCtx{parent, key, val}
}

type valueCtx struct {
	Context
	key, val interface{}
}

func (c *valueCtx) Value(k interface{}) interface{} {
	if k == c.key {
		return c.val
	}
	return c.Context.Value(k)
}

// Epoch is virtual time zero.
var Epoch = time.Unix(1_700_000_000, 0)

type vc struct {
	parent   Context
	done     chan struct{}
	err      error
	deadline time.Time
	hasDL    bool
	children []*vc
	tm       vs.TimerHandle
}

func (c *vc) Deadline() (time.Time, bool) {
	if c.hasDL {
		return c.deadline, true
	}
	return c.parent.Deadline()
}
func (c *vc) Done() <-chan struct{}           { return c.done }
func (c *vc) Err() error                      { return c.err }
func (c *vc) Value(k interface{}) interface{} { return c.parent.Value(k) }

// cancel closes the Done channel of c and its descendants. It runs inside an
// operation's Fire or inside a timer callback.
func (c *vc) cancel(w *vs.World, err error) {
	if c.err != nil {
		return
	}
	c.err = err
	vs.CloseNoPoint(w, c.done)
	c.tm.Stop()
	for _, ch := range c.children {
		ch.cancel(w, err)
	}
}

func (c *vc) doneObjs(out []unsafe.Pointer) []unsafe.Pointer {
	if c.err != nil {
		return out
	}
	out = append(out, vs.ChanObj(c.done))
	for _, ch := range c.children {
		out = ch.doneObjs(out)
	}
	return out
}

func findVC(parent Context) *vc {
	for {
		switch p := parent.(type) {
		case *vc:
			return p
		case *valueCtx:
			parent = p.Context
		default:
			return nil
		}
	}
}

func newChild(parent Context) *vc {
	c := &vc{parent: parent, done: make(chan struct{})}
	if p := findVC(parent); p != nil {
		if p.err != nil {
			c.err = p.err
			vs.CloseNoPoint(vs.W, c.done)
		} else {
			p.children = append(p.children, c)
		}
	} else if parent.Done() != nil {
		panic("vctx: foreign cancellable parent context under the scheduler")
	}
	return c
}

func (c *vc) cancelFunc() CancelFunc {
	return func() {
		w := vs.W
		if w == nil {
			return
		}
		if c.err != nil {
			return // already cancelled: a second cancel is not a visible operation
		}
		vs.Point(&vs.Op{Desc: "ctx.cancel", Ready: func() []int { return []int{0} }, Fire: func(int) {
			c.cancel(w, Canceled)
		}, Objs: func(int) ([]unsafe.Pointer, []unsafe.Pointer, *vs.Task) {
			return nil, c.doneObjs(nil), nil
		}})
	}
}

func WithCancel(parent Context) (Context, CancelFunc) {
	if vs.W == nil {
		return context.WithCancel(parent)
	}
	c := newChild(parent)
	return c, c.cancelFunc()
}

func WithDeadline(parent Context, d time.Time) (Context, CancelFunc) {
	if vs.W == nil {
		return context.WithDeadline(parent, d)
	}
	return withTimeout(parent, d.Sub(Epoch.Add(time.Duration(vs.W.Now))))
}

func WithTimeout(parent Context, d time.Duration) (Context, CancelFunc) {
	if vs.W == nil {
		return context.WithTimeout(parent, d)
	}
	return withTimeout(parent, d)
}

func withTimeout(parent Context, d time.Duration) (Context, CancelFunc) {
	w := vs.W
	c := newChild(parent)
	dl := Epoch.Add(time.Duration(w.Now) + d)
	if pd, ok := parent.Deadline(); ok && pd.Before(dl) {
		// the parent's deadline governs
		c.hasDL = false
		return c, c.cancelFunc()
	}
	c.hasDL = true
	c.deadline = dl
	if c.err == nil {
		c.tm = w.AddTimer(int64(d), func() {
			for _, o := range c.doneObjs(nil) {
				w.ClockTouch(o)
			}
			c.cancel(w, DeadlineExceeded)
		})
	}
	return c, c.cancelFunc()
}

// CancelNow cancels ctx (created by this package under the scheduler) without
// parking. It must be called from inside an operation's Fire, so that harness
// code can observe the state of other tasks atomically with the cancellation.
func CancelNow(ctx Context) {
	if c := findVC(ctx); c != nil && vs.W != nil {
		c.cancel(vs.W, Canceled)
	}
}

// DoneObjs returns the happens-before objects a cancellation of ctx writes.
func DoneObjs(ctx Context) []unsafe.Pointer {
	if c := findVC(ctx); c != nil {
		return c.doneObjs(nil)
	}
	return nil
}
