// Package vctx replaces "context" in the instrumented build. Under the
// scheduler, contexts are real context.Context values whose Done channel and
// deadline timer the shim owns (virtual time); otherwise the real package is used.
package vctx

import (
	"context"
	"time"
	"unsafe"

	"verif/engine/vs"
)

type Context = context.Context
type CancelFunc = context.CancelFunc
type CancelCauseFunc = context.CancelCauseFunc

var Canceled = context.Canceled
var DeadlineExceeded = context.DeadlineExceeded

func Background() Context { return context.Background() }
func TODO() Context       { return context.TODO() }

func WithValue(parent Context, key, val interface{}) Context {
	if vs.W == nil {
		return context.WithValue(parent, key, val)
	}
	return &valueCtx{parent, key, val}
}

type valueCtx struct {
	Context
	key, val interface{}
}

func (c *valueCtx) Value(k interface{}) interface{} {
	if k == c.key {
		return c.val
	}
	return c.Context.Value(k)
}

// Epoch is virtual time zero.
var Epoch = time.Unix(1_700_000_000, 0)

type vc struct {
	parent   Context
	done     chan struct{}
	err      error
	deadline time.Time
	hasDL    bool
	children []*vc
	tm       vs.TimerHandle
	cause    error
	after    []*afterReg
}

// afterReg is one context.AfterFunc registration.
type afterReg struct {
	f     func()
	path  uint64
	state int // 0 pending, 1 started, 2 stopped
}

func (c *vc) Deadline() (time.Time, bool) {
	if c.hasDL {
		return c.deadline, true
	}
	return c.parent.Deadline()
}
func (c *vc) Done() <-chan struct{}           { return c.done }
func (c *vc) Err() error                      { return c.err }
func (c *vc) Value(k interface{}) interface{} { return c.parent.Value(k) }

// cancel closes the Done channel of c and its descendants. It runs inside an
// operation's Fire or inside a timer callback.
func (c *vc) cancel(w *vs.World, err error) {
	if c.err != nil {
		return
	}
	c.err = err
	if c.cause == nil {
		c.cause = err
	}
	vs.CloseNoPoint(w, c.done)
	c.tm.Stop()
	for _, a := range c.after {
		if a.state == 0 {
			a.state = 1
			startAfter(w, a)
		}
	}
	c.after = nil
	for _, ch := range c.children {
		if ch.cause == nil {
			ch.cause = c.cause
		}
		ch.cancel(w, err)
	}
}

// startAfter runs an AfterFunc callback in its own (library) task.
func startAfter(w *vs.World, a *afterReg) {
	if w.InClock() {
		w.ClockGo("ctx-afterfunc", true, a.path, a.f)
		return
	}
	vs.Go(a.f)
}

func (c *vc) doneObjs(out []unsafe.Pointer) []unsafe.Pointer {
	if c.err != nil {
		return out
	}
	out = append(out, vs.ChanObj(c.done))
	for _, ch := range c.children {
		out = ch.doneObjs(out)
	}
	return out
}

func findVC(parent Context) *vc {
	for {
		switch p := parent.(type) {
		case *vc:
			return p
		case *valueCtx:
			parent = p.Context
		default:
			return nil
		}
	}
}

func newChild(parent Context) *vc {
	c := &vc{parent: parent, done: make(chan struct{})}
	if p := findVC(parent); p != nil {
		if p.err != nil {
			c.err = p.err
			c.cause = p.cause
			vs.CloseNoPoint(vs.W, c.done)
		} else {
			p.children = append(p.children, c)
		}
	} else if parent.Done() != nil {
		panic("vctx: foreign cancellable parent context under the scheduler")
	}
	return c
}

func (c *vc) cancelFunc() CancelFunc {
	return func() {
		w := vs.W
		if w == nil {
			return
		}
		if c.err != nil {
			return // already cancelled: a second cancel is not a visible operation
		}
		vs.Point(&vs.Op{Desc: "ctx.cancel", Ready: func() []int { return []int{0} }, Fire: func(int) {
			c.cancel(w, Canceled)
		}, Objs: func(int) ([]unsafe.Pointer, []unsafe.Pointer, *vs.Task) {
			return nil, c.doneObjs(nil), nil
		}})
	}
}

func WithCancel(parent Context) (Context, CancelFunc) {
	if vs.W == nil {
		return context.WithCancel(parent)
	}
	c := newChild(parent)
	return c, c.cancelFunc()
}

func WithDeadline(parent Context, d time.Time) (Context, CancelFunc) {
	if vs.W == nil {
		return context.WithDeadline(parent, d)
	}
	return withTimeout(parent, d.Sub(Epoch.Add(time.Duration(vs.W.Now))))
}

func WithTimeout(parent Context, d time.Duration) (Context, CancelFunc) {
	if vs.W == nil {
		return context.WithTimeout(parent, d)
	}
	return withTimeout(parent, d)
}

func withTimeout(parent Context, d time.Duration) (Context, CancelFunc) {
	w := vs.W
	c := newChild(parent)
	dl := Epoch.Add(time.Duration(w.Now) + d)
	if pd, ok := parent.Deadline(); ok && pd.Before(dl) {
		// the parent's deadline governs
		c.hasDL = false
		return c, c.cancelFunc()
	}
	c.hasDL = true
	c.deadline = dl
	if c.err == nil {
		c.tm = w.AddTimer(int64(d), func() {
			for _, o := range c.doneObjs(nil) {
				w.ClockTouch(o)
			}
			c.cancel(w, DeadlineExceeded)
		})
	}
	return c, c.cancelFunc()
}

// CancelNow cancels ctx (created by this package under the scheduler) without
// parking. It must be called from inside an operation's Fire, so that harness
// code can observe the state of other tasks atomically with the cancellation.
func CancelNow(ctx Context) {
	if c := findVC(ctx); c != nil && vs.W != nil {
		c.cancel(vs.W, Canceled)
	}
}

// DoneObjs returns the happens-before objects a cancellation of ctx writes.
func DoneObjs(ctx Context) []unsafe.Pointer {
	if c := findVC(ctx); c != nil {
		return c.doneObjs(nil)
	}
	return nil
}

// ---- Go 1.20/1.21 additions

func (c *vc) cancelCauseFunc() CancelCauseFunc {
	return func(cause error) {
		w := vs.W
		if w == nil || c.err != nil {
			return
		}
		vs.Point(&vs.Op{Desc: "ctx.cancel", Ready: func() []int { return []int{0} }, Fire: func(int) {
			if c.err == nil {
				c.cause = cause
			}
			c.cancel(w, Canceled)
		}, Objs: func(int) ([]unsafe.Pointer, []unsafe.Pointer, *vs.Task) {
			return nil, c.doneObjs(nil), nil
		}})
	}
}

func WithCancelCause(parent Context) (Context, CancelCauseFunc) {
	if vs.W == nil {
		return context.WithCancelCause(parent)
	}
	c := newChild(parent)
	return c, c.cancelCauseFunc()
}

// Cause mirrors context.Cause.
func Cause(ctx Context) error {
	if vs.W == nil {
		return context.Cause(ctx)
	}
	if c := findVC(ctx); c != nil {
		if c.err == nil {
			return nil
		}
		if c.cause != nil {
			return c.cause
		}
		return c.err
	}
	return ctx.Err()
}

func WithDeadlineCause(parent Context, d time.Time, cause error) (Context, CancelFunc) {
	if vs.W == nil {
		return context.WithDeadlineCause(parent, d, cause)
	}
	return withTimeoutCause(parent, d.Sub(Epoch.Add(time.Duration(vs.W.Now))), cause)
}

func WithTimeoutCause(parent Context, d time.Duration, cause error) (Context, CancelFunc) {
	if vs.W == nil {
		return context.WithTimeoutCause(parent, d, cause)
	}
	return withTimeoutCause(parent, d, cause)
}

func withTimeoutCause(parent Context, d time.Duration, cause error) (Context, CancelFunc) {
	w := vs.W
	ctx, cancel := withTimeout(parent, d)
	c := ctx.(*vc)
	if c.hasDL && c.err == nil && c.tm.Valid() {
		// re-arm with a callback that records the cause
		c.tm.Stop()
		c.tm = w.AddTimer(int64(d), func() {
			for _, o := range c.doneObjs(nil) {
				w.ClockTouch(o)
			}
			if c.err == nil {
				c.cause = cause
			}
			c.cancel(w, DeadlineExceeded)
		})
	}
	return ctx, cancel
}

type withoutCancelCtx struct{ parent Context }

func (withoutCancelCtx) Deadline() (time.Time, bool)       { return time.Time{}, false }
func (withoutCancelCtx) Done() <-chan struct{}             { return nil }
func (withoutCancelCtx) Err() error                        { return nil }
func (c withoutCancelCtx) Value(k interface{}) interface{} { return c.parent.Value(k) }

func WithoutCancel(parent Context) Context {
	if vs.W == nil {
		return context.WithoutCancel(parent)
	}
	return withoutCancelCtx{parent}
}

// AfterFunc mirrors context.AfterFunc: f runs in its own goroutine (a library
// task under the scheduler) once ctx is done; stop is a visible operation,
// because its result races with the cancellation.
func AfterFunc(ctx Context, f func()) (stop func() bool) {
	w := vs.W
	if w == nil {
		return context.AfterFunc(ctx, f)
	}
	c := findVC(ctx)
	if c == nil {
		// never cancelled
		stopped := false
		return func() bool {
			was := !stopped
			stopped = true
			return was
		}
	}
	a := &afterReg{f: f, path: w.FreshPath()}
	if c.err != nil {
		a.state = 1
		startAfter(w, a)
	} else {
		c.after = append(c.after, a)
	}
	return func() (was bool) {
		if vs.W == nil {
			return false
		}
		vs.Point(&vs.Op{Desc: "ctx.afterfunc.stop", Ready: func() []int { return []int{0} }, Fire: func(int) {
			was = a.state == 0
			if was {
				a.state = 2
			}
		}, Objs: func(int) ([]unsafe.Pointer, []unsafe.Pointer, *vs.Task) {
			return nil, c.doneObjs(nil), nil
		}})
		return
	}
}
