// Package vmrand replaces "math/rand" in the instrumented build (should a
// changed tree start to use it): the package-level generator is re-seeded with
// a constant before every execution under the scheduler, so data drawn from it
// is reproducible on replay; explicitly constructed generators are the real ones.
package vmrand

import (
	"math/rand"
	"sync"

	"verif/engine/vs"
)

type Rand = rand.Rand
type Source = rand.Source
type Source64 = rand.Source64
type Zipf = rand.Zipf

var (
	New       = rand.New
	NewSource = rand.NewSource
	NewZipf   = rand.NewZipf
)

var (
	mu  sync.Mutex
	det = rand.New(rand.NewSource(1))
)

func init() {
	vs.RegisterReset(func() { det = rand.New(rand.NewSource(1)) })
}

func g() *rand.Rand { return det }

func lock() func() {
	if vs.W != nil {
		return func() {}
	}
	mu.Lock()
	return mu.Unlock
}

func Seed(seed int64) { defer lock()(); g().Seed(seed) }

func ExpFloat64() float64             { defer lock()(); return g().ExpFloat64() }
func Float32() float32                { defer lock()(); return g().Float32() }
func Float64() float64                { defer lock()(); return g().Float64() }
func Int() int                        { defer lock()(); return g().Int() }
func Int31() int32                    { defer lock()(); return g().Int31() }
func Int31n(n int32) int32            { defer lock()(); return g().Int31n(n) }
func Int63() int64                    { defer lock()(); return g().Int63() }
func Int63n(n int64) int64            { defer lock()(); return g().Int63n(n) }
func Intn(n int) int                  { defer lock()(); return g().Intn(n) }
func NormFloat64() float64            { defer lock()(); return g().NormFloat64() }
func Perm(n int) []int                { defer lock()(); return g().Perm(n) }
func Read(p []byte) (int, error)      { defer lock()(); return g().Read(p) }
func Shuffle(n int, f func(i, j int)) { defer lock()(); g().Shuffle(n, f) }
func Uint32() uint32                  { defer lock()(); return g().Uint32() }
func Uint64() uint64                  { defer lock()(); return g().Uint64() }
