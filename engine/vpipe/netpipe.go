package vpipe

import (
	"net"
	"os"
	"time"

	"verif/engine/vtime"
)

// NetPipe is a Pipe that is also a net.Conn: it has deadlines of its own (virtual
// time), the way a TCP connection under the library has. A Write that starts after its
// write deadline has passed fails with os.ErrDeadlineExceeded, as net.Conn documents; a
// deadline stays in force until it is changed. The library does not use transport
// deadlines today; a library that does has to clear them again.
type NetPipe struct {
	*Pipe
	rdl, wdl time.Time
}

func NewNet() *NetPipe { return &NetPipe{Pipe: New()} }

type pipeAddr struct{}

func (pipeAddr) Network() string { return "vpipe" }
func (pipeAddr) String() string  { return "vpipe" }

func (p *NetPipe) LocalAddr() net.Addr  { return pipeAddr{} }
func (p *NetPipe) RemoteAddr() net.Addr { return pipeAddr{} }

func (p *NetPipe) SetDeadline(t time.Time) error {
	p.rdl, p.wdl = t, t
	return nil
}
func (p *NetPipe) SetReadDeadline(t time.Time) error  { p.rdl = t; return nil }
func (p *NetPipe) SetWriteDeadline(t time.Time) error { p.wdl = t; return nil }

func (p *NetPipe) Write(b []byte) (int, error) {
	if !p.wdl.IsZero() && !vtime.Now().Before(p.wdl) {
		return 0, os.ErrDeadlineExceeded
	}
	return p.Pipe.Write(b)
}

func (p *NetPipe) Read(b []byte) (int, error) {
	if !p.rdl.IsZero() && !vtime.Now().Before(p.rdl) {
		return 0, os.ErrDeadlineExceeded
	}
	return p.Pipe.Read(b)
}
